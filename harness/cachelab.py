"""
Adapters that drive the five real basis-cache modules with the operations of the Lean cache machine
(lean/PyAbel/Model/Cache.lean) and observe: outcome class, memory key, directory listing, returned operator.
Used by C07 (histories) and C08 (faults).
"""
import glob
import importlib
import os
import re
import warnings

import numpy as np

from harness.methods import quiet

GARBAGE = b"this is not a numpy file\n" * 3


def _state_of(path):
    try:
        with warnings.catch_warnings():
            warnings.simplefilter("ignore")
            np.load(path)
        return 0
    except ValueError:
        return 1
    except Exception:
        return 2


class Adapter:
    name = ""
    module = ""

    def mod(self):
        return importlib.import_module(self.module)

    def cache_cleanup(self):
        self.mod().cache_cleanup()

    def dir_cleanup(self, d):
        import abel
        for m in self.cleanup_methods:
            abel.transform.basis_dir_cleanup(d, method=m)

    def path(self, d, key):
        return os.path.join(d, self.fname(key))

    def damage(self, d, key, st):
        p = self.path(d, key)
        if not os.path.exists(p):
            return
        if st == 0:
            np.save(p, self.file_content(key))
        elif st == 1:
            open(p, "wb").write(GARBAGE)          # np.load → ValueError (pickled data not allowed)
        else:
            open(p, "wb").close()                 # empty file (interrupted save) → EOFError

    def remove(self, d, key):
        p = self.path(d, key)
        if os.path.exists(p):
            os.remove(p)

    def listing(self, d):
        out = []
        for p in sorted(glob.glob(os.path.join(d, "*.npy"))):
            k = self.parse(os.path.basename(p))
            if k is not None:
                out.append((k, _state_of(p)))
        return sorted(out)

    def call(self, key, d):
        try:
            res = quiet(self._call, key, d)
            return "ok", res
        except Exception as e:
            return "raised", e


class Dasch(Adapter):
    name, module = "dasch", "abel.dasch"
    methods = ["two_point", "three_point", "onion_peeling"]
    cleanup_methods = methods
    lattice = [(m, c) for m in range(3) for c in (6, 9, 14)]

    def fname(self, key):
        return f"{self.methods[key[0]]}_basis_{key[1]}.npy"

    def parse(self, f):
        m = re.fullmatch(r"(two_point|three_point|onion_peeling)_basis_(\d+)\.npy", f)
        return (self.methods.index(m.group(1)), int(m.group(2))) if m else None

    def _call(self, key, d):
        return np.array(self.mod().get_bs_cached(self.methods[key[0]], key[1], basis_dir=d))

    def fresh(self, key):
        return quiet(getattr(self.mod(), "_bs_" + self.methods[key[0]]), key[1])

    file_content = fresh

    def mem_key(self):
        m = self.mod()
        return None if m._D is None else (self.methods.index(m._method), m._D.shape[0])


class Daun(Adapter):
    name, module = "daun", "abel.daun"
    cleanup_methods = ["daun"]
    lattice = [(n, d) for n in (7, 10, 15) for d in (0, 1, 2, 3)]

    def fname(self, key):
        return f"daun_basis_{key[0]}_{key[1]}.npy"

    def parse(self, f):
        m = re.fullmatch(r"daun_basis_(\d+)_(\d+)\.npy", f)
        return (int(m.group(1)), int(m.group(2))) if m else None

    def _call(self, key, d):
        return np.array(self.mod().get_bs_cached(key[0], key[1], None, 0, "forward", d, False))

    def fresh(self, key):
        return quiet(self.mod()._bs_daun, key[0], key[1])

    file_content = fresh

    def mem_key(self):
        m = self.mod()
        return None if m._bs is None else tuple(m._bs_prm)


class Basex(Adapter):
    name, module = "basex", "abel.basex"
    cleanup_methods = ["basex"]
    sigmas = [0.7, 1.0, 1.5]
    lattice = [(n, s) for n in (8, 11, 16) for s in range(3)]

    def fname(self, key):
        return f"basex_basis_{key[0]}_{self.sigmas[key[1]]}.npy"

    def parse(self, f):
        m = re.fullmatch(r"basex_basis_(\d+)_([0-9.]+)\.npy", f)
        if not m or float(m.group(2)) not in self.sigmas:
            return None
        return (int(m.group(1)), self.sigmas.index(float(m.group(2))))

    def _call(self, key, d):
        m = self.mod()
        m.get_bs_cached(key[0], self.sigmas[key[1]], reg=0.0, correction=False, basis_dir=d, dr=1.0, verbose=False,
                        direction="forward")
        return np.array(m._bs[0]), np.array(m._bs[1])

    def fresh(self, key):
        return quiet(self.mod()._bs_basex, key[0], self.sigmas[key[1]], None, verbose=False)

    def file_content(self, key):
        return np.array(self.fresh(key))

    def mem_key(self):
        m = self.mod()
        return None if m._bs_prm is None else (m._bs_prm[0], self.sigmas.index(m._bs_prm[1]))


class Linbasex(Adapter):
    name, module = "linbasex", "abel.linbasex"
    cleanup_methods = ["linbasex"]
    orders = [[0, 2], [0, 2, 4], [0, 24], [0, 1, 2]]
    angles = [[0, np.pi / 2], [0, 0.01, np.pi / 2], [0, 0.02, np.pi / 2], [0, 0.9553166, np.pi / 2]]
    # (cols, order label, angle label, radial_step, clip); the first combination is the default-shaped basis, the only
    # kind the memory tier serves
    lattice = [(c,) + k for c in (9, 13) for k in ((0, 0, 1, 0), (1, 0, 1, 0), (0, 1, 1, 0), (0, 2, 1, 0), (2, 0, 1, 0),
                                                    (0, 0, 2, 0), (0, 0, 1, 1), (3, 3, 1, 0))]

    def _names(self, key):
        los = ",".join(map(str, self.orders[key[1]]))
        pas = ",".join(repr(float(a)) for a in self.angles[key[2]])
        return los, pas

    def fname(self, key):
        los, pas = self._names(key)
        return f"linbasex_basis_{key[0]}_{los}_{pas}_{key[3]}_{key[4]}.npy"

    def parse(self, f):
        m = re.fullmatch(r"linbasex_basis_(\d+)_([^_]*)_([^_]*)_(\d+)_(\d+)\.npy", f)
        if not m:
            return None
        for o in range(4):
            for a in range(4):
                k = (int(m.group(1)), o, a, int(m.group(4)), int(m.group(5)))
                if self._names(k) == (m.group(2), m.group(3)):
                    return k
        return ("?", f)

    def _call(self, key, d):
        return np.array(self.mod().get_bs_cached(key[0], basis_dir=d, legendre_orders=self.orders[key[1]],
                                                 proj_angles=self.angles[key[2]], radial_step=key[3], clip=key[4]))

    def fresh(self, key):
        return quiet(self.mod()._bs_linbasex, key[0], proj_angles=self.angles[key[2]], legendre_orders=self.orders[key[1]],
                     radial_step=key[3], clip=key[4])

    file_content = fresh

    def mem_key(self):
        m = self.mod()
        if m._basis is None:
            return None
        for k in self.lattice:
            if self._names(k) == (m._los, m._pas) and k[3] == m._radial_step and k[4] == m._clip:
                return ("*",) + k[1:]
        return ("?", m._los, m._pas)


class Rbasex(Adapter):
    name, module = "rbasex", "abel.rbasex"
    cleanup_methods = ["rbasex"]
    lattice = [(R, o, odd, inv) for R in (6, 9) for (o, odd) in ((0, 0), (2, 0), (4, 0), (1, 1), (2, 1), (3, 1)) for inv in (0, 1)]

    def fname(self, key):
        return "rbasex_basis_{}_{}{}{}.npy".format(key[0], key[1], "o" if key[2] else "", "i" if key[3] else "")

    def parse(self, f):
        m = re.fullmatch(r"rbasex_basis_(\d+)_(\d+)(o?)(i?)\.npy", f)
        return (int(m.group(1)), int(m.group(2)), int(bool(m.group(3))), int(bool(m.group(4)))) if m else None

    def _call(self, key, d):
        m = self.mod()
        A = m.get_bs_cached(key[0], key[1], bool(key[2]), "inverse" if key[3] else "forward", None, None, d, False)
        return [np.array(a) for a in A]

    def fresh(self, key):
        from scipy.linalg import solve_triangular
        bs = quiet(self.mod()._bs_rbasex, key[0], key[1], bool(key[2]))
        if key[3]:
            return [solve_triangular(P, np.eye(key[0] + 1), lower=True).T for P in bs]
        return [P.T for P in bs]

    def file_content(self, key):
        m = self.mod()
        bs = quiet(m._bs_rbasex, key[0], key[1], bool(key[2]))
        import tempfile
        with tempfile.TemporaryDirectory() as t:
            tri = self.fresh(key) if key[3] else None
            m._save_bs(t, key[0], key[1], bool(key[2]), bs, tri)
            return np.load(os.path.join(t, self.fname(key)))

    def mem_key(self):
        m = self.mod()
        return None if (m._bs is None or m._bs_prm is None) else (m._bs_prm[0], m._bs_prm[1], int(m._bs_prm[2]))


ADAPTERS = [Dasch(), Daun(), Basex(), Linbasex(), Rbasex()]


def fmt_key(k, ad=None):
    if ad is not None and ad.name == "linbasex":      # (cols, order label, #orders, angle label, #angles, step, clip)
        k = (k[0], k[1], len(ad.orders[k[1]]), k[2], len(ad.angles[k[2]]), k[3], k[4])
    return ",".join(str(int(v)) for v in k)


def model_line(ad, ops):
    toks = []
    for op in ops:
        if op[0] == "call":
            toks.append(f"c {fmt_key(op[1], ad)} {int(op[2])}")
        elif op[0] == "cleanup":
            toks.append("x")
        elif op[0] == "dircleanup":
            toks.append("D")
        elif op[0] == "damage":
            toks.append(f"g {fmt_key(op[1], ad)} {op[2]}")
        elif op[0] == "remove":
            toks.append(f"r {fmt_key(op[1], ad)}")
    return f"cache {ad.name} " + " / ".join(toks)


def same_result(a, b, tol=1e-12):
    if isinstance(a, (list, tuple)):
        return len(a) == len(b) and all(same_result(x, y, tol) for x, y in zip(a, b))
    a, b = np.asarray(a), np.asarray(b)
    return a.shape == b.shape and bool(np.abs(a - b).max() <= tol * max(1.0, np.abs(b).max()))


def run_real(ad, ops, d):
    """execute a history on the real module; returns per-op observations"""
    ad.cache_cleanup()
    for f in glob.glob(os.path.join(d, "*")):
        os.remove(f)
    obs = []
    for op in ops:
        out, res = "-", None
        if op[0] == "call":
            out, res = ad.call(op[1], d if op[2] else None)
        elif op[0] == "cleanup":
            ad.cache_cleanup()
        elif op[0] == "dircleanup":
            ad.dir_cleanup(d)
        elif op[0] == "damage":
            ad.damage(d, op[1], op[2])
        elif op[0] == "remove":
            ad.remove(d, op[1])
        obs.append(dict(out=out, res=res, mem=ad.mem_key(), files=ad.listing(d)))
    return obs


def parse_model(reply, ad):
    """'ok o|m:k|f:…' groups → list of dict(out, mem, files)"""
    toks = reply.split()
    assert toks[0] == "ok", reply
    res = []
    unl = (lambda k: (k[0], k[1], k[3], k[5], k[6])) if ad.name == "linbasex" else (lambda k: k)
    for g in toks[1:]:
        o, m, f = g.split("|")
        mem = None if m == "m:-" else unl(tuple(int(v) for v in m[2:].split(",")))
        files = []
        if f[2:]:
            for ent in f[2:].split(";"):
                k, st = ent.split("=")
                files.append((unl(tuple(int(v) for v in k.split(","))), int(st)))
        res.append(dict(out=o.split(":")[0], view=unl(tuple(int(v) for v in o.split(":")[2].split(","))) if o.startswith("ok") else None,
                        mem=mem, files=sorted(files)))
    return res


def compare(ad, ops, obs, model):
    """first disagreement between real observations and model predictions, or None"""
    for i, (op, o, m) in enumerate(zip(ops, obs, model)):
        if o["out"] != m["out"]:
            return i, f"op {i} {op}: implementation {o['out']} ({o['res'] if o['out']=='raised' else ''}), model {m['out']}"
        mk, ok = m["mem"], o["mem"]
        if ad.name == "rbasex" and mk is not None:
            mk = mk[:3]
        if ad.name == "linbasex" and mk is not None:
            mk = ("*",) + mk[1:]
        if mk != ok:
            return i, f"op {i} {op}: memory key implementation {ok}, model {mk}"
        if o["files"] != m["files"]:
            return i, f"op {i} {op}: directory implementation {o['files']}, model {m['files']}"
    return None
