"""
Correspondence between abel.rbasex.get_bs_cached's in-memory caches and the Lean machine PyAbel/Model/RbasexCache.lean
(theorems: Props/C07Rbasex.lean — cache transparency along any history, an impossible regularisation always raises).

Random sessions of calls (basis (Rmax, order, odd) x mask of valid radii x direction x regularisation — valid ones, ones that
raise, numerically equal spellings) and cache_cleanup(select) are run on the real module, with basis_dir=None; after every
operation the module globals (_bs_prm, _valid_key, _trf, _tri_full, _tri_prm, _tri) and the outcome (returned / raised) are
compared with the machine's state and outcome; returned matrices are checked for the shape and masked rows of what was asked.
"""
import numpy as np

from harness.common import drive, seed
from harness.methods import quiet

BASES = [(6, 0, False), (6, 2, False), (9, 2, False), (6, 1, True), (6, 3, True), (9, 2, True)]
# (regularisation, model id): 0 = None, 5..9 = zero strength (no regularisation, repair F61), 50 = 'pos', < 100 can be honoured, >= 100 raise;
# numerically equal spellings share an id
REGS = [(None, 0), ("pos", 50), (("L2", 1), 1), (("L2", 1.0), 1), (("L2", 5.0), 2), (("diff", 2.0), 3), (("SVD", 0.3), 4), (("SVD", 0), 5), (("L2", 0), 6), (("diff", 0.0), 7),
        ("SVD", 100), (("l2", 5.0), 101), (("SVD", 1.5), 102), ("bogus", 103), (7.0, 104), (("L2",), 105), (("Tikhonov", 0), 106), (("l2", 0.0), 107)]


def _masks(R, rng):
    a = np.ones(R + 1, bool)
    a[2:4] = False
    b = np.ones(R + 1, bool)
    b[0] = False
    b[R - 1:] = False
    return [None, np.ones(R + 1, bool), a, b]


def run_sessions(ck, tier, suite="K.rbasex-cache"):
    from abel import rbasex
    rng = np.random.default_rng(seed() + 7077)
    n_sessions = 25 if tier == "quick" else 250
    for sess in range(n_sessions):
        rbasex.cache_cleanup()
        rbasex._valid_key = None            # a fresh process (cache_cleanup itself leaves the last mask key behind)
        vids = {None: 0}
        ops, obs, log = [], [], []
        bases = [BASES[i] for i in rng.choice(len(BASES), size=2, replace=False)]
        for step in range(int(rng.integers(6, 16))):
            if rng.random() < 0.12:
                sel = ["all", "forward", "inverse"][int(rng.integers(0, 3))]
                rbasex.cache_cleanup(sel)
                ops.append(f"x:{sel}")
                log.append(f"cache_cleanup({sel!r})")
                out = "clean"
            else:
                Rm, order, odd = bases[int(rng.integers(0, 2))] if rng.random() < 0.85 else BASES[int(rng.integers(0, len(BASES)))]
                kid = (1000 if (odd and order > 1) else 0) + Rm * 20 + order * 2 + int(odd)
                valid = _masks(Rm, rng)[int(rng.integers(0, 4))]
                vkey = None if valid is None or valid.all() else (Rm, np.logical_not(valid).tobytes())
                vid = vids.setdefault(vkey, len(vids))
                forward = bool(rng.random() < 0.35)
                reg, rid = REGS[int(rng.integers(0, len(REGS)))]
                if forward:
                    reg, rid = None, 0          # (the forward branch never looks at reg)
                ops.append(f"c:{kid}:{vid}:{int(forward)}:{rid}")
                log.append(f"get_bs_cached({Rm}, {order}, {odd}, {'forward' if forward else 'inverse'!r}, reg={reg!r}, "
                           f"valid={'None' if valid is None else valid.astype(int).tolist()})")
                try:
                    A = quiet(rbasex.get_bs_cached, Rm, order, odd, "forward" if forward else "inverse", reg, valid, None)
                    out = "fwd" if forward else "inv"
                    nterms = 1 + (order if odd else order // 2)
                    shape_ok = (reg == "pos" and not forward) or (len(A) == nterms and all(np.shape(a) == (Rm + 1, Rm + 1) for a in A))
                    rows_ok = True
                    if valid is not None and not valid.all() and reg != "pos" and not (not forward and isinstance(reg, tuple)):
                        rows_ok = all(not np.any(np.asarray(a)[~valid]) for a in A)      # rows of radii without data are zero
                    if not (shape_ok and rows_ok):
                        out += ":wrong-matrices"
                except Exception:
                    out = "raise"
            g = rbasex
            bs = "-" if g._bs_prm is None else str((1000 if (g._bs_prm[2] and g._bs_prm[1] > 1) else 0) + g._bs_prm[0] * 20 + g._bs_prm[1] * 2 + int(g._bs_prm[2]))
            vk_now = None if g._valid_key is None else next((k for k in vids if k is not None and k[1] == g._valid_key), "?")
            tp = "-"
            if g._tri_prm is not None:
                tp = next((str(i) for r, i in REGS if _same(r, g._tri_prm[0])), "?")
            obs.append(f"{out} bs={bs} vk={vids.get(vk_now, '?')} trf={int(g._trf is not None)} trifull={int(g._tri_full is not None)} "
                       f"triprm={tp} tri={int(g._tri is not None)}")
        ck.count((suite, len(ops), tuple(sorted({o.split(':')[0] for o in ops}))), suite=suite)
        rep = drive(["rbxcache " + " ".join(ops)])[0]
        model = [t.strip() for t in rep[3:].split("|")] if rep.startswith("ok") else [rep]
        model = [m.split(" ", 1)[0].split(":")[0] + " " + m.split(" ", 1)[1] if " " in m else m for m in model]      # drop the ghost tags of the outcome
        if len(model) != len(obs) or any(m != o for m, o in zip(model, obs)):
            first = next((i for i, (m, o) in enumerate(zip(model, obs)) if m != o), min(len(model), len(obs)))
            ck.disagree(suite, dict(session=log[:first + 1], implementation=obs[first] if first < len(obs) else None,
                                    model=model[first] if first < len(model) else None, ops=ops[:first + 1]),
                        f"rbasex.get_bs_cached session diverges from the Lean cache machine at step {first}: "
                        f"implementation [{obs[first] if first < len(obs) else '-'}] vs model [{model[first] if first < len(model) else '-'}]")
    rbasex.cache_cleanup()
    rbasex._valid_key = None


def _same(a, b):
    try:
        return type(a) is type(b) and a == b if not isinstance(a, tuple) else (isinstance(b, tuple) and a == b)
    except Exception:
        return False
