"""
Correspondence between abel.basex.get_bs_cached's in-memory caches and the Lean machine PyAbel/Model/BasexCache.lean
(theorem: Props/C07Basex.lean — after any history a call hands out the matrix of the basis [n, sigma] and the parameters
[reg, correction, dr] it names).

Random sessions of calls (basis x direction x parameters, numerically equal spellings included) and cache_cleanup(select) run on
the real module with basis_dir=None; after every operation the module globals (_bs_prm, _trf_prm, _trf, _tri_prm, _tri) are
compared with the machine's state, and the returned matrix with the one a fresh process computes for the same request — which is
what the machine's tag (k, p) stands for.
"""
import numpy as np

from harness.common import drive, seed
from harness.methods import quiet

BASES = [(8, 1.0), (8, 2.0), (11, 1.0), (8, 0.7), (11, 2)]          # (11, 2) is (11, 2.0): sigma is converted to float
REGS = [0, 0.0, 10, 200.0]
CORRS = [True, False, 1]
DRS = [1.0, 0.5, 2, 1]


def _kid(k):
    return int(k[0]) * 100 + int(round(float(k[1]) * 10))


def _pid(reg, corr, dr):
    return int(round(float(reg) * 10)) * 1000 + int(bool(corr)) * 100 + int(round(float(dr) * 10))


def run_sessions(ck, tier, suite="K.basex-cache"):
    from abel import basex
    rng = np.random.default_rng(seed() + 7078)
    fresh = {}

    def reference(n, sigma, direction, reg, corr, dr):
        key = (n, float(sigma), direction, float(reg), bool(corr), float(dr))
        if key not in fresh:
            basex.cache_cleanup()
            fresh[key] = np.array(quiet(basex.get_bs_cached, n, sigma, reg, corr, None, dr, False, direction), dtype=float)
            basex.cache_cleanup()
        return fresh[key]
    for sess in range(20 if tier == "quick" else 200):
        # the requests of this session, with their fresh-process answers computed before the session starts
        plan = []
        bases = [BASES[i] for i in rng.choice(len(BASES), size=2, replace=False)]
        for step in range(int(rng.integers(6, 16))):
            if rng.random() < 0.12:
                plan.append(("x", ["all", "forward", "inverse"][int(rng.integers(0, 3))]))
            else:
                n, sigma = bases[int(rng.integers(0, 2))] if rng.random() < 0.85 else BASES[int(rng.integers(0, len(BASES)))]
                d = "forward" if rng.random() < 0.5 else "inverse"
                reg, corr, dr = REGS[int(rng.integers(0, 4))], CORRS[int(rng.integers(0, 3))], DRS[int(rng.integers(0, 4))]
                plan.append(("c", n, sigma, d, reg, corr, dr, reference(n, sigma, d, reg, corr, dr)))
        basex.cache_cleanup()
        ops, obs, log = [], [], []
        for item in plan:
            if item[0] == "x":
                basex.cache_cleanup(item[1])
                ops.append(f"x:{item[1]}")
                log.append(f"cache_cleanup({item[1]!r})")
                out = "clean"
            else:
                _, n, sigma, d, reg, corr, dr, ref = item
                ops.append(f"c:{_kid((n, sigma))}:{int(d == 'forward')}:{_pid(reg, corr, dr)}")
                log.append(f"get_bs_cached({n}, {sigma!r}, reg={reg!r}, correction={corr!r}, basis_dir=None, dr={dr!r}, direction={d!r})")
                try:
                    A = np.array(quiet(basex.get_bs_cached, n, sigma, reg, corr, None, dr, False, d), dtype=float)
                    good = A.shape == ref.shape and np.abs(A - ref).max() <= 1e-11 * max(1.0, np.abs(ref).max())
                    out = "ret" if good else "ret:not-the-requested-matrix"
                except Exception as e:
                    out = f"raise:{type(e).__name__}"
            g = basex
            def o(prm):
                try:
                    return "-" if prm is None else str(_pid(*prm))
                except Exception:
                    return f"?{prm!r}"          # a key of another shape than [reg, correction, dr]
            obs.append(f"{out} bs={'-' if g._bs_prm is None else (_kid(g._bs_prm) if len(g._bs_prm) == 2 else '?' + repr(g._bs_prm))} trfprm={o(g._trf_prm)} trf={int(g._trf is not None)} "
                       f"triprm={o(g._tri_prm)} tri={int(g._tri is not None)}")
        ck.count((suite, len(ops), tuple(sorted({o.split(':')[0] for o in ops}))), suite=suite)
        rep = drive(["bxcache " + " ".join(ops)])[0]
        model = [t.strip() for t in rep[3:].split("|")] if rep.startswith("ok") else [rep]
        model = [m.split(" ", 1)[0].split(":")[0] + " " + m.split(" ", 1)[1] if " " in m else m for m in model]      # drop the ghost tags
        if len(model) != len(obs) or any(m != o for m, o in zip(model, obs)):
            first = next((i for i, (m, o) in enumerate(zip(model, obs)) if m != o), min(len(model), len(obs)))
            ck.disagree(suite, dict(session=log[:first + 1], implementation=obs[first] if first < len(obs) else None,
                                    model=model[first] if first < len(model) else None, ops=ops[:first + 1]),
                        f"basex.get_bs_cached session diverges from the Lean cache machine at step {first}: "
                        f"implementation [{obs[first] if first < len(obs) else '-'}] vs model [{model[first] if first < len(model) else '-'}]")
    basex.cache_cleanup()
