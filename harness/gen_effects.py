"""
Translator: /repo source → lean/PyAbel/Gen/Effects.lean

For every function (module level; the methods of a class are merged into one unit per class) of abel/*.py and
abel/tools/*.py a tiny effect IR, extracted by a conservative, flow-insensitive walk over the AST:

  share d s     `d` may share memory with `s`       (d = s, d = s[...], d = s.T, d = np.atleast_2d(s), a, b = s, …)
  write v       the object `v` is modified in place  (v += …, v[...] = …, v.sort(), np.put(v, …), f(out=v), v.update(…))
  call g j v    variable `v` is passed to parameter `j` of library function `g`
  ret v         `v` may be (part of) the return value
  callret d g j `d` receives the result of a call to library function g whose argument j was passed … (via call + ret)

Anything else (arithmetic, copies, results of NumPy/SciPy calls) creates a fresh object.  Which NumPy calls return
views and which mutate is a table below (trusted base).  Variables 0 … nparams-1 are the parameters; variables named
`<global>` are module-level caches.
"""
import ast
import sys
from pathlib import Path

REPO = Path(sys.argv[1]) if len(sys.argv) > 1 else Path("/repo")
OUT = Path(__file__).resolve().parent.parent / "lean" / "PyAbel" / "Gen" / "Effects.lean"
FILES = sorted((REPO / "abel").glob("*.py")) + sorted((REPO / "abel" / "tools").glob("*.py"))
SKIP_FILES = {"benchmark.py", "_version.py", "__init__.py"}

VIEW_FUNCS = {"atleast_1d", "atleast_2d", "atleast_3d", "asarray", "asanyarray", "ascontiguousarray", "ravel", "reshape", "squeeze",
              "transpose", "swapaxes", "flipud", "fliplr", "flip", "rot90", "broadcast_to", "diagonal", "triu_indices_from",
              "moveaxis", "rollaxis", "real", "imag", "expand_dims", "array_split", "split", "vsplit", "hsplit", "nan_to_num_inplace"}
VIEW_METHODS = {"reshape", "ravel", "view", "squeeze", "transpose", "swapaxes", "diagonal", "get", "setdefault", "items", "values", "keys"}
VIEW_ATTRS = {"T", "real", "imag", "flat"}
MUT_METHODS = {"sort", "fill", "resize", "itemset", "put", "setflags", "partition", "byteswap_inplace", "update", "pop", "popitem",
               "setdefault", "clear", "append", "extend", "insert", "remove", "reverse"}
MUT_FUNCS = {"put", "copyto", "place", "putmask", "fill_diagonal", "shuffle", "put_along_axis"}


def fname(f):
    if isinstance(f, ast.Name):
        return f.id
    if isinstance(f, ast.Attribute):
        return f.attr
    return None


class Unit:
    """one function, or all methods of one class"""

    def __init__(self, qual, lib_names):
        self.qual = qual
        self.vars = {}          # name -> index
        self.params = []        # parameter names (in order) — for a class: of every method, prefixed
        self.stmts = []         # tuples
        self.lib = lib_names
        self.globals = set()
        self.globals_seen = set()

    def v(self, name):
        if name not in self.vars:
            self.vars[name] = len(self.vars)
        return self.vars[name]

    # expression → list of variable names it may share memory with
    def sources(self, e, scope):
        if isinstance(e, ast.Name):
            return [scope.get(e.id, e.id)]
        if isinstance(e, ast.Attribute):
            if isinstance(e.value, ast.Name) and e.value.id == "self":
                return ["self." + e.attr]
            if e.attr in VIEW_ATTRS:
                return self.sources(e.value, scope)
            return []
        if isinstance(e, ast.Subscript):
            return self.sources(e.value, scope)
        if isinstance(e, ast.Starred):
            return self.sources(e.value, scope)
        if isinstance(e, (ast.Tuple, ast.List)):
            return [s for x in e.elts for s in self.sources(x, scope)]
        if isinstance(e, ast.IfExp):
            return self.sources(e.body, scope) + self.sources(e.orelse, scope)
        if isinstance(e, ast.BoolOp):
            return [s for x in e.values for s in self.sources(x, scope)]
        if isinstance(e, ast.NamedExpr):
            return self.sources(e.value, scope)
        if isinstance(e, ast.Call):
            n = fname(e.func)
            if isinstance(e.func, ast.Attribute) and n in VIEW_METHODS and not (isinstance(e.func.value, ast.Name) and e.func.value.id in ("np", "numpy")):
                return self.sources(e.func.value, scope)
            if n in VIEW_FUNCS and e.args:
                return self.sources(e.args[0], scope)
            if n == "array" and any(k.arg == "copy" and isinstance(k.value, ast.Constant) and k.value.value is False for k in e.keywords):
                return self.sources(e.args[0], scope)
            if n in self.lib:
                # result of a library call may alias whatever that function returns: resolved in Lean via `callret`
                return [("callret", n, e)]
        return []

    def new_version(self, name, scope, conditional):
        """a (re)binding of `name`: a new variable version; inside a branch or loop the old object may survive"""
        old = scope.get(name, name)
        k = self.counter = getattr(self, "counter", 0) + 1
        new = f"{name}#{k}"
        scope[name] = new
        if conditional or name in self.globals_seen:
            self.stmts.append(("share", self.v(new), self.v(old)))
        return new

    def bind(self, target, srcs, scope, conditional=False):
        if isinstance(target, ast.Name):
            d = self.new_version(target.id, scope, conditional)
            for s in srcs:
                if isinstance(s, tuple):
                    _, g, call = s
                    for j, a in self.call_args(call, scope):
                        self.stmts.append(("callret", self.v(d), g, j, self.v(a)))
                else:
                    self.stmts.append(("share", self.v(d), self.v(s)))
            self.v(d)
        elif isinstance(target, ast.Attribute) and isinstance(target.value, ast.Name) and target.value.id == "self":
            d = "self." + target.attr                 # object attributes are not versioned (shared by all methods)
            for s in srcs:
                if not isinstance(s, tuple):
                    self.stmts.append(("share", self.v(d), self.v(s)))
            self.v(d)
        elif isinstance(target, (ast.Tuple, ast.List)):
            for t in target.elts:
                self.bind(t, srcs, scope, conditional)
        elif isinstance(target, ast.Starred):
            self.bind(target.value, srcs, scope, conditional)
        elif isinstance(target, ast.Subscript):
            for s in self.sources(target.value, scope):
                if not isinstance(s, tuple):
                    self.stmts.append(("write", self.v(s)))

    def call_args(self, call, scope):
        """(callee parameter key, variable name) for Name-like arguments"""
        out = []
        for j, a in enumerate(call.args):
            for s in self.sources(a, scope):
                if not isinstance(s, tuple):
                    out.append((str(j), s))
        for k in call.keywords:
            if k.arg is None:
                continue
            for s in self.sources(k.value, scope):
                if not isinstance(s, tuple):
                    out.append((k.arg, s))
        return out

    def visit_calls(self, node, scope):
        for c in ast.walk(node):
            if not isinstance(c, ast.Call):
                continue
            n = fname(c.func)
            if isinstance(c.func, ast.Attribute) and n in MUT_METHODS and not (isinstance(c.func.value, ast.Name) and c.func.value.id in ("np", "numpy", "os", "sys")):
                if n == "setdefault" or n == "get":
                    pass
                for s in self.sources(c.func.value, scope):
                    if not isinstance(s, tuple):
                        self.stmts.append(("write", self.v(s)))
            if n in MUT_FUNCS and c.args:
                for s in self.sources(c.args[0], scope):
                    if not isinstance(s, tuple):
                        self.stmts.append(("write", self.v(s)))
            for k in c.keywords:
                if k.arg == "out":
                    for s in self.sources(k.value, scope):
                        if not isinstance(s, tuple):
                            self.stmts.append(("write", self.v(s)))
            if n in self.lib:
                for j, a in self.call_args(c, scope):
                    self.stmts.append(("call", n, j, self.v(a)))

    def branch(self, bodies, scope, depth, skip_merge=()):
        """walk alternative blocks, each from the current scope; afterwards a name rebound in some block may denote the
        old object or any of the new ones"""
        results = []
        for body in bodies:
            sc = dict(scope)
            self.walk(body, sc, depth + 1)
            results.append(sc)
        names = {n for sc in results for n in sc if sc.get(n) != scope.get(n)}
        for n in sorted(names):
            all_rebound = len(results) >= 2 and all(sc.get(n) != scope.get(n) for sc in results)
            versions = {sc.get(n, n) for sc in results} | ({scope.get(n, n)} if (n not in skip_merge and not all_rebound) else set())
            if len(versions) == 1:
                scope[n] = versions.pop()
                continue
            k = self.counter = getattr(self, "counter", 0) + 1
            merged = f"{n}#m{k}"
            for ver in sorted(versions):
                self.stmts.append(("share", self.v(merged), self.v(ver)))
            scope[n] = merged

    def walk(self, body, scope, depth=0):
        cond = False          # rebinding inside a block is definite within that block; `branch` merges afterwards
        for st in body:
            if isinstance(st, (ast.FunctionDef, ast.Lambda)):
                inner = dict(scope)
                args = st.args
                for a in args.posonlyargs + args.args + args.kwonlyargs + [x for x in (args.vararg, args.kwarg) if x]:
                    inner[a.arg] = f"{st.name if hasattr(st, 'name') else 'lambda'}@{a.arg}"
                self.walk(st.body if isinstance(st.body, list) else [ast.Expr(st.body)], inner, depth + 1)
                continue
            if isinstance(st, ast.Global):
                self.globals.update(st.names)
                self.globals_seen.update(st.names)
                continue
            if isinstance(st, ast.Assign):
                srcs = self.sources(st.value, scope)
                self.visit_calls(st.value, scope)
                for t in st.targets:
                    self.bind(t, srcs, scope, cond)
            elif isinstance(st, ast.AugAssign):
                for s in self.sources(st.target, scope):
                    if not isinstance(s, tuple):
                        self.stmts.append(("write", self.v(s)))
                self.visit_calls(st.value, scope)
            elif isinstance(st, ast.AnnAssign) and st.value is not None:
                self.bind(st.target, self.sources(st.value, scope), scope, cond)
            elif isinstance(st, ast.Return) and st.value is not None:
                for s in self.sources(st.value, scope):
                    if isinstance(s, tuple):
                        _, g, call = s
                        for j, a in self.call_args(call, scope):
                            self.stmts.append(("callret", self.v("<ret>"), g, j, self.v(a)))
                    else:
                        self.stmts.append(("share", self.v("<ret>"), self.v(s)))
                self.visit_calls(st.value, scope)
            elif isinstance(st, ast.For):
                self.visit_calls(st.iter, scope)
                self.bind(st.target, self.sources(st.iter, scope), scope, False)
                # a loop body runs 0..n times: walk it twice so that names rebound in it reach its earlier statements
                self.branch([st.body + st.orelse], scope, depth)
                self.branch([st.body + st.orelse], scope, depth)
            elif isinstance(st, ast.While):
                self.visit_calls(st.test, scope)
                self.branch([st.body + st.orelse], scope, depth)
                self.branch([st.body + st.orelse], scope, depth)
            elif isinstance(st, ast.If):
                self.visit_calls(st.test, scope)
                skip = ()
                t = st.test
                # `if x is not None: x = …`  — on the other path x is None, which cannot be modified
                if isinstance(t, ast.Compare) and isinstance(t.left, ast.Name) and len(t.ops) == 1 and isinstance(t.ops[0], ast.IsNot) \
                        and isinstance(t.comparators[0], ast.Constant) and t.comparators[0].value is None and not st.orelse:
                    skip = (t.left.id,)
                if st.orelse:
                    self.branch([st.body, st.orelse], scope, depth, skip)
                    # (both alternatives rebinding a name: the old object is gone — handled in `branch` via versions set)
                else:
                    self.branch([st.body], scope, depth, skip)
            elif isinstance(st, ast.With):
                for it in st.items:
                    self.visit_calls(it.context_expr, scope)
                self.walk(st.body, scope, depth)
            elif isinstance(st, ast.Try):
                self.branch([st.body + st.orelse] + [h.body for h in st.handlers], scope, depth)
                self.walk(st.finalbody, scope, depth)
            elif isinstance(st, ast.Expr):
                self.visit_calls(st.value, scope)
            elif isinstance(st, (ast.Delete, ast.Pass, ast.Raise, ast.Assert, ast.Import, ast.ImportFrom, ast.Break, ast.Continue)):
                pass
            elif isinstance(st, ast.ClassDef):
                pass
            else:
                self.visit_calls(st, scope)


def main():
    mods = {}
    lib_funcs = {}          # simple name -> (qual, FunctionDef)
    for f in FILES:
        if f.name in SKIP_FILES:
            continue
        tree = ast.parse(f.read_text())
        mod = ".".join(f.relative_to(REPO).with_suffix("").parts)
        mods[mod] = tree
        for node in tree.body:
            if isinstance(node, ast.FunctionDef):
                lib_funcs[node.name] = (mod + "." + node.name, node)
            elif isinstance(node, ast.ClassDef):
                lib_funcs[node.name] = (mod + "." + node.name, node)
    units = []
    for mod, tree in mods.items():
        module_globals = {t.id for n in tree.body if isinstance(n, ast.Assign) for t in n.targets if isinstance(t, ast.Name)}
        for node in tree.body:
            if isinstance(node, ast.FunctionDef):
                u = Unit(mod + "." + node.name, lib_funcs)
                a = node.args
                names = [x.arg for x in a.posonlyargs + a.args + a.kwonlyargs]
                for nme in names:
                    u.v(nme)
                u.params = names
                u.walk(node.body, {x.arg: "*" + x.arg for x in (a.vararg, a.kwarg) if x})
                u.module_globals = module_globals
                units.append(u)
            elif isinstance(node, ast.ClassDef):
                u = Unit(mod + "." + node.name, lib_funcs)
                pnames = []
                methods = [("", m) for m in node.body if isinstance(m, ast.FunctionDef)]
                for cls2 in [m for m in node.body if isinstance(m, ast.ClassDef)]:
                    methods += [(cls2.name + ".", m) for m in cls2.body if isinstance(m, ast.FunctionDef)]
                # constructor parameters first (they are what a caller passes), then the other methods'
                methods.sort(key=lambda pm: not (pm[0] == "" and pm[1].name == "__init__"))
                scopes = []
                for pre, m in methods:
                    a = m.args
                    sc = {}
                    for x in a.posonlyargs + a.args + a.kwonlyargs:
                        if x.arg == "self":
                            continue
                        key = x.arg if (pre == "" and m.name == "__init__") else f"{pre}{m.name}@{x.arg}"
                        sc[x.arg] = key
                        u.v(key)
                        pnames.append(key)
                    for x in (a.vararg, a.kwarg):
                        if x:
                            sc[x.arg] = f"{pre}{m.name}@*{x.arg}"          # always a fresh container
                    scopes.append(sc)
                methods = [m for _, m in methods]
                u.params = pnames
                for m, sc in zip(methods, scopes):
                    u.walk(m.body, sc)
                u.module_globals = module_globals
                units.append(u)
    # emit
    q = lambda s: '"' + s.replace('"', "'") + '"'
    lines = ["/- GENERATED by harness/gen_effects.py from /repo — do not edit. -/", "import PyAbel.Model.Effects",
             "set_option maxRecDepth 8000", "namespace PyAbel.Gen", "open PyAbel.Effects", ""]
    first_name = {}
    for k0, u0 in enumerate(units):
        first_name.setdefault(u0.qual.rsplit(".", 1)[1], k0)

    def pidx0(k0, key):
        ps = units[k0].params
        if key.isdigit():
            return int(key) if int(key) < len(ps) else None
        return ps.index(key) if key in ps else None
    for k, u in enumerate(units):
        base = lambda n: n.split("#")[0]
        glob = sorted(i for n, i in u.vars.items() if base(n) in (u.globals | u.module_globals) and base(n) not in u.params
                      and "@" not in n and not n.startswith("self.") and "#" not in n)
        ss = []
        for s_ in u.stmts:
            if s_[0] == "share":
                if s_[1] != s_[2]:
                    ss.append(f".share {s_[1]} {s_[2]}")
            elif s_[0] == "write":
                ss.append(f".write {s_[1]}")
            elif s_[0] == "call" and s_[1] in first_name:
                j = pidx0(first_name[s_[1]], s_[2])
                if j is not None:
                    ss.append(f".call {first_name[s_[1]]} {j} {s_[3]}")
            elif s_[0] == "callret" and s_[2] in first_name:
                j = pidx0(first_name[s_[2]], s_[3])
                if j is not None:
                    ss.append(f".callret {s_[1]} {first_name[s_[2]]} {j} {s_[4]}")
        ss = list(dict.fromkeys(ss))
        ret = u.vars.get("<ret>")
        lines.append(f"def unit{k} : Effects.Unit := ⟨{q(u.qual)}, {q(u.qual.rsplit('.', 1)[1])}, [{', '.join(q(p) for p in u.params)}], "
                     f"{len(u.vars)}, [{', '.join(map(str, glob))}], {('some ' + str(ret)) if ret is not None else 'none'}, [")
        for i in range(0, len(ss), 8):
            lines.append("  " + ", ".join(ss[i:i + 8]) + ("," if i + 8 < len(ss) else ""))
        lines.append(f"], {'false' if u.qual.rsplit('.', 1)[1].startswith('_') else 'true'}⟩")
    # ---- certificates: labels by union-find, summaries by fixed-point iteration (re-checked by the Lean kernel)
    emitted = []
    for u in units:
        ss = []
        for s_ in u.stmts:
            if s_[0] == "share" and s_[1] == s_[2]:
                continue
            ss.append(s_)
        emitted.append(list(dict.fromkeys(ss)))
    names = [u.qual.rsplit(".", 1)[1] for u in units]
    first = {}
    for k, nme in enumerate(names):
        first.setdefault(nme, k)                       # Lean's findSummary takes the first of that name

    def pidx(k, key):
        ps = units[k].params
        if key.isdigit():
            return int(key) if int(key) < len(ps) else None
        return ps.index(key) if key in ps else None
    summ = [dict(writes=set(), returns=set()) for _ in units]
    ptsall = [None] * len(units)
    globs = []
    for u in units:
        base = lambda n: n.split("#")[0]
        globs.append(sorted(i for n, i in u.vars.items() if base(n) in (u.globals | u.module_globals) and base(n) not in u.params
                            and "@" not in n and not n.startswith("self.") and "#" not in n))
    for rnd in range(len(units) + 2):
        changed = False
        for k, u in enumerate(units):
            nv = len(u.vars)
            pts = [set() for _ in range(nv)]
            for r in list(range(len(u.params))) + globs[k]:
                pts[r].add(r)
            es = []
            for s_ in emitted[k]:
                if s_[0] == "share":
                    es.append((s_[1], s_[2]))
                elif s_[0] == "callret" and s_[2] in first:
                    j = pidx(first[s_[2]], s_[3])
                    if j is not None and j in summ[first[s_[2]]]["returns"]:
                        es.append((s_[1], s_[4]))
            again = True
            while again:
                again = False
                for d, s0 in es:
                    if not pts[s0] <= pts[d]:
                        pts[d] |= pts[s0]
                        again = True
            ptsall[k] = pts
            wv = set()
            for s_ in emitted[k]:
                if s_[0] == "write":
                    wv |= pts[s_[1]]
                elif s_[0] == "call" and s_[1] in first:
                    j = pidx(first[s_[1]], s_[2])
                    if j is not None and j in summ[first[s_[1]]]["writes"]:
                        wv |= pts[s_[3]]
            w = {i for i in range(len(u.params)) if i in wv}
            ret = u.vars.get("<ret>")
            r = {i for i in range(len(u.params)) if ret is not None and i in pts[ret]}
            if not (w <= summ[k]["writes"] and r <= summ[k]["returns"]):
                changed = True
                summ[k]["writes"] |= w
                summ[k]["returns"] |= r
        if not changed:
            break
    for k, u in enumerate(units):
        ptxt = ", ".join("[" + ", ".join(map(str, sorted(p_))) + "]" for p_ in ptsall[k])
        lines.append(f"def cert{k} : Cert := ⟨[{ptxt}], ⟨{q(names[k])}, [{', '.join(q(p) for p in u.params)}], "
                     f"[{', '.join(map(str, sorted(summ[k]['writes'])))}], [{', '.join(map(str, sorted(summ[k]['returns'])))}]⟩⟩")
    lines += ["", "def effectCerts : List Cert := [" + ", ".join(f"cert{k}" for k in range(len(units))) + "]"]
    lines += ["", "def effectUnits : List Effects.Unit := [" + ", ".join(f"unit{k}" for k in range(len(units))) + "]", "",
              "end PyAbel.Gen", ""]
    text = "\n".join(lines)
    OUT.parent.mkdir(parents=True, exist_ok=True)
    if not OUT.exists() or OUT.read_text() != text:
        OUT.write_text(text)
    print(len(units), "units,", sum(len(e) for e in emitted), "statements,", sum(1 for x in summ if x["writes"]), "units with possibly written parameters")


if __name__ == "__main__":
    main()
