"""
Shared description of the half-image transform methods, their option grids, and the
operator-level correspondence with the Lean matrix models (used by C01–C04, C09, C17).
"""
import contextlib
import io
import warnings

import numpy as np

from harness.common import drive, h2arr, arr2h


def quiet(f, *a, **k):
    with warnings.catch_warnings(), contextlib.redirect_stdout(io.StringIO()):
        warnings.simplefilter("ignore")
        return f(*a, **k)


def half_methods():
    """name -> (callable(half_image, direction=…, **opts), forward_capable, option sets)"""
    import abel
    return {
        "basex": (abel.basex.basex_transform, True,
                  [dict(), dict(sigma=1.0, reg=0.0, correction=False), dict(sigma=0.7, reg=10.0, correction=True),
                   dict(sigma=1.5, reg=0.0, correction=False), dict(sigma=3.0, reg=2.0, correction=True)]),
        "daun": (abel.daun.daun_transform, True,
                 [dict(), dict(degree=1), dict(degree=2), dict(degree=3), dict(degree=1, reg=("diff", 2.0)),
                  dict(degree=0, reg=("L2", 1.0)), dict(degree=2, reg=("L2c", 0.5)), dict(degree=3, reg=3.0)]),
        "direct": (lambda x, **k: abel.direct.direct_transform(x, backend="python", **k), True,
                   [dict(), dict(correction=False)]),
        "hansenlaw": (abel.hansenlaw.hansenlaw_transform, True, [dict(), dict(hold_order=1)]),
        "onion_bordas": (abel.onion_bordas.onion_bordas_transform, False, [dict(), dict(shift_grid=False)]),
        "onion_peeling": (abel.dasch.onion_peeling_transform, False, [dict()]),
        "two_point": (abel.dasch.two_point_transform, False, [dict()]),
        "three_point": (abel.dasch.three_point_transform, False, [dict()]),
    }


def cases(include_forward=True):
    """flat list of (label, func, direction, opts)"""
    out = []
    for name, (f, fwd, optsets) in half_methods().items():
        for opts in optsets:
            for d in (["inverse", "forward"] if (fwd and include_forward) else ["inverse"]):
                if name == "direct" and d == "forward" and opts.get("correction") is False:
                    pass
                out.append((f"{name}/{d}/{_fmt(opts)}", name, f, d, opts))
    return out


def _fmt(opts):
    return ",".join(f"{k}={v}" for k, v in sorted(opts.items())) or "default"


def operator_of(f, n, direction, opts, dr=None):
    """matrix M with T(x) = x @ M, extracted by applying the implementation to the unit rows"""
    kw = dict(opts)
    if dr is not None:
        kw["dr"] = dr
    return quiet(f, np.eye(n), direction=direction, **kw)


# ------------------------------------------------------------------------------------------------
def model_matrix(name, n):
    t = drive([f"mat {name} {n}"])[0].split()
    return h2arr(t[3:]).reshape(n, n)


def corr_operators(ck, tier, suite="K.operators"):
    """Lean matrix models vs the arrays the implementation builds, entry by entry.

    onionW        ↔ inv(_bs_onion_peeling)  and  inverse operator ↔ model back substitution
    twoPointD     ↔ _bs_two_point
    daun0         ↔ _bs_daun(n, 0)          and  daun inverse (degree 0) ↔ model back substitution
    daun1, daun2  ↔ _bs_daun(n, 1 | 2);   daun3 (driver op `daun3 n`: p, q and the (1, 4, 1) solve) ↔ _bs_daun(n, 3)
    """
    from abel import dasch, daun
    sizes = [2, 3, 4, 5, 8, 13, 25, 40] if tier == "quick" else [2, 3, 4, 5, 6, 7, 8, 13, 25, 40, 64, 101, 150]
    rng = np.random.default_rng(7)
    for n in sizes:
        fams = []
        try:
            W = model_matrix("onionW", n)
            D = quiet(dasch._bs_onion_peeling, n)
            fams.append(("onionW*D=1", W @ D, np.eye(n), 1e-11 * n))
            fams.append(("twoPointD", model_matrix("twoPointD", n), quiet(dasch._bs_two_point, n), 1e-13))
            fams.append(("daun0", model_matrix("daun0", n), quiet(daun._bs_daun, n, 0), 1e-13))
            fams.append(("daun1", model_matrix("daun1", n), quiet(daun._bs_daun, n, 1), max(1e-13, 8 * n ** 3 * 2.0 ** -53)))   # one ulp of the cancelling r³ terms
            fams.append(("daun2", model_matrix("daun2", n), quiet(daun._bs_daun, n, 2), max(1e-13, 8 * n ** 4 * 2.0 ** -53)))   # … of the r⁴ terms
            # degree 3: value projections, derivative projections and the tridiagonal solve (Model/Daun3.lean, Thomas algorithm)
            a3 = h2arr(drive([f"daun3 {n}"])[0].split()[3:]).reshape(n, n)
            fams.append(("daun3", a3, quiet(daun._bs_daun, n, 3), max(1e-13, 8 * n ** 5 * 2.0 ** -53)))     # … of the r⁵ terms
            if n >= 3:
                fams.append(("threePointD", model_matrix("threePointD", n), quiet(dasch._bs_three_point, n), 1e-13))
            d = rng.normal(size=n)
            y = h2arr(drive([f"solve onionW {n} {arr2h(d)}"])[0].split()[3:])
            fams.append(("onion inverse", y, D @ d, 1e-11 * n))
            y0 = h2arr(drive([f"solve daun0T {n} {arr2h(d)}"])[0].split()[3:])
            impl = quiet(daun.daun_transform, d, degree=0, verbose=False)
            fams.append(("daun0 inverse", y0, impl, 1e-11 * n))
        except Exception as e:
            ck.disagree(suite, dict(n=n), f"{type(e).__name__}: {e}")
            continue
        for label, m, ref, tol in fams:
            ck.count((suite, label, n), suite=suite)
            scale = max(1.0, np.abs(ref).max())
            if m.shape != ref.shape or not np.all(np.isfinite(m)) or np.abs(m - ref).max() > tol * scale:
                bad = np.unravel_index(np.argmax(np.abs(m - ref)), m.shape) if m.shape == ref.shape else None
                ck.disagree(suite, dict(family=label, n=n, entry=[int(v) for v in bad] if bad else None),
                            f"model vs implementation differ by {np.abs(m - ref).max() if bad else 'shape'}")
