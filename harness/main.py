"""Entry point:  python -m harness.main C06 [--tier quick|thorough] [--replay file]"""
import argparse
import importlib
import os
import sys
import traceback


def main():
    ap = argparse.ArgumentParser()
    ap.add_argument("prop")
    ap.add_argument("--tier", default=os.environ.get("VERIF_TIER", "quick"), choices=["quick", "thorough"])
    ap.add_argument("--replay", default=None)
    a = ap.parse_args()
    try:
        mod = importlib.import_module(f"harness.props.{a.prop.lower()}")
    except ModuleNotFoundError:
        print(f"no check for {a.prop}", file=sys.stderr)
        return 2
    try:
        if a.replay:
            return mod.replay(a.replay)
        return mod.run(a.tier)
    except Exception:
        traceback.print_exc()
        return 2


if __name__ == "__main__":
    sys.exit(main())
