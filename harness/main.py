"""Entry point:  python -m harness.main C06 [--tier quick|thorough] [--replay file]"""
import argparse
import atexit
import importlib
import os
import shutil
import sys
import tempfile
import traceback


def main():
    ap = argparse.ArgumentParser()
    ap.add_argument("prop")
    ap.add_argument("--tier", default=os.environ.get("VERIF_TIER", "quick"), choices=["quick", "thorough"])
    ap.add_argument("--replay", default=None)
    a = ap.parse_args()
    # scratch: private basis-set directory (never ~/.cache/PyAbel, never under /repo or /verif), removed at exit
    scratch = tempfile.mkdtemp(prefix=f"pyabel_verif_{a.prop}_")
    atexit.register(shutil.rmtree, scratch, ignore_errors=True)
    os.environ["VERIF_SCRATCH"] = scratch
    os.environ["XDG_CACHE_HOME"] = os.path.join(scratch, "xdg")
    try:
        mod = importlib.import_module(f"harness.props.{a.prop.lower()}")
    except ModuleNotFoundError as e:
        print(f"no check for {a.prop}: {e}", file=sys.stderr)
        return 2
    import warnings
    warnings.simplefilter("ignore")
    real_stdout = sys.stdout
    try:
        import abel
        abel.transform.set_basis_dir(os.path.join(scratch, "basis"))
        # the library prints progress messages; keep the check's stdout for VIOLATION / KNOWN-FINDING lines only
        sys.stdout = open(os.devnull, "w")
        if a.replay:
            sys.stdout = real_stdout
            return mod.replay(a.replay)
        return mod.run(a.tier)
    except Exception:
        # The harness itself tripped over what the implementation returned (a shape it did not expect, a missing attribute …).
        # On an unchanged tree that is a broken check (and shows up as such); after a change to PyAbel it means a correspondence
        # can no longer be run: report it the way a broken correspondence is reported — a violation without a failing input,
        # the traceback as the replay.
        tb = traceback.format_exc()
        traceback.print_exc()
        sys.stdout = real_stdout
        if a.replay:
            return 2
        try:
            import json
            from harness.common import REPLAYS, VERIF, seed
            d = REPLAYS / a.prop
            d.mkdir(parents=True, exist_ok=True)
            path = d / f"seed{seed()}_crash.json"
            path.write_text(json.dumps(dict(property=a.prop, kind="no-failing-input-found",
                                            no_longer_checks=[dict(kind="harness", why="the check could not be completed", traceback=tb[-4000:])]), indent=1))
            print(f"VIOLATION property={a.prop} replay={path.relative_to(VERIF)} no-failing-input-found", file=real_stdout)
            return 1
        except Exception:
            return 2
    finally:
        sys.stdout = real_stdout


if __name__ == "__main__":
    sys.exit(main())
