"""Entry point:  python -m harness.main C06 [--tier quick|thorough] [--replay file]"""
import argparse
import atexit
import importlib
import os
import shutil
import sys
import tempfile
import traceback


def main():
    ap = argparse.ArgumentParser()
    ap.add_argument("prop")
    ap.add_argument("--tier", default=os.environ.get("VERIF_TIER", "quick"), choices=["quick", "thorough"])
    ap.add_argument("--replay", default=None)
    a = ap.parse_args()
    # scratch: private basis-set directory (never ~/.cache/PyAbel, never under /repo or /verif), removed at exit
    scratch = tempfile.mkdtemp(prefix=f"pyabel_verif_{a.prop}_")
    atexit.register(shutil.rmtree, scratch, ignore_errors=True)
    os.environ["VERIF_SCRATCH"] = scratch
    os.environ["XDG_CACHE_HOME"] = os.path.join(scratch, "xdg")
    try:
        mod = importlib.import_module(f"harness.props.{a.prop.lower()}")
    except ModuleNotFoundError as e:
        print(f"no check for {a.prop}: {e}", file=sys.stderr)
        return 2
    import warnings
    warnings.simplefilter("ignore")
    real_stdout = sys.stdout
    try:
        import abel
        abel.transform.set_basis_dir(os.path.join(scratch, "basis"))
        # the library prints progress messages; keep the check's stdout for VIOLATION / KNOWN-FINDING lines only
        sys.stdout = open(os.devnull, "w")
        if a.replay:
            sys.stdout = real_stdout
            return mod.replay(a.replay)
        return mod.run(a.tier)
    except Exception:
        traceback.print_exc()
        return 2
    finally:
        sys.stdout = real_stdout


if __name__ == "__main__":
    sys.exit(main())
