#!/bin/bash
# copies finished round-2 sub-agent deliverables /tmp/mut2/Cxx.out/{A,B,C} into seeded/Cxx-R2{A,B,C}
cd /verif
for d in /tmp/mut2/C??.out; do
  id=$(basename $d .out)
  for v in A B C; do
    if [ -f $d/$v/patch.diff ] && [ -f $d/$v/demo.py ] && [ -f $d/$v/meta.json ] && [ ! -d seeded/$id-R2$v ]; then
      mkdir -p seeded/$id-R2$v && cp $d/$v/{patch.diff,demo.py,meta.json} seeded/$id-R2$v/ && echo "collected $id-R2$v"
    fi
  done
done
