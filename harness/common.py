"""
Shared machinery of the /verif checks: Lean build + axiom audit, model driver,
evidence, known findings, violation reporting.

Run with /venv/bin/python (abel is installed editable from /repo, so the code
under test is always /repo's current working tree).
"""
from __future__ import annotations

import fcntl
import hashlib
import json
import os
import re
import struct
import subprocess
import sys
import time
from pathlib import Path

VERIF = Path(__file__).resolve().parent.parent
LEAN = VERIF / "lean"
REPO = Path(os.environ.get("VERIF_REPO", "/repo"))
DRIVER = LEAN / ".lake" / "build" / "bin" / "pyabel_drv"
EVIDENCE = Path(os.environ["VERIF_EVIDENCE_DIR"]) if os.environ.get("VERIF_EVIDENCE_DIR") else VERIF / "evidence"
REPLAYS = VERIF / "replays"
CORPUS = VERIF / "corpus"
FINDINGS_FILE = VERIF / "known_findings.json"
ALLOWED_AXIOMS = {"propext", "Classical.choice", "Quot.sound"}
FORBIDDEN = re.compile(
    r"\bsorry\b|\badmit\b|^\s*axiom\s|\bnative_decide\b|\bbv_decide\b|implemented_by|\bunsafe\s|maxHeartbeats\s+0\b",
    re.M)

os.environ.setdefault("PYABEL_VERIF", "1")          # MANIFEST.hooks.guard (no source hook uses it yet)


def seed() -> int:
    try:
        return int(os.environ.get("VERIF_SEED", "0"))
    except ValueError:
        return 0


# --------------------------------------------------------------------------- floats
def f2h(x: float) -> str:
    return "%016x" % struct.unpack("<Q", struct.pack("<d", float(x)))[0]


def h2f(s: str) -> float:
    return struct.unpack("<d", struct.pack("<Q", int(s, 16)))[0]


def arr2h(a) -> str:
    import numpy as np
    a = np.ascontiguousarray(a, dtype="<f8").ravel()
    return " ".join("%016x" % v for v in a.view("<u8"))


def h2arr(tokens):
    import numpy as np
    return np.array([int(t, 16) for t in tokens], dtype="<u8").view("<f8")


# --------------------------------------------------------------------------- Lean side
class LeanError(Exception):
    pass


def _lake_lock(shared=False):
    """builds take the lock exclusively; read-only users of the build products (axiom audit, leanchecker) share it"""
    lock = open(LEAN / ".lake.lock.verif", "w")
    fcntl.flock(lock, fcntl.LOCK_SH if shared else fcntl.LOCK_EX)
    return lock


def lake_build(targets: list[str], timeout=3000) -> tuple[bool, str]:
    """Build the given lake targets (module names or exe).  Returns (ok, log)."""
    lock = _lake_lock()
    try:
        p = subprocess.run(["lake", "build", *targets], cwd=LEAN, capture_output=True, text=True, timeout=timeout)
        return p.returncode == 0, (p.stdout + p.stderr)[-6000:]
    finally:
        lock.close()


def _strip_comments(src: str) -> str:
    # remove /- … -/ (nested not used in this project) and -- … line comments
    src = re.sub(r"/-.*?-/", "", src, flags=re.S)
    return re.sub(r"--.*", "", src)


def forbidden_tokens(files: list[Path]) -> list[str]:
    hits = []
    for f in files:
        body = _strip_comments(f.read_text())
        for m in FORBIDDEN.finditer(body):
            hits.append(f"{f.relative_to(VERIF)}: {m.group(0).strip()}")
    return hits


def module_deps(module: str) -> list[Path]:
    """Project files transitively imported by a project module (textual `import PyAbel.…`)."""
    seen, todo = {}, [module]
    while todo:
        m = todo.pop()
        if m in seen:
            continue
        f = LEAN / (m.replace(".", "/") + ".lean")
        if not f.exists():
            continue
        seen[m] = f
        for imp in re.findall(r"^import\s+(PyAbel\.\S+)", f.read_text(), flags=re.M):
            todo.append(imp)
    return list(seen.values())


def theorem_names(props_file: Path) -> list[str]:
    """Fully qualified names of the (non-private) theorems of a Props file."""
    src = _strip_comments(props_file.read_text())
    names, ns = [], []
    for line in src.splitlines():
        m = re.match(r"\s*namespace\s+(\S+)", line)
        if m:
            ns.append(m.group(1))
            continue
        m = re.match(r"\s*end\s+(\S+)", line)
        if m and ns and ns[-1] == m.group(1):
            ns.pop()
            continue
        m = re.match(r"\s*(?:@\[[^\]]*\]\s*)?(private\s+|protected\s+)?theorem\s+(\S+)", line)
        if m and not (m.group(1) or "").startswith("private"):
            names.append(".".join(ns + [m.group(2)]))
    return names


def audit(prop_module: str) -> dict:
    """Build a property module, then `#print axioms` every theorem in it.

    Returns dict(ok, build_ok, obligations, discharged, axioms{thm: [..]}, foreign{thm: [..]},
    forbidden[..], log)."""
    t0 = time.time()
    props_file = LEAN / (prop_module.replace(".", "/") + ".lean")
    res = dict(module=prop_module, ok=False, build_ok=False, obligations=0, discharged=0, axioms={}, foreign={},
               forbidden=[], log="", theorems=[])
    thms = theorem_names(props_file)
    res["theorems"] = thms
    res["obligations"] = len(thms)
    res["forbidden"] = forbidden_tokens(module_deps(prop_module))
    ok, log = lake_build([prop_module])
    res["build_ok"] = ok
    res["log"] = log
    if not ok:
        res["wall_s"] = time.time() - t0
        return res
    audit_src = f"import {prop_module}\n" + "".join(f"#print axioms {t}\n" for t in thms)
    tmp = LEAN / f".audit_{prop_module.replace('.', '_')}.lean"
    tmp.write_text(audit_src)
    try:
        lock = _lake_lock(shared=True)
        try:
            p = subprocess.run(["lake", "env", "lean", tmp.name], cwd=LEAN, capture_output=True, text=True, timeout=1800)
        finally:
            lock.close()
    finally:
        tmp.unlink(missing_ok=True)
    out = p.stdout + p.stderr
    res["log"] += out[-3000:] if p.returncode else ""
    for m in re.finditer(r"'(\S+)' depends on axioms: \[([^\]]*)\]", out, flags=re.S):
        res["axioms"][m.group(1)] = [a.strip() for a in m.group(2).replace("\n", " ").split(",") if a.strip()]
    for m in re.finditer(r"'(\S+)' does not depend on any axioms", out):
        res["axioms"][m.group(1)] = []
    for t in thms:
        ax = res["axioms"].get(t)
        if ax is None:
            res["foreign"][t] = ["<not reported>"]
        elif not set(ax) <= ALLOWED_AXIOMS:
            res["foreign"][t] = sorted(set(ax) - ALLOWED_AXIOMS)
        else:
            res["discharged"] += 1
    res["ok"] = (p.returncode == 0 and not res["foreign"] and not res["forbidden"]
                 and res["discharged"] == res["obligations"] and res["obligations"] > 0)
    res["wall_s"] = time.time() - t0
    return res


def leanchecker(modules: list[str]) -> tuple[bool, str]:
    lock = _lake_lock(shared=True)
    try:
        p = subprocess.run(["lake", "env", "leanchecker", *modules], cwd=LEAN, capture_output=True, text=True,
                           timeout=3000)
        return p.returncode == 0, (p.stdout + p.stderr)[-2000:]
    finally:
        lock.close()


def ensure_driver() -> tuple[bool, str]:
    return lake_build(["pyabel_drv"])


def drive(lines: list[str], timeout=3000) -> list[str]:
    """Send request lines to the compiled model driver; one reply per line."""
    if not lines:
        return []
    p = subprocess.run([str(DRIVER)], input="\n".join(lines) + "\n", capture_output=True, text=True, timeout=timeout)
    if p.returncode != 0:
        raise LeanError(f"driver exited {p.returncode}: {p.stderr[-500:]}")
    out = p.stdout.split("\n")
    if out and out[-1] == "":
        out.pop()
    if len(out) != len(lines):
        raise LeanError(f"driver answered {len(out)} lines for {len(lines)} requests")
    return out


# --------------------------------------------------------------------------- findings
def load_findings() -> list[dict]:
    if not FINDINGS_FILE.exists():
        return []
    return json.loads(FINDINGS_FILE.read_text())["findings"]


def match_finding(prop: str, signature: dict) -> dict | None:
    """A violation is a known finding iff some *known* (not fixed) entry's `match` is a sub-dict of its signature."""
    for f in load_findings():
        if f.get("property") != prop or f.get("status") != "known":
            continue
        m = f.get("match", {})
        if m and all(signature.get(k) == v for k, v in m.items()):
            return f
    return None


# --------------------------------------------------------------------------- check context
class Check:
    """One run of one property check: collects proof status, correspondence counts, violations, evidence."""

    def __init__(self, prop: str, tier: str, level: str = "proof"):
        self.prop, self.tier, self.level = prop, tier, level
        self.seed = seed()
        self.t0 = time.time()
        self.cov: dict = dict(evaluations=0, distinct_nontrivial=0, rule="", samples=[], obligations=0, discharged=0,
                              checker_cmd="", trusted_base=[], disagreements_checked=0, explanation="",
                              suites={}, unproved_clauses=[])
        self.assumptions: list[str] = []
        self.violations: list[dict] = []       # unlisted violations → exit 1
        self.known: list[dict] = []            # matched known findings → KNOWN-FINDING lines
        self.broken: list[dict] = []           # broken obligations/correspondences (need a search)
        self._distinct: set = set()
        self.notes: list[str] = []
        if (REPLAYS / prop).is_dir():                 # replays of earlier runs are stale
            for f in (REPLAYS / prop).glob("seed*.json"):
                f.unlink()

    # --- proof side
    def proofs(self, prop_module: str, extra_modules: list[str] = ()):  # noqa
        a = audit(prop_module)
        self.cov["obligations"] += a["obligations"]
        self.cov["discharged"] += a["discharged"] if a["build_ok"] else 0
        self.cov["checker_cmd"] = (f"cd lean && lake build {prop_module} && lake env lean <(#print axioms of every "
                                   f"theorem in {prop_module}); grep for sorry/admit/axiom/native_decide/bv_decide")
        self.cov.setdefault("theorems", []).extend(a["theorems"])
        axs = sorted({x for v in a["axioms"].values() for x in v})
        self.cov["axioms_seen"] = axs
        if self.tier == "thorough" and a["ok"]:
            ok, log = leanchecker([prop_module, *extra_modules])
            self.cov["leanchecker"] = "ok" if ok else "FAILED: " + log[-300:]
            if not ok:
                a["ok"] = False
                a["log"] += log
        if not a["ok"]:
            why = ("build failed" if not a["build_ok"] else
                   f"foreign axioms {a['foreign']}" if a["foreign"] else
                   f"forbidden tokens {a['forbidden']}" if a["forbidden"] else "audit failed")
            self.broken.append(dict(kind="proof", module=prop_module, why=why, log=a["log"][-1500:]))
        return a

    # --- exploration side
    def count(self, key=None, nontrivial=True, suite=None):
        self.cov["evaluations"] += 1
        if suite:
            self.cov["suites"][suite] = self.cov["suites"].get(suite, 0) + 1
        if nontrivial and key is not None:
            self._distinct.add(key if isinstance(key, (str, int, tuple)) else json.dumps(key, sort_keys=True))

    def sample(self, s, limit=6):
        if len(self.cov["samples"]) < limit:
            self.cov["samples"].append(s)

    def disagree(self, suite: str, case: dict, detail: str):
        """Model and implementation disagree on `case` (a broken correspondence, not yet a violation)."""
        self.cov["disagreements_checked"] += 1
        if sum(1 for b in self.broken if b.get("suite") == suite) < 5:
            self.broken.append(dict(kind="correspondence", suite=suite, case=case, detail=detail))

    def violation(self, signature: dict, replay: dict, what: str):
        """A concrete failing input of the *property* on the implementation."""
        f = match_finding(self.prop, signature)
        rec = dict(signature=signature, replay=replay, what=what)
        if f is not None:
            if not any(k["finding"]["id"] == f["id"] for k in self.known):
                self.known.append(dict(finding=f, **rec))
        else:
            self.n_violating_cases = getattr(self, "n_violating_cases", 0) + 1
            key = json.dumps(signature, sort_keys=True, default=str)
            if not any(json.dumps(v["signature"], sort_keys=True, default=str) == key for v in self.violations):
                self.violations.append(rec)       # one replay per distinct signature

    # --- finish
    def finish(self) -> int:
        code = 0
        lines = []
        for k in self.known:
            lines.append(f"KNOWN-FINDING: property={self.prop} {k['finding']['id']} {k['finding']['what']}")
        REPLAYS.joinpath(self.prop).mkdir(parents=True, exist_ok=True)
        n = 0
        for v in self.violations[:6]:
            path = REPLAYS / self.prop / f"seed{self.seed}_{n}.json"
            path.write_text(json.dumps(dict(property=self.prop, kind="failing-input", **v), indent=1, default=str))
            lines.append(f"VIOLATION property={self.prop} replay={path.relative_to(VERIF)}")
            n += 1
            code = 1
        if self.broken and not self.violations:
            # something no longer checks, and the search produced no failing input of the property
            path = REPLAYS / self.prop / f"seed{self.seed}_broken.json"
            path.write_text(json.dumps(dict(property=self.prop, kind="no-failing-input-found",
                                            no_longer_checks=self.broken), indent=1, default=str))
            lines.append(f"VIOLATION property={self.prop} replay={path.relative_to(VERIF)} no-failing-input-found")
            code = 1
        self.cov["distinct_nontrivial"] = len(self._distinct)
        self.cov["known_findings_reproduced"] = [k["finding"]["id"] for k in self.known]
        self.cov["broken"] = [dict(kind=b["kind"], where=b.get("module") or b.get("suite"), why=b.get("why") or
                                   b.get("detail")) for b in self.broken]
        self.cov["notes"] = self.notes
        ev = dict(property_id=self.prop, tier=self.tier, seed=self.seed, level=self.level, coverage=self.cov,
                  assumptions=self.assumptions, wall_s=round(time.time() - self.t0, 2),
                  violations=len(self.violations) + (1 if (self.broken and not self.violations) else 0))
        EVIDENCE.mkdir(exist_ok=True)
        (EVIDENCE / f"{self.prop}.json").write_text(json.dumps(ev, indent=1, default=str))
        out = sys.__stdout__
        for ln in lines:
            print(ln, file=out)
        print(f"[{self.prop}] tier={self.tier} seed={self.seed} obligations={self.cov['discharged']}/"
              f"{self.cov['obligations']} evaluations={self.cov['evaluations']} distinct={len(self._distinct)} "
              f"violations={len(self.violations)} known={len(self.known)} broken={len(self.broken)} "
              f"wall={ev['wall_s']}s → exit {code}", file=out)
        out.flush()
        return code


def source_fingerprint(rel_files: list[str]) -> dict:
    out = {}
    for r in rel_files:
        p = REPO / r
        if p.exists():
            out[r] = hashlib.sha256(p.read_bytes()).hexdigest()[:16]
    return out
