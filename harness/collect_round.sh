#!/bin/bash
# copies finished round-N sub-agent deliverables /tmp/mutN/Cxx.out/{A,B,C} into seeded/Cxx-RN{A,B,C}   (usage: collect_round.sh 3)
N=${1:-3}
cd /verif
for d in /tmp/mut$N/C??.out; do
  id=$(basename $d .out)
  for v in A B C; do
    if [ -f $d/$v/patch.diff ] && [ -f $d/$v/demo.py ] && [ -f $d/$v/meta.json ] && [ ! -d seeded/$id-R$N$v ]; then
      mkdir -p seeded/$id-R$N$v && cp $d/$v/{patch.diff,demo.py,meta.json} seeded/$id-R$N$v/ && echo "collected $id-R$N$v"
    fi
  done
done
