"""
C11 — shipped analytical pairs and sample images are true Abel pairs.

proofs : lean/PyAbel/Props/C11.lean (StepAnalytical and GaussianAnalytical: abel = Abel(func) as functions, every
         parameter value; built on Lemmas/Abel.lean and Mathlib's Gaussian integral)
K      : StepAnalytical / GaussianAnalytical arrays vs the closed forms the theorems are about (evaluated in numpy from
         the theorem statements: 2A₀(hc(r₂²−x²) − hc(r₁²−x²)), σ√π A₀ e^{−x²/σ²})
         lean/PyAbel/Props/C11Profiles.lean + C11Profile6.lean (TransformPair profiles 1-7: the coded `projection` expression, branch
         by branch, is 2∫ source(√(x²+z²)) dz for every 0 < x < 1 — corollaries of C10.polynomial_abel)
K      : … and the driver op `profile k x` (Model/Profiles.lean, the expressions the theorems are about) vs
         abel.tools.transform_pairs.profile<k> at random and special radii (breakpoints, the TransformPair end offsets)
S      : scipy line-of-sight quadrature of `func` vs `abel` for every class: Step, Gaussian, Polynomial wrappers,
         TransformPair profiles 1-7 at many r, SampleImage names x sizes x sigma / temperature / tolerance; grid facts
         (r symmetric, dr, quadrant layout); tolerances below the documented table (1e-7, 3e-8) against quadrature
"""
import json

import numpy as np
from scipy.integrate import quad

from harness.common import Check, seed, source_fingerprint, drive, f2h, h2arr
from harness.methods import quiet


def los(f, x, rmax, pts=None):
    if x >= rmax:
        return 0.0
    zm = np.sqrt(rmax * rmax - x * x)
    v, _ = quad(lambda z: f(np.sqrt(x * x + z * z)), 0, zm, points=pts, limit=400, epsabs=1e-13, epsrel=1e-12)
    return 2 * v


def peak_source(s, name):
    """the analytic source of a SampleImage from its own peak table: F(y, rho)"""
    sc = s._scale

    def F(y, rho):
        R = np.hypot(y, rho)
        cos = np.divide(-y, R, out=np.zeros_like(R), where=R > 0) * -1
        tot = 0.0
        for A, r0, w, cn in s._peaks:
            A_ = A(R) if callable(A) else A
            if name == "O2":
                d = np.abs(R - r0 * sc) / (2 * w)
                ring = np.where(d > 1, 0.0, 1 - (3 - 2 * d) * d ** 2)
            else:
                ring = np.exp(-((R - r0 * sc) / w) ** 2)
            tot = tot + A_ * ring * sum(c * cos ** k for k, c in enumerate(cn))
        return tot
    return F


def hc(t):
    return np.sqrt(np.maximum(0.0, t))


def correspondence(ck, tier):
    from abel.tools.analytical import StepAnalytical, GaussianAnalytical
    rng = np.random.default_rng(seed() + 11)
    for _ in range(80 if tier == "quick" else 800):
        n = int(rng.integers(5, 120))
        sym = bool(rng.integers(0, 2))
        if sym and n % 2 == 0:          # (StepAnalytical refuses symmetric grids without a sample on the axis)
            n += 1
        rmax = float(rng.uniform(1, 50))
        r1, r2 = sorted(rng.uniform(0, rmax, size=2))
        snap = int(rng.integers(0, 4))            # 1, 2, 3: put r1 / r2 / both exactly on grid points (0 included)
        if snap:
            grid = np.abs(quiet(StepAnalytical, n, rmax, 0.1 * rmax, 0.2 * rmax, symmetric=sym).r)
            g1, g2 = sorted(float(v) for v in rng.choice(grid, size=2))
            if snap & 1:
                r1 = g1 if g1 < r2 else 0.0
            if snap & 2 and g2 > r1:
                r2 = g2
        A0 = float(rng.normal() * 3)
        ck.count(("K.step", sym, n % 2, snap), suite="K.closed-forms")
        s = quiet(StepAnalytical, n, rmax, r1, r2, A0=A0, symmetric=sym)
        x = np.abs(s.r)
        want = A0 * 2 * (hc(r2 ** 2 - x ** 2) - hc(r1 ** 2 - x ** 2))
        # where a grid point coincides with an edge, √(r_k² − x²) is infinitely sensitive: one ulp in x moves it by r_k√(2ε)
        eps = np.finfo(float).eps
        edge_tol = sum(np.where(np.abs(x - rk) <= 4 * eps * max(rk, 1e-300), rk * np.sqrt(8 * eps), 0.0) for rk in (r1, r2))
        if np.any(np.abs(s.abel - want) > 1e-12 * max(1.0, abs(A0) * rmax) + 2 * abs(A0) * edge_tol):
            ck.disagree("K.closed-forms", dict(cls="StepAnalytical", n=n, r_max=rmax, r1=r1, r2=r2, A0=A0, symmetric=sym),
                        "StepAnalytical.abel differs from 2A0(hc(r2²−x²) − hc(r1²−x²))")
        inside = (x > r1) & (x < r2)
        edge = (np.abs(x - r1) < 1e-12) | (np.abs(x - r2) < 1e-12)
        if np.any((s.func != A0 * inside) & ~edge):
            ck.disagree("K.closed-forms", dict(cls="StepAnalytical", n=n, r1=r1, r2=r2), "StepAnalytical.func is not A0 on (r1, r2)")
        sigma = float(rng.uniform(0.3, 20))
        g = quiet(GaussianAnalytical, n, rmax, sigma=sigma, A0=A0, symmetric=sym)
        ck.count(("K.gauss", sym, n % 2), suite="K.closed-forms")
        if np.abs(g.func - A0 * np.exp(-g.r ** 2 / sigma ** 2)).max() > 1e-14 * abs(A0) or \
                np.abs(g.abel - sigma * np.sqrt(np.pi) * A0 * np.exp(-g.r ** 2 / sigma ** 2)).max() > 1e-13 * abs(A0) * sigma:
            ck.disagree("K.closed-forms", dict(cls="GaussianAnalytical", n=n, sigma=sigma, A0=A0), "Gaussian pair differs from the closed forms")
    ck.sample(dict(suite="K.closed-forms", example=dict(n=n, r_max=rmax, r1=r1, r2=r2, A0=A0)))
    # the modelled transform pairs: Lean expressions vs the shipped functions
    from abel.tools import transform_pairs
    from abel.tools.analytical import TransformPair
    lines, refs = [], []
    for k in (1, 2, 3, 4, 5, 6, 7):
        xs = list(rng.uniform(1e-6, 1, size=60 if tier == "quick" else 600)) + [0.25, 0.5, 0.7, np.nextafter(0.25, 1), np.nextafter(0.5, 1), np.nextafter(0.7, 1), np.nextafter(0.7, 0), 1e-8, 1 - 1e-8]
        tp = quiet(TransformPair, int(rng.integers(5, 200)), profile=k)         # the class: same functions on its own grid
        grid = tp.r.copy()
        grid[0] = 1.0e-8
        grid[-1] -= 1.0e-8
        for j, x in enumerate(xs + [float(v) for v in grid]):
            ck.count(("K.profile", k, min(int(x * 10), 9)), suite="K.profiles")
            lines.append(f"profile {k} {f2h(x)}")
            if j < len(xs):
                src, prj = getattr(transform_pairs, f"profile{k}")(np.array([x]))
                refs.append((k, float(x), float(src[0]), float(prj[0])))
            else:
                refs.append((k, float(x), float(tp.func[j - len(xs)]), float(tp.abel[j - len(xs)])))
    for (k, x, src, prj), out in zip(refs, drive(lines)):
        got = h2arr(out.split()[3:]) if out.startswith("ok") else np.array([np.nan, np.nan])
        if not (abs(got[0] - src) <= 1e-13 * max(1.0, abs(src)) and abs(got[1] - prj) <= 1e-13 * max(1.0, abs(prj))):
            ck.disagree("K.profiles", dict(profile=k, r=x, source=src, projection=prj, model=got.tolist()),
                        f"profile{k}({x!r}) = ({src!r}, {prj!r}) but the Lean expressions give {got.tolist()}")


def oracle(ck, tier, deep):
    import abel
    from abel.tools import analytical, transform_pairs
    rng = np.random.default_rng(seed() + 1111)
    # ---- Step / Gaussian by quadrature, grid facts
    for _ in range(10 if not deep else 100):
        n = int(rng.integers(5, 80)) | 1
        ng = n + int(rng.integers(0, 2))              # the Gaussian pair also lives on even symmetric grids (no sample on the axis)
        rmax = float(rng.uniform(2, 40))
        r1, r2 = sorted(rng.uniform(0.2, rmax, size=2))
        A0, sigma = float(rng.uniform(0.5, 5)), float(rng.uniform(0.5, rmax / 3))
        for sym in (True, False):
            s = quiet(analytical.StepAnalytical, n, rmax, r1, r2, A0=A0, symmetric=sym)
            g = quiet(analytical.GaussianAnalytical, ng, rmax, sigma=sigma, A0=A0, symmetric=sym)
            ck.count(("S.closed", sym, ng % 2), suite="S.closed-forms")
            rep = dict(n=n, r_max=rmax, r1=r1, r2=r2, A0=A0, sigma=sigma, symmetric=sym)
            for obj, name in ((s, "StepAnalytical"), (g, "GaussianAnalytical")):
                if abs(obj.dr - (obj.r[1] - obj.r[0])) > 1e-15 or (sym and np.abs(obj.r + obj.r[::-1]).max() > 1e-12) or \
                        (not sym and obj.r[0] != 0) or abs(obj.r[-1] - rmax) > 1e-12:
                    ck.violation(dict(site=name, clause="grid"), rep, "r grid / dr inconsistent")
            for i in rng.integers(0, n, size=3):
                x = abs(float(s.r[i]))
                want = los(lambda q: A0 * ((q >= r1) & (q < r2)), x, r2, pts=[np.sqrt(r1 * r1 - x * x)] if x < r1 else None)
                if abs(s.abel[i] - want) > 1e-9 * A0 * rmax:
                    ck.violation(dict(site="StepAnalytical", clause="abel-pair"), dict(rep, x=x), f"abel {s.abel[i]:.12g} vs quadrature {want:.12g}")
                xg = abs(float(g.r[i]))
                wantg = los(lambda q: A0 * np.exp(-q * q / sigma ** 2), xg, xg + 12 * sigma)
                if abs(g.abel[i] - wantg) > 1e-9 * A0 * sigma:
                    ck.violation(dict(site="GaussianAnalytical", clause="abel-pair"), dict(rep, x=xg, n=ng), f"abel {g.abel[i]:.12g} vs quadrature {wantg:.12g}")
    # ---- Polynomial wrappers
    for _ in range(6 if not deep else 60):
        n = int(rng.integers(11, 60))            # odd and even (an even symmetric grid has no sample on the axis)
        rmax = float(rng.uniform(5, 30))
        c = rng.normal(size=int(rng.integers(1, 5)))
        rmin_, rmax_ = sorted(rng.uniform(0, rmax, size=2))
        r0, s_ = float(rng.uniform(0, rmax)), float(rng.uniform(0.5, 3))
        for sym in (True, False):
            ck.count(("S.polywrap", sym), suite="S.polynomial-wrappers")
            p = quiet(analytical.Polynomial, n, rmax, rmin_, rmax_, c, r_0=r0, s=s_, symmetric=sym,
                      reduced=bool(rng.integers(0, 2)))          # (`reduced` only rescales internally: same function, same transform)
            pw = quiet(analytical.PiecewisePolynomial, n, rmax, [(rmin_, rmax_, c, r0, s_), (0.0, rmin_, [1.0, 0.1])], symmetric=sym)
            if not (p.r.shape == p.func.shape == p.abel.shape == pw.func.shape == pw.abel.shape == (n,)):
                ck.violation(dict(site="analytical.Polynomial", clause="layout"), dict(n=n, symmetric=sym),
                             f"n={n}, symmetric={sym}: r has {p.r.shape[0]} positions, func / abel have {p.func.shape[0]} / {p.abel.shape[0]} "
                             f"(piecewise: {pw.func.shape[0]} / {pw.abel.shape[0]}) samples")
                continue
            f = lambda q: np.polyval(c[::-1], (q - r0) / s_) * ((q >= rmin_) & (q < rmax_))
            f2 = lambda q: f(q) + (1.0 + 0.1 * q) * ((q >= 0) & (q < rmin_))
            for i in rng.integers(0, n, size=3):
                x = abs(float(p.r[i]))
                sc = np.abs(c).sum() * max(1.0, (rmax / s_)) ** (len(c) - 1) * rmax
                w1 = los(f, x, rmax_, pts=[np.sqrt(rmin_ ** 2 - x * x)] if x < rmin_ else None)
                w2 = los(f2, x, rmax_, pts=[np.sqrt(rmin_ ** 2 - x * x)] if x < rmin_ else None)
                if abs(p.abel[i] - w1) > 1e-9 * sc or abs(p.func[i] - f(np.array(x))) > 1e-10 * sc:
                    ck.violation(dict(site="analytical.Polynomial", clause="abel-pair"), dict(n=n, c=c.tolist(), x=x, symmetric=sym),
                                 f"Polynomial wrapper: abel {p.abel[i]:.12g} vs quadrature {w1:.12g}")
                if abs(pw.abel[i] - w2) > 1e-9 * sc * 2:
                    ck.violation(dict(site="analytical.PiecewisePolynomial", clause="abel-pair"), dict(n=n, x=x, symmetric=sym),
                                 f"PiecewisePolynomial wrapper: abel {pw.abel[i]:.12g} vs quadrature {w2:.12g}")
    # ---- TransformPair profiles 1..7 at many radii
    rs = np.concatenate([np.linspace(0.01, 0.99, 23 if not deep else 199), rng.uniform(0.001, 0.999, size=10 if not deep else 200)])
    for k in range(1, 8):
        prof = getattr(transform_pairs, f"profile{k}")
        src = lambda q: float(prof(np.atleast_1d(min(max(float(q), 1e-12), 1 - 1e-12)))[0][0])
        brk = {1: [0.25, 0.5], 3: [0.5], 4: [0.7], 6: [], 7: []}.get(k, [])
        worst = 0.0
        for x in rs:
            ck.count(("S.pair", k, int(x * 10)), suite="S.transform-pairs")
            got = float(prof(np.atleast_1d(x))[1][0])
            pts = [np.sqrt(b * b - x * x) for b in brk if b > x]
            want = los(src, float(x), 1.0, pts=pts or None)
            worst = max(worst, abs(got - want))
            if abs(got - want) > 2e-9:
                ck.violation(dict(site="transform_pairs", profile=k, clause="abel-pair"), dict(profile=k, r=float(x), abel=got, quadrature=want),
                             f"profile{k}: projection at r={x:.4f} is {got:.10g}, Abel integral of its source is {want:.10g}")
                break
        ck.notes.append(f"profile{k}: max |abel - quadrature| = {worst:.2e}")
        # the functions take any array of radii: each value is answered in its own place, sorted or not
        rr = rng.uniform(0.01, 0.99, size=9)
        ss, pp = prof(rr)
        one = [prof(np.atleast_1d(v)) for v in rr]
        if not (np.array_equal(ss, [o[0][0] for o in one]) and np.array_equal(pp, [o[1][0] for o in one])):
            ck.violation(dict(site="transform_pairs", profile=k, clause="array-order"), dict(profile=k, r=rr.tolist()),
                         f"profile{k}(r) for an unsorted array r does not return the values of r[i] at position i")
        tp = quiet(analytical.TransformPair, 31, profile=k)
        if tp.r[0] != 0 or abs(tp.r[-1] - 1) > 1e-15 or abs(tp.dr - 1 / 30) > 1e-15:
            ck.violation(dict(site="TransformPair", clause="grid"), dict(profile=k), "TransformPair grid is not linspace(0, 1, n)")
    # ---- SampleImage
    names = ["Dribinski", "Gaussian", "Gerber", "O2", "Ominus"]
    sizes = [61, 100, 33] if not deep else [61, 100, 201, 361, 25, 33, 41]
    lattice = np.exp(np.log(1e-3) + (np.arange(12) + rng.uniform()) / 12 * (np.log(5e-2) - np.log(1e-3)))   # between the documented values too
    for name in names:          # (every name once with the width as a 0-d array: the objects below take it at random)
        arr = np.array(float(rng.uniform(1.5, 4.0)))
        keep = arr.copy()
        ck.count(("S.sample-sigma-type", name, "fixed"), suite="S.sample-images")
        try:
            sa = quiet(analytical.SampleImage, 41, name=name, sigma=arr)
            abel_a = np.array(sa.abel)
            sf = quiet(analytical.SampleImage, 41, name=name, sigma=float(keep))
            da = float(np.abs(abel_a - sf.abel).max()) / max(1.0, float(np.abs(sf.abel).max()))
            if not da <= 1e-6 or not np.array_equal(arr, keep):
                ck.violation(dict(site="SampleImage", clause="sigma-type", name=name), dict(name=name, n=41, sigma=float(keep), sigma_type="0-d array"),
                             f"SampleImage(41, {name!r}, sigma=np.array({float(keep)!r})): " + ("the caller's array was changed to %r" % arr if not np.array_equal(arr, keep)
                                                                                                else f"abel differs from that for the float by {da:.3g} of its maximum"))
        except Exception as e:
            ck.violation(dict(site="SampleImage", clause="exception", name=name), dict(name=name, sigma="0-d array"), f"{type(e).__name__}: {e}")
    # a tighter tolerance never gives a worse transform: tolerances far below the documented table (hundreds of parabolas per Gaussian)
    # against a moderate one — both are within their own tolerance of the truth, so they differ by at most the sum
    for name in ("Dribinski", "Gerber", "Ominus"):
        ck.count(("S.sample-tight-tol", name), suite="S.sample-images")
        try:
            s_ = quiet(analytical.SampleImage, 41, name=name, sigma=3.0)
            loose = np.array(quiet(s_.transform, 1e-5))
            for tt in ((1e-7, 3e-8) if not deep else (2e-7, 1e-7, 3e-8, 1e-8)):
                tight = np.array(quiet(s_.transform, tt))
                amp_ = float(np.abs(loose).max())
                d_ = float(np.abs(tight - loose).max())
                if not d_ <= 1.01 * (1e-5 + tt) * amp_:
                    ck.violation(dict(site="SampleImage", clause="tighter-tolerance-worse", name=name), dict(name=name, n=41, sigma=3.0, tol=tt, difference=d_),
                                 f"SampleImage(41, {name!r}, sigma=3).transform({tt:g}) differs from transform(1e-5) by {d_ / amp_:.3g} of the maximum — more than both tolerances together")
                # … and is itself within the requested tolerance of the line-of-sight integral of the source (one row and one column of
                # pixels by quadrature): a request below the documented table is honoured, not clamped
                F_ = peak_source(s_, name)
                reach_ = max([s_.r_max * 1.5 + 20] + [r0 * s_._scale + 8 * w for A_, r0, w, cn in s_._peaks])
                px_ = [(20, j) for j in range(20, 41, 2)] + [(i, 26) for i in range(0, 41, 4)]
                for (i, j) in px_:
                    y_, x_ = float(s_.r[i]), abs(float(s_.r[j]))
                    want_ = los(lambda q: float(F_(np.array(y_), np.array(q))), x_, reach_)
                    ck.count(("S.sample-tight-tol-quadrature", name, tt), suite="S.sample-images")
                    if abs(tight[i, j] - want_) > 1.01 * tt * amp_ + 1e-10 * amp_:
                        ck.violation(dict(site="SampleImage", clause="abel-pair-tight-tolerance", name=name),
                                     dict(name=name, n=41, sigma=3.0, tol=tt, pixel=[i, j], abel=float(tight[i, j]), quadrature=want_),
                                     f"SampleImage(41, {name!r}, sigma=3).transform({tt:g})[{i},{j}] = {tight[i, j]:.12g}, projection of func = {want_:.12g}: "
                                     f"off by {abs(tight[i, j] - want_) / amp_:.3g} of the maximum, tolerance requested {tt:g}")
                        break
        except Exception as e:
            ck.violation(dict(site="SampleImage", clause="exception", name=name), dict(name=name, tol="tight"), f"{type(e).__name__}: {e}")
    for name in names:
      for n in sizes:
        for rep_i in range(1 if name in ("Gaussian", "O2") else 3):
            kw = {}
            if rng.random() < 0.5 or rep_i:
                kw["sigma"] = float(rng.uniform(1.5, max(4.0, n / 12)))        # up to peaks that are wide compared with the image
                if rep_i == 1 and name not in ("Gaussian", "O2"):
                    kw["sigma"] = float(rng.uniform(n / 6, n / 3))             # … and far wider: the outer segments of the approximated
                                                                               # Gaussians then start beyond the corner of the image
            if name == "Ominus":
                kw["temperature"] = float(rng.choice([100, 200, 600]))
            tol = float([rng.choice([4.8e-3, 1e-3, 1.4e-2]), rng.choice(lattice), np.exp(rng.uniform(np.log(1e-3), np.log(5e-2)))][rep_i])
            ck.count(("S.sample", name, n % 2, "sigma" in kw), suite="S.sample-images")
            rep = dict(name=name, n=n, tol=tol, **kw)
            try:
                if "sigma" in kw and rep_i != 2:
                    # the width may be given as any number-like object: a 0-d array or a NumPy scalar is the same width as its float, and is
                    # the caller's (repair F67: the O2 image doubled it in place — wrong transform, changed argument)
                    arr = [np.array(kw["sigma"]), np.array(kw["sigma"]), np.float32(kw["sigma"]), np.float64(kw["sigma"])][int(rng.integers(0, 4))]
                    keep = np.array(arr, copy=True)
                    sa = quiet(analytical.SampleImage, n, name=name, **dict(kw, sigma=arr))
                    sf = quiet(analytical.SampleImage, n, name=name, **dict(kw, sigma=float(keep.ravel()[0])))
                    ck.count(("S.sample-sigma-type", name, type(arr).__name__, np.ndim(arr)), suite="S.sample-images")
                    da = float(np.abs(np.asarray(sa.abel) - sf.abel).max()) / max(1.0, float(np.abs(sf.abel).max()))
                    df = float(np.abs(np.asarray(sa.func) - sf.func).max()) / max(1.0, float(np.abs(sf.func).max()))
                    if not (da <= 1e-6 and df <= 1e-6) or not np.array_equal(arr, keep):
                        ck.violation(dict(site="SampleImage", clause="sigma-type", name=name), dict(rep, sigma_type=f"{type(arr).__name__}, ndim {np.ndim(arr)}"),
                                     f"SampleImage({n}, {name!r}, sigma={arr!r}): " + ("the caller's sigma object was changed" if not np.array_equal(arr, keep) else
                                                                                         f"func / abel differ from those for the float by {df:.3g} / {da:.3g} of their maximum"))
                s = quiet(analytical.SampleImage, n, name=name, **kw)
                if rng.random() < 0.5 and rep_i == 0:
                    _ = s.abel                       # a first transform with the default tolerance must not fix later ones
                    tol = 1e-5                       # far tighter than the default 4.8e-3 the first transform used
                if rep_i == 2 and n == sizes[0]:
                    # the tolerance at which this image's transform is worst relative to tol, located on a dense lattice with a much
                    # finer approximation as the yardstick (the verdict below is by quadrature at that tolerance and pixel)
                    fine0 = quiet(s.transform, 1e-7)
                    dense = np.exp(np.log(1e-3) + (np.arange(60) + rng.uniform()) / 60 * (np.log(5e-2) - np.log(1e-3)))
                    ratios = [np.abs(quiet(s.transform, float(t)) - fine0).max() / t for t in dense]
                    tol = float(dense[int(np.argmax(ratios))])
                    rep["tol"] = tol
                    ck.count(("S.sample-tol-scan", name), suite="S.sample-images")
                ab = quiet(s.transform, tol)
            except Exception as e:
                ck.violation(dict(site="SampleImage", clause="exception", name=name), rep, f"{type(e).__name__}: {e}")
                continue
            f_img = s.func
            if f_img.shape != (n, n) or ab.shape != (n, n) or np.abs(f_img - f_img[::-1]).max() > 0 or np.abs(f_img - f_img[:, ::-1]).max() > 0 \
                    or np.abs(ab - ab[:, ::-1]).max() > 0 or abs(s.dr - 1) > 1e-12 or np.abs(s.r + s.r[::-1]).max() > 1e-12:
                ck.violation(dict(site="SampleImage", clause="layout", name=name), rep, "image layout / r grid not symmetric")
            # analytic source from the class's own peak table (ties `func` to it, then integrates it)
            sc = s._scale

            def F(y, rho):
                R = np.hypot(y, rho)
                cos = np.divide(-y, R, out=np.zeros_like(R), where=R > 0) * -1
                tot = 0.0
                for A, r0, w, cn in s._peaks:
                    A_ = A(R) if callable(A) else A
                    if name == "O2":
                        d = np.abs(R - r0 * sc) / (2 * w)
                        ring = np.where(d > 1, 0.0, 1 - (3 - 2 * d) * d ** 2)
                    else:
                        ring = np.exp(-((R - r0 * sc) / w) ** 2)
                    tot = tot + A_ * ring * sum(c * cos ** k for k, c in enumerate(cn))
                return tot
            rr = s.r
            test_px = [(int(rng.integers(0, n)), int(rng.integers(0, n))) for _ in range(4 if not deep else 12)]
            exact = name in ("Gaussian", "O2")
            c0 = n // 2
            if exact:       # where peaks overlap the origin, and along the axes
                test_px = [(c0, c0), (c0, min(n - 1, c0 + 2)), (max(0, c0 - 3), c0), (c0 - c0 // 3, c0 + c0 // 4)] + test_px
            else:           # the pixel where this tolerance matters most, located with a much finer approximation; judged by quadrature
                fine = quiet(s.transform, 1e-7)
                test_px = [tuple(int(v) for v in np.unravel_index(np.argmax(np.abs(ab - fine)), ab.shape))] + test_px[:2 if not deep else 6]
            amp = float(np.abs(ab).max())
            peaks_amp = sum(abs(A if not callable(A) else 1.0) * np.abs(cn).sum() for A, r0, w, cn in s._peaks)
            for (i, j) in test_px:
                y, x = float(rr[i]), abs(float(rr[j]))
                want_f = float(F(np.array(y), np.array(x)))
                if abs(f_img[i, j] - want_f) > 1e-9 * max(1.0, peaks_amp):
                    ck.violation(dict(site="SampleImage", clause="func-definition", name=name), dict(rep, pixel=[i, j]),
                                 f"func[{i},{j}] = {f_img[i, j]:.10g} but the peak table gives {want_f:.10g}")
                    break
                brk = None
                if name == "O2":          # compact piecewise-cubic rings: tell the integrator where the pieces meet
                    radii = sorted({rb for A_, r0, w, cn in s._peaks for rb in (r0 * sc - 2 * w, r0 * sc, r0 * sc + 2 * w) if rb > 0})
                    brk = sorted({float(np.sqrt(rb * rb - y * y - x * x)) for rb in radii if rb * rb > y * y + x * x}) or None
                reach = max([s.r_max * 1.5 + 20] + [r0 * sc + 8 * w for A_, r0, w, cn in s._peaks])     # beyond every peak's tail, however broad
                want = los(lambda q: float(F(np.array(y), np.array(q))), x, reach, pts=brk)
                # SampleImage.transform: "tol: relative tolerance of the approximation (max. deviation divided by max. amplitude) …;
                # the resulting Abel transform is somewhat more accurate" — so within tol of the amplitude of the transform
                bound = 1e-8 * max(1.0, abs(want)) * max(1.0, (n / 100.0) ** 2) if exact else 1.01 * tol * amp + 1e-8 * max(1.0, abs(want))
                if abs(ab[i, j] - want) > bound:
                    ck.violation(dict(site="SampleImage", clause="abel-pair", name=name), dict(rep, pixel=[i, j], abel=float(ab[i, j]), quadrature=want),
                                 f"{name} n={n}: abel[{i},{j}] = {ab[i, j]:.10g}, projection of func = {want:.10g} (allowed {bound:.3g})")
                    break


def run(tier):
    ck = Check("C11", tier)
    deep = tier == "thorough"
    ck.cov["rule"] = ("K: 80 (thorough 800) random StepAnalytical / GaussianAnalytical objects (n odd/even, symmetric or not) vs the closed "
                      "forms of the theorems. S: scipy line-of-sight quadrature of func vs abel: Step/Gaussian, Polynomial wrappers, "
                      "TransformPair profiles 1-7 at 33 (thorough 399) radii each, SampleImage 5 names x sizes {61,100} (thorough ..361) "
                      "x sigma / temperature / tol at random pixels (exact for Gaussian and O2, within 1.05·tol·ΣA·chord otherwise); "
                      "grid and layout facts. distinct = (suite, class/profile/name, parity/decile)")
    ck.cov["trusted_base"] = ["Lean 4.33 kernel", "axioms propext/Classical.choice/Quot.sound",
                              "theorems cover StepAnalytical, GaussianAnalytical and TransformPair profiles 1-7 (as real functions; tied to the "
                              "code by evaluating the Lean expressions in Float next to the shipped functions); the "
                              "sample images are quadrature-backed",
                              "sample images: the source function is rebuilt from the class's own peak table (checked against `func` at the "
                              "tested pixels) and integrated by scipy quad", "ApproxGaussian deviation bound (C10, measured)"]
    ck.cov["unproved_clauses"] = ["SampleImage within tolerance (quadrature)"]
    ck.cov["source_fingerprint"] = source_fingerprint(["abel/tools/analytical.py", "abel/tools/transform_pairs.py"])
    ck.proofs("PyAbel.Props.C11")
    ck.proofs("PyAbel.Props.C11Profiles")
    ck.proofs("PyAbel.Props.C11Profile6")
    correspondence(ck, tier)
    oracle(ck, tier, deep or bool(ck.broken))
    return ck.finish()


def replay(path):
    rec = json.loads(open(path).read())
    print(json.dumps(rec, indent=1, default=str)[:3000])
    return 1
