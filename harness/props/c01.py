"""
C01 — inverse transforms recover the true source of a smooth projection.

proofs : lean/PyAbel/Props/C01.lean
           inverse_error_le               reconstruction error ≤ ‖T‖∞ · consistency error, for every exact inverse pair (T, A)
           step_profile_recovered_exactly daun degree 0 / onion peeling invert the *true* projection (the Abel integral, via
                                          C09.daun0_eq_abel) of every piecewise-constant source exactly, every size
           exact_projection_recovered_within  a-priori envelope: from the true projection of an L-Lipschitz source, any exact inverse T
                                          of the degree-0 forward matrix returns the samples within ‖T_i‖₁ · L · (n − ½), every size/pixel
         lean/PyAbel/Props/C01Rbasex.lean
           rbasex_inverse_exact           from the true line-of-sight integrals of Σ c_R b_R(ρ)(r/ρ)ⁿ (radially piecewise linear, any angular
                                          order) the triangular solve with rBasex's P[n] returns the coefficients c_R exactly, every Rmax
         (with C03: every exact method inverts its own forward operator; with C09: the operators are Abel integrals of
          their basis functions)
K      : the Lean operator models vs the arrays the implementation builds (methods.corr_operators)
S      : accuracy envelope, independent of PyAbel: closed-form Abel pairs (Gaussian sums, bumps) and Gauss–Legendre
         line-of-sight projections (rings, cos² rings as images), every method x documented option x family x size x dr x
         3 rows of different amplitude; the error relative to the peak, away from axis and edge, must stay within 2x the
         value frozen from the repaired pinned tree (harness/baselines/envelopes.json), below GROSS=0.5 anywhere, and must
         not grow (x1.25 + 1e-8) when the same physical distribution is sampled more finely.
The envelope itself is a measured quantity (floating point + discretisation), so the claim is partial: the theorems carry the
exactness/stability skeleton, the numbers come from S.
"""
import json

from harness.common import Check, source_fingerprint
from harness.methods import corr_operators
from harness import envelopes

PROP, DIRECTION, MODULE = "C01", "inverse", "PyAbel.Props.C01"
FILES = ["abel/basex.py", "abel/dasch.py", "abel/daun.py", "abel/direct.py", "abel/hansenlaw.py", "abel/linbasex.py",
         "abel/onion_bordas.py", "abel/rbasex.py", "abel/transform.py", "abel/tools/polynomial.py"]


def run(tier, prop=PROP, module=MODULE, files=FILES):
    ck = Check(prop, tier)
    deep = tier == "thorough"
    sizes = [25, 51, 101, 201, 301] if deep else [25, 51, 101]
    drs = (1.0, 0.5)
    ck.cov["rule"] = (f"K: Lean operator matrices vs implementation arrays, entrywise. S: every method/option set of harness/envelopes.half_cases "
                      f"x families gauss/bump/ring x n in {sizes} x dr in {drs} x 3 rows; image methods (rbasex incl. explicit origin, linbasex) on "
                      f"cos² rings b in {{0,1.5}} for n ≤ 101 in two radial zones; envelope = 2 x frozen baseline, gross = 0.5, refinement "
                      f"factor {envelopes.REFINE} + {envelopes.REFINE_FLOOR}. distinct = case keys")
    ck.cov["trusted_base"] = ["Lean 4.33 kernel", "axioms propext/Classical.choice/Quot.sound",
                              "the accuracy envelope is measured against closed forms / scipy-free Gauss–Legendre quadrature, not proved",
                              "baseline harness/baselines/envelopes.json frozen from the repaired pinned tree",
                              "floating-point evaluation, numpy/scipy linear algebra"]
    ck.cov["unproved_clauses"] = ["numerical value of each method's envelope (measured)", "monotone error under refinement (measured)",
                                  "hansenlaw, direct, onion_bordas (models in C04, no accuracy theorem), basex, linbasex: oracle only; rbasex: radial matrices "
                                  "modelled and proved equal to their integrals (C09Rbasex), the image-level pipeline is oracle only"]
    ck.cov["source_fingerprint"] = source_fingerprint(files)
    ck.proofs(module)
    if prop == "C01":
        ck.proofs("PyAbel.Props.C01Rbasex")          # rBasex inverse recovers the coefficients of its own function space from exact projections
        ck.proofs("PyAbel.Props.C01Dasch")           # two-/three-point = exact (textbook) inverse Abel integral of the interpolant of the samples
    if prop == "C02":
        ck.proofs("PyAbel.Props.C02Rbasex")          # rBasex forward is exact on radially piecewise-linear distributions, every order
    corr_operators(ck, tier)
    measured = envelopes.measure(sizes, dr_values=drs, direction="inverse" if prop == "C01" else "forward")
    envelopes.compare(ck, measured, envelopes.load_baseline(), prop)
    # seeded stream: any size 25..300, any width ≥ 6 px, any dr, 1-4 rows; bound = 3 x the worst frozen case of the method/family
    import numpy as np
    from harness.common import seed
    direction = "inverse" if prop == "C01" else "forward"
    base = envelopes.load_baseline()
    rng = np.random.default_rng(seed() * 7919 + (1 if prop == "C01" else 2))
    dist = {}
    for rec in envelopes.measure_random(rng, 1500 if deep or ck.broken else 150, direction):
        ck.count(("R", rec["method"], rec["fam"], rec["n"] // 50, rec["dr"]), suite="S.random")
        dist[rec["fam"]] = dist.get(rec["fam"], 0) + 1
        wb = envelopes.worst_baseline(base, direction, rec["method"], rec["fam"])
        site = rec["method"].split("/")[0]
        if rec.get("int_vs_float", 0.0) > 1e-12:
            ck.violation(dict(site=site, clause="integer-data", direction=direction), rec,
                         f"{rec['method']}: integer counts are transformed differently from the same counts as float64 (relative {rec['int_vs_float']:.3g})")
        if isinstance(rec["error"], str):
            ck.violation(dict(site=site, clause="exception", direction=direction), rec, f"{rec['method']} raised {rec['error']}")
        elif wb is not None and not rec["error"] <= max(3.0 * wb, envelopes.FLOOR):
            ck.violation(dict(site=site, clause="envelope-random", direction=direction), dict(rec, bound=3.0 * wb),
                         f"{rec['method']} on a {rec['fam']} n={rec['n']} dr={rec['dr']}: error {rec['error']:.3g} of the peak, "
                         f"worst frozen case of this method/family {wb:.3g}")
    # the radial grid may be given in any unit of length (pixels, micrometres, metres): the error relative to the peak is the same,
    # and the absolute scale follows the unit (closed-form Gaussian pair on uniform and stretched explicit grids, `direct`)
    import abel
    from harness.methods import quiet
    for n_ in (61, 101):
        i_ = np.arange(n_, dtype=float)
        # (offset: a grid that does not start on the axis — every sample, the first included, is an ordinary one; drifting: a step that
        #  grows by 0.07 % per sample is not a uniform grid, however slowly it drifts)
        for gname, rpx in (("uniform", i_ * 0.8), ("stretched", i_ * (1 + 0.004 * i_)), ("offset", 0.3 * n_ + i_ * 0.8), ("offset-stretched", 8.0 + i_ * (1 + 0.004 * i_)),
                           ("drifting", np.concatenate([[0.0], np.cumsum(1.0007 ** np.arange(3 * n_ - 1))]))):
            wpx = rpx[-1] / 4
            lo_ = 0 if gname.startswith("offset") else 2
            errs = {}
            for unit in (1.0, 1e-6, 1e-3, 1e4, 1e-13, 1e-16):
                r_, w_ = rpx * unit, wpx * unit
                src = np.exp(-(r_ / w_) ** 2)
                prj = np.sqrt(np.pi) * w_ * src
                ck.count(("S.units", gname, n_, unit), suite="S.units")
                try:
                    if direction == "forward":
                        got = quiet(abel.direct.direct_transform, src, r=r_, direction="forward", backend="python")
                        errs[unit] = float(np.abs(got - prj)[lo_:-4].max() / prj.max())
                    else:
                        got = quiet(abel.direct.direct_transform, prj, r=r_, direction="inverse", backend="python")
                        errs[unit] = float(np.abs(got - src)[lo_:-4].max() / src.max())
                except Exception as e:
                    ck.violation(dict(site="direct", clause="exception", direction=direction), dict(grid=gname, n=n_, unit=unit), f"{type(e).__name__}: {e}")
            # (deterministic cases; the repaired pinned tree gives at most 0.009, on the drifting grid 0.0025)
            if errs and (max(errs.values()) - min(errs.values()) > 1e-6 or max(errs.values()) > (0.006 if gname == "drifting" else 0.02)):
                worst_u = max(errs, key=errs.get)
                ck.violation(dict(site="direct", clause="length-unit", direction=direction), dict(grid=gname, n=n_, errors={str(k): v for k, v in errs.items()}),
                             f"direct {direction} of a Gaussian on the {gname} explicit grid: error relative to the peak is {errs[worst_u]:.3g} with the grid in units of "
                             f"{worst_u:g}, {min(errs.values()):.3g} in another unit (allowed: the same in every unit and at most {0.006 if gname == 'drifting' else 0.02})")
    ck.notes.append(f"random stream families: {dist}")
    worst = sorted(((v, k) for k, v in measured.items() if k.startswith(("inverse" if prop == "C01" else "forward") + "|") and isinstance(v, float)),
                   reverse=True)[:5]
    ck.notes.append("largest errors: " + "; ".join(f"{k}: {v:.3g}" for v, k in worst))
    for v, k in worst[:3]:
        ck.sample(dict(suite="S.envelope", case=k, error=v))
    return ck.finish()


def replay(path):
    rec = json.loads(open(path).read())
    print(json.dumps(rec, indent=1, default=str)[:3000])
    case = rec.get("replay", {}).get("case")
    if case and "|n=" in case:
        import abel
        print("re-measured:", envelopes.replay_case(case), "baseline:", envelopes.load_baseline().get(case))
    return 1
