"""
C16 — rBasex image, distributions and output shapes describe one transform.

proofs : lean/PyAbel/Props/C16.lean (synthesis: interpolation nodes, linear fall to zero between rmax and rmax+1, zero
         beyond, linearity; the five output frames: same = input shape and origin, full = centred (2 rmax+1)-square,
         full-unique / fold = unique parts of full / unfold)
K      : rbasex_transform(...)[0] for every `out` vs the Lean synthesis of the *returned* distributions (this is the
         property's first clause, evaluated by the model)
S      : identical distributions for all out values and None; unfold = mirror-unfolding of fold; zero-weight pixels; invalid
         radii flagged and zero; abel.Transform(method='rbasex') pass-through; an independent numpy synthesis; order 0 ignores `odd`
"""
import json

import numpy as np

from harness.common import Check, arr2h, drive, ensure_driver, h2arr, seed, source_fingerprint
from harness.methods import quiet

OUTS = ["same", "full", "full-unique", "fold", "unfold"]
RMAX = ["hor", "ver", "HOR", "VER", "min", "max", "MIN", "MAX", "all"]


def decode_origin(o, h, w):
    if not isinstance(o, str):
        return (o[0] % h, o[1] % w)
    v, hz = ("c", "c") if o == "center" else (o[0], o[1]) if len(o) == 2 else tuple(s[0] for s in o.split())
    return ({"t": 0, "u": 0, "c": h // 2, "b": h - 1, "l": h - 1}[v], {"l": 0, "c": w // 2, "r": w - 1}[hz])


def random_case(rng):
    h, w = (int(v) for v in rng.integers(7, 28, size=2))
    origin = [(int(rng.integers(0, h)), int(rng.integers(0, w))), "center", "cc", "ll", "ur", "cl", "top center",
              (int(rng.integers(-h, 0)), int(rng.integers(-w, 0)))][int(rng.integers(0, 8))]
    rmax = RMAX[int(rng.integers(0, 9))] if rng.random() < 0.6 else int(rng.integers(3, 14))
    order = int(rng.integers(0, 5))
    odd = bool(rng.integers(0, 2)) or order % 2 == 1
    if order == 0:
        odd = False
    direction = ["inverse", "forward"][int(rng.integers(0, 2))]
    reg = [None, None, ("L2", 2.0), ("diff", 1.0), ("SVD", 0.2), "pos"][int(rng.integers(0, 6))] if direction == "inverse" else None
    if reg == "pos" and odd and order > 1:
        reg = None
    wt = None
    if rng.random() < 0.5:
        wt = rng.random((h, w)) + 0.2
        if rng.random() < 0.6:
            wt[rng.random((h, w)) < 0.25] = 0
    return dict(shape=(h, w), origin=origin, rmax=rmax, order=order, odd=odd, direction=direction, reg=reg, weights=wt)


def call(case, im, out):
    import abel
    return quiet(abel.rbasex.rbasex_transform, im, origin=case["origin"], rmax=case["rmax"], order=case["order"], odd=case["odd"],
                 weights=case["weights"], direction=case["direction"], reg=case["reg"], out=out)


def show(case):
    return {k: (list(v) if isinstance(v, tuple) else ("array" if isinstance(v, np.ndarray) else v)) for k, v in case.items()}


def correspondence(ck, tier):
    rng = np.random.default_rng(seed() + 16)
    n = 60 if tier == "quick" else 600
    for it in range(n):
        case = random_case(rng)
        h, w = case["shape"]
        im = rng.random((h, w))
        row, col = decode_origin(case["origin"], h, w)
        for out in OUTS:
            ck.count(("K.image", out, case["odd"], case["order"], type(case["rmax"]).__name__, case["direction"]), suite="K.image")
            try:
                recon, distr = call(case, im, out)
            except Exception as e:
                ck.disagree("K.image", dict(show(case), out=out), f"{type(e).__name__}: {e}")
                break
            cn = distr.cos()
            N = cn.shape[0]
            line = f"rbimg {out} {h} {w} {row} {col} {case['rmax']} {int(case['odd'])} {N} {arr2h(cn)}"
            rep = drive([line])[0].split()
            if rep[0] != "ok":
                ck.disagree("K.image", dict(show(case), out=out), "model: " + " ".join(rep[:6]))
                break
            m = h2arr(rep[3:]).reshape(int(rep[1]), int(rep[2]))
            if m.shape != recon.shape:
                ck.disagree("K.image", dict(show(case), out=out), f"shape: implementation {recon.shape}, model {m.shape}")
                ck.violation(dict(site="rbasex_transform", clause="out-shape", out=out), dict(show(case), out=out),
                             f"out='{out}' returned shape {recon.shape}; the frame of this output is {m.shape}") if out in ("same", "full") else None
                break
            d = np.abs(m - recon).max()
            if d > 1e-11 * max(1.0, np.abs(cn).max()):
                ck.disagree("K.image", dict(show(case), out=out), f"image differs from the synthesis of its own distributions by {d:.3g}")
                ck.violation(dict(site="rbasex_transform", clause="image=synthesis(distributions)", out=out), dict(show(case), out=out, image=im.tolist()),
                             f"out='{out}': the image is not the synthesis of the returned distributions (off by {d:.3g})")
                break
    ck.sample(dict(suite="K.image", case=show(case)))


def numpy_synthesis(cn, rmax, odd, shape, origin):
    yy, xx = np.mgrid[:shape[0], :shape[1]]
    y, x = origin[0] - yy, xx - origin[1]
    r = np.hypot(x, y)
    cos = np.divide(y, r, out=np.zeros_like(r), where=r > 0)
    orders = range(cn.shape[0]) if odd else range(0, 2 * cn.shape[0], 2)
    rr = np.arange(rmax + 3)
    out = 0
    for c, n in zip(cn, orders):
        cz = np.concatenate([c, [0, 0]])
        out = out + np.interp(r, rr, cz, right=0) * cos ** n
    return out


def oracle(ck, tier, deep):
    import abel
    rng = np.random.default_rng(seed() + 1616)
    for it in range(50 if not deep else 600):
        case = random_case(rng)
        h, w = case["shape"]
        im = rng.random((h, w))
        row, col = decode_origin(case["origin"], h, w)
        if it % 3 == 1:
            # weights that blank out a whole ring of radii about the origin (radii without data, flagged invalid): whatever a regulariser
            # fills in there is in the image and in the distributions alike
            yy_, xx_ = np.indices((h, w))
            rr_ = np.hypot(yy_ - row, xx_ - col)
            a_ = float(rng.uniform(2, 6))
            wt_ = np.ones((h, w)) if case["weights"] is None else case["weights"].copy()
            wt_[(rr_ > a_) & (rr_ < a_ + 2.6)] = 0
            case = dict(case, weights=wt_)
            if case["direction"] == "inverse" and case["reg"] in (None, "pos"):
                case["reg"] = [("L2", 2.0), ("diff", 1.0), None][it % 9 // 3]
        ck.count(("S.rbasex", case["odd"], case["order"], case["direction"], str(case["reg"])[:6], case["weights"] is None), suite="S.outputs")
        rep = show(case)
        sig = dict(site="rbasex_transform")
        try:
            res = {o: call(case, im, o) for o in OUTS + [None]}
        except Exception as e:
            ck.violation(dict(sig, clause="exception"), rep, f"{type(e).__name__}: {e}")
            continue
        cn = res["same"][1].cos()
        if not np.all(np.isfinite(cn)):
            # (truncated-SVD regularisation keeps more singular values than there are radii with data when most of the disk is
            #  masked or beyond the frame: 1/0 in the library, everything NaN — a degenerate request, nothing to compare)
            ck.notes.append(f"non-finite distributions for {show(case)}: skipped")
            continue
        rmax = cn.shape[1] - 1
        scale = max(1.0, np.abs(cn).max())
        for o in OUTS + [None]:
            if not np.array_equal(res[o][1].cos(), cn) or not np.array_equal(res[o][1].valid, res["same"][1].valid):
                ck.violation(dict(sig, clause="same-distributions", out=str(o)), rep, f"out={o!r} returned different distributions than out='same'")
        if res[None][0] is not None:
            ck.violation(dict(sig, clause="out-None"), rep, "out=None returned an image")
        same, full, fu, fold, unfold = (res[o][0] for o in OUTS)
        if same.shape != (h, w):
            ck.violation(dict(sig, clause="out-shape", out="same"), rep, f"out='same' shape {same.shape} != input {(h, w)}")
        if full.shape != (2 * rmax + 1, 2 * rmax + 1):
            ck.violation(dict(sig, clause="out-shape", out="full"), rep, f"out='full' shape {full.shape} != {(2 * rmax + 1,) * 2}")
        else:
            ref = numpy_synthesis(cn, rmax, case["odd"], full.shape, (rmax, rmax))
            if np.abs(ref - full).max() > 1e-10 * scale:
                ck.violation(dict(sig, clause="image=synthesis(distributions)", out="full"), rep, f"'full' differs from an independent synthesis by {np.abs(ref - full).max():.3g}")
            part = full[:, rmax:] if case["odd"] else full[:rmax + 1, rmax:]
            if fu.shape != part.shape or np.abs(fu - part).max() > 1e-12 * scale:
                ck.violation(dict(sig, clause="full-unique"), rep, "'full-unique' is not the unique part of 'full'")
        if same.shape == (h, w):
            ref = numpy_synthesis(cn, rmax, case["odd"], (h, w), (row, col))
            if np.abs(ref - same).max() > 1e-10 * scale:
                ck.violation(dict(sig, clause="image=synthesis(distributions)", out="same"), rep, f"'same' differs from an independent synthesis about the input's origin by {np.abs(ref - same).max():.3g}")
        mirror = np.hstack((fold[:, :0:-1], fold)) if case["odd"] else \
            np.vstack((np.hstack((fold[:, :0:-1], fold)), np.hstack((fold[:, :0:-1], fold))[-2::-1]))
        if unfold.shape != mirror.shape or np.abs(unfold - mirror).max() > 1e-12 * scale:
            ck.violation(dict(sig, clause="unfold=mirror(fold)"), rep, "'unfold' is not the mirror-unfolding of 'fold'")
        # zero-weight pixels have no influence
        if case["weights"] is not None and (case["weights"] == 0).any():
            im2 = np.where(case["weights"] == 0, [50 * rng.random((h, w)), np.nan, np.inf][it % 3], im)      # (masked bad pixels: NaN / inf too)
            try:
                cn2 = call(case, im2, None)[1].cos()
            except Exception as e:
                ck.violation(dict(sig, clause="zero-weight"), rep, f"with other values under the zero-weight pixels the call raised {type(e).__name__}: {e}")
                continue
            if not (np.abs(cn2 - cn).max() <= 1e-9 * scale):
                ck.violation(dict(sig, clause="zero-weight"), rep, f"changing zero-weight pixels changed the distributions by {np.abs(cn2 - cn).max():.3g}")
        # radii without valid data are flagged, and zero in unregularised transforms
        valid = np.asarray(res["same"][1].valid, bool)
        if case["weights"] is not None:
            yy, xx = np.mgrid[:h, :w]
            rr = np.hypot(yy - row, xx - col)
            for R in range(rmax + 1):
                touched = (case["weights"][(rr > R - 1) & (rr < R + 1)] > 0).any()
                if not touched and valid[R]:
                    ck.violation(dict(sig, clause="valid-flag"), dict(rep, radius=R), f"radius {R} has no weighted pixel but is flagged valid")
        if case["reg"] is None and not valid.all() and np.abs(cn[:, ~valid]).max() != 0:
            ck.violation(dict(sig, clause="invalid-zero"), rep, "invalid radii are not zero in an unregularised transform")
        # the weights array edited in place between two calls: the second call describes the edited weights
        if case["weights"] is not None and it % 2 == 0:
            yy, xx = np.mgrid[:h, :w]
            rr = np.hypot(yy - row, xx - col)
            a = float(rng.uniform(2, max(3, rmax - 3)))
            wlive = case["weights"]
            keep = wlive.copy()
            wlive[(rr > a) & (rr < a + 3)] = 0            # in place: same object as in the previous calls
            try:
                img_l, d_l = call(case, im, "same")
                abel.rbasex.cache_cleanup()
                img_f, d_f = call(dict(case, weights=wlive.copy()), im, "same")
                if np.abs(d_l.cos() - d_f.cos()).max() > 1e-9 * scale or not np.array_equal(np.asarray(d_l.valid), np.asarray(d_f.valid)) \
                        or np.abs(img_l - img_f).max() > 1e-9 * scale:
                    ck.violation(dict(sig, clause="weights-edited-in-place"), dict(rep, ring=[a, a + 3]),
                                 "after the weights array was edited in place, the transform (image / distributions / valid flags) "
                                 "is not the transform for the edited weights")
            finally:
                wlive[...] = keep
        # abel.Transform pass-through
        if it % 3 == 0 and not isinstance(case["origin"], str):
            opts = dict(origin=case["origin"], rmax=case["rmax"], order=case["order"], odd=case["odd"], weights=case["weights"], reg=case["reg"], out="same")
            t = quiet(abel.Transform, im, method="rbasex", direction=case["direction"], transform_options=opts)
            if not (np.array_equal(t.transform, same) and np.array_equal(t.distr.cos(), cn)):
                ck.violation(dict(site="Transform", clause="rbasex-pass-through"), rep, "abel.Transform(method='rbasex') differs from rbasex_transform")


def oracle_histories(ck, tier, deep):
    """the image equals the synthesis from the returned distributions also when the previous call on the same frame (same shape,
    origin and output geometry) used a smaller rmax, a lower order or the other parity — with no cache_cleanup() in between"""
    import abel
    rng = np.random.default_rng(seed() + 161616)
    for it in range(10 if not deep else 80):
        h, w = (int(v) for v in rng.integers(21, 36, size=2))
        origin = (int(rng.integers(8, h - 8)), int(rng.integers(8, w - 8)))
        im = rng.random((h, w))
        out = ["same", "full"][int(rng.integers(0, 2))]
        direction = ["inverse", "forward"][int(rng.integers(0, 2))]
        steps = [(int(rng.integers(5, 8)), 2, False), (int(rng.integers(8, 8 + min(origin[0], origin[1], h - 1 - origin[0], w - 1 - origin[1]) - 7)), 2, False),
                 (7, 4, False), (7, 3, True), (6, 2, False)]
        abel.rbasex.cache_cleanup()
        for si, (rmax, order, odd) in enumerate(steps):
            ck.count(("S.history", out, direction, si), suite="S.outputs")
            rep = dict(shape=[h, w], origin=list(origin), out=out, direction=direction, session=[list(s) for s in steps[:si + 1]])
            try:
                img, d = quiet(abel.rbasex.rbasex_transform, im, origin=origin, rmax=rmax, order=order, odd=odd, direction=direction, out=out)
            except Exception as e:
                ck.violation(dict(site="rbasex_transform", clause="exception"), rep, f"{type(e).__name__}: {e}")
                break
            cn = d.cos()
            o = origin if out == "same" else (rmax, rmax)
            ref = numpy_synthesis(cn, rmax, odd, img.shape, o)
            if img.shape != ref.shape or np.abs(img - ref).max() > 1e-9 * max(1.0, np.abs(ref).max()):
                ck.violation(dict(site="rbasex_transform", clause="image=synthesis-after-other-calls"), rep,
                             f"call {si} (rmax={rmax}, order={order}, odd={odd}) of a session on one frame: the image differs from the synthesis of its "
                             f"own distributions by {np.abs(img - ref).max() if img.shape == ref.shape else 'shape'}")
                break
    abel.rbasex.cache_cleanup()


def oracle_order0(ck, tier):
    """order 0 has no odd terms: `odd=True` passed along with it (a script looping over orders with a fixed flag) is the same request
    as `odd=False` — the same image for every `out`, the same distributions, in both directions"""
    import abel
    rng = np.random.default_rng(seed() + 1616)
    for it in range(6 if tier == "quick" else 40):
        h, w = (int(v) for v in rng.integers(7, 22, size=2))
        im = rng.random((h, w)) + 0.1
        origin = (int(rng.integers(0, h)), int(rng.integers(0, w)))
        rmax = ["MAX", "MIN", "all", int(rng.integers(3, 9))][it % 4]
        direction = ["inverse", "forward"][it % 2]
        for o in OUTS:
            ck.count(("S.order0-odd", o, direction), suite="S.outputs")
            rep = dict(shape=[h, w], origin=list(origin), rmax=rmax, order=0, direction=direction, out=o)
            try:
                a = quiet(abel.rbasex.rbasex_transform, im, origin=origin, rmax=rmax, order=0, odd=True, direction=direction, out=o)
                b = quiet(abel.rbasex.rbasex_transform, im, origin=origin, rmax=rmax, order=0, odd=False, direction=direction, out=o)
            except Exception as e:
                ck.violation(dict(site="rbasex_transform", clause="exception"), rep, f"{type(e).__name__}: {e}")
                continue
            if np.shape(a[0]) != np.shape(b[0]) or not np.allclose(a[0], b[0], rtol=0, atol=1e-12 * max(1.0, np.abs(b[0]).max())) \
                    or not np.array_equal(a[1].cos(), b[1].cos()):
                ck.violation(dict(site="rbasex_transform", clause="order0-odd", out=o), rep,
                             f"order=0 with odd=True, out={o!r}: " + (f"image shape {np.shape(a[0])} instead of {np.shape(b[0])}" if np.shape(a[0]) != np.shape(b[0])
                                                                         else "image or distributions differ from those with odd=False"))


def oracle_weight_units(ck, tier):
    """weights are relative: a mask or weight map given in any unit (x 1e-20 … 1e+12) marks the same radii as having data and gives the
    same distributions and image, for every order (order 0 has its own inversion branch) and both directions"""
    import abel
    rng = np.random.default_rng(seed() + 1661)
    for it in range(8 if tier == "quick" else 60):
        h, w = (int(v) for v in rng.integers(9, 22, size=2))
        im = rng.random((h, w)) + 0.1
        wt = (rng.random((h, w)) > 0.3).astype(float) if it % 2 == 0 else rng.random((h, w)) + 0.05
        yy, xx = np.mgrid[:h, :w]
        wt[np.abs(np.hypot(yy - h // 2, xx - w // 2) - 4.0) < 0.8] = 0          # a ring of radii without data
        order = [0, 2, 0, 1][it % 4]
        direction = ["inverse", "forward"][(it // 4) % 2]
        try:
            ref = quiet(abel.rbasex.rbasex_transform, im, order=order, weights=wt, direction=direction)
        except Exception as e:
            ck.violation(dict(site="rbasex_transform", clause="exception"), dict(shape=[h, w], order=order), f"{type(e).__name__}: {e}")
            continue
        for s_ in (1e-20, 1e-13, 1e-6, 1e12):
            ck.count(("S.weight-units", order, direction, s_), suite="S.outputs")
            rep = dict(shape=[h, w], order=order, direction=direction, weight_unit=s_, binary_mask=it % 2 == 0)
            try:
                got = quiet(abel.rbasex.rbasex_transform, im, order=order, weights=wt * s_, direction=direction)
            except Exception as e:
                ck.violation(dict(site="rbasex_transform", clause="exception"), rep, f"{type(e).__name__}: {e}")
                continue
            sc = max(1.0, np.abs(ref[1].cos()).max())
            if not np.array_equal(got[1].valid, ref[1].valid) or np.abs(got[1].cos() - ref[1].cos()).max() > 1e-9 * sc or np.abs(got[0] - ref[0]).max() > 1e-9 * sc:
                ck.violation(dict(site="rbasex_transform", clause="weight-unit"), rep,
                             f"weights x {s_:g} (order {order}, {direction}): " + ("other radii are flagged as having data" if not np.array_equal(got[1].valid, ref[1].valid)
                                                                                  else "distributions / image differ from those with the weights as given"))


def run(tier):
    ck = Check("C16", tier)
    deep = tier == "thorough"
    ck.cov["rule"] = ("60 (thorough 600) random cases x 5 out values: shapes 7..27 (any aspect/parity), origins as tuples (inside, on the "
                      "edge, negative) and location strings, 9 rmax keywords + integers, orders 0-4, odd, both directions, reg in {None, "
                      "L2, diff, SVD, pos}, weights with zeros: image vs Lean synthesis of the returned distributions (1e-11). S: 50 "
                      "(thorough 600) cases: identical distributions for all out values and None, shapes, independent numpy synthesis, "
                      "full-unique/fold/unfold relations, zero-weight pixels, valid flags, Transform pass-through. distinct = option classes")
    ck.cov["trusted_base"] = ["Lean 4.33 kernel", "axioms propext/Classical.choice/Quot.sound",
                              "Model/RbasexImage.lean (frames + synthesis) tied to abel/rbasex.py by K on every out value",
                              "mirror symmetry F(y,-x)=F(y,x) of the Float synthesis is not proved (measured via unfold=mirror(fold))",
                              "the radial transform matrices themselves are C09/C03; here only image ↔ distributions ↔ shapes"]
    ck.cov["unproved_clauses"] = ["zero-weight pixels / valid flags at the rbasex level (measured; the Distributions core is proved in C15)",
                                  "unfold = mirror(fold) pixel values (measured; frames proved)"]
    ck.cov["source_fingerprint"] = source_fingerprint(["abel/rbasex.py", "abel/tools/vmi.py", "abel/transform.py"])
    ck.proofs("PyAbel.Props.C16")
    ok, log = ensure_driver()
    if ok:
        correspondence(ck, tier)
    else:
        ck.broken.append(dict(kind="proof", module="pyabel_drv", why="driver build failed", log=log[-1500:]))
    oracle(ck, tier, deep or bool(ck.broken))
    oracle_histories(ck, tier, deep)
    oracle_order0(ck, tier)
    oracle_weight_units(ck, tier)
    return ck.finish()


def replay(path):
    rec = json.loads(open(path).read())
    print(json.dumps({k: v for k, v in rec.items()}, indent=1, default=str)[:3000])
    return 1
