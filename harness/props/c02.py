"""
C02 — forward transforms reproduce the true projection of a smooth source, including the intensity scale set by dr.

proofs : lean/PyAbel/Props/C02.lean
           abel_abs_le            |Abel f x| ≤ 2 M √(R²−x²) for |f| ≤ M supported in [0, R]  (a-priori size of any true projection)
           forward_scales_with_dr the projection of the dr-stretched source is dr x the projection, as a function
           daun0_entry_le         every entry of the degree-0 forward operator is within the chord bound
           daun0_forward_error_le a-priori envelope, every size and pixel: |forward(samples)[i] − Abel f(i)| ≤ L·√((n−½)²−i²) for an
                                  L-Lipschitz source (first order in dr)
           forward_error_le_of_interp / daun1_forward_error_le   the same reduction for any basis; degree 1: 2ε√(n²−i²) with ε the
                                  piecewise-linear interpolation error (ε = max|f″|/8 is the classical estimate, a hypothesis here)
         (with C09: the daun / onion-peeling forward operators are the Abel integrals of their basis functions)
         lean/PyAbel/Props/C02Rbasex.lean
           rbasex_forward_exact   for every angular order n, the radial matrix applied to coefficients c_R is exactly the projection of
                                  Σ c_R b_R(ρ)·(r/ρ)ⁿ (radially piecewise linear), at every integer distance r ≥ 1 and every Rmax
K      : Lean operator models vs implementation arrays (methods.corr_operators)
S      : as C01 with direction='forward' (basex, daun, direct incl. explicit r grid, hansenlaw, rbasex incl. explicit origin),
         dr in {1, 0.5}: the true projection carries the factor dr, so a wrong intensity scale is an envelope violation.
"""
from harness.props import c01

PROP, MODULE = "C02", "PyAbel.Props.C02"
FILES = ["abel/basex.py", "abel/daun.py", "abel/direct.py", "abel/hansenlaw.py", "abel/rbasex.py", "abel/transform.py"]


def run(tier):
    return c01.run(tier, prop=PROP, module=MODULE, files=FILES)


replay = c01.replay
