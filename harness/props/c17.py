"""
C17 — documented equivalences between methods and options hold.

proofs : lean/PyAbel/Props/C17.lean (daun degree-0 matrix = onion-peeling W, triangular solve = inverse multiply,
         Tikhonov at strength 0 = inverse, NNLS = unconstrained when feasible) and Props/C17Wrappers.lean
         (argument routing of every wrapper-shaped function, decided over a table regenerated from /repo)
K      : gen_wrappers translator (regenerates Gen/Wrappers.lean → theorem re-decided); Lean matrices vs implementation
S      : the equivalences themselves on random half-images / images; wrappers called with distinct non-default values;
         Transform.angular_integration = angular_integration_3D of its own transform, call after call
"""
import json
import subprocess
import warnings

import numpy as np

from harness.common import Check, VERIF, ensure_driver, seed, source_fingerprint
from harness.methods import corr_operators, quiet


def regenerate(ck):
    p = subprocess.run(["/venv/bin/python", str(VERIF / "harness" / "gen_wrappers.py")], capture_output=True, text=True)
    if p.returncode != 0:
        ck.broken.append(dict(kind="translator", module="gen_wrappers", why=p.stderr[-800:]))
    else:
        ck.cov["translated"] = p.stdout.strip()


def same(a, b, tol=0.0):
    if isinstance(a, (tuple, list)):
        return len(a) == len(b) and all(same(x, y, tol) for x, y in zip(a, b))
    a, b = np.asarray(a, float), np.asarray(b, float)
    if a.shape != b.shape:
        return False
    return bool(np.all(np.abs(a - b) <= tol * max(1.0, np.abs(b).max()) + 0) if a.size else True) or \
        bool(np.array_equal(a, b, equal_nan=True))


def oracle(ck, tier, deep):
    import abel
    from abel import dasch, daun
    from abel.tools import vmi, center
    rng = np.random.default_rng(seed() + 17)
    sizes = [3, 5, 12, 40] if not deep else [3, 4, 5, 8, 12, 40, 101, 200]
    # 1. daun default = onion_peeling
    for n in sizes:
        X = rng.normal(size=(4, n))
        dr = float(rng.choice([1.0, 0.5, 2.0]))
        ck.count(("S.daun=onion", n, dr), suite="S.equivalence")
        a = quiet(daun.daun_transform, X, dr=dr)
        b = quiet(dasch.onion_peeling_transform, X, dr=dr, basis_dir=None)
        cond = np.linalg.cond(quiet(daun._bs_daun, n, 0))
        if np.abs(a - b).max() > 1e-13 * cond * n * np.abs(X).max():
            ck.violation(dict(site="daun", clause="daun-default=onion_peeling"), dict(n=n, dr=dr, X=X.tolist()),
                         f"daun default differs from onion_peeling by {np.abs(a - b).max():.3g}")
        # … also for a single row, given as a 1-D array or as a 1 x n image, with the same pixel size; and the three Dasch wrappers agree
        # with dasch_transform applied to their operator (which divides by dr) whatever the number of rows
        for row in (X[0].copy(), X[:1].copy()):
            a1 = np.ravel(quiet(daun.daun_transform, row, dr=dr))
            b1 = np.ravel(quiet(dasch.onion_peeling_transform, row, dr=dr, basis_dir=None))
            if a1.shape != b1.shape or np.abs(a1 - b1).max() > 1e-13 * cond * n * np.abs(X).max() or np.abs(b1 - b[0]).max() > 1e-13 * cond * n * np.abs(X).max():
                ck.violation(dict(site="daun", clause="daun-default=onion_peeling"), dict(n=n, dr=dr, row=np.ravel(row).tolist(), ndim=int(np.ndim(row))),
                             f"a single row ({np.ndim(row)}-D), dr={dr}: daun default / onion_peeling / the same row inside an image disagree "
                             f"(by {max(np.abs(a1 - b1).max(), np.abs(b1 - b[0]).max()) if a1.shape == b1.shape else 'shape'})")
        if n >= 3:
            for m in ("two_point", "three_point", "onion_peeling"):
                ck.count(("S.dasch-wrapper", m, n, dr), suite="S.wrappers")
                D = quiet(dasch.get_bs_cached, m, n, basis_dir=None)
                for data in (X, X[0].copy(), X[:1].copy()):
                    got = np.asarray(quiet(getattr(dasch, m + "_transform"), data, dr=dr, basis_dir=None), float)
                    want = np.atleast_2d(data) @ np.asarray(D).T / dr
                    if np.abs(np.atleast_2d(got) - want).max() > 1e-12 * max(1.0, np.abs(want).max()):
                        ck.violation(dict(site=m, clause="wrapper=operator/dr"), dict(method=m, n=n, dr=dr, shape=list(np.shape(data))),
                                     f"{m}_transform(data of shape {np.shape(data)}, dr={dr}) is not data·Dᵀ/dr (off by {np.abs(np.atleast_2d(got) - want).max():.3g})")
    # 2. zero strength = no regularisation
    for n in sizes:
        if n < 4:
            continue
        X = rng.normal(size=(3, n))
        for degree in (0, 1, 2, 3):
            ref = quiet(daun.daun_transform, X, degree=degree)
            cond = np.linalg.cond(quiet(daun._bs_daun, n, degree))
            for reg in (0, 0.0, ("diff", 0), ("L2", 0), ("L2c", 0), ("L2", 0.0), None):
                ck.count(("S.reg0.daun", n, degree, str(reg)), suite="S.equivalence")
                # (right after a call with a non-zero strength of the same size and degree: nothing of it may be reused)
                quiet(daun.daun_transform, X, degree=degree, reg=[("L2", 1.0), ("diff", 3.0), ("L2c", 0.5)][len(str(reg)) % 3])
                got = quiet(daun.daun_transform, X, degree=degree, reg=reg)
                if np.abs(got - ref).max() > 1e-12 * cond * n * np.abs(X).max():
                    ck.violation(dict(site="daun", clause="reg-zero"), dict(n=n, degree=degree, reg=list(reg) if isinstance(reg, tuple) else reg, X=X.tolist()),
                                 f"daun reg={reg} differs from no regularisation by {np.abs(got - ref).max():.3g}")
    for n in ([11, 21] if not deep else [9, 11, 21, 41]):
        im = rng.random((n, n))
        for order in (0, 2, 4):
            ref = quiet(abel.rbasex.rbasex_transform, im, order=order)[1].cos()
            for reg in (("L2", 0), ("diff", 0), ("SVD", 0)):
                ck.count(("S.reg0.rbasex", n, order, reg[0]), suite="S.equivalence")
                got = quiet(abel.rbasex.rbasex_transform, im, order=order, reg=reg)[1].cos()
                if np.abs(got - ref).max() > 1e-9 * max(1.0, np.abs(ref).max()):
                    ck.violation(dict(site="rbasex", clause="reg-zero"), dict(n=n, order=order, reg=list(reg), image=im.tolist()),
                                 f"rbasex reg={reg} differs from reg=None by {np.abs(got - ref).max():.3g}")
    # … also when the weights blank out whole rings, off-centre origins and a reduced rmax (radii without data make the regularised
    # expressions singular at strength 0 — repair F61: L2/diff raised LinAlgError, SVD inverted zero singular values)
    for n in ([21] if not deep else [15, 21, 41]):
        im = rng.random((n, n))
        yy, xx = np.indices(im.shape)
        for origin in ((n // 2, n // 2), (n // 2 - 2, n // 2 + 1)):
            rr = np.hypot(yy - origin[0], xx - origin[1])
            masks = {"ring": np.where((rr > n / 4 - 1.5) & (rr < n / 4 + 1.5), 0.0, 1.0), "outer": np.where(rr > n / 3, 0.0, 1.0),
                     "centre": np.where(rr < 2.5, 0.0, 1.0)}
            for mname, w in masks.items():
                for order in (0, 2):
                    kw = dict(origin=origin, order=order, weights=w)
                    ref_im, ref_d = quiet(abel.rbasex.rbasex_transform, im, **kw)
                    ref = ref_d.cos()
                    for reg in (("L2", 0), ("diff", 0), ("SVD", 0), ("L2", 0.0)):
                        ck.count(("S.reg0.rbasex-masked", n, mname, order, reg[0]), suite="S.equivalence")
                        try:
                            got_im, got_d = quiet(abel.rbasex.rbasex_transform, im, reg=reg, **kw)
                            got = got_d.cos()
                            bad = not (np.allclose(got, ref, rtol=0, atol=1e-9 * max(1.0, np.nanmax(np.abs(ref))), equal_nan=True)
                                       and np.allclose(got_im, ref_im, rtol=0, atol=1e-9 * max(1.0, np.nanmax(np.abs(ref_im))), equal_nan=True))
                            what = f"differs from reg=None by {np.nanmax(np.abs(got - ref)):.3g}" if bad else ""
                        except Exception as e:
                            bad, what = True, f"raises {type(e).__name__}: {e}"
                        if bad:
                            ck.violation(dict(site="rbasex", clause="reg-zero-masked"),
                                         dict(n=n, origin=list(origin), mask=mname, order=order, reg=list(reg), image=im.tolist()),
                                         f"rbasex reg={reg} with weights that blank out the {mname} radii (origin {origin}, order {order}) {what}")
    # … in whatever order the requests come within one session (a regulariser must not leave anything behind in the cached basis):
    # the zero-strength forms first, then no regularisation, then a forward transform, against values from a clean cache
    for n in ([11, 21] if not deep else [9, 11, 21, 41]):
        im = rng.random((n, n))
        for order in (2, 4):
            abel.rbasex.cache_cleanup()
            ref = quiet(abel.rbasex.rbasex_transform, im, order=order)[1].cos()
            ref_f = quiet(abel.rbasex.rbasex_transform, im, order=order, direction="forward")[1].cos()
            abel.rbasex.cache_cleanup()
            seq = [("SVD", 0), ("diff", 0), ("L2", 0), None]
            seq = [seq[i] for i in rng.permutation(4)]
            # (after a truncated-SVD call of non-zero strength on the freshly computed basis: the decomposition must not have been done in
            # place on the cached matrices)
            quiet(abel.rbasex.rbasex_transform, im, order=order, reg=("SVD", 0.3))
            quiet(abel.rbasex.rbasex_transform, im, order=order, reg=("L2", 2.0))
            ck.count(("S.reg0.rbasex-order", n, order), suite="S.equivalence")
            for reg in seq + ["forward"]:
                if reg == "forward":
                    got, want = quiet(abel.rbasex.rbasex_transform, im, order=order, direction="forward")[1].cos(), ref_f
                else:
                    got, want = quiet(abel.rbasex.rbasex_transform, im, order=order, reg=reg)[1].cos(), ref
                if np.abs(got - want).max() > 1e-9 * max(1.0, np.abs(want).max()):
                    ck.violation(dict(site="rbasex", clause="reg-zero"), dict(n=n, order=order, session=[list(r) if isinstance(r, tuple) else r for r in seq],
                                                                              at=list(reg) if isinstance(reg, tuple) else reg, image=im.tolist()),
                                 f"rbasex: in the session {seq} + forward, the call with {reg} differs from its clean-cache value by {np.abs(got - want).max():.3g}")
                    break
    abel.rbasex.cache_cleanup()
    # 3. non-negative solvers = unconstrained when the unconstrained solution is feasible
    for n in sizes:
        if n < 4:
            continue
        src = np.abs(rng.normal(size=(2, n))) + 0.05
        for degree in (0, 1, 2, 3):
            ck.count(("S.nonneg.daun", n, degree), suite="S.equivalence")
            dr = float(rng.choice([1.0, 0.5, 2.0, 0.1]))          # the equivalence is documented for every pixel size
            P = quiet(daun.daun_transform, src, degree=degree, direction="forward", dr=dr)
            a = quiet(daun.daun_transform, P, degree=degree, reg="nonneg", dr=dr)
            b = quiet(daun.daun_transform, P, degree=degree, dr=dr)
            cond = np.linalg.cond(quiet(daun._bs_daun, n, degree))
            if np.abs(b - src).max() < 0.04 and np.abs(a - b).max() > 1e-11 * cond * n:
                ck.violation(dict(site="daun", clause="nonneg-feasible"), dict(n=n, degree=degree, dr=dr, source=src.tolist()),
                             f"daun reg='nonneg' (dr={dr}) differs from the (non-negative) unconstrained solution by {np.abs(a - b).max():.3g}")
            # detector counts: the same equivalence for integer and single-precision data
            for dt in (np.int32, np.uint16, np.float32):
                Pd = (P * (1.0 if dt is np.float32 else 2000.0 / max(1e-12, np.abs(P).max()))).astype(dt)
                try:
                    a2 = np.asarray(quiet(daun.daun_transform, Pd, degree=degree, reg="nonneg", dr=dr), dtype=float)
                    b2 = np.asarray(quiet(daun.daun_transform, Pd.astype(np.float64), degree=degree, dr=dr), dtype=float)
                except Exception as e:
                    ck.violation(dict(site="daun", clause="exception"), dict(n=n, degree=degree, dtype=str(np.dtype(dt))), f"{type(e).__name__}: {e}")
                    continue
                if b2.min() > 0 and np.abs(a2 - b2).max() > 1e-9 * cond * n * max(1.0, np.abs(b2).max()):
                    ck.violation(dict(site="daun", clause="nonneg-feasible-dtype"), dict(n=n, degree=degree, dr=dr, dtype=str(np.dtype(dt))),
                                 f"daun reg='nonneg' on {np.dtype(dt)} data differs from the positive unconstrained solution of the same data by "
                                 f"{np.abs(a2 - b2).max():.3g}")
    for n in ([15, 25] if not deep else [11, 15, 25, 41]):
        yy, xx = np.mgrid[:n, :n] - n // 2
        r = np.hypot(yy, xx)
        cos2 = np.divide(yy ** 2, r ** 2, out=np.zeros_like(r), where=r > 0)
        for beta_like in (0.0, 0.5):
            im = np.exp(-(r - n / 5) ** 2 / 8.0) * (0.6 + beta_like * cos2) + 0.3 * np.exp(-r ** 2 / (n / 3) ** 2)
            proj = quiet(abel.rbasex.rbasex_transform, im, direction="forward")[0]
            ck.count(("S.nonneg.rbasex", n, beta_like), suite="S.equivalence")
            un = quiet(abel.rbasex.rbasex_transform, proj)[1]
            if np.all(un.cossin() >= 1e-6 * np.abs(un.cossin()).max() * 0 - 1e-12):
                pos = quiet(abel.rbasex.rbasex_transform, proj, reg="pos")[1]
                d = np.abs(pos.cos() - un.cos()).max()
                if d > 1e-8 * np.abs(un.cos()).max():
                    ck.violation(dict(site="rbasex", clause="pos-feasible"), dict(n=n, anisotropy=beta_like),
                                 f"rbasex reg='pos' differs from the feasible unconstrained solution by {d:.3g}")
    # 4. alternatives agree within envelopes on smooth data
    for n in ([51, 101] if not deep else [51, 101, 201]):
        dra = float(rng.choice([1.0, 0.5, 2.0]))                       # the alternatives agree for every pixel size
        r = np.arange(n) * dra
        f = np.exp(-r ** 2 / (n * dra / 4.) ** 2)
        P = (n * dra / 4.) * np.sqrt(np.pi) * f
        sl = slice(max(3, n // 10), n - max(3, n // 10))
        res = {f"daun{d}": quiet(daun.daun_transform, P, degree=d, dr=dra) for d in (0, 1, 2, 3)}
        res["hl0"] = quiet(abel.hansenlaw.hansenlaw_transform, P, hold_order=0, dr=dra)
        res["hl1"] = quiet(abel.hansenlaw.hansenlaw_transform, P, hold_order=1, dr=dra)
        env = {"daun0": 0.02, "daun1": 0.01, "daun2": 0.01, "daun3": 0.01, "hl0": 0.06, "hl1": 0.03}
        for a, b in (("daun0", "daun1"), ("daun1", "daun2"), ("daun2", "daun3"), ("hl0", "hl1")):
            ck.count(("S.alternatives", n, a, b), suite="S.equivalence")
            d = np.abs(res[a] - res[b])[sl].max()
            if d > env[a] + env[b]:
                ck.violation(dict(site=a[:4], clause="alternatives"), dict(n=n, a=a, b=b, dr=dra),
                             f"{a} and {b} differ by {d:.3g} on a Gaussian (envelopes {env[a]}+{env[b]})")
    # 5. wrappers return what they wrap — every parameter given a distinct non-default value
    with warnings.catch_warnings():
        warnings.simplefilter("ignore")
        X = rng.normal(size=(4, 21))
        for name, meth in (("two_point_transform", "two_point"), ("three_point_transform", "three_point"),
                           ("onion_peeling_transform", "onion_peeling")):
            ck.count(("S.wrapper", name), suite="S.wrappers")
            a = quiet(getattr(dasch, name), X, basis_dir=None, dr=2.5, direction="inverse", verbose=False)
            b = quiet(dasch._dasch_transform, X, basis_dir=None, dr=2.5, direction="inverse", method=meth, verbose=False)
            if not same(a, b):
                ck.violation(dict(site=name, clause="wrapper"), dict(wrapper=name), f"{name} != _dasch_transform(method={meth})")
        yy, xx = np.mgrid[:41, :51]
        im = np.exp(-((yy - 17.3) ** 2 + (xx - 28.1) ** 2) / 30.0) + 0.01 * rng.random((41, 51))
        pairs = [
            ("find_center/com", lambda: center.find_center(im, "com", False, False), lambda: center.find_origin(im, "com", verbose=False)),
            ("find_center/convolution", lambda: center.find_center(im, "convolution", False, False), lambda: center.find_origin(im, "convolution")),
            ("find_center_by_center_of_mass", lambda: center.find_center_by_center_of_mass(im, False, True),
             lambda: center.find_origin_by_center_of_mass(im, verbose=False, round_output=True)),
            ("find_center_by_center_of_mass/default", lambda: center.find_center_by_center_of_mass(im, True, False),
             lambda: center.find_origin_by_center_of_mass(im)),
            ("find_center_by_convolution", lambda: center.find_center_by_convolution(im), lambda: center.find_origin_by_convolution(im)),
            ("find_center_by_center_of_image", lambda: center.find_center_by_center_of_image(im, True),
             lambda: center.find_origin_by_center_of_image(im)),
            ("find_center_by_gaussian_fit", lambda: center.find_center_by_gaussian_fit(im, False, True),
             lambda: center.find_origin_by_gaussian_fit(im, round_output=True)),
            ("find_center_by_gaussian_fit/default", lambda: center.find_center_by_gaussian_fit(im, True, False),
             lambda: center.find_origin_by_gaussian_fit(im)),
            ("find_image_center_by_slice", lambda: center.find_image_center_by_slice(im, 6, (0, 15), (0, 1)),
             lambda: center.find_origin_by_slice(im, axes=(0, 1), slice_width=6, radial_range=(0, 15))),
            ("find_image_center_by_slice/axis", lambda: center.find_image_center_by_slice(im, 8, (0, 12), 1),
             lambda: center.find_origin_by_slice(im, axes=1, slice_width=8, radial_range=(0, 12))),
            ("angular_integration_2D", lambda: vmi.angular_integration_2D(im, (17, 28), 0.5, 0.1), lambda: vmi.radial_intensity("int2D", im, (17, 28), 0.5, 0.1)),
            ("angular_integration_3D", lambda: vmi.angular_integration_3D(im, (17, 28), 0.5, 0.1), lambda: vmi.radial_intensity("int3D", im, (17, 28), 0.5, 0.1)),
            ("average_radial_intensity_2D", lambda: vmi.average_radial_intensity_2D(im, (17, 28), 0.5, 0.1), lambda: vmi.radial_intensity("avg2D", im, (17, 28), 0.5, 0.1)),
            ("average_radial_intensity_3D", lambda: vmi.average_radial_intensity_3D(im, (17, 28), 0.5, 0.1), lambda: vmi.radial_intensity("avg3D", im, (17, 28), 0.5, 0.1)),
            ("harmonics", lambda: vmi.harmonics(im, (17, 28), 12, 4, odd=True), lambda: vmi.Distributions((17, 28), 12, 4, odd=True).image(im).harmonics()),
            ("rharmonics", lambda: vmi.rharmonics(im, (17, 28), 12, 4), lambda: vmi.Distributions((17, 28), 12, 4).image(im).rharmonics()),
            ("Ibeta", lambda: vmi.Ibeta(im, (17, 28), 12, 2, 3), lambda: vmi.Distributions((17, 28), 12, 2).image(im).Ibeta(3)),
            ("rIbeta", lambda: vmi.rIbeta(im, (17, 28), 12, 2, 3, method="nearest"), lambda: vmi.Distributions((17, 28), 12, 2, method="nearest").image(im).rIbeta(3)),
            ("guss_gaussian", lambda: abel.tools.math.guss_gaussian(im[17]), lambda: abel.tools.math.guess_gaussian(im[17])),
            ("Transform/defaults", lambda: abel.Transform(im[:, :51]).transform,
             lambda: abel.Transform(im[:, :51], direction="inverse", method="three_point", origin="none", symmetry_axis=None,
                                    use_quadrants=(True, True, True, True), symmetrize_method="average").transform),
        ]
        for label, wf, rf in pairs:
            ck.count(("S.wrapper", label), suite="S.wrappers")
            try:
                a = quiet(wf)
            except Exception as e:
                ck.violation(dict(site=label.split("/")[0], clause="wrapper"), dict(wrapper=label), f"{label} raised {type(e).__name__}: {e}")
                continue
            b = quiet(rf)
            if not same(a, b):
                ck.violation(dict(site=label.split("/")[0], clause="wrapper"), dict(wrapper=label),
                             f"{label} returns {str(a)[:80]} but the wrapped call returns {str(b)[:80]}")
    ck.sample(dict(suite="S.wrappers", wrappers=[p[0] for p in pairs][:8]))


def oracle_angular(ck, tier):
    """`Transform(..., angular_integration=True).angular_integration` is `angular_integration_3D` of the transformed image with the pixel
    size of that call (and the caller's integration options) — call after call in one process, with dr given, not given, given again"""
    import abel
    from abel.tools.vmi import angular_integration_3D
    rng = np.random.default_rng(seed() + 1717)
    for method in (["two_point", "hansenlaw"] if tier == "quick" else ["two_point", "three_point", "onion_peeling", "hansenlaw", "basex", "daun"]):
        im = rng.random((15, 15)) + 0.1
        session = [dict(dr=0.5), dict(), dict(dr=2.0), dict(), dict(dr=0.5), dict(dr=2.0)]
        for k, topt in enumerate(session):
            aopt = [None, dict(), dict(dt=0.1), None, dict(dr=2.0), dict(dr=0.25, dt=0.2)][k]     # (a dr of its own is the integration's, not overridden)
            ck.count(("S.angular", method, k), suite="S.oracle")
            rep = dict(method=method, call=k, transform_options=topt, angular_integration_options=aopt, session=[str(s_) for s_ in session[:k + 1]])
            try:
                kw = dict(transform_options=dict(topt, **({"basis_dir": None} if method not in ("hansenlaw",) else {})))
                if aopt is not None:
                    kw["angular_integration_options"] = aopt
                Tr = quiet(abel.Transform, im, method=method, angular_integration=True, **kw)
                want = quiet(angular_integration_3D, Tr.transform, **dict(({"dr": topt["dr"]} if "dr" in topt else {}), **(aopt or {})))
            except Exception as e:
                ck.violation(dict(site="Transform", clause="exception"), rep, f"{type(e).__name__}: {e}")
                continue
            got = Tr.angular_integration
            if len(got) != len(want) or any(np.shape(a) != np.shape(b) or not np.allclose(a, b, rtol=1e-12, atol=0) for a, b in zip(got, want)):
                ck.violation(dict(site="Transform", clause="angular-integration-session"), rep,
                             f"call {k} of a session ({method}, transform_options={topt}): Transform.angular_integration is not "
                             f"angular_integration_3D of its own transform with this call's pixel size")


def run(tier):
    ck = Check("C17", tier)
    deep = tier == "thorough"
    ck.cov["rule"] = ("daun default vs onion_peeling, zero-strength regularisers (daun diff/L2/L2c deg 0-3, rbasex L2/diff/SVD "
                      "orders 0-4), feasible NNLS (daun nonneg deg 0-3, rbasex pos), alternatives within envelopes, on random "
                      "half-images of sizes {3,5,12,40} (thorough ..200); 23 wrapper/alias pairs called with distinct "
                      "non-default values; wrapper routing table regenerated from source and re-decided in Lean. "
                      "distinct = (suite, case, size)")
    ck.cov["trusted_base"] = ["Lean 4.33 kernel", "axioms propext/Classical.choice/Quot.sound",
                              "gen_wrappers.py (AST extraction of wrapper-shaped functions, ~120 lines) and the two allowed "
                              "renamings center→method, axis→axes in Props/C17Wrappers.lean",
                              "hold_order / degree / backend alternatives: envelopes are measured; the C backend of direct is not built",
                              "scipy nnls, inv, svd are external"]
    ck.cov["unproved_clauses"] = ["alternatives agree within envelopes (measured)", "SVD with nothing removed = inverse (SVD external)",
                                  "module-level vmi helpers (method chains) are outside the wrapper table: runtime oracle only"]
    ck.cov["source_fingerprint"] = source_fingerprint(["abel/daun.py", "abel/dasch.py", "abel/rbasex.py", "abel/tools/center.py",
                                                       "abel/tools/vmi.py"])
    regenerate(ck)
    ck.proofs("PyAbel.Props.C17")
    ck.proofs("PyAbel.Props.C17Wrappers")
    ok, log = ensure_driver()
    if ok:
        corr_operators(ck, tier)
    else:
        ck.broken.append(dict(kind="proof", module="pyabel_drv", why="driver build failed", log=log[-1500:]))
    oracle(ck, tier, deep or bool(ck.broken))
    oracle_angular(ck, tier)
    from harness import daunmachine
    daunmachine.run_sessions(ck, tier, suite="K.daun-cache")          # zero strength / no regularisation / regularised requests in any order vs the cache machine of C07Daun
    return ck.finish()


def replay(path):
    rec = json.loads(open(path).read())
    print(json.dumps({k: v for k, v in rec.items() if k != "replay"}, indent=1, default=str)[:2500])
    print({k: v for k, v in rec.get("replay", {}).items() if k not in ("X", "image", "source")})
    return 1
