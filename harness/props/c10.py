"""
C10 — polynomial classes return exact functions and exact Abel transforms.

proofs : lean/PyAbel/Props/C10.lean (polynomial_abel / polynomial_abel_shifted: `Polynomial.abel` — the coefficient recursion and the
         Horner sum of a(k) — is the Abel integral of `Polynomial.func` for every degree, piece, shift, stretch and sample inside the
         outer radius, by the reduction formula of ∫ rᵏ dy (Lemmas/AbelPoly.lean, PolyAbel.lean);
         shift/stretch coefficient transform for every degree, r₀, s ≠ 0; Angular product =
         polynomial product; cossin(m, n) coefficients);
         lean/PyAbel/Props/C10SPoly.lean (every SPolynomial term r^m cos^n θ on [r_min, r_max): the coded antiderivatives F(k, lim)
         for all integer k = n − m — closed forms, upward and downward recursion — give exactly the line-of-sight integral of the term;
         Lemmas/AbelFracZ.lean: two-sided reduction formula for ∫(r/ρ)ᵏ, k ∈ ℤ)
K      : SPolynomial with one unit coefficient vs the Lean term model at random points (driver op spterm);
         Polynomial(...).func vs Horner evaluation of the Lean-transformed coefficients; Angular products / cossin vs model
S      : func = polynomial on [r_min, r_max), 0 outside; abel = line-of-sight quadrature of that function (scipy quad),
         relative to the size of the terms, for random coefficient vectors / matrices of degree ≤ 8, limits incl. negative and
         beyond-grid, r₀, s of either sign, reduced on/off, uniform and random grids, 2-D (r, cos) arrays with any origin;
         piecewise sums (overlaps, gaps), scalar * and /, copies, B-spline conversion, Angular algebra, Legendre series,
         ApproxGaussian(tol) deviation ≤ 1.01·tol and norm = exact integral of its pieces; SPolynomial at samples almost on the axis
"""
import json

import warnings

import numpy as np
from scipy.integrate import quad
from scipy.special import eval_legendre

from harness.common import Check, arr2h, drive, ensure_driver, f2h, h2arr, seed, source_fingerprint
from harness.methods import quiet


def horner(c, x):
    out = np.zeros_like(x, dtype=float)
    for ck in c[::-1]:
        out = out * x + ck
    return out


def correspondence(ck, tier):
    from abel.tools.polynomial import Polynomial, Angular
    rng = np.random.default_rng(seed() + 10)
    n = 120 if tier == "quick" else 1500
    for _ in range(n):
        K = int(rng.integers(0, 9))
        c = rng.normal(size=K + 1)
        r0 = float(rng.choice([0.0, rng.uniform(-5, 30)]))
        s = float(rng.choice([1.0, rng.uniform(0.3, 4) * rng.choice([-1, 1])]))
        r = np.arange(40.0) if rng.random() < 0.5 else np.sort(rng.uniform(0, 40, size=40))
        rmin, rmax = sorted(rng.uniform(0, 40, size=2))
        ck.count(("K.poly", K, r0 == 0, s == 1, s < 0), suite="K.polynomial")
        case = dict(degree=K, r_0=r0, s=s, r_min=rmin, r_max=rmax, c=c.tolist())
        p = quiet(Polynomial, r, rmin, rmax, c.copy(), r_0=r0, s=s)
        mc = h2arr(drive([f"ssc {f2h(r0)} {f2h(s)} {arr2h(c)}"])[0].split()[3:])
        dom = (r >= rmin) & (r < rmax)
        want = np.where(dom, horner(mc, r), 0.0)
        scale = np.abs(c) @ np.abs(((np.abs(r).max() + abs(r0)) / abs(s)) ** np.arange(K + 1)) + 1e-300
        if np.abs(p.func - want).max() > 1e-11 * scale:
            ck.disagree("K.polynomial", case, f"Polynomial.func differs from the Lean-transformed coefficients by {np.abs(p.func - want).max():.3g}")
        # the closed-form transform: Lean `polyAbelAt` (the model `polynomial_abel` is about) on the transformed coefficients
        idx = [i for i in range(len(r)) if r[i] < rmax]
        if idx and rmax > 0:
            pick = sorted({idx[0], idx[-1], *(int(v) for v in rng.choice(idx, size=min(4, len(idx)), replace=False))})
            rep_ = drive([f"polyabel {f2h(max(rmin, 0.0))} {f2h(rmax)} {f2h(float(r[i]))} {arr2h(mc)}" for i in pick])
            ma = np.array([h2arr(t.split()[3:])[0] for t in rep_])
            ascale = scale * max(1.0, rmax)
            if np.abs(ma - p.abel[pick]).max() > 1e-11 * ascale:
                ck.disagree("K.polynomial", dict(case, samples=[float(r[i]) for i in pick]),
                            f"Polynomial.abel differs from the Lean closed form by {np.abs(ma - p.abel[pick]).max():.3g} (terms ~{ascale:.3g})")
    for _ in range(n // 2):
        a, b = rng.normal(size=int(rng.integers(1, 7))), rng.normal(size=int(rng.integers(1, 7)))
        ck.count(("K.angular", len(a), len(b)), suite="K.angular")
        got = (Angular(a) * Angular(b)).c
        m = h2arr(drive([f"aconv {len(a)} {arr2h(a)} {arr2h(b)}"])[0].split()[3:])
        if got.shape != m.shape or np.abs(got - m).max() > 1e-13 * max(1.0, np.abs(got).max()):
            ck.disagree("K.angular", dict(a=a.tolist(), b=b.tolist()), "Angular product differs from the model convolution")
    for m_ in range(0, 5):
        for n_ in range(0, 9, 2):
            ck.count(("K.cossin", m_, n_), suite="K.angular")
            got = Angular.cossin(m_, n_).c
            mod = np.array([int(v) for v in drive([f"cossinc {m_} {n_}"])[0].split()[1:]], dtype=float)
            if not np.array_equal(got, mod):
                ck.disagree("K.angular", dict(m=m_, n=n_), f"Angular.cossin({m_},{n_}).c = {got}, model {mod}")
    ck.sample(dict(suite="K.polynomial", last=case))


def abel_of(f, x, lo, hi):
    """2∫ f(ρ) dz over ρ=√(x²+z²) ∈ [lo, hi)"""
    if hi <= x or hi <= lo:
        return 0.0
    z0 = np.sqrt(max(lo * lo - x * x, 0.0))
    z1 = np.sqrt(hi * hi - x * x)
    val, _ = quad(lambda z: f(np.sqrt(x * x + z * z)), z0, z1, epsabs=1e-13, epsrel=1e-12, limit=200)
    return 2 * val


def oracle(ck, tier, deep):
    from abel.tools.polynomial import (Polynomial, PiecewisePolynomial, SPolynomial, PiecewiseSPolynomial, Angular, ApproxGaussian,
                                       bspline, rcos)
    rng = np.random.default_rng(seed() + 1010)
    n = 150 if not deep else 3000
    for it in range(n):
        K = int(rng.integers(0, 9))
        c = rng.normal(size=K + 1)
        if rng.random() < 0.2:
            c[-1] = 0
        r0 = float(rng.choice([0.0, rng.uniform(-5, 30)]))
        s = float(rng.choice([1.0, -1.0, rng.uniform(0.5, 4) * rng.choice([-1, 1])]))          # (unit stretch of either sign included)
        uniform = rng.random() < 0.5
        r = np.arange(40.0) * float(rng.choice([1.0, 0.5])) if uniform else np.sort(np.append(rng.uniform(0, 40, size=39), 0.0))
        rmin, rmax = sorted(rng.uniform(-5, 50, size=2))
        reduced = bool(rng.integers(0, 2))
        if it % 6 == 0 and rmax > 0.5:
            s = float(rmax) * (-1 if it % 12 == 0 else 1)          # a stretch equal to ±r_max (unit magnitude in the reduced coordinates)
        ck.count(("S.poly", K, uniform, reduced, rmin < 0, rmax > r[-1], s < 0), suite="S.polynomial")
        rep = dict(degree=K, c=c.tolist(), r_0=r0, s=s, r_min=rmin, r_max=rmax, reduced=reduced, grid="uniform" if uniform else r.tolist())
        sig = dict(site="Polynomial")
        try:
            cc = c.copy()                       # one coefficient array serves several objects (e.g. pieces of a piecewise function)
            p = quiet(Polynomial, r, rmin, rmax, cc, r_0=r0, s=s, reduced=reduced)
            p_again = quiet(Polynomial, r, rmin, rmax, cc, r_0=r0, s=s, reduced=reduced)
        except Exception as e:
            ck.violation(dict(sig, clause="exception"), rep, f"{type(e).__name__}: {e}")
            continue
        if not np.array_equal(cc, c) or not np.array_equal(p.func, p_again.func) or not np.array_equal(p.abel, p_again.abel):
            ck.violation(dict(sig, clause="coefficients-consumed"), rep, "the coefficient array was modified, or a second object built from it differs")
        f = lambda q: horner(c, (np.asarray(q, float) - r0) / s)
        lo = max(rmin, 0.0)
        dom = (r >= lo) & (r < rmax)
        want = np.where(dom, f(r), 0.0)
        # size of the terms involved
        scale = np.abs(c) @ ((max(abs(rmax), r[-1], 1) + abs(r0)) / abs(s)) ** np.arange(K + 1) + 1e-300
        # coefficients are amplitudes in the caller's units: scaling all of them by 1e-10 or 1e-30 scales func and abel alike (no coefficient is
        # "zero" because it is small)
        for fac in (1e-10, 1e-30, 1e12):
            ps = quiet(Polynomial, r, rmin, rmax, c * fac, r_0=r0, s=s, reduced=reduced)
            scl = scale * max(1.0, rmax)            # (size of the terms that cancel in abel)
            if np.abs(ps.abel / fac - p.abel).max() > 1e-9 * scl or np.abs(ps.func / fac - p.func).max() > 1e-9 * scl:
                ck.violation(dict(sig, clause="coefficient-scale"), dict(rep, factor=fac),
                             f"coefficients x {fac:g}: func / abel are not the scaled arrays (abel off by {np.abs(ps.abel / fac - p.abel).max():.3g} of {scl:.3g})")
                break
        if np.abs(p.func - want).max() > 1e-10 * scale:
            ck.violation(dict(sig, clause="func"), rep, f"func differs from the polynomial on [r_min, r_max) by {np.abs(p.func - want).max():.3g} (terms ~{scale:.3g})")
        for i in sorted({0, int(rng.integers(0, len(r))), int(rng.integers(0, len(r))), len(r) - 1}):
            wa = abel_of(f, float(r[i]), lo, rmax) if rmax > 0 else 0.0
            if abs(p.abel[i] - wa) > 1e-9 * scale * max(1.0, rmax):
                ck.violation(dict(sig, clause="abel"), dict(rep, i=i, x=float(r[i])),
                             f"abel[{i}] = {p.abel[i]:.12g}, line-of-sight integral = {wa:.12g} (terms ~{scale:.3g})")
                break
    # piecewise, scalar ops, copies
    for it in range(30 if not deep else 300):
        r = np.arange(50.0)
        ranges = []
        for _ in range(int(rng.integers(1, 5))):
            a, b = sorted(rng.uniform(0, 55, size=2))
            ranges.append((a, b, rng.normal(size=int(rng.integers(1, 5))).tolist(), float(rng.uniform(0, 40)), float(rng.uniform(0.5, 3))))
        ck.count(("S.piecewise", len(ranges)), suite="S.piecewise")
        pp = quiet(PiecewisePolynomial, r, ranges)
        parts = [quiet(Polynomial, r, *rg) for rg in ranges]
        rep = dict(ranges=ranges)
        if np.abs(pp.func - sum(q.func for q in parts)).max() > 1e-12 * max(1, np.abs(pp.func).max()) or \
                np.abs(pp.abel - sum(q.abel for q in parts)).max() > 1e-12 * max(1, np.abs(pp.abel).max()):
            ck.violation(dict(site="PiecewisePolynomial", clause="sum-of-pieces"), rep, "piecewise polynomial is not the sum of its pieces")
        k = float(rng.uniform(-3, 3)) or 1.5
        f0, a0 = pp.func.copy(), pp.abel.copy()
        cp = pp.copy()
        m1, d1 = pp * k, pp / k
        if not (np.allclose(m1.func, k * f0, rtol=1e-14, atol=0) and np.allclose(m1.abel, k * a0, rtol=1e-14, atol=0)
                and np.allclose(d1.func, f0 / k, rtol=1e-13, atol=0) and np.array_equal(pp.func, f0)):
            ck.violation(dict(site="PiecewisePolynomial", clause="scalar-ops"), rep, "p*k / p/k wrong or modified p")
        cp *= 2.0
        if not np.array_equal(pp.func, f0) or not np.allclose(cp.func, 2 * f0, rtol=1e-15, atol=0):
            ck.violation(dict(site="PiecewisePolynomial", clause="copy"), rep, "copy is not independent")
        # the pieces an object exposes (.p) follow every scalar operation: each is still the polynomial on its interval, times the factor
        dq = pp.copy()
        dq /= k
        chain = (pp / k).copy() * 3.0
        for label, obj, fac in (("p*k", m1, k), ("p/k", d1, 1 / k), ("p/=k", dq, 1 / k), ("copy*=2", cp, 2.0), ("(p/k).copy()*3", chain, 3.0 / k)):
            if not (np.allclose(obj.func, fac * f0, rtol=1e-13, atol=1e-300) and np.allclose(obj.abel, fac * a0, rtol=1e-13, atol=1e-300)):
                ck.violation(dict(site="PiecewisePolynomial", clause="scalar-ops"), dict(rep, k=k, op=label), f"{label}: func/abel are not the scaled arrays")
                break
            bad = [i for i, (q, q0) in enumerate(zip(obj.p, parts))
                   if not (np.allclose(q.func, fac * q0.func, rtol=1e-13, atol=1e-300) and np.allclose(q.abel, fac * q0.abel, rtol=1e-13, atol=1e-300))]
            if bad:
                ck.violation(dict(site="PiecewisePolynomial", clause="scalar-ops-pieces"), dict(rep, k=k, op=label, pieces=bad),
                             f"{label}: pieces {bad} of the result are not the scaled pieces (they no longer sum to the whole)")
                break
        # … and in place on the object as constructed (not on a copy: a copy no longer shares whatever the constructor left shared
        # between the whole and its pieces — with a single range the sum of the pieces is the piece)
        for label, fac in (("fresh *= k", k), ("fresh /= k", 1 / k)):
            fresh = quiet(PiecewisePolynomial, r, ranges)
            if label.startswith("fresh *"):
                fresh *= k
            else:
                fresh /= k
            okw = np.allclose(fresh.func, fac * f0, rtol=1e-13, atol=1e-300) and np.allclose(fresh.abel, fac * a0, rtol=1e-13, atol=1e-300)
            okp = all(np.allclose(q.func, fac * q0.func, rtol=1e-13, atol=1e-300) and np.allclose(q.abel, fac * q0.abel, rtol=1e-13, atol=1e-300)
                      for q, q0 in zip(fresh.p, parts))
            if not (okw and okp):
                ck.violation(dict(site="PiecewisePolynomial", clause="scalar-ops-in-place"), dict(rep, k=k, op=label, pieces=len(ranges)),
                             f"{label} on a PiecewisePolynomial of {len(ranges)} piece(s): {'func/abel are' if not okw else 'the pieces are'} not scaled by {fac:.4g}")
                break
    # SPolynomial on a 2-D grid
    for it in range(20 if not deep else 300):
        shape = (int(rng.integers(7, 15)), int(rng.integers(7, 15)))
        origin = (float(rng.uniform(0, shape[0] - 1)), float(rng.uniform(0, shape[1] - 1))) if rng.random() < 0.7 else None
        R, C = quiet(rcos, shape=shape, origin=origin)
        M, N = int(rng.integers(1, 5)), int(rng.integers(1, 4))
        c = rng.normal(size=(M, N)) * (rng.random((M, N)) < 0.8)
        rmin, rmax = sorted(rng.uniform(0, 12, size=2))
        r0 = float(rng.choice([0.0, rng.uniform(0, 8)]))
        s = float(rng.choice([1.0, rng.uniform(0.5, 3)]))
        ck.count(("S.spoly", M, N, r0 == 0, origin is None), suite="S.spolynomial")
        rep = dict(shape=list(shape), origin=origin, c=c.tolist(), r_min=rmin, r_max=rmax, r_0=r0, s=s)
        try:
            sp = quiet(SPolynomial, R, C, rmin, rmax, c.copy(), r_0=r0, s=s)
        except Exception as e:
            ck.violation(dict(site="SPolynomial", clause="exception"), rep, f"{type(e).__name__}: {e}")
            continue
        g = lambda rho, cs: sum(c[m, nn] * ((rho - r0) / s) ** m * cs ** nn for m in range(M) for nn in range(N))
        dom = (R >= rmin) & (R < rmax)
        want = np.where(dom, g(R, C), 0.0)
        scale = np.abs(c).sum() * max(1.0, ((rmax + r0) / s)) ** (M - 1)
        if np.abs(sp.func - want).max() > 1e-10 * scale:
            ck.violation(dict(site="SPolynomial", clause="func"), rep, f"func off by {np.abs(sp.func - want).max():.3g}")
        for _ in range(3):
            i, j = int(rng.integers(0, shape[0])), int(rng.integers(0, shape[1]))
            x, cs = float(R[i, j]), float(C[i, j])
            y = x * cs       # height above the origin: cos θ' along the line of sight is y/ρ
            wa = abel_of(lambda rho: g(rho, y / rho if rho > 0 else 0.0), x, rmin, rmax)
            if abs(sp.abel[i, j] - wa) > 1e-8 * scale * max(1.0, rmax):
                ck.violation(dict(site="SPolynomial", clause="abel"), dict(rep, pixel=[i, j]),
                             f"abel[{i},{j}] = {sp.abel[i, j]:.12g}, line-of-sight integral = {wa:.12g}")
                break
    # … and on grids with samples exactly on the limits: the domain is r_min ≤ r < r_max — a sample at r_max belongs to the next piece, so
    # two adjoining pieces are the single piece over both (func and abel), on integer 1-D grids and on pixel grids with integer origin
    for it in range(6 if not deep else 40):
        if it % 2 == 0:
            Rg, Cg = np.arange(0.0, 12.0), rng.uniform(-1, 1, size=12)
        else:
            Rg, Cg = quiet(rcos, shape=(11, 13), origin=(5, 6))           # contains r = 5 exactly (3-4-5 pixels) and r = 3, 4 on the axes
        M, N = int(rng.integers(1, 4)), int(rng.integers(1, 3))
        c = rng.normal(size=(M, N))
        c[0, 0] = float(rng.uniform(0.5, 2))
        a_, b_, c_ = [(2.0, 5.0, 8.0), (0.0, 3.0, 5.0), (1.0, 4.0, 5.0)][it % 3]
        ck.count(("S.spoly-limits", M, N, it % 2), suite="S.spolynomial")
        rep = dict(grid="1-D integers" if it % 2 == 0 else "11x13 pixels about (5, 6)", c=c.tolist(), limits=[a_, b_, c_])
        try:
            one = quiet(SPolynomial, Rg, Cg, a_, c_, c)
            two = quiet(PiecewiseSPolynomial, Rg, Cg, [(a_, b_, c), (b_, c_, c)])
            left = quiet(SPolynomial, Rg, Cg, a_, b_, c)
        except Exception as e:
            ck.violation(dict(site="SPolynomial", clause="exception"), rep, f"{type(e).__name__}: {e}")
            continue
        scale = np.abs(c).sum() * max(1.0, c_) ** (M - 1)
        if np.abs(two.func - one.func).max() > 1e-12 * scale or np.abs(two.abel - one.abel).max() > 1e-10 * scale * c_:
            ck.violation(dict(site="PiecewiseSPolynomial", clause="adjoining-pieces"), rep,
                         f"pieces [{a_}, {b_}) and [{b_}, {c_}) do not add up to the piece [{a_}, {c_}): func off by {np.abs(two.func - one.func).max():.3g}, "
                         f"abel by {np.abs(two.abel - one.abel).max():.3g}")
        if np.abs(left.func[Rg == b_]).max(initial=0.0) != 0 or np.abs(left.func[Rg == a_] - one.func[Rg == a_]).max(initial=0.0) != 0:
            ck.violation(dict(site="SPolynomial", clause="half-open-domain"), rep, f"func at r = r_max = {b_} is not zero, or at r = r_min = {a_} is not the polynomial")
    # … and on grids with samples almost, but not exactly, on the axis (coordinates built by np.arange / linspace arithmetic leave
    # -2.2e-16 where 0 was meant; non-uniform grids may have a point at 1e-9): abel is the line-of-sight integral there as well —
    # continuous in r, no sample is counted twice or dropped between the on-axis rule and the general formula
    for it in range(6 if not deep else 60):
        tiny = np.array([0.0, 2.2e-16, 1e-12, 1e-9, 8e-9, 3e-8, 1e-6])
        Rg = np.concatenate([tiny, rng.uniform(0.05, 6, size=5)])
        Cg = np.concatenate([rng.uniform(-1, 1, size=len(tiny)), rng.uniform(-1, 1, size=5)])
        M, N = int(rng.integers(1, 4)), int(rng.integers(1, 4))
        c = rng.normal(size=(M, N))
        c[0, 0] = float(rng.uniform(0.5, 2))
        rmax = float(rng.uniform(2, 8))
        r0, s_ = (0.0, 1.0) if it % 2 == 0 else (float(rng.uniform(0, 3)), float(rng.uniform(0.5, 2)))
        ck.count(("S.spoly-near-axis", M, N, r0 == 0), suite="S.spolynomial")
        rep = dict(r=Rg.tolist(), cos=Cg.tolist(), c=c.tolist(), r_min=0.0, r_max=rmax, r_0=r0, s=s_)
        try:
            sp = quiet(SPolynomial, Rg, Cg, 0.0, rmax, c, r0, s_)
        except Exception as e:
            ck.violation(dict(site="SPolynomial", clause="exception"), rep, f"{type(e).__name__}: {e}")
            continue
        g = lambda rho, cs: sum(c[m, nn] * ((rho - r0) / s_) ** m * cs ** nn for m in range(M) for nn in range(N))
        scale = np.abs(c).sum() * max(1.0, ((rmax + r0) / s_)) ** (M - 1)
        for i in range(len(Rg)):
            x, cs = float(Rg[i]), float(Cg[i])
            y = x * cs
            wa = abel_of(lambda rho: g(rho, y / rho if rho > 0 else 0.0), x, 0.0, rmax)
            if abs(sp.abel[i] - wa) > 1e-6 * scale * max(1.0, rmax):
                ck.violation(dict(site="SPolynomial", clause="abel-near-axis"), dict(rep, sample=i, r_sample=x),
                             f"abel at r = {x:g} is {sp.abel[i]:.12g}, line-of-sight integral = {wa:.12g}")
                break
    # PiecewiseSPolynomial = sum of its pieces (each piece is decided above), for any order of pieces, including pieces whose
    # coefficient matrix is all zero (first, middle or last); in-place scaling and copies act on func and abel separately
    for it in range(15 if not deep else 150):
        shape = (int(rng.integers(7, 13)), int(rng.integers(7, 13)))
        R, C = quiet(rcos, shape=shape)
        npieces = int(rng.integers(1, 5))
        ranges = []
        for k in range(npieces):
            M, N = int(rng.integers(1, 4)), int(rng.integers(1, 4))
            c = rng.normal(size=(M, N))
            if rng.random() < 0.35 or (k == 0 and it % 2 == 0):
                c = np.zeros((M, N))
            rmin, rmax = sorted(rng.uniform(0, 10, size=2))
            ranges.append((float(rmin), float(rmax), c) + ((float(rng.uniform(0, 5)), float(rng.uniform(0.5, 2))) if rng.random() < 0.5 else ()))
        ck.count(("S.pspoly", npieces, tuple(bool(np.any(rg[2])) for rg in ranges)), suite="S.spolynomial")
        rep = dict(shape=list(shape), ranges=[[rg[0], rg[1], rg[2].tolist(), *rg[3:]] for rg in ranges])
        try:
            pw = quiet(PiecewiseSPolynomial, R, C, [tuple(rg) for rg in ranges])
            parts = [quiet(SPolynomial, R, C, *rg) for rg in ranges]
        except Exception as e:
            ck.violation(dict(site="PiecewiseSPolynomial", clause="exception"), rep, f"{type(e).__name__}: {e}")
            continue
        wf, wa = sum(p.func for p in parts), sum(p.abel for p in parts)
        scale = max(1.0, np.abs(wf).max(), np.abs(wa).max())
        if np.abs(pw.func - wf).max() > 1e-12 * scale or np.abs(pw.abel - wa).max() > 1e-12 * scale:
            ck.violation(dict(site="PiecewiseSPolynomial", clause="sum-of-pieces"), rep,
                         f"func / abel differ from the sum of the pieces by {np.abs(pw.func - wf).max():.3g} / {np.abs(pw.abel - wa).max():.3g}")
            continue
        cp = pw.copy()
        cp *= 3.0
        if np.abs(cp.func - 3 * wf).max() > 1e-12 * scale or np.abs(cp.abel - 3 * wa).max() > 1e-12 * scale or \
                np.abs(pw.func - wf).max() > 1e-12 * scale or np.abs(pw.abel - wa).max() > 1e-12 * scale:
            ck.violation(dict(site="PiecewiseSPolynomial", clause="scalar-or-copy"), rep, "`copy(); *= 3` did not scale func and abel by 3 each, leaving the original alone")
        fresh = quiet(PiecewiseSPolynomial, R, C, [tuple(rg) for rg in ranges])
        fresh *= 3.0
        fresh /= 2.0
        if np.abs(fresh.func - 1.5 * wf).max() > 1e-12 * scale or np.abs(fresh.abel - 1.5 * wa).max() > 1e-12 * scale:
            ck.violation(dict(site="PiecewiseSPolynomial", clause="scalar-ops-in-place"), rep,
                         f"`*= 3; /= 2` on a freshly built PiecewiseSPolynomial of {npieces} piece(s) did not scale func and abel by 1.5")
    # the grids are arrays of numbers, however they are laid out in memory: column-major copies (an image with a horizontal symmetry
    # axis handled as the transpose of a vertical one, MATLAB / Fortran data), transposed views and strided slices of larger arrays
    # give the values of the row-major copy
    for it in range(6 if not deep else 40):
        shape = (int(rng.integers(6, 12)), int(rng.integers(6, 12)))
        origin = (float(rng.uniform(0, shape[0] - 1)), float(rng.uniform(0, shape[1] - 1)))
        R, C = quiet(rcos, shape=shape, origin=origin)
        M, N = int(rng.integers(1, 4)), int(rng.integers(1, 4))
        c = rng.normal(size=(M, N))
        rmin, rmax = sorted(rng.uniform(0, 9, size=2))
        extra = (float(rng.uniform(0, 5)), float(rng.choice([-2.5, 0.7, 1.0, 2.0])))
        ranges = [(float(rmin), float(rmax), c) + extra, (float(rmax), float(rmax + 3), rng.normal(size=(2, 2)))]
        big_R, big_C = np.zeros((2 * shape[0], 2 * shape[1])), np.zeros((2 * shape[0], 2 * shape[1]))
        big_R[::2, ::2], big_C[::2, ::2] = R, C
        layouts = {"fortran": (np.asfortranarray(R), np.asfortranarray(C)), "transposed-view": (np.ascontiguousarray(R.T).T, np.ascontiguousarray(C.T).T),
                   "strided": (big_R[::2, ::2], big_C[::2, ::2]), "mixed": (np.asfortranarray(R), np.ascontiguousarray(C))}
        ref = quiet(SPolynomial, R, C, float(rmin), float(rmax), c, *extra)
        refp = quiet(PiecewiseSPolynomial, R, C, ranges)
        for lname, (Rl, Cl) in layouts.items():
            ck.count(("S.layout", lname, M, N), suite="S.spolynomial")
            try:
                got = quiet(SPolynomial, Rl, Cl, float(rmin), float(rmax), c, *extra)
                gotp = quiet(PiecewiseSPolynomial, Rl, Cl, ranges)
            except Exception as e:
                ck.violation(dict(site="SPolynomial", clause="layout-exception"), dict(layout=lname, shape=list(shape)), f"{type(e).__name__}: {e}")
                continue
            for cls, a, b in (("SPolynomial", got, ref), ("PiecewiseSPolynomial", gotp, refp)):
                sc = max(1.0, float(np.abs(b.func).max()), float(np.abs(b.abel).max()))
                if not (np.allclose(a.func, b.func, rtol=0, atol=1e-12 * sc) and np.allclose(a.abel, b.abel, rtol=0, atol=1e-12 * sc)):
                    ck.violation(dict(site=cls, clause="memory-layout"), dict(layout=lname, shape=list(shape), r_min=float(rmin), r_max=float(rmax), c=c.tolist()),
                                 f"{cls} on {lname} r / cos arrays: func / abel differ from the row-major copy by "
                                 f"{np.abs(a.func - b.func).max():.3g} / {np.abs(a.abel - b.abel).max():.3g}")
    # pieces that lie beyond the sampled radii (r_min > max r) have no func values on the grid, but the lines of sight through the grid
    # points cross them: abel must include them
    for it in range(6 if not deep else 40):
        shape = (int(rng.integers(6, 12)), int(rng.integers(6, 12)))
        R, C = quiet(rcos, shape=shape)
        far = float(R.max()) + float(rng.uniform(0.1, 3))
        ranges = [(0.0, float(rng.uniform(1, R.max())), rng.normal(size=(2, 2))), (far, far + float(rng.uniform(0.5, 4)), rng.normal(size=(3, 1))),
                  (far + 5, far + 7, rng.normal(size=(1, 3)))]
        ck.count(("S.beyond-grid", shape[0] % 2, shape[1] % 2), suite="S.spolynomial")
        pw = quiet(PiecewiseSPolynomial, R, C, ranges)
        parts = [quiet(SPolynomial, R, C, *rg) for rg in ranges]
        wa = sum(q.abel for q in parts)
        i, j = int(rng.integers(0, shape[0])), int(rng.integers(0, shape[1]))
        x, cs = float(R[i, j]), float(C[i, j])
        quadv = 0.0
        for (a_, b_, cc) in ranges:
            for m_ in range(cc.shape[0]):
                for n_ in range(cc.shape[1]):
                    if cc[m_, n_]:
                        quadv += cc[m_, n_] * abel_of(lambda rr, m_=m_, n_=n_: rr ** m_ * ((x * cs / rr) ** n_ if n_ else 1.0), x, a_, b_)
        sc = max(1.0, float(np.abs(wa).max()))
        if np.abs(pw.abel - wa).max() > 1e-12 * sc or abs(pw.abel[i, j] - quadv) > 1e-8 * sc:
            ck.violation(dict(site="PiecewiseSPolynomial", clause="pieces-beyond-grid"), dict(shape=list(shape), far=far, pixel=[i, j]),
                         f"PiecewiseSPolynomial with pieces beyond the sampled radii: abel differs from the sum of its pieces by {np.abs(pw.abel - wa).max():.3g}; "
                         f"abel[{i},{j}] = {pw.abel[i, j]:.10g}, line-of-sight integral = {quadv:.10g}")
    # rcos conventions
    R, C = quiet(rcos, shape=(5, 7), origin=(1, 2))
    ck.count("S.rcos", suite="S.spolynomial")
    if not (R[1, 2] == 0 and C[1, 2] == 0 and abs(C[0, 2] - 1) < 1e-15 and abs(C[4, 2] + 1) < 1e-15 and abs(R[1, 5] - 3) < 1e-15 and C[1, 5] == 0):
        ck.violation(dict(site="rcos", clause="convention"), dict(shape=[5, 7], origin=[1, 2]), "rcos: r / cos θ = -row/r convention violated")
    # Angular algebra and Legendre series
    for it in range(40 if not deep else 400):
        a, b = rng.normal(size=int(rng.integers(1, 6))), rng.normal(size=int(rng.integers(1, 6)))
        x = rng.uniform(-1, 1, size=7)
        A, B = Angular(a), Angular(b)
        ev = lambda ang: horner(ang.c, x)
        ck.count(("S.angular", len(a), len(b)), suite="S.angular")
        bad = None
        if np.abs(ev(A + B) - (ev(A) + ev(B))).max() > 1e-13:
            bad = "sum"
        elif np.abs(ev(A - B) - (ev(A) - ev(B))).max() > 1e-13:
            bad = "difference"
        elif np.abs(ev(A * B) - ev(A) * ev(B)).max() > 1e-12:
            bad = "product"
        elif np.abs(ev(A * 2.5) - 2.5 * ev(A)).max() > 1e-13 or np.abs(ev(A / 4.0) - ev(A) / 4).max() > 1e-13:
            bad = "scalar"
        m_, n_ = int(rng.integers(0, 5)), 2 * int(rng.integers(0, 5))
        if np.abs(ev(Angular.cossin(m_, n_)) - x ** m_ * (1 - x * x) ** (n_ // 2)).max() > 1e-13:
            bad = f"cossin({m_},{n_})"
        if np.abs(ev(Angular.cos(m_)) - x ** m_).max() > 1e-15 or np.abs(ev(Angular.sin(n_)) - (1 - x * x) ** (n_ // 2)).max() > 1e-13:
            bad = "cos/sin powers"
        leg = rng.normal(size=int(rng.integers(1, 7)))
        if np.abs(ev(Angular.legendre(leg)) - sum(cf * eval_legendre(k, x) for k, cf in enumerate(leg))).max() > 1e-12:
            bad = "legendre"
        if bad:
            ck.violation(dict(site="Angular", clause=bad), dict(a=a.tolist(), b=b.tolist(), legendre=leg.tolist()), f"Angular {bad} does not behave as the mathematical operation")
        # subtraction of a longer from a shorter one is a known asymmetry: check the sign convention explicitly
    a, b = np.array([1.0, 2.0]), np.array([0.5, 0.25, 4.0])
    ck.count("S.angular.sub-order", suite="S.angular")
    d = (Angular(a) - Angular(b)).c
    if np.shape(d) != (3,) or not np.allclose(d, [0.5, 1.75, -4.0]):
        ck.violation(dict(site="Angular", clause="difference-order"), dict(a=a.tolist(), b=b.tolist(), got=d.tolist()),
                     f"Angular(a) - Angular(b) with len(a) < len(b) returned {d.tolist()}, expected [0.5, 1.75, -4.0]")
    # radial x angular: the outer product of radial coefficients (any list-like: list, tuple, float or integer array) with the angular ones,
    # from either side, and the operands are left as they were
    for it in range(10 if not deep else 60):
        rad = rng.normal(size=int(rng.integers(1, 5)))
        A = Angular(rng.normal(size=int(rng.integers(1, 5))))
        keepA = A.c.copy()
        want = np.outer(rad, keepA)
        ck.count(("S.angular.outer", it % 5), suite="S.angular")
        for form, arg in (("list", rad.tolist()), ("tuple", tuple(rad.tolist())), ("float-array", rad.copy()), ("int-array", np.round(rad * 3).astype(int))):
            ref = want if form != "int-array" else np.outer(np.round(rad * 3), keepA)
            try:
                got = A * arg
            except Exception as e:
                ck.violation(dict(site="Angular", clause="outer-product"), dict(radial=form, c=keepA.tolist(), coefficients=np.asarray(arg).tolist()),
                             f"Angular * radial coefficients given as {form} raised {type(e).__name__}: {e}")
                continue
            if np.shape(got) != ref.shape or np.abs(np.asarray(got, float) - ref).max() > 1e-14 * max(1.0, np.abs(ref).max()) or not np.array_equal(A.c, keepA):
                ck.violation(dict(site="Angular", clause="outer-product"), dict(radial=form, c=keepA.tolist(), coefficients=np.asarray(arg).tolist()),
                             f"Angular * radial coefficients ({form}) is not their outer product, or the operand changed")
    # B-spline conversion
    from scipy.interpolate import UnivariateSpline, make_interp_spline, splrep
    for it in range(8 if not deep else 60):
        xs = np.sort(rng.uniform(0, 30, size=12))
        if it % 2:                       # a spline fitted across the axis (full-diameter profile): the domain starts below r = 0
            xs = xs - float(rng.uniform(3, 12))
        ys = rng.normal(size=12)
        kind = it % 3
        spl = UnivariateSpline(xs, ys, s=0, k=3) if kind == 0 else make_interp_spline(xs, ys, k=int(rng.integers(1, 4))) if kind == 1 else splrep(xs, ys, k=3)
        ck.count(("S.bspline", kind), suite="S.bspline")
        r = np.linspace(max(0.0, xs[0]), xs[-1], 57, endpoint=False)
        pp = quiet(PiecewisePolynomial, r, quiet(bspline, spl))
        from scipy.interpolate import splev
        want = spl(r) if kind < 2 else splev(r, spl)
        if np.abs(pp.func - want).max() > 1e-9 * max(1.0, np.abs(want).max()):
            ck.violation(dict(site="bspline", clause="conversion"), dict(kind=kind, x=xs.tolist(), y=ys.tolist()),
                         f"piecewise polynomial from the B-spline differs from the spline by {np.abs(pp.func - want).max():.3g}")
    # ApproxGaussian
    tols = [4.8e-3, 1e-3, 5e-2, 1e-5] if not deep else [5e-2, 3.7e-2, 1.4e-2, 4.8e-3, 1e-3, 0.86e-3, 1e-4, 0.95e-5, 1e-5]
    tols += [float(t) for t in np.exp(rng.uniform(np.log(1e-5), np.log(5e-2), size=8 if not deep else 40))]      # any tolerance, not the round ones
    # a log-spaced lattice over the whole range with a seed-dependent phase: the node-placement estimate goes wrong in narrow bands
    # of tol (F34: 1.37e-3..1.43e-3, 5.6e-3..5.7e-3, 1.85e-2..2.07e-2 before the fix), which a few random draws rarely hit
    nl = 250 if not deep else 2500
    tols += [float(t) for t in np.exp(np.log(1e-5) + (np.arange(nl) + rng.uniform()) / nl * (np.log(5e-2) - np.log(1e-5)))]
    # … and far tighter than the documented table goes (hundreds of nodes per side: no cap on their number may cut the node search short)
    tols += [1e-6, 2e-7, 3e-8] if not deep else [1e-6, 5e-7, 2e-7, 1e-7, 3e-8, 1e-8]
    for tol in tols:
        ck.count(("S.gauss", tol), suite="S.approx-gaussian")
        ag = quiet(ApproxGaussian, tol)
        r = np.linspace(0, 1.05 * max(rg[1] for rg in ag.ranges), 40001)
        pp = quiet(PiecewisePolynomial, r, ag.ranges)
        dev = np.abs(pp.func - np.exp(-r * r / 2)).max()
        if dev > 1.01 * tol:
            ck.violation(dict(site="ApproxGaussian", clause="tolerance"), dict(tol=tol, deviation=float(dev)), f"ApproxGaussian({tol}) deviates by {dev:.4g} > 1.01·tol")
        # `norm`: "the integral of the piecewise polynomial function over the whole domain" — exact piece by piece
        from numpy.polynomial import polynomial as Pn
        tot = 0.0
        for rg in ag.ranges:
            lo_, hi_, cf = float(rg[0]), float(rg[1]), np.asarray(rg[2], float)
            r0_, s_ = (float(rg[3]), float(rg[4])) if len(rg) > 3 else (0.0, 1.0)
            anti = Pn.polyint(cf)
            tot += s_ * (Pn.polyval((hi_ - r0_) / s_, anti) - Pn.polyval((lo_ - r0_) / s_, anti))
        if abs(ag.norm - tot) > 1e-12 * tot or abs(ag.norm - np.sqrt(2 * np.pi)) > 3 * tol * r[-1]:
            ck.violation(dict(site="ApproxGaussian", clause="norm"), dict(tol=tol, norm=float(ag.norm), integral=float(tot), pieces=len(ag.ranges)),
                         f"ApproxGaussian({tol}).norm = {ag.norm:.10g}, the integral of its {len(ag.ranges)} pieces over the whole domain is {tot:.10g} (√2π = 2.5066)")
        sc = ag.scaled(2.0, 3.0, 1.5)
        r2 = np.linspace(0, 3.0 + 1.5 * r[-1], 40001)
        pp2 = quiet(PiecewisePolynomial, r2, sc)
        dev2 = np.abs(pp2.func - 2.0 * np.exp(-(r2 - 3.0) ** 2 / (2 * 1.5 ** 2))).max()
        if dev2 > 2.0 * 1.01 * tol:
            ck.violation(dict(site="ApproxGaussian", clause="scaled"), dict(tol=tol, deviation=float(dev2)), f"scaled ApproxGaussian deviates by {dev2:.4g}")


def corr_spterm(ck, tier):
    """SPolynomial with a single non-zero coefficient c[m, n] = 1 vs the Lean model `SPoly.term` (Props/C10SPoly.lean: that model is
    the line-of-sight integral of r^m cos^n θ on [r_min, r_max)), at random points, r_min = 0 and > 0, inside and outside the shell"""
    from abel.tools.polynomial import SPolynomial
    from harness.common import drive, f2h, h2arr
    rng = np.random.default_rng(seed() + 1010)
    lines, refs = [], []
    for _ in range(150 if tier == "quick" else 1500):
        m, n = int(rng.integers(0, 8)), int(rng.integers(0, 8))
        rmax = float(rng.uniform(2, 40))
        rmin = 0.0 if rng.random() < 0.4 else float(rng.uniform(0, rmax * 0.95))
        r = float(rng.uniform(0.02, rmax * 0.999))
        cs = float(rng.uniform(-1, 1))
        c = np.zeros((m + 1, n + 1))
        c[m, n] = 1.0
        sp = quiet(SPolynomial, np.array([r]), np.array([cs]), rmin, rmax, c)
        lines.append(f"spterm {m} {n} {f2h(rmin)} {f2h(rmax)} {f2h(r)} {f2h(cs)}")
        refs.append((float(sp.abel[0]), m, n, rmin, rmax, r, cs))
    for out, (a, m, n, rmin, rmax, r, cs) in zip(drive(lines), refs):
        ck.count(("K.spterm", m, n, rmin == 0, r < rmin), suite="K.spolynomial-term")
        g = h2arr(out.split()[3:])[0] if out.startswith("ok") else np.nan
        # terms of size r_max^(m+1) are subtracted: a few ulps of that
        if not abs(g - a) <= 1e-13 * max(1.0, abs(a), rmax ** (m + 1)):
            ck.disagree("K.spolynomial-term", dict(m=m, n=n, r_min=rmin, r_max=rmax, r=r, cos=cs, implementation=a, model=float(g)),
                        f"SPolynomial(c[{m},{n}]=1).abel at r={r:.6g}, cos={cs:.4g} is {a!r}, the Lean term model gives {g!r}")


def limit_types(ck, tier):
    """the interval limits, shift and stretch are numbers, whatever their Python / NumPy type: integer-typed limits (np.int64(500)
    from an array of pixel indices) give the result of the equal float (repair F65: r_max**k wrapped around in int64 at r = 0)"""
    from abel.tools.polynomial import Polynomial, SPolynomial, rcos
    rng = np.random.default_rng(seed() + 1065)
    casts = [int, np.int64, np.int32, np.int16, np.uint16, np.float32, np.float64]
    for it in range(12 if tier == "quick" else 80):
        rmax = int(rng.choice([7, 40, 500, 3000]))
        rmin = int(rng.choice([0, 0, 1, rmax // 3]))
        M = int(rng.choice([2, 5, 9, 12]))
        n = int(rng.choice([5, 9]))
        c1 = rng.normal(size=M + 1) * float(rmax) ** -np.arange(M + 1)               # terms of comparable size at r_max
        c2 = np.zeros((M + 1, 3))
        c2[:, 0] = c1
        c2[:, 2] = rng.normal(size=M + 1) * float(rmax) ** -np.arange(M + 1)
        r1 = np.arange(0, n, dtype=float) * (rmax / (n - 1.5))
        R, C = rcos(shape=(n, n))
        R = R * (rmax / (n / 2))
        ref1 = Polynomial(r1, float(rmin), float(rmax), c1)
        ref2 = SPolynomial(R, C, float(rmin), float(rmax), c2)
        for cast in casts:
            if cast in (np.int16,) and rmax > 30000:
                continue
            ck.count(("S.limit-type", cast.__name__, M, rmax), suite="S.limit-types")
            try:
                with warnings.catch_warnings():
                    warnings.simplefilter("ignore")
                    p1 = Polynomial(r1, cast(rmin), cast(rmax), c1)
                    p2 = SPolynomial(R, C, cast(rmin), cast(rmax), c2)
            except Exception as e:
                ck.violation(dict(site="polynomial", clause="limit-type-exception"), dict(cast=cast.__name__, r_min=rmin, r_max=rmax, M=M), f"{type(e).__name__}: {e}")
                continue
            for cls, got, ref in (("Polynomial", p1, ref1), ("SPolynomial", p2, ref2)):
                for attr in ("func", "abel"):
                    a, b = getattr(got, attr), getattr(ref, attr)
                    tol = 1e-6 * max(1.0, float(np.abs(b).max()))          # (float32 limits are the same numbers here: small integers)
                    if a.shape != b.shape or not np.all(np.abs(a - b) <= tol):
                        where = np.unravel_index(int(np.argmax(np.abs(a - b))), a.shape) if a.shape == b.shape else None
                        ck.violation(dict(site=cls, clause="limit-type"), dict(cls=cls, attr=attr, cast=cast.__name__, r_min=rmin, r_max=rmax, degree=M,
                                                                               index=[int(v) for v in where] if where else None),
                                     f"{cls}.{attr} with r_min, r_max given as {cast.__name__} ({rmin}, {rmax}; degree {M}) differs from the float limits by "
                                     f"{np.abs(a - b).max() if a.shape == b.shape else 'shape'} (scale {np.abs(b).max():.3g})")


def run(tier):
    ck = Check("C10", tier)
    deep = tier == "thorough"
    ck.cov["rule"] = ("K: 120 (thorough 1500) random polynomials (degree ≤ 8, r₀, s of either sign, uniform/random grids): func vs the "
                      "Lean coefficient transform; Angular products and cossin(m ≤ 4, n ≤ 8) vs the model. S: 150 (thorough 3000) "
                      "polynomial pieces incl. negative / beyond-grid limits, reduced on/off: func and abel (scipy quadrature at 4 radii each) "
                      "relative to the term size; piecewise sums / scalar ops / copies; SPolynomial on 2-D grids with any origin; "
                      "Angular algebra at random x; Legendre series; three kinds of B-splines; ApproxGaussian tolerances. distinct = "
                      "(suite, degree, option flags)")
    ck.cov["trusted_base"] = ["Lean 4.33 kernel", "axioms propext/Classical.choice/Quot.sound",
                              "Model/Polynomial.lean tied to Polynomial.func / Angular by K",
                              "the closed-form Abel integrals of r^k and r^m cos^n pieces (recursions in Polynomial.a, SPolynomial.F) are "
                              "measured against scipy.integrate.quad, not proved", "ApproxGaussian's node search: measured on a dense grid"]
    ck.cov["unproved_clauses"] = ["SPolynomial: shift / stretch and the Horner assembly of the proved terms (linear; quadrature)", "ApproxGaussian(tol) ≤ 1.01 tol (dense grid)",
                                  "B-spline conversion, Legendre series (numerical)"]
    ck.cov["source_fingerprint"] = source_fingerprint(["abel/tools/polynomial.py"])
    ck.proofs("PyAbel.Props.C10")
    ck.proofs("PyAbel.Props.C10SPoly")
    ck.proofs("PyAbel.Props.C10Adjoin")
    ok, log = ensure_driver()
    if ok:
        correspondence(ck, tier)
        corr_spterm(ck, tier)
    else:
        ck.broken.append(dict(kind="proof", module="pyabel_drv", why="driver build failed", log=log[-1500:]))
    oracle(ck, tier, deep or bool(ck.broken))
    limit_types(ck, tier)
    return ck.finish()


def replay(path):
    rec = json.loads(open(path).read())
    print(json.dumps(rec, indent=1, default=str)[:3000])
    return 1
