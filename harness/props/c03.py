"""
C03 — forward and inverse transforms of one method undo each other.

proofs : lean/PyAbel/Props/C03.lean (triangular solve ∘ triangular product = id both ways; degree-0 diagonal
         positivity; matrix-pair round trip); lean/PyAbel/Props/C03Bases.lean (Daun degrees 1 and 2 and every rBasex
         radial matrix P[n] are lower-triangular with positive diagonal at every size — from their Abel-integral
         theorems in C09 — hence their round trips are exact, every size, every row)
K      : Lean matrix models vs implementation arrays (harness/methods.corr_operators) + structure facts the theorems
         need, checked on the implementation's own basis arrays: daun degree 0-2 lower-triangular with positive
         diagonal, rbasex P[n] lower-triangular, forward·inverse operator products = identity
S      : round trips on random (not smooth) rows for the exact class, both orders, all degrees/orders/dr;
         smooth profiles for the approximate class (hansenlaw, direct, corrected basex)
"""
import json

import numpy as np

from harness.common import Check, ensure_driver, seed, source_fingerprint
from harness.methods import corr_operators, quiet

# approximate class: relative round-trip error limits on smooth profiles, away from axis and edge
# (2x what the pinned tree shows over Gaussian / bump / ring profiles, n = 51..201)
APPROX = {"hansenlaw/0": 0.13, "hansenlaw/1": 0.06, "direct": 0.04, "basex/corr/1.0": 0.003, "basex/corr/3.0": 0.04}


def structure(ck, tier):
    import abel
    from abel import daun, rbasex
    sizes = [3, 5, 12, 40] if tier == "quick" else [3, 4, 5, 8, 12, 40, 101, 200]
    for n in sizes:
        for degree in (0, 1, 2):
            A = quiet(daun._bs_daun, n, degree)
            ck.count(("K.structure", "daun", degree, n), suite="K.structure")
            if np.abs(np.triu(A, 1)).max() != 0 or A.diagonal().min() <= 0:
                ck.disagree("K.structure", dict(family="daun", degree=degree, n=n),
                            "basis matrix is not lower-triangular with positive diagonal (hypothesis of daun_roundtrip)")
        for order, odd in ((0, False), (2, False), (4, False), (1, True), (3, True)):
            bs = quiet(rbasex._bs_rbasex, n, order, odd)
            ck.count(("K.structure", "rbasex", order, odd, n), suite="K.structure")
            for P in bs:
                if np.abs(np.triu(P, 1)).max() != 0 or np.abs(P.diagonal()[1:]).min() <= 0:
                    ck.disagree("K.structure", dict(family="rbasex", order=order, odd=odd, n=n),
                                "P[n] is not lower-triangular with non-zero diagonal")


def oracle(ck, tier, deep):
    import abel
    rng = np.random.default_rng(seed() + 3)
    sizes = [3, 4, 7, 16, 40, 64] if not deep else [3, 4, 5, 7, 16, 40, 64, 101, 150, 200]
    nrows = 3 if not deep else 12
    # ---- exact class: daun, every degree, both orders
    import os
    import tempfile
    daun_dir = tempfile.mkdtemp(prefix="c03_", dir=os.environ.get("VERIF_SCRATCH"))
    for degree in (0, 1, 2, 3, 0, 2, 1, 3):          # second pass: the directory now holds files, memory holds another degree

        for n in sizes:
            if degree == 3 and n < 4:
                continue
            dr = float(rng.choice([1.0, 0.5, 2.5]))
            X = rng.normal(size=(nrows, n))
            X[0] = 0
            X[0, int(rng.integers(0, n))] = 1.0                      # a unit vector
            X[-1] = (-1.0) ** np.arange(n)                            # alternating signs
            # the unregularised inverse can be spelt reg=None/0 or as a tuple with strength 0; the basis may come from memory,
            # be generated, or be loaded from a directory that a previous degree / size has already filled
            reg = [None, 0, ("diff", 0), ("L2", 0), ("L2c", 0), 0.0][int(rng.integers(0, 6))]
            bdir = [None, None, daun_dir][int(rng.integers(0, 3))]
            f = lambda Z, d: quiet(abel.daun.daun_transform, Z, degree=degree, direction=d, dr=dr, reg=reg, basis_dir=bdir)
            ck.count(("S.daun", degree, n, dr, str(reg), bdir is None), suite="S.exact")
            sig = dict(site="daun", degree=degree)
            rep = dict(degree=degree, n=n, dr=dr, reg=str(reg), basis_dir=bdir is not None, X=X.tolist())
            try:
                e1 = np.abs(f(f(X, "forward"), "inverse") - X).max()
                e2 = np.abs(f(f(X, "inverse"), "forward") - X).max()
                M = quiet(abel.daun._bs_daun, n, degree)           # (the generator itself: no cache is touched before the round trips)
                cond = np.linalg.cond(M)
            except Exception as e:
                ck.violation(dict(sig, clause="exception"), rep, f"{type(e).__name__}: {e}")
                continue
            tol = 1e-13 * cond * max(1.0, np.abs(X).max()) * n
            if e1 > tol:
                ck.violation(dict(sig, clause="inverse∘forward"), rep, f"inverse(forward(X)) off by {e1:.3g} (tol {tol:.3g})")
            if e2 > tol:
                ck.violation(dict(sig, clause="forward∘inverse"), rep, f"forward(inverse(X)) off by {e2:.3g} (tol {tol:.3g})")
    # ---- basex: unit sigma, no correction, no regularisation (operator level and on rows)
    for n in [s for s in sizes if s >= 4 and s <= 101]:
        X = rng.normal(size=(nrows, n))
        dr = float(rng.choice([1.0, 0.5, 2.5]))
        f = lambda Z, d: quiet(abel.basex.basex_transform, Z, sigma=1.0, reg=0.0, correction=False, direction=d, dr=dr,
                               basis_dir=None, verbose=False)
        ck.count(("S.basex", n, dr), suite="S.exact")
        sig = dict(site="basex")
        rep = dict(n=n, dr=dr, X=X.tolist())
        try:
            # an earlier call with another basis width (same n, reg, correction, dr) must not leak into this one
            prior = ["forward", "inverse", None][int(rng.integers(0, 3))]
            if prior:
                quiet(abel.basex.basex_transform, X, sigma=2.0, reg=0.0, correction=False, direction=prior, dr=dr, basis_dir=None, verbose=False)
            rep["prior_sigma2_call"] = prior
            F = f(np.eye(n), "forward")
            cond = np.linalg.cond(F)
            e1 = np.abs(f(f(X, "forward"), "inverse") - X).max()
            e2 = np.abs(f(f(X, "inverse"), "forward") - X).max()
        except Exception as e:
            ck.violation(dict(sig, clause="exception"), rep, f"{type(e).__name__}: {e}")
            continue
        tol = 1e-13 * cond ** 2 * n * max(1.0, np.abs(X).max())
        if tol > 1e-3:
            ck.notes.append(f"basex n={n}: cond {cond:.3g} too large for a rounding-level test; skipped")
            continue
        if e1 > tol or e2 > tol:
            ck.violation(dict(sig, clause="roundtrip"), rep, f"basex round trips off by {e1:.3g} / {e2:.3g} (tol {tol:.3g})")
    # ---- rbasex: per angular order, operator level and image level
    for (order, odd) in ((0, False), (2, False), (4, False), (1, True), (2, True), (3, True)):
        for R in ([6, 15, 30] if not deep else [4, 6, 15, 30, 60, 100]):
            ck.count(("S.rbasex", order, odd, R), suite="S.exact")
            sig = dict(site="rbasex", order=order, odd=odd)
            rep = dict(order=order, odd=odd, Rmax=R)
            try:
                abel.rbasex.cache_cleanup()
                Af = [a.copy() for a in quiet(abel.rbasex.get_bs_cached, R, order, odd, "forward")]
                Ai = [a.copy() for a in quiet(abel.rbasex.get_bs_cached, R, order, odd, "inverse")]
            except Exception as e:
                ck.violation(dict(sig, clause="exception"), rep, f"{type(e).__name__}: {e}")
                continue
            for k, (a, b) in enumerate(zip(Af, Ai)):
                # orders k > 0 have no r = 0 term
                lo = 0 if (k == 0) else 1
                I = np.eye(R + 1)[lo:, lo:]
                cond = np.linalg.cond(a[lo:, lo:])
                e = max(np.abs(b[lo:, lo:] @ a[lo:, lo:] - I).max(), np.abs(a[lo:, lo:] @ b[lo:, lo:] - I).max())
                if e > 1e-13 * cond * R:
                    ck.violation(dict(sig, clause="operator-product"), dict(rep, term=k),
                                 f"inverse·forward radial operators differ from identity by {e:.3g}")
            # the same pair in the state left behind by a transform whose weights leave some radii without valid pixels
            try:
                yy, xx = np.mgrid[-R:R + 1, -R:R + 1]
                rr = np.hypot(yy, xx)
                img = np.exp(-(rr - R / 2) ** 2 / (R / 5 + 1) ** 2) * (1 + 0.5 * (yy / (rr + 1e-9)) ** 2)
                W = (rr > R / 3).astype(float)
                quiet(abel.rbasex.rbasex_transform, img, order=order, odd=odd, weights=W)
                Ai2 = [a.copy() for a in quiet(abel.rbasex.get_bs_cached, R, order, odd, "inverse")]
                quiet(abel.rbasex.rbasex_transform, img, order=order, odd=odd, weights=W, direction="forward")
                quiet(abel.rbasex.rbasex_transform, img, order=order, odd=odd, weights=W, reg=("L2", 1.0))
                Af2 = [a.copy() for a in quiet(abel.rbasex.get_bs_cached, R, order, odd, "forward")]
                Ai3 = [a.copy() for a in quiet(abel.rbasex.get_bs_cached, R, order, odd, "inverse")]
                ck.count(("S.rbasex-after-mask", order, odd, R), suite="S.exact")
                for k, (a, a2, b, b3) in enumerate(zip(Af, Af2, Ai, Ai3)):
                    if np.abs(a - a2).max() > 0 or np.abs(b - b3).max() > 0:
                        ck.violation(dict(sig, clause="operator-product-after-masked-call"), dict(rep, term=k),
                                     f"after forward / regularised transforms with masking weights the radial operators of term {k} changed "
                                     f"(forward by {np.abs(a - a2).max():.3g}, inverse by {np.abs(b - b3).max():.3g})")
                        break
                for k, (b, b2) in enumerate(zip(Ai, Ai2)):
                    if b.shape != b2.shape or np.abs(b - b2).max() > 0:
                        ck.violation(dict(sig, clause="operator-product-after-masked-call"), dict(rep, term=k),
                                     f"after a transform with weights that mask radii < Rmax/3 the inverse radial operator of term {k} "
                                     f"is no longer the inverse of the forward one (changed by {np.abs(b - b2).max():.3g})")
                        break
            except Exception as e:
                ck.violation(dict(sig, clause="exception"), rep, f"{type(e).__name__}: {e}")
            # the pair as a later session finds it on disk, when the basis file was written by a masked inverse run
            if R <= 30:
                import shutil
                bdir = tempfile.mkdtemp(prefix="c03r_", dir=os.environ.get("VERIF_SCRATCH"))
                try:
                    abel.rbasex.cache_cleanup()
                    quiet(abel.rbasex.rbasex_transform, img, order=order, odd=odd, weights=W, basis_dir=bdir)
                    abel.rbasex.cache_cleanup()
                    Ai4 = [a.copy() for a in quiet(abel.rbasex.get_bs_cached, R, order, odd, "inverse", basis_dir=bdir)]
                    # … and the forward operators asked for next in the same session (the file holds basis and inverse together)
                    Af4 = [np.array(a) for a in quiet(abel.rbasex.get_bs_cached, R, order, odd, "forward", basis_dir=bdir)]
                    for k, (a, a4) in enumerate(zip(Af, Af4)):
                        if a.shape != a4.shape or np.abs(a - a4).max() > 1e-13 * np.abs(a).max():
                            ck.violation(dict(sig, clause="operator-product-from-disk"), dict(rep, term=k, which="forward after inverse"),
                                         f"the forward radial operator of term {k}, requested after the inverse was loaded from a basis file, "
                                         f"differs from the projected basis by {np.abs(a - a4).max():.3g}")
                            break
                    ck.count(("S.rbasex-from-disk", order, odd, R), suite="S.exact")
                    for k, (b, b4) in enumerate(zip(Ai, Ai4)):
                        if b.shape != b4.shape or np.abs(b - b4).max() > 1e-13 * np.abs(b).max():
                            ck.violation(dict(sig, clause="operator-product-from-disk"), dict(rep, term=k),
                                         f"the inverse radial operator of term {k} loaded from a basis file written by a masked run differs "
                                         f"from the inverse of the forward one by {np.abs(b - b4).max():.3g}")
                            break
                except Exception as e:
                    ck.violation(dict(sig, clause="exception"), dict(rep, where="from-disk"), f"{type(e).__name__}: {e}")
                finally:
                    abel.rbasex.cache_cleanup()
                    shutil.rmtree(bdir, ignore_errors=True)
    # ---- approximate class on smooth profiles
    for n in ([51, 101] if not deep else [51, 101, 201, 301]):
        r = np.arange(n)
        profs = {"gauss": np.exp(-r ** 2 / (n / 4.) ** 2), "bump": np.where(r < 0.8 * n, (1 - (r / (0.8 * n)) ** 2) ** 3, 0),
                 "ring": np.exp(-(r - n / 2) ** 2 / (n / 10.) ** 2)}
        meths = [("hansenlaw/0", abel.hansenlaw.hansenlaw_transform, dict(hold_order=0)),
                 ("hansenlaw/1", abel.hansenlaw.hansenlaw_transform, dict(hold_order=1)),
                 ("direct", lambda x, **k: abel.direct.direct_transform(x, backend="python", **k), dict()),
                 ("basex/corr/1.0", abel.basex.basex_transform, dict(correction=True, sigma=1.0, basis_dir=None)),
                 ("basex/corr/3.0", abel.basex.basex_transform, dict(correction=True, sigma=3.0, basis_dir=None))]
        sl = slice(max(3, n // 10), n - max(3, n // 10))
        for name, f, opts in meths:
            for pn, p in profs.items():
                for order in ("inverse∘forward", "forward∘inverse"):
                    ck.count(("S.approx", name, pn, n, order), suite="S.approx")
                    a, b = ("forward", "inverse") if order == "inverse∘forward" else ("inverse", "forward")
                    try:
                        drv = [1.0, 0.5, 2.0][(n + len(pn) + len(name)) % 3]          # the round trip holds for every pixel size
                        y = quiet(f, quiet(f, p, direction=a, dr=drv, **opts), direction=b, dr=drv, **opts)
                    except Exception as e:
                        ck.violation(dict(site=name, clause="exception"), dict(n=n, profile=pn), f"{type(e).__name__}: {e}")
                        continue
                    err = np.abs(y - p)[sl].max() / p.max()
                    if err > APPROX[name]:
                        ck.violation(dict(site=name, clause="approx-roundtrip"), dict(n=n, profile=pn, order=order),
                                     f"{name} {order} on {pn} n={n}: relative error {err:.3g} > envelope {APPROX[name]}")
    ck.sample(dict(suite="S.exact", degrees=[0, 1, 2, 3], sizes=sizes, rows="unit vector, random normal, alternating signs"))


def run(tier):
    ck = Check("C03", tier)
    deep = tier == "thorough"
    ck.cov["rule"] = ("exact class: daun degree 0-3 x sizes {3,4,7,16,40,64} (thorough ..200) x dr in {1,0.5,2.5}, random "
                      "normal rows + a unit vector + alternating signs, both composition orders, tolerance 1e-13·cond·n; "
                      "basex(sigma=1, reg=0, no correction) both orders; rbasex radial operators inverse·forward=I for "
                      "(order, odd) in 6 combinations x Rmax; approximate class: hansenlaw (hold 0/1), direct, corrected "
                      "basex on Gaussian/bump/ring profiles n in {51,101} (thorough ..301). distinct=(suite, case, size)")
    ck.cov["trusted_base"] = ["Lean 4.33 kernel", "axioms propext/Classical.choice/Quot.sound",
                              "theorems hold for any lower-triangular basis with non-zero diagonal; the Lean models of daun "
                              "(deg 0-2) and of rbasex P[n] are proved to have that structure at every size (the models are tied to the "
                              "implementation's arrays entrywise in C09 / K.operators; the structure is also checked on the arrays)",
                              "daun degree 3, basex: round trip follows from matrix_pair_roundtrip given G·F = 1, which is "
                              "measured, not proved",
                              "approximate class: limits are 2x the pinned tree's measured error (harness/props/c03.py APPROX)"]
    ck.cov["unproved_clauses"] = ["daun degree 3 and basex: G·F = 1 measured, not proved", "approximate class envelope (measured)"]
    ck.cov["source_fingerprint"] = source_fingerprint(["abel/daun.py", "abel/basex.py", "abel/rbasex.py", "abel/hansenlaw.py",
                                                       "abel/direct.py"])
    ck.proofs("PyAbel.Props.C03")
    ck.proofs("PyAbel.Props.C03Bases")
    ok, log = ensure_driver()
    if ok:
        corr_operators(ck, tier)
        structure(ck, tier)
    else:
        ck.broken.append(dict(kind="proof", module="pyabel_drv", why="driver build failed", log=log[-1500:]))
    oracle(ck, tier, deep or bool(ck.broken))
    return ck.finish()


def replay(path):
    rec = json.loads(open(path).read())
    print(json.dumps({k: v for k, v in rec.items() if k != "replay"}, indent=1, default=str)[:2000])
    print({k: v for k, v in rec.get("replay", {}).items() if k != "X"})
    return 1
