"""
C06 — quadrant split/join is lossless; symmetrisation is a projector.

proofs : lean/PyAbel/Props/C06.lean (all shapes, all masks)
K      : get_image_quadrants / put_image_quadrants vs the Lean model, bit-for-bit ('average'),
         1e-13 ('fourier', FFT rounding)
S      : brute-force mirror/mean reference written from the docstring, independent of PyAbel; integer / float32 images with
         both symmetrisation methods
"""
import itertools
import json
import warnings

import numpy as np

from harness.common import Check, arr2h, drive, ensure_driver, h2arr, seed, source_fingerprint

AXES = [("none", None, 0), ("int0", 0, 1), ("int1", 1, 2), ("tuple01", (0, 1), 3), ("list01", [0, 1], 3)]
MASKS = list(itertools.product([True, False], repeat=4))


def _impl_sym(im, axis, mask, method):
    from abel.tools.symmetry import get_image_quadrants, put_image_quadrants
    with warnings.catch_warnings():
        warnings.simplefilter("ignore")
        Q = get_image_quadrants(im, reorient=True, symmetry_axis=axis, use_quadrants=mask, symmetrize_method=method)
    return Q, put_image_quadrants(Q, im.shape, symmetry_axis=axis)


# ---- independent reference -------------------------------------------------------------------
def ref_quadrants(im):
    n, m = im.shape
    nc, mc = (n + 1) // 2, (m + 1) // 2
    q0 = im[:nc, m - mc:]
    q1 = im[:nc, :mc][:, ::-1]
    q2 = im[n - nc:, :mc][::-1, ::-1]
    q3 = im[n - nc:, m - mc:][::-1, :]
    return [q0, q1, q2, q3]


def ref_defined(code, mask):
    u = mask
    return {0: all(u), 1: (u[0] or u[1]) and (u[2] or u[3]), 2: (u[1] or u[2]) and (u[0] or u[3]), 3: any(u)}[code]


def ref_symmetrise(im, code, mask):
    """mean of the enabled quadrants in each group; assembled with the centre column from the right-hand
    quadrants and the centre row from the lower ones"""
    n, m = im.shape
    q = ref_quadrants(im)
    groups = {0: [[0], [1], [2], [3]], 1: [[0, 1], [0, 1], [2, 3], [2, 3]], 2: [[0, 3], [1, 2], [1, 2], [0, 3]],
              3: [[0, 1, 2, 3]] * 4}[code]
    outq = []
    for k in range(4):
        en = [g for g in groups[k] if mask[g]]
        outq.append(sum(q[g] for g in en) / len(en))
    out = np.empty((n, m))
    nc, mc = (n + 1) // 2, (m + 1) // 2
    # order matters where quadrants overlap: write left before right, top before bottom
    out[:nc, :mc] = outq[1][:, ::-1]
    out[:nc, m - mc:] = outq[0]
    out[n - nc:, :mc] = outq[2][::-1, ::-1]
    out[n - nc:, m - mc:] = outq[3][::-1, :]
    return out


def mirror_ok(S, code, tol):
    ok = True
    if code in (1, 3):
        ok &= np.abs(S - S[:, ::-1]).max() <= tol
    if code in (2, 3):
        ok &= np.abs(S - S[::-1, :]).max() <= tol
    return bool(ok)


def make_symmetric(im, code):
    if code in (1, 3):
        im = (im + im[:, ::-1]) / 2
    if code in (2, 3):
        im = (im + im[::-1, :]) / 2
    return im


# ---- suites ----------------------------------------------------------------------------------
def shapes(tier):
    hi = 9 if tier == "quick" else 13
    s = [(r, c) for r in range(2, hi + 1) for c in range(2, hi + 1)]
    if tier == "thorough":
        rng = np.random.default_rng(seed() + 606)
        s += [tuple(int(v) for v in rng.integers(14, 41, size=2)) for _ in range(40)]
    return s


def correspondence(ck: Check, tier):
    rng = np.random.default_rng(seed() + 6)
    cases, lines = [], []
    for (r, c) in shapes(tier):
        ims = [("labelled", (1000.0 * np.arange(r)[:, None] + np.arange(c)[None, :] + 1.0)),
               ("random", rng.normal(size=(r, c)))]
        for (axname, axis, code), mask in itertools.product(AXES, MASKS):
            for (kind, im) in ims:
                u = " ".join("1" if b else "0" for b in mask)
                lines.append(f"sym {r} {c} {code} {u} {arr2h(im)}")
                lines.append(f"quads {r} {c} {code} {u} {arr2h(im)}")
                cases.append((r, c, axname, axis, code, mask, kind, im))
    replies = drive(lines)
    for k, (r, c, axname, axis, code, mask, kind, im) in enumerate(cases):
        key = (r % 2, c % 2, min(r, 4), min(c, 4), axname, mask)
        ck.count(key, nontrivial=True, suite="K.average")
        case = dict(shape=[r, c], axis=axname, mask=list(mask), image=kind)
        try:
            Q, S = _impl_sym(im, axis, mask, "average")
            impl = ("ok", S, np.concatenate([q.ravel() for q in Q]))
        except ValueError:
            impl = ("raise", None, None)
        except Exception as e:                      # any other failure is a disagreement, not a crash of the check
            impl = (f"exc:{type(e).__name__}", None, None)
        ms, mq = replies[2 * k].split(), replies[2 * k + 1].split()
        if ms[0] != impl[0]:
            ck.disagree("K.average", case, f"model {ms[0]} vs implementation {impl[0]}")
            continue
        if ms[0] != "ok":
            continue
        mS = h2arr(ms[3:]).reshape(int(ms[1]), int(ms[2]))
        mQ = h2arr(mq[3:])
        if mS.shape != S.shape or not np.array_equal(mS, S, equal_nan=True):
            ck.disagree("K.average", case, "put(get(im)) differs from the model (bit-for-bit)")
        elif mQ.shape != impl[2].shape or not np.array_equal(mQ, impl[2], equal_nan=True):
            ck.disagree("K.average", case, "get_image_quadrants differs from the model (bit-for-bit)")
        if k % 997 == 0:
            ck.sample(dict(suite="K.average", **case, result_row0=[float(v) for v in S[0][:4]]))
    # 'fourier': the model is the full-mask mirror average (Props/C06 `fourier_eq_average`), FFT rounding 1e-13
    for (r, c) in shapes("quick"):
        for (axname, axis, code), mask in itertools.product(AXES, MASKS):
            im = rng.normal(size=(r, c))
            ck.count(("fourier", r % 2, c % 2, min(r, 4), min(c, 4), axname, mask), suite="K.fourier")
            case = dict(shape=[r, c], axis=axname, mask=list(mask), method="fourier")
            try:
                Q, S = _impl_sym(im, axis, mask, "fourier")
                impl = "ok"
            except ValueError:
                impl = "raise"
            except Exception as e:
                impl = f"exc:{type(e).__name__}"
            model = "ok" if ref_defined(code, mask) else "raise"
            if impl != model:
                ck.disagree("K.fourier", case, f"model {model} vs implementation {impl}")
            elif impl == "ok":
                u = "1 1 1 1"
                ms = drive([f"sym {r} {c} {code} {u} {arr2h(im)}"])[0].split()
                mS = h2arr(ms[3:]).reshape(r, c)
                if np.shape(S) != mS.shape:
                    ck.disagree("K.fourier", case, f"implementation returns shape {np.shape(S)}, model {mS.shape}")
                elif np.abs(mS - S).max() > 1e-13 * max(1.0, np.abs(im).max()):
                    ck.disagree("K.fourier", case, f"differs from the mirror-average model by {np.abs(mS - S).max():.3g}")


def oracle(ck: Check, tier, deep=False):
    """Property-level checks on the implementation against the independent reference."""
    rng = np.random.default_rng(seed() + 66)
    shp = shapes(tier) if deep else [(r, c) for r in range(2, 8) for c in range(2, 8)]
    for (r, c) in shp:
        for method in ("average", "fourier"):
            tol = 0.0 if method == "average" else 1e-13
            for (axname, axis, code), mask in itertools.product(AXES, MASKS):
                im = rng.normal(size=(r, c))
                sig = dict(site="get_image_quadrants", method=method, axis_form=axname)
                rep = dict(shape=[r, c], symmetry_axis=repr(axis), use_quadrants=list(mask), symmetrize_method=method,
                           image=im.tolist())
                ck.count(("S", method, r % 2, c % 2, axname, mask), suite="S.oracle")
                defined = ref_defined(code, mask)
                # the mask may arrive as a tuple, a list, a NumPy boolean array (e.g. `counts > 10`) or 0/1 integers
                kind = int(rng.integers(0, 4))
                mask_arg = [mask, list(mask), np.array(mask), tuple(int(b) for b in mask)][kind]
                rep["use_quadrants_type"] = ["tuple", "list", "ndarray", "ints"][kind]
                try:
                    Q, S = _impl_sym(im, axis, mask_arg, method)
                    raised = False
                except ValueError:
                    raised = True
                except Exception as e:
                    ck.violation(dict(sig, clause="exception"), rep, f"unexpected {type(e).__name__}: {e}")
                    continue
                if raised != (not defined):
                    ck.violation(dict(sig, clause="rejection"), rep,
                                 f"quadrant {'undefined but accepted' if not raised else 'defined but rejected'}")
                    continue
                if raised:
                    continue
                if np.shape(S) != im.shape:
                    ck.violation(dict(sig, clause="shape"), rep, f"put(get(im)) has shape {np.shape(S)}, the image {im.shape}")
                    continue
                if code == 0:
                    if not np.array_equal(S, im) and (method == "average" or np.abs(S - im).max() > tol):
                        ck.violation(dict(sig, clause="put_get"), rep, "put(get(im)) != im")
                    continue
                scale = max(1.0, np.abs(im).max())
                if not np.all(np.isfinite(S)):
                    ck.violation(dict(sig, clause="finite"), rep, "non-finite output for an admissible request")
                    continue
                if not mirror_ok(S, code, tol * scale):
                    ck.violation(dict(sig, clause="mirror"), rep, "result is not mirror-symmetric about the centre")
                if method == "average":
                    ref = ref_symmetrise(im, code, mask)
                    if np.abs(ref - S).max() > 1e-14 * scale:
                        ck.violation(dict(sig, clause="mean"), rep,
                                     f"not the mean over the enabled quadrants (off by {np.abs(ref - S).max():.3g})")
                # fixed points and idempotence
                sym = make_symmetric(im, code)
                try:
                    _, S1 = _impl_sym(sym, axis, mask, method)
                    _, S2 = _impl_sym(S, axis, mask, method)
                except Exception as e:
                    ck.violation(dict(sig, clause="exception"), rep, f"unexpected {type(e).__name__}: {e}")
                    continue
                if np.abs(S1 - sym).max() > 4e-15 * scale + tol:
                    ck.violation(dict(sig, clause="fixed"), rep,
                                 f"already symmetric image changed by {np.abs(S1 - sym).max():.3g}")
                if np.abs(S2 - S).max() > 4e-15 * scale + tol:
                    ck.violation(dict(sig, clause="idempotent"), rep,
                                 f"second application changes the result by {np.abs(S2 - S).max():.3g}")


def oracle_scales(ck: Check, tier):
    """symmetrisation is linear: an image of tiny amplitude, or a small asymmetric pattern on a large pedestal, is symmetrised like any other
    (no test of "already symmetric" with an absolute or relative tolerance may skip the work)"""
    rng = np.random.default_rng(seed() + 6066)
    for (r, c) in ((6, 7), (5, 5)) if tier == "quick" else ((6, 7), (5, 5), (9, 4), (8, 8)):
        pat = rng.normal(size=(r, c))
        for (axname, axis, code) in AXES:
            if code == "none":
                continue
            for method in ("average", "fourier"):
                base = np.array(_impl_sym(pat, axis, (True,) * 4, method)[0])          # (the four quadrants as returned: reassembly mirrors one side over the other)
                for label, im, back in (("tiny", 1e-9 * pat, lambda S: S / 1e-9), ("tiny-offset", 1.0 + 1e-9 * pat, lambda S: (S - 1.0) / 1e-9),
                                         ("pedestal", 1e4 + 0.04 * pat, lambda S: (S - 1e4) / 0.04), ("large", 1e12 * pat, lambda S: S / 1e12)):
                    ck.count(("S.scale", r, c, axname, method, label), suite="S.property")
                    S = np.array(_impl_sym(im, axis, (True,) * 4, method)[0])
                    tol = {"tiny": 1e-12, "tiny-offset": 1e-5, "pedestal": 1e-7, "large": 1e-12}[label]      # (rounding of the pedestal, in units of the pattern)
                    dev = np.abs(back(S) - base).max()
                    if not dev <= tol * max(1.0, np.abs(base).max()):
                        ck.violation(dict(site="get_image_quadrants", clause="symmetrise-scale", method=method), dict(shape=[r, c], symmetry_axis=repr(axis), method=method, image=label),
                                     f"{method} symmetrisation about {axis!r} of the '{label}' image is not that of the pattern it carries (off by {dev:.3g} in units of the pattern)")


def oracle_dtypes_reorient(ck: Check, tier):
    """'all real images': integer images (camera frames) are averaged as their values — sums must not wrap around;
    reorient=False: the quadrants come back un-flipped without symmetrisation, and every form of a symmetry request is refused
    (never an average of un-mirrored quadrants)"""
    from abel.tools.symmetry import get_image_quadrants, put_image_quadrants
    rng = np.random.default_rng(seed() + 666)
    for _ in range(60 if tier == "quick" else 600):
        r, c = (int(v) for v in rng.integers(2, 9, size=2))
        dt = [np.uint8, np.int8, np.uint16, np.int16, np.int32, np.float32][int(rng.integers(0, 6))]
        info = np.iinfo(dt) if np.issubdtype(dt, np.integer) else None
        im = rng.integers(info.min, info.max, size=(r, c), endpoint=True).astype(dt) if info is not None else rng.normal(size=(r, c)).astype(dt)
        (axname, axis, code) = AXES[int(rng.integers(0, len(AXES)))]
        mask = (True,) * 4
        ck.count(("S.dtype", np.dtype(dt).name, axname), suite="S.oracle")
        rep = dict(shape=[r, c], dtype=np.dtype(dt).name, symmetry_axis=repr(axis), image=im.tolist())
        for method in ("average", "fourier"):          # (with every quadrant enabled both are the mirror average, C06 `fourier_eq_average`)
            sig = dict(site="get_image_quadrants", method=method, axis_form=axname)
            ck.count(("S.dtype", np.dtype(dt).name, axname, method), suite="S.oracle")
            try:
                _, S = _impl_sym(im, axis, mask, method)
            except Exception as e:
                ck.violation(dict(sig, clause="exception"), dict(rep, method=method), f"unexpected {type(e).__name__}: {e}")
                continue
            ref = ref_symmetrise(im.astype(np.float64), code, mask) if code else im.astype(np.float64)
            tol = 1e-6 * max(1.0, np.abs(ref).max()) if dt is np.float32 else (1e-12 if method == "average" else 1e-9) * max(1.0, np.abs(ref).max())
            if np.shape(S) != ref.shape or np.abs(np.asarray(S, float) - ref).max() > tol:
                ck.violation(dict(sig, clause="mean-integer-image"), dict(rep, method=method),
                             f"{np.dtype(dt).name} image, {method!r}: result is not the mean of the image and its mirror image(s) "
                             f"(off by {np.abs(np.asarray(S, float) - ref).max() if np.shape(S) == ref.shape else 'shape'})")
    for (r, c) in [(2, 2), (3, 4), (4, 3), (5, 5), (6, 7)]:
        im = rng.normal(size=(r, c))
        nr, nc = r // 2 + r % 2, c // 2 + c % 2
        for (axname, axis, code) in AXES:
            ck.count(("S.reorient", r % 2, c % 2, axname), suite="S.oracle")
            rep = dict(shape=[r, c], symmetry_axis=repr(axis), reorient=False, image=im.tolist())
            sig = dict(site="get_image_quadrants", method="average", axis_form=axname)
            try:
                Q = get_image_quadrants(im, reorient=False, symmetry_axis=axis)
                raised = False
            except ValueError:
                raised = True
            except Exception as e:
                ck.violation(dict(sig, clause="exception"), rep, f"unexpected {type(e).__name__}: {e}")
                continue
            if code:
                if not raised:
                    ck.violation(dict(sig, clause="reorient-false-symmetry"), rep,
                                 "reorient=False with a symmetry request returned an average of un-mirrored quadrants instead of refusing")
            elif raised or not (np.array_equal(Q[0], im[:nr, -nc:]) and np.array_equal(Q[1], im[:nr, :nc])
                                and np.array_equal(Q[2], im[-nr:, :nc]) and np.array_equal(Q[3], im[-nr:, -nc:])):
                ck.violation(dict(sig, clause="reorient-false-split"), rep, "reorient=False, no symmetry: quadrants are not the un-flipped corner blocks")


def oracle_transform(ck: Check, tier):
    """the same rejection / finiteness contract where users meet it: abel.Transform(symmetry_axis=…, use_quadrants=…)"""
    import abel
    from harness.methods import quiet
    rng = np.random.default_rng(seed() + 606)
    for (r, c) in ((5, 5), (6, 7)) if tier == "quick" else ((5, 5), (6, 7), (9, 5), (8, 11)):
        for (axname, axis, code), mask in itertools.product(AXES, MASKS):
            im = rng.normal(size=(r, c)) + 3.0
            sig = dict(site="Transform", axis_form=axname)
            rep = dict(shape=[r, c], symmetry_axis=repr(axis), use_quadrants=list(mask), image=im.tolist())
            ck.count(("S.T", r, c, axname, mask), suite="S.transform-rejection")
            defined = ref_defined(code, mask)
            kind = int(rng.integers(0, 4))
            mask_arg = [mask, list(mask), np.array(mask), tuple(int(b) for b in mask)][kind]
            rep["use_quadrants_type"] = ["tuple", "list", "ndarray", "ints"][kind]
            try:
                t = quiet(abel.Transform, im, method="two_point", symmetry_axis=axis, use_quadrants=mask_arg,
                          transform_options=dict(basis_dir=None)).transform
                raised = False
            except ValueError:
                raised = True
            except Exception as e:
                ck.violation(dict(sig, clause="exception"), rep, f"unexpected {type(e).__name__}: {e}")
                continue
            if raised != (not defined):
                ck.violation(dict(sig, clause="rejection"), rep,
                             f"abel.Transform: quadrant {'undefined but accepted' if not raised else 'defined but rejected'}")
            elif not raised and not np.all(np.isfinite(t)):
                ck.violation(dict(sig, clause="finite"), rep, "abel.Transform: non-finite output for an admissible request")
            elif not raised and c % 2 == 1 and code != "none":
                # an admissible request transforms the symmetrised image — the mean of the input and its mirror image(s) over the enabled
                # quadrants (ref_symmetrise) — whichever quadrants the mask leaves out: the same transform without symmetrisation
                sym = ref_symmetrise(im, code, mask)
                try:
                    want = quiet(abel.Transform, sym, method="two_point", transform_options=dict(basis_dir=None)).transform
                except Exception as e:
                    ck.violation(dict(sig, clause="exception"), rep, f"unexpected {type(e).__name__}: {e}")
                    continue
                if t.shape != want.shape or np.abs(t - want).max() > 1e-11 * max(1.0, np.abs(want).max()):
                    ck.violation(dict(sig, clause="transform-of-symmetrised-image"), rep,
                                 f"abel.Transform(symmetry_axis={axis!r}, use_quadrants={mask}) is not the transform of the image symmetrised over the enabled "
                                 f"quadrants (differs by {np.abs(t - want).max() if t.shape == want.shape else 'shape'})")


def run(tier):
    ck = Check("C06", tier)
    ck.cov["rule"] = ("K: every shape 2x2..9x9 (thorough: ..13x13 + 40 random up to 40x40) x 5 symmetry_axis forms "
                      "(None, 0, 1, (0,1), [0,1]) x 16 masks x {labelled, random} images, model vs implementation "
                      "bit-for-bit; distinct = (row parity, col parity, min(rows,4), min(cols,4), axis form, mask, "
                      "suite); S: brute-force mirror/mean/fixed-point/idempotence/rejection oracle on the implementation")
    ck.cov["trusted_base"] = ["Lean 4.33 kernel", "axioms propext/Classical.choice/Quot.sound",
                              "hand-written model lean/PyAbel/Model/Symmetry.lean tied to abel/tools/symmetry.py by "
                              "the bit-exact correspondence suite K over the shapes listed in `rule`",
                              "'fourier' branch: FFT (scipy.fftpack) modelled as the exact mirror average; tie is "
                              "numerical (1e-13)", "reorient=False is outside the model"]
    ck.cov["source_fingerprint"] = source_fingerprint(["abel/tools/symmetry.py"])
    ck.assumptions = ["IEEE double arithmetic of NumPy == Lean Float for + * / (same operation order)"]
    ck.proofs("PyAbel.Props.C06")
    ok, log = ensure_driver()
    if not ok:
        ck.broken.append(dict(kind="proof", module="pyabel_drv", why="driver build failed", log=log[-1500:]))
    else:
        correspondence(ck, tier)
    oracle_transform(ck, tier)
    oracle_dtypes_reorient(ck, tier)
    oracle_scales(ck, tier)
    oracle(ck, tier, deep=bool(ck.broken) or tier == "thorough")
    return ck.finish()


def replay(path):
    rec = json.loads(open(path).read())
    if rec.get("kind") != "failing-input":
        print(json.dumps(rec, indent=1)[:3000])
        return 1
    r = rec["replay"]
    im = np.array(r["image"])
    axis = eval(r["symmetry_axis"])
    Q, S = _impl_sym(im, axis, tuple(r["use_quadrants"]), r["symmetrize_method"])
    print("what:", rec["what"])
    print("input:\n", im, "\noutput:\n", S)
    return 1
