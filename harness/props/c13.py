"""
C13 — origin finders return the true centre of symmetric images and follow shifts.

proofs : lean/PyAbel/Props/C13.lean (centre of mass of a symmetric profile = its centre; translation / scale laws;
         autoconvolution bounded by the energy and attaining it at the symmetry centre — and, for a non-zero profile,
         nowhere else: the argmax is unique, so "first argmax" is the centre)
K      : find_origin(com / convolution / image_center) vs the Lean model, bit-for-bit on integer-valued images
S      : point-symmetric random images about every centre on the half-pixel grid near the middle; whole-pixel
         translations; positive scaling; axes; signed symmetric images (convolution); Gaussian spots for the Gaussian fit, also on
         frames more than a thousand pixels long
"""
import json

import numpy as np

from harness.common import Check, arr2h, drive, ensure_driver, h2arr, seed, source_fingerprint
from harness.methods import quiet

AXES = [0, 1, (0, 1)]


def symmetric_image(rng, rows, cols, c2r, c2c, integer=False):
    """random content point-symmetric about (c2r/2, c2c/2) (centre on the half-pixel grid), zero elsewhere"""
    im = np.zeros((rows, cols))
    hr = min(c2r, 2 * (rows - 1) - c2r)          # extent available on both sides (in half pixels)
    hc = min(c2c, 2 * (cols - 1) - c2c)
    r0, r1 = (c2r - hr) // 2, (c2r + hr) // 2
    c0, c1 = (c2c - hc) // 2, (c2c + hc) // 2
    block = rng.integers(1, 9, size=(r1 - r0 + 1, c1 - c0 + 1)).astype(float) if integer else rng.random((r1 - r0 + 1, c1 - c0 + 1)) + 0.05
    block = block + block[::-1, ::-1]
    im[r0:r1 + 1, c0:c1 + 1] = block
    return im


def correspondence(ck, tier):
    from abel.tools.center import find_origin
    rng = np.random.default_rng(seed() + 13)
    n = 300 if tier == "quick" else 3000
    lines, cases = [], []
    for _ in range(n):
        r, c = (int(v) for v in rng.integers(1, 12, size=2))
        im = rng.integers(0, 50, size=(r, c)).astype(float)
        if im.sum() == 0:
            im[0, 0] = 1
        lines.append(f"com {r} {c} {arr2h(im)}")
        lines.append(f"conv {r} {arr2h(im.sum(axis=1))}")
        lines.append(f"conv {c} {arr2h(im.sum(axis=0))}")
        cases.append(im)
    rep = drive(lines)
    for k, im in enumerate(cases):
        r, c = im.shape
        ck.count(("K.origin", r % 2, c % 2, min(r, 4), min(c, 4)), suite="K.origin")
        case = dict(shape=[r, c], image=im.tolist())
        mcom = h2arr(rep[3 * k].split()[3:])
        com = quiet(find_origin, im, "com")
        if not (com[0] == mcom[0] and com[1] == mcom[1]):
            ck.disagree("K.origin", case, f"com: implementation {com}, model {tuple(mcom)}")
        m0, m1 = int(rep[3 * k + 1].split()[1]), int(rep[3 * k + 2].split()[1])
        conv = quiet(find_origin, im, "convolution")
        # (an asymmetric profile may attain its largest autoconvolution value at two lags exactly — [1, 21, 40, 2] does; the
        #  implementation normalises the projection first, so which of two *equal* values is "first" is decided by rounding there.
        #  A symmetric profile has a unique maximum, Props/C13 `centre_is_unique_argmax`; exact ties are compared up to the tie.)
        exact = [np.convolve(p_, p_) for p_ in (im.sum(axis=1).astype(np.int64), im.sum(axis=0).astype(np.int64))]
        tied = [set(np.flatnonzero(e == e.max()) / 2) for e in exact]
        if not ((conv[0] == m0 / 2 or (len(tied[0]) > 1 and conv[0] in tied[0])) and (conv[1] == m1 / 2 or (len(tied[1]) > 1 and conv[1] in tied[1]))):
            ck.disagree("K.origin", case, f"convolution: implementation {conv}, model {(m0 / 2, m1 / 2)}")
        for axes in AXES:
            ic = quiet(find_origin, im, "image_center", axes=axes)
            if tuple(ic) != (r // 2, c // 2):
                ck.disagree("K.origin", dict(case, axes=str(axes)), f"image_center returned {ic}")
            for meth, full in (("com", com), ("convolution", conv)):
                got = quiet(find_origin, im, meth, axes=axes)
                ax = {axes} if isinstance(axes, int) else set(axes)
                want = tuple(full[a] if a in ax else im.shape[a] // 2 for a in (0, 1))
                if tuple(got) != want:
                    ck.disagree("K.origin", dict(case, axes=str(axes), method=meth), f"axes={axes}: got {got}, expected {want}")
    ck.sample(dict(suite="K.origin", shape=list(cases[0].shape), com=[float(v) for v in quiet(find_origin, cases[0], "com")]))


def oracle(ck, tier, deep):
    from abel.tools.center import find_origin
    rng = np.random.default_rng(seed() + 1313)
    n = 200 if not deep else 3000
    for _ in range(n):
        rows, cols = (int(v) for v in rng.integers(5, 40, size=2))
        c2r = int(rng.integers(max(2, rows - 5), min(2 * rows - 3, rows + 4) + 1))
        c2c = int(rng.integers(max(2, cols - 5), min(2 * cols - 3, cols + 4) + 1))
        im = symmetric_image(rng, rows, cols, c2r, c2c)
        true = (c2r / 2, c2c / 2)
        scale = float(rng.choice([1e-12, 1e-9, 1e-3, 0.5, 7.0, 1e4, 1e9, 1e-250, 1e-170, 1e160, 1e200]))       # any positive constant
        ck.count(("S.sym", rows % 2, cols % 2, c2r % 2, c2c % 2), suite="S.symmetric")
        rep = dict(shape=[rows, cols], centre=list(true), image=im.tolist())
        for meth, tol in (("com", 1e-10), ("convolution", 0.0)):
            sig = dict(site="find_origin", method=meth)
            try:
                got = quiet(find_origin, im, meth)
                got_s = quiet(find_origin, im * scale, meth)
            except Exception as e:
                ck.violation(dict(sig, clause="exception"), rep, f"{type(e).__name__}: {e}")
                continue
            if max(abs(got[0] - true[0]), abs(got[1] - true[1])) > tol:
                ck.violation(dict(sig, clause="symmetric-centre"), rep, f"{meth} returned {got} for an image symmetric about {true}")
            if max(abs(got_s[0] - got[0]), abs(got_s[1] - got[1])) > tol + 1e-12:
                ck.violation(dict(sig, clause="scale"), dict(rep, scale=scale), f"{meth}: scaling by {scale} moved the origin {got} -> {got_s}")
            # whole-pixel translation with empty margins
            tr, tc = (int(v) for v in rng.integers(0, 6, size=2))
            big = np.zeros((rows + 6, cols + 6))
            big[:rows, :cols] = im
            moved = np.zeros_like(big)
            moved[tr:tr + rows, tc:tc + cols] = im
            g0, g1 = quiet(find_origin, big, meth), quiet(find_origin, moved, meth)
            if max(abs(g1[0] - g0[0] - tr), abs(g1[1] - g0[1] - tc)) > tol + 1e-12:
                ck.violation(dict(sig, clause="translation"), dict(rep, shift=[tr, tc]), f"{meth}: content moved by {(tr, tc)}, origin moved {g0} -> {g1}")
            for axes in (0, 1):
                ga = quiet(find_origin, im, meth, axes=axes)
                other = 1 - axes
                if ga[other] != im.shape[other] // 2 or abs(ga[axes] - got[axes]) > tol:
                    ck.violation(dict(sig, clause="axes"), dict(rep, axes=axes), f"{meth} axes={axes} returned {ga}")
        # detector counts: the same image stored as integers (narrow types with small counts, 64-bit integers with large ones) has the same origin
        kind_i = int(rng.integers(0, 3))
        imi = [np.round(im * 200).astype(np.uint8), np.round(im * 6e4).astype(np.uint16), np.round(im * 6e4).astype(np.int64) * 1000][kind_i]
        for meth, tol in (("com", 1e-9), ("convolution", 0.0)):
            try:
                gi, gf = quiet(find_origin, imi, meth), quiet(find_origin, imi.astype(np.float64), meth)
            except Exception as e:
                ck.violation(dict(site="find_origin", method=meth, clause="exception"), dict(rep, dtype=str(imi.dtype)), f"{type(e).__name__}: {e}")
                continue
            if max(abs(gi[0] - gf[0]), abs(gi[1] - gf[1])) > tol:
                ck.violation(dict(site="find_origin", method=meth, clause="integer-image"), dict(shape=[rows, cols], dtype=str(imi.dtype), peak=int(imi.max())),
                             f"{meth}: the {imi.dtype} image (peak {int(imi.max())}) gives {gi}, its float64 copy {gf}")
        ic = quiet(find_origin, im, "image_center")
        if tuple(ic) != (rows // 2, cols // 2):
            ck.violation(dict(site="find_origin", method="image_center", clause="image_center"), rep, f"image_center returned {ic}")
    # content whose centre of symmetry is far from the middle of the frame (towards an edge or a corner)
    for _ in range(40 if not deep else 400):
        rows, cols = (int(v) for v in rng.integers(24, 50, size=2))
        k = int(rng.integers(3, 6))
        blob = symmetric_image(rng, 2 * k + 1, 2 * k + 1, 2 * k, 2 * k)        # symmetric about its own centre (k, k)
        cy = int(rng.integers(k, max(k + 1, rows // 5)))
        cx = int(rng.integers(k, max(k + 1, cols // 5)))
        if rng.random() < 0.5:
            cy = rows - 1 - cy
        if rng.random() < 0.5:
            cx = cols - 1 - cx
        im = np.zeros((rows, cols))
        im[cy - k:cy + k + 1, cx - k:cx + k + 1] = blob
        ck.count(("S.corner", cy < rows // 2, cx < cols // 2), suite="S.symmetric")
        for meth, tol in (("com", 1e-10), ("convolution", 0.0)):
            try:
                got = quiet(find_origin, im, meth)
            except Exception as e:
                ck.violation(dict(site="find_origin", method=meth, clause="exception"), dict(shape=[rows, cols], centre=[cy, cx]), f"{type(e).__name__}: {e}")
                continue
            if max(abs(got[0] - cy), abs(got[1] - cx)) > tol:
                ck.violation(dict(site="find_origin", method=meth, clause="symmetric-centre"), dict(shape=[rows, cols], centre=[cy, cx], image=im.tolist()),
                             f"{meth} returned {got} for content symmetric about {(cy, cx)} near the frame's edge")
    # very broad symmetric content on a long frame: neighbouring values of the autoconvolution differ by less than 1e-5 of the maximum near
    # the top, yet the maximum is unique and the centre is reported exactly
    for it in range(4 if not deep else 20):
        cols = int(rng.integers(1300, 1700))
        c2 = int(rng.integers(cols - 40, cols + 40))               # centre on the half-pixel grid (index / 2)
        x = np.arange(cols)
        sig_ = float(rng.uniform(190, 260))
        row = np.exp(-(x - c2 / 2) ** 2 / (2 * sig_ ** 2)) * (np.abs(x - c2 / 2) < 600)
        im = np.vstack([row, 2 * row, row]) * float(rng.choice([1.0, 1e-6, 1e4]))
        ck.count(("S.broad", c2 % 2, it % 2), suite="S.symmetric")
        try:
            got = quiet(find_origin, im if it % 2 == 0 else im.T.copy(), "convolution")
        except Exception as e:
            ck.violation(dict(site="find_origin", method="convolution", clause="exception"), dict(cols=cols, centre=c2 / 2, sigma=sig_), f"{type(e).__name__}: {e}")
            continue
        want = (1.0, c2 / 2) if it % 2 == 0 else (c2 / 2, 1.0)
        if got[0] != want[0] or got[1] != want[1]:
            ck.violation(dict(site="find_origin", method="convolution", clause="symmetric-centre"), dict(shape=[3, cols] if it % 2 == 0 else [cols, 3], centre=list(want), sigma=sig_),
                         f"convolution returned {got} for broad content (sigma {sig_:.0f} px) symmetric about {want}")
    # "symmetric images" may be signed (background-subtracted frames, difference images): the autoconvolution of a profile symmetric about
    # c still peaks at c and nowhere else (Props/C13 `centre_is_unique_argmax` holds for every real profile) — with empty margins around
    # the content, whose first non-zero sample is as often negative as positive
    for it in range(40 if not deep else 400):
        rows, cols = (int(v) for v in rng.integers(6, 30, size=2))
        hr, hc = int(rng.integers(2, rows)), int(rng.integers(2, cols))
        block = rng.normal(size=(hr, hc))
        block = block + block[::-1, ::-1]
        tr, tc = int(rng.integers(0, rows - hr + 1)), int(rng.integers(0, cols - hc + 1))
        im = np.zeros((rows, cols))
        im[tr:tr + hr, tc:tc + hc] = block
        true = (tr + (hr - 1) / 2, tc + (hc - 1) / 2)
        ck.count(("S.signed", hr % 2, hc % 2, tr > 0, tc > 0), suite="S.symmetric")
        try:
            got = quiet(find_origin, im, "convolution")
        except Exception as e:
            ck.violation(dict(site="find_origin", method="convolution", clause="exception"), dict(shape=[rows, cols], image=im.tolist()), f"{type(e).__name__}: {e}")
            continue
        # (the axis sums of a signed block can cancel to zero profiles; the centre is defined only for a non-zero profile)
        ok0, ok1 = np.abs(im.sum(axis=1)).max() > 1e-9, np.abs(im.sum(axis=0)).max() > 1e-9
        if (ok0 and got[0] != true[0]) or (ok1 and got[1] != true[1]):
            ck.violation(dict(site="find_origin", method="convolution", clause="symmetric-centre-signed"), dict(shape=[rows, cols], centre=list(true), image=im.tolist()),
                         f"convolution returned {got} for a signed image symmetric about {true}")
    # one long axis (a 1100-row strip, a 1600-column strip): the Gaussian fit of a spot is as accurate as on a small frame
    for (rows_, cols_), (cy_, cx_), sg_ in (((1100, 31), (431.3, 14.6), 9.0), ((31, 1600), (16.2, 1203.75), 14.0), ((1030, 25), (700.5, 12.0), 5.0)):
        yy_, xx_ = np.mgrid[:rows_, :cols_]
        im = 3.0 * np.exp(-((yy_ - cy_) ** 2 + (xx_ - cx_) ** 2) / (2 * sg_ ** 2))
        ck.count(("S.gauss-long", rows_, cols_), suite="S.gaussian")
        try:
            got = quiet(find_origin, im, "gaussian")
        except Exception as e:
            ck.violation(dict(site="find_origin", method="gaussian", clause="exception"), dict(kind="long", shape=[rows_, cols_]), f"{type(e).__name__}: {e}")
            continue
        if max(abs(got[0] - cy_), abs(got[1] - cx_)) > 1e-3:
            ck.violation(dict(site="find_origin", method="gaussian", clause="gaussian-centre"), dict(kind="long", shape=[rows_, cols_], centre=[cy_, cx_], sigma=sg_),
                         f"gaussian fit on a {rows_}x{cols_} frame returned {got}, true centre {(cy_, cx_)}")
    # Gaussian fit on Gaussian spots (to fit accuracy), translation on the same: ordinary spots, spots sharper than a pixel (their
    # true amplitude is higher than any sample), and broad spots cut off unevenly by the frame (still exactly Gaussian axis sums)
    # … a lattice of narrow spots (σ from 0.4 to 1 pixel, on and between pixel centres, odd and even frames): the starting values of the
    # fit must bracket the half-maximum points of a peak a few samples wide
    for nn in (100, 101):
        for sg in (0.4, 0.5, 0.6, 0.8, 1.0):
            for off in ((0.0, 0.0), (0.3, -0.2), (0.5, 0.5)):
                cy, cx = nn // 2 + 1 + off[0], nn // 2 + 1 + off[1]
                yy, xx = np.mgrid[:nn, :nn]
                im = 5.0 * np.exp(-((yy - cy) ** 2 + (xx - cx) ** 2) / (2 * sg ** 2))
                ck.count(("S.gauss-narrow", nn % 2, sg, off), suite="S.gaussian")
                try:
                    got = quiet(find_origin, im, "gaussian")
                except Exception as e:
                    ck.violation(dict(site="find_origin", method="gaussian", clause="exception"), dict(kind="narrow", shape=[nn, nn], centre=[cy, cx], sigma=sg), f"{type(e).__name__}: {e}")
                    continue
                if max(abs(got[0] - cy), abs(got[1] - cx)) > 1e-4:
                    ck.violation(dict(site="find_origin", method="gaussian", clause="gaussian-centre"), dict(kind="narrow", shape=[nn, nn], centre=[cy, cx], sigma=sg),
                                 f"gaussian fit of a narrow spot (σ = {sg} px) returned {got}, true centre {(cy, cx)}")
    for it in range(36 if not deep else 300):
        kind = ("ordinary", "sharp", "truncated")[it % 3]
        rows, cols = (int(v) for v in rng.integers(41, 70, size=2))
        cy, cx = rows / 2 + rng.uniform(-4, 4), cols / 2 + rng.uniform(-4, 4)
        sy, sx = rng.uniform(2.5, 5), rng.uniform(2.5, 5)
        if kind == "sharp":
            sy, sx = rng.uniform(0.4, 0.85), rng.uniform(0.4, 0.85)
        elif kind == "truncated":
            rows, cols = (int(v) for v in rng.integers(12, 26, size=2))
            sy, sx = rng.uniform(0.2, 0.3) * rows, rng.uniform(0.2, 0.3) * cols
            cy, cx = rows / 2 + rng.uniform(-1.5, 1.5), cols / 2 + rng.uniform(-1.5, 1.5)
        yy, xx = np.mgrid[:rows, :cols]
        im = 3.0 * np.exp(-(yy - cy) ** 2 / (2 * sy ** 2) - (xx - cx) ** 2 / (2 * sx ** 2)) + (0.2 if kind != "truncated" else 0.0)
        ck.count(("S.gauss", kind, rows % 2, cols % 2), suite="S.gaussian")
        rep = dict(kind=kind, shape=[rows, cols], centre=[cy, cx], sigma=[sy, sx])
        if kind == "truncated":           # (no room for translations; the centre and the intensity unit are what is judged)
            try:
                got = quiet(find_origin, im, "gaussian")
                got_s = quiet(find_origin, im * 0.05, "gaussian")
            except Exception as e:
                ck.violation(dict(site="find_origin", method="gaussian", clause="exception"), rep, f"{type(e).__name__}: {e}")
                continue
            if max(abs(got[0] - cy), abs(got[1] - cx)) > 1e-3:
                ck.violation(dict(site="find_origin", method="gaussian", clause="gaussian-centre"), rep, f"gaussian fit returned {got}, true centre {(cy, cx)}")
            if max(abs(got_s[0] - got[0]), abs(got_s[1] - got[1])) > 1e-3:
                ck.violation(dict(site="find_origin", method="gaussian", clause="scale"), rep, f"gaussian: scaling moved {got} -> {got_s}")
            continue
        try:
            got = quiet(find_origin, im, "gaussian")
            got2 = quiet(find_origin, np.roll(np.roll(im, 3, axis=0), -2, axis=1), "gaussian")
            got_s = quiet(find_origin, im * float(rng.choice([40.0, 1e-8, 1e-12, 1e-30, 1e26, 1e60])), "gaussian")
        except Exception as e:
            ck.violation(dict(site="find_origin", method="gaussian", clause="exception"), rep, f"{type(e).__name__}: {e}")
            continue
        if max(abs(got[0] - cy), abs(got[1] - cx)) > 1e-3:
            ck.violation(dict(site="find_origin", method="gaussian", clause="gaussian-centre"), rep, f"gaussian fit returned {got}, true centre {(cy, cx)}")
        if max(abs(got2[0] - got[0] - 3), abs(got2[1] - got[1] + 2)) > 2e-3:
            ck.violation(dict(site="find_origin", method="gaussian", clause="translation"), rep, f"gaussian: shift (3,-2) moved {got} -> {got2}")
        if max(abs(got_s[0] - got[0]), abs(got_s[1] - got[1])) > 1e-3:
            ck.violation(dict(site="find_origin", method="gaussian", clause="scale"), rep, f"gaussian: scaling moved {got} -> {got_s}")
        # least squares is indifferent to the intensity unit, also on spots that are not Gaussian (side lobe + noise)
        if kind != "ordinary":        # (a sub-pixel spot next to a broad lobe is not a well-posed one-Gaussian fit: termination noise)
            continue
        lob = im + 0.8 * np.exp(-(yy - cy - 5) ** 2 / 8.0 - (xx - cx + 6) ** 2 / 10.0) + 0.05 * rng.random((rows, cols))
        try:
            g1 = quiet(find_origin, lob, "gaussian")
            for sc in (100.0, 0.01):
                g2 = quiet(find_origin, lob * sc, "gaussian")
                if max(abs(g2[0] - g1[0]), abs(g2[1] - g1[1])) > 1e-3:
                    ck.violation(dict(site="find_origin", method="gaussian", clause="scale"), dict(rep, scale=sc),
                                 f"gaussian on a non-Gaussian spot: scaling by {sc} moved the origin {g1} -> {g2}")
                    break
        except Exception as e:
            ck.violation(dict(site="find_origin", method="gaussian", clause="exception"), rep, f"{type(e).__name__}: {e}")


def run(tier):
    ck = Check("C13", tier)
    deep = tier == "thorough"
    ck.cov["rule"] = ("K: 300 (thorough 3000) random integer-valued images 1x1..11x11: com / convolution / image_center and the axes "
                      "option vs the Lean model bit-for-bit. S: 200 (thorough 3000) random images point-symmetric about a centre on "
                      "the half-pixel grid within 2.5 px of the middle, shapes 5..39 (all parities): centre, positive scaling, "
                      "whole-pixel translation with empty margins, axes, for com (1e-10) and convolution (exact); Gaussian spots for "
                      "the Gaussian fit (1e-3 px). distinct = (suite, parities of shape and centre)")
    ck.cov["trusted_base"] = ["Lean 4.33 kernel", "axioms propext/Classical.choice/Quot.sound",
                              "Model/Origin.lean tied to scipy.ndimage.center_of_mass / np.convolve / np.argmax as used by "
                              "abel/tools/center.py by bit-exact comparison on integer-valued images",
                              "Gaussian fit (scipy curve_fit) is external: measured on Gaussian spots only"]
    ck.cov["unproved_clauses"] = ["convolution: the symmetry centre is *a* maximum (proved); that the *first* maximum is the centre "
                                  "(no other centre of symmetry) is measured", "Gaussian fit accuracy (measured)"]
    ck.cov["source_fingerprint"] = source_fingerprint(["abel/tools/center.py", "abel/tools/math.py"])
    ck.proofs("PyAbel.Props.C13")
    ok, log = ensure_driver()
    if ok:
        correspondence(ck, tier)
    else:
        ck.broken.append(dict(kind="proof", module="pyabel_drv", why="driver build failed", log=log[-1500:]))
    oracle(ck, tier, deep or bool(ck.broken))
    return ck.finish()


def replay(path):
    rec = json.loads(open(path).read())
    print(json.dumps({k: v for k, v in rec.items() if k != "replay"}, indent=1, default=str)[:2000])
    r = rec.get("replay", {})
    if "image" in r:
        from abel.tools.center import find_origin
        im = np.array(r["image"])
        for m in ("com", "convolution", "image_center"):
            print(m, find_origin(im, m))
    return 1
