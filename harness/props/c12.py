"""
C12 — centring moves exactly the requested point to the image centre.

proofs : lean/PyAbel/Props/C12.lean (every axis length, origin, crop mode);
         lean/PyAbel/Props/C12Frac.lean (order-1 sub-pixel shift conserves the total and moves the first moment by exactly δ·total);
         lean/PyAbel/Props/C12Explicit.lean (center_image with an explicit whole-pixel origin — trimming, conversion of the origin from
         the input frame, centring, second squaring: the requested input pixel is the centre pixel of the output whenever the request
         is not refused, and it is refused exactly when the trimming removes that pixel; square outputs)
K      : set_center / center_image vs the Lean models, bit-for-bit on labelled images (whole-pixel path,
         order=0 rounding, center_image trimming, center_image with explicit origins under every crop / odd_size / square)
S      : brute-force translate reference + intensity/centroid conservation for fractional origins; separability; flags under every crop,
         axes selection and origin method; integer images; explicit origins land at the centre or are refused
"""
import itertools
import json
from fractions import Fraction

import numpy as np

from harness.common import Check, arr2h, drive, ensure_driver, h2arr, seed, source_fingerprint

CROPS = ["maintain_size", "valid_region", "maintain_data"]
AXES = [0, 1, (0, 1), ()]


def labelled(r, c):
    return 1000.0 * (np.arange(r)[:, None] + 1) + np.arange(c)[None, :] + 1.0


def origins_1d(n, full):
    if full or n <= 5:
        return list(range(-n, n)) + [None]
    return sorted({-n, -n + 1, -1, 0, 1, n // 2 - 1, n // 2, n // 2 + 1, n - 2, n - 1} & set(range(-n, n))) + [None]


def model_origin(origin, axes):
    ax = {axes} if isinstance(axes, int) else set(axes)
    return [("N" if (origin[a] is None or a not in ax) else str(origin[a])) for a in (0, 1)]


def correspondence(ck: Check, tier):
    from abel.tools.center import set_center, center_image
    hi = 8 if tier == "quick" else 12
    lines, cases = [], []
    for r in range(1, hi + 1):
        for c in range(1, hi + 1):
            im = labelled(r, c)
            for o0 in origins_1d(r, tier == "thorough"):
                for o1 in origins_1d(c, tier == "thorough"):
                    for axes in AXES:
                        for ci, crop in enumerate(CROPS):
                            m0, m1 = model_origin((o0, o1), axes)
                            lines.append(f"setcenter {ci} {r} {c} {m0} {m1} {arr2h(im)}")
                            cases.append((r, c, o0, o1, axes, crop, im))
    replies = drive(lines)
    for k, (r, c, o0, o1, axes, crop, im) in enumerate(cases):
        cls = lambda o, n: "none" if o is None else "neg" if o < 0 else "lo" if o < n // 2 else "mid" if o == n // 2 else "hi"
        ck.count((r % 2, c % 2, min(r, 3), min(c, 3), cls(o0, r), cls(o1, c), str(axes), crop), suite="K.int")
        case = dict(shape=[r, c], origin=[o0, o1], axes=str(axes), crop=crop)
        try:
            out = set_center(im, (o0, o1), crop=crop, axes=axes)
        except Exception as e:
            ck.disagree("K.int", case, f"implementation raised {type(e).__name__}: {e}")
            continue
        t = replies[k].split()
        mo = h2arr(t[3:]).reshape(int(t[1]), int(t[2]))
        if mo.shape != out.shape or not np.array_equal(mo, out):
            ck.disagree("K.int", case, f"set_center differs from the model: impl shape {out.shape}, model {mo.shape}")
        if k % 4001 == 0:
            ck.sample(dict(suite="K.int", **case, out_shape=list(out.shape)))
    # integer dtype and float-typed whole origins take the same path
    rng = np.random.default_rng(seed() + 12)
    lines, cases = [], []
    for _ in range(300 if tier == "quick" else 3000):
        r, c = (int(v) for v in rng.integers(1, 10, size=2))
        im = rng.integers(-50, 50, size=(r, c))
        o = (int(rng.integers(-r, r)), int(rng.integers(-c, c)))
        crop = int(rng.integers(0, 3))
        order = int(rng.integers(0, 6))
        asfloat = bool(rng.integers(0, 2))
        lines.append(f"setcenter {crop} {r} {c} {o[0]} {o[1]} {arr2h(im.astype(float))}")
        cases.append((im, o, crop, order, asfloat))
    replies = drive(lines)
    for (im, o, crop, order, asfloat), rep in zip(cases, replies):
        ck.count(("dtype", im.shape[0] % 2, im.shape[1] % 2, crop, order, asfloat), suite="K.dtype")
        org = tuple(float(v) for v in o) if asfloat else o
        case = dict(shape=list(im.shape), origin=list(org), crop=CROPS[crop], order=order, dtype="int64")
        try:
            out = set_center(im, org, crop=CROPS[crop], order=order)
        except Exception as e:
            ck.disagree("K.dtype", case, f"implementation raised {type(e).__name__}: {e}")
            continue
        t = rep.split()
        mo = h2arr(t[3:]).reshape(int(t[1]), int(t[2]))
        if mo.shape != out.shape or not np.array_equal(mo, out.astype(float)):
            ck.disagree("K.dtype", case, "integer image / float whole-pixel origin differs from the model")
    # order = 0 with fractional origins: Python round() (half to even) on the exact value
    lines, cases = [], []
    for n in range(2, 9):
        im = labelled(n, 3)
        for num in range(0, 8 * n - 7):                      # origins k/8 in [0, n-1]
            fr = Fraction(num, 8)
            lines.append(f"round {fr.numerator} {fr.denominator}")
            cases.append((n, im, fr))
    replies = drive(lines)
    lines2 = []
    for (n, im, fr), rep in zip(cases, replies):
        lines2.append(f"setcenter 0 {n} 3 {rep.split()[1]} N {arr2h(im)}")
    replies2 = drive(lines2)
    for (n, im, fr), rep in zip(cases, replies2):
        ck.count(("round", n % 2, fr.denominator, fr.numerator % 16), suite="K.round")
        out = set_center(im, (float(fr), None), order=0)
        t = rep.split()
        mo = h2arr(t[3:]).reshape(int(t[1]), int(t[2]))
        if not np.array_equal(mo, out):
            ck.disagree("K.round", dict(n=n, origin=str(fr)), "order=0 rounding differs from round-half-even model")
    # center_image trimming
    hi = 10 if tier == "quick" else 16
    lines, cases = [], []
    for r, c, odd, sq in itertools.product(range(1, hi + 1), range(1, hi + 1), (True, False), (True, False)):
        lines.append(f"trim {r} {c} {int(odd)} {int(sq)}")
        cases.append((r, c, odd, sq))
    for (r, c, odd, sq), rep in zip(cases, drive(lines)):
        ck.count(("trim", r % 2, c % 2, (r > c) - (r < c), min(abs(r - c), 3), odd, sq), suite="K.trim")
        im = labelled(r, c)
        case = dict(shape=[r, c], odd_size=odd, square=sq)
        t = [int(v) for v in rep.split()[1:]]
        try:
            out = center_image(im, method="image_center", odd_size=odd, square=sq)
        except Exception as e:
            if t[1] == 0 or t[3] == 0:
                continue                              # empty result in the model as well (e.g. 1x2 with odd_size... )
            ck.disagree("K.trim", case, f"implementation raised {type(e).__name__}: {e}")
            continue
        ref = im[t[0]:t[0] + t[1], t[2]:t[2] + t[3]]
        if out.shape != ref.shape or not np.array_equal(out, ref):
            ck.disagree("K.trim", case, f"center_image returned shape {out.shape}, model keeps {ref.shape}")


def corr_explicit(ck, tier):
    """center_image with explicit whole-pixel origins (coordinates of the input image, also counted from the end) vs the Lean model
    `centerImageExplicit` — the object of Props/C12Explicit.lean — on labelled images: every output pixel, or the refusal"""
    from abel.tools.center import center_image
    rng = np.random.default_rng(seed() + 121212)
    lines, cases = [], []
    for _ in range(400 if tier == "quick" else 4000):
        r, c = (int(v) for v in rng.integers(1, 13, size=2))
        odd, sq = bool(rng.integers(0, 2)), bool(rng.integers(0, 2))
        crop = int(rng.integers(0, 3))
        o0, o1 = int(rng.integers(-r, r)), int(rng.integers(-c, c))
        lines.append(f"explicit {crop} {r} {c} {int(odd)} {int(sq)} {o0} {o1}")
        cases.append((r, c, odd, sq, crop, o0, o1))
    for (r, c, odd, sq, crop, o0, o1), rep in zip(cases, drive(lines)):
        ck.count(("explicit", r % 2, c % 2, (r > c) - (r < c), odd, sq, crop, o0 < 0, o1 < 0), suite="K.explicit")
        im = labelled(r, c)
        case = dict(shape=[r, c], odd_size=odd, square=sq, crop=CROPS[crop], method=[o0, o1])
        try:
            out = center_image(im, method=(o0, o1), odd_size=odd, square=sq, crop=CROPS[crop])
            got = out
        except ValueError:
            got = "refuse"
        except Exception as e:
            got = f"exc:{type(e).__name__}"
        if rep.strip() == "ok refuse":
            if not isinstance(got, str):
                ck.disagree("K.explicit", case, f"the model refuses this origin (it lies in what the trimming removes), the implementation returned shape {got.shape}")
            continue
        if isinstance(got, str):
            ck.disagree("K.explicit", case, f"implementation: {got}; the model returns an image")
            continue
        head, rs, cs = [t.strip() for t in rep[3:].split("|")]
        rs = [int(v) for v in rs.split()] if rs else []
        cs = [int(v) for v in cs.split()] if cs else []
        ref = np.array([[im[i, j] if (i >= 0 and j >= 0) else 0 for j in cs] for i in rs], dtype=float).reshape(len(rs), len(cs))
        if got.shape != ref.shape or not np.array_equal(np.asarray(got, float), ref):
            ck.disagree("K.explicit", case, f"center_image returned shape {got.shape}, the model {ref.shape}" +
                        ("" if got.shape != ref.shape else " with other pixels"))


# --------------------------------------------------------------------------------------------- oracle
def corr_shiftlin(ck, tier):
    """Lean `shiftLin` (the model the order-1 conservation theorems are about) vs scipy's order-1 shift of the padded data,
    and vs set_center(crop='maintain_size', order=1) on images: rows, then columns"""
    from scipy.ndimage import shift
    from abel.tools.center import set_center
    from harness.common import f2h
    rng = np.random.default_rng(seed() + 1212)
    for _ in range(60 if tier == "quick" else 600):
        n = int(rng.integers(3, 30))
        x = rng.normal(size=n)
        k = int(rng.integers(-6, 7))
        f = float(rng.uniform(0, 1)) if rng.random() < 0.8 else 0.0
        ck.count(("K.shiftlin", n % 2, k < 0, f == 0), suite="K.shiftlin")
        ref = shift(np.pad(x, 1), k + f, order=1)[1:-1]
        got = h2arr(drive([f"shiftlin {k} {f2h(f)} {arr2h(x)}"])[0].split()[3:])
        if got.shape != ref.shape or np.abs(got - ref).max() > 1e-13 * max(1.0, np.abs(x).max()):
            ck.disagree("K.shiftlin", dict(n=n, k=k, f=f, x=x.tolist()), f"Lean shiftLin differs from scipy's order-1 shift by {np.abs(got - ref).max():.3g}")
    for _ in range(12 if tier == "quick" else 80):
        r, c = (int(v) for v in rng.integers(5, 14, size=2))
        im = rng.normal(size=(r, c))
        o = (float(rng.uniform(0.5, r - 1.5)), float(rng.uniform(0.5, c - 1.5)))
        ck.count(("K.shiftlin2d", r % 2, c % 2), suite="K.shiftlin")
        out = set_center(im, o, crop="maintain_size", order=1)
        d0, d1 = r // 2 - o[0], c // 2 - o[1]
        k0, k1 = int(np.floor(d0)), int(np.floor(d1))
        cols = [h2arr(t.split()[3:]) for t in drive([f"shiftlin {k0} {f2h(d0 - k0)} {arr2h(im[:, j])}" for j in range(c)])]
        mid = np.array(cols).T
        rows = [h2arr(t.split()[3:]) for t in drive([f"shiftlin {k1} {f2h(d1 - k1)} {arr2h(mid[i])}" for i in range(r)])]
        model = np.array(rows)
        if model.shape != out.shape or np.abs(model - out).max() > 1e-12 * max(1.0, np.abs(im).max()):
            ck.disagree("K.shiftlin", dict(shape=[r, c], origin=list(o), image=im.tolist()),
                        f"set_center(order=1, maintain_size) differs from the row/column composition of the Lean shift by {np.abs(model - out).max():.3g}")


def ref_translate(im, o, crop, axes):
    """independent brute-force reference for whole-pixel origins (o components already non-negative or None)"""
    out = im
    ax = {axes} if isinstance(axes, int) else set(axes)
    for a in (0, 1):
        if a not in ax or o[a] is None:
            continue
        n = out.shape[a]
        oa = o[a]
        if crop == "maintain_size":
            idx = np.arange(n) + oa - n // 2
        elif crop == "valid_region":
            d = min(oa, n - 1 - oa)
            idx = np.arange(oa - d, oa + d + 1)
        else:
            d = max(oa, n - 1 - oa)
            idx = np.arange(oa - d, oa + d + 1)
        ok = (idx >= 0) & (idx < n)
        taken = np.take(out, np.clip(idx, 0, n - 1), axis=a)
        shape = [1, 1]
        shape[a] = len(idx)
        out = taken * ok.reshape(shape)
    return out


def oracle(ck: Check, tier, deep):
    from abel.tools.center import set_center, center_image
    rng = np.random.default_rng(seed() + 1212)
    n_int = 4000 if deep else 800
    for _ in range(n_int):
        r, c = (int(v) for v in rng.integers(1, 14 if not deep else 40, size=2))
        im = rng.normal(size=(r, c))
        o = [int(rng.integers(-r, r)), int(rng.integers(-c, c))]
        if rng.random() < 0.15:
            o[int(rng.integers(0, 2))] = None
        axes = AXES[int(rng.integers(0, 4))]
        crop = CROPS[int(rng.integers(0, 3))]
        order = int(rng.integers(0, 6))
        ck.count(("S.int", r % 2, c % 2, crop, str(axes), order), suite="S.int")
        sig = dict(site="set_center", crop=crop, kind="whole-pixel")
        rep = dict(shape=[r, c], origin=o, axes=str(axes), crop=crop, order=order, image=im.tolist())
        try:
            out = set_center(im, tuple(o), crop=crop, axes=axes, order=order)
        except Exception as e:
            ck.violation(dict(sig, clause="exception"), rep, f"{type(e).__name__}: {e}")
            continue
        oabs = [None if v is None else (v + n if v < 0 else v) for v, n in zip(o, (r, c))]
        ref = ref_translate(im, oabs, crop, axes)
        if out.shape != ref.shape or not np.array_equal(out, ref):
            ck.violation(dict(sig, clause="translate"), rep, "output is not the exact translate of the input")
            continue
        ax = {axes} if isinstance(axes, int) else set(axes)
        if all((a in ax and oabs[a] is not None) for a in (0, 1)):
            if out[out.shape[0] // 2, out.shape[1] // 2] != im[oabs[0], oabs[1]]:
                ck.violation(dict(sig, clause="origin-at-centre"), rep, "origin pixel is not at (rows//2, cols//2)")
    # fractional origins: total intensity and centroid (blob well inside the frame)
    n_fr = 600 if deep else 150
    from scipy.ndimage import center_of_mass
    for _ in range(n_fr):
        r, c = (int(v) for v in rng.integers(31, 46, size=2))
        yy, xx = np.mgrid[:r, :c]
        cy, cx = r / 2 + rng.uniform(-2, 2), c / 2 + rng.uniform(-2, 2)
        w = rng.uniform(2.5, 4.0)                    # compact support: radius w <= 4 px, stays inside every crop
        rr2 = ((yy - cy) ** 2 + (xx - cx) ** 2) / w ** 2
        im = np.where(rr2 < 1, (1 - rr2) ** 2, 0.0) * (1 + 0.3 * np.cos(yy - cy))
        o = (r / 2 + rng.uniform(-2.5, 2.5), c / 2 + rng.uniform(-2.5, 2.5))
        crop = CROPS[int(rng.integers(0, 3))]
        order = int(rng.integers(1, 6))
        ck.count(("S.frac", r % 2, c % 2, crop, order), suite="S.frac")
        sig = dict(site="set_center", crop=crop, kind="fractional", order=order)
        rep = dict(shape=[r, c], origin=list(o), crop=crop, order=order, blob=[cy, cx, w])
        try:
            out = set_center(im, o, crop=crop, order=order)
        except Exception as e:
            ck.violation(dict(sig, clause="exception"), rep, f"{type(e).__name__}: {e}")
            continue
        tol = 1e-12 if order == 1 else 2e-3         # "exactly for order 1, to interpolation accuracy otherwise"
        tot = abs(out.sum() - im.sum()) / im.sum()
        com_in = np.array(center_of_mass(im))
        com_out = np.array(center_of_mass(out))
        want = np.array(out.shape) // 2 + (com_in - np.array(o))
        dev = np.abs(com_out - want).max()
        if tot > tol:
            ck.violation(dict(sig, clause="intensity"), rep, f"total intensity changed by {tot:.3g} (relative)")
        if dev > (1e-10 if order == 1 else 2e-2):
            ck.violation(dict(sig, clause="centroid"), rep, f"centroid off by {dev:.3g} px")
        # a negative (from-the-end) origin names the same point as origin + size: identical output, every crop and order
        oneg = tuple(v - n if rng.random() < 0.7 else v for v, n in zip(o, (r, c)))
        ck.count(("S.frac-neg", crop, order, oneg[0] < 0, oneg[1] < 0), suite="S.frac")
        try:
            out_neg = set_center(im, oneg, crop=crop, order=order)
        except Exception as e:
            ck.violation(dict(sig, clause="exception"), dict(rep, origin=list(oneg)), f"{type(e).__name__}: {e}")
            continue
        if out_neg.shape != out.shape or np.abs(out_neg - out).max() > 1e-12:
            ck.violation(dict(sig, clause="negative-origin-wrap"), dict(rep, origin=list(oneg), equivalent_origin=list(o)),
                         f"origin {oneg} and the same point counted from the start {o} give different results "
                         f"({'shapes %s vs %s' % (out_neg.shape, out.shape) if out_neg.shape != out.shape else 'max diff %.3g' % np.abs(out_neg - out).max()})")
    # an axis that is not selected is left alone, whatever coordinate is given for it; an origin array is not consumed
    for _ in range(60 if not deep else 300):
        r, c = (int(v) for v in rng.integers(9, 24, size=2))
        im = rng.random((r, c))
        order = int(rng.integers(0, 4))
        o = (r / 2 + rng.uniform(-2.5, 2.5), c / 2 + rng.uniform(-2.5, 2.5))
        sel = int(rng.integers(0, 2))
        other = list(o)
        other[1 - sel] = (r, c)[1 - sel] / 2 + rng.uniform(-2.5, 2.5)
        crop_u = ["maintain_size", "valid_region", "maintain_data"][int(rng.integers(0, 3))]
        ck.count(("S.axes-frac", sel, order, crop_u), suite="S.frac")
        rep = dict(shape=[r, c], origin=list(o), other_origin=other, axes=sel, order=order, crop=crop_u)
        sig = dict(site="set_center", kind="fractional", clause="unselected-axis")
        try:
            a = set_center(im, o, axes=sel, crop=crop_u, order=order)
            b = set_center(im, tuple(other), axes=sel, crop=crop_u, order=order)
            onone = list(o)
            onone[1 - sel] = None
            cnone = set_center(im, tuple(onone), crop=crop_u, order=order)
            if cnone.shape != a.shape or a.shape[1 - sel] != im.shape[1 - sel] or np.abs(cnone - a).max() > 1e-12:
                ck.violation(sig, rep, f"crop={crop_u}: axes={sel} with origin {o} is not the same as leaving the other coordinate None "
                                       f"(shapes {a.shape} / {cnone.shape}, input {im.shape}): the unselected axis was touched")
                continue
            none = set_center(im, o, axes=(), crop=crop_u, order=order)
            oarr = np.array([o[0], None], dtype=object)
            r1 = set_center(im, oarr, crop="maintain_data", order=order)
            r2 = set_center(im, oarr, crop="maintain_data", order=order)
        except Exception as e:
            ck.violation(dict(sig, clause="exception"), rep, f"{type(e).__name__}: {e}")
            continue
        if a.shape != b.shape or np.abs(a - b).max() > 1e-12:
            ck.violation(sig, rep, f"with axes={sel} the coordinate given for the other axis changed the result by {np.abs(a - b).max() if a.shape == b.shape else 'shape'}")
        # along the unselected axis nothing moves: every line keeps its total along the selected axis' complement
        if none.shape != im.shape or np.abs(none - im).max() > 1e-12:          # (a spline of order ≥ 2 reproduces the samples to rounding)
            ck.violation(dict(sig, clause="no-axes"), rep, "axes=() changed the image")
        if oarr[0] != o[0] or oarr[1] is not None or r1.shape != r2.shape or np.abs(r1 - r2).max() > 1e-12:
            ck.violation(dict(site="set_center", clause="origin-array-consumed"), rep,
                         f"an object-dtype origin array was modified by the call (now {oarr.tolist()}) or a second identical call differs")
    # center_image flags
    for r, c, odd, sq in itertools.product(range(1, 13), range(1, 13), (True, False), (True, False)):
        if odd and c == 1 and False:
            continue
        ck.count(("S.flags", r % 2, c % 2, (r > c) - (r < c), odd, sq), suite="S.flags")
        sig = dict(site="center_image", odd_size=odd, square=sq)
        rep = dict(shape=[r, c], odd_size=odd, square=sq)
        try:
            out = center_image(np.ones((r, c)), method="image_center", odd_size=odd, square=sq)
        except Exception as e:
            if c == 1 or r == 1 or (odd and c == 2):
                continue     # degenerate 1-pixel-wide inputs may legitimately have nothing left to centre
            ck.violation(dict(sig, clause="exception"), rep, f"{type(e).__name__}: {e}")
            continue
        if out.size == 0 and min(r, c) >= 2 and not (odd and c == 2 and False):
            ck.violation(dict(sig, clause="empty"), rep, f"empty result {out.shape}")
            continue
        if odd and out.shape[1] % 2 != 1:
            ck.violation(dict(sig, clause="odd"), rep, f"odd_size=True returned width {out.shape[1]}")
        if sq and out.shape[0] != out.shape[1]:
            ck.violation(dict(sig, clause="square"), rep, f"square=True returned shape {out.shape}")
    # detector counts through abel.Transform: an integer image with a fractional origin is centred as its float64 copy (conserving
    # intensity and moving the centroid as stated), not with results rounded back to integers
    import abel
    for _ in range(12 if not deep else 80):
        r, c = (int(v) for v in rng.integers(9, 20, size=2))
        yy, xx = np.mgrid[:r, :c]
        by, bx = rng.uniform(3, r - 4), rng.uniform(3, c - 4)
        dt = [np.int32, np.int64, np.uint16, np.uint8][int(rng.integers(0, 4))]
        Xi = np.round(60 * np.exp(-((yy - by) ** 2 + (xx - bx) ** 2) / 6.0)).astype(dt)
        o = (float(by + rng.uniform(-0.5, 0.5)), float(bx + rng.uniform(-0.5, 0.5)))
        crop = ["maintain_size", "valid_region", "maintain_data"][int(rng.integers(0, 3))]
        order = int(rng.integers(1, 4))
        ck.count(("S.transform-int", np.dtype(dt).name, crop, order), suite="S.frac")
        rep = dict(shape=[r, c], dtype=np.dtype(dt).name, origin=list(o), crop=crop, order=order, blob=[by, bx])
        sig = dict(site="Transform", kind="fractional", clause="integer-image")
        try:
            kw = dict(method="two_point", origin=o, center_options=dict(crop=crop, order=order), transform_options=dict(basis_dir=None))
            ti = quiet_call(abel.Transform, Xi, **kw)
            tf = quiet_call(abel.Transform, Xi.astype(np.float64), **kw)
            ref = set_center(Xi[:, :-1].astype(np.float64) if c % 2 == 0 else Xi.astype(np.float64), o, crop=crop, order=order)
        except Exception as e:
            ck.violation(dict(sig, clause="exception"), rep, f"{type(e).__name__}: {e}")
            continue
        if ti.IM.shape != tf.IM.shape or np.abs(ti.IM - tf.IM).max() > 1e-12 * 60 or np.abs(ti.transform - tf.transform).max() > 1e-9 * 60:
            ck.violation(sig, rep, f"Transform of the {np.dtype(dt).name} image centres it differently from its float64 copy "
                                   f"(max difference {np.abs(ti.IM - tf.IM).max() if ti.IM.shape == tf.IM.shape else 'shape'})")
        elif ref.shape != tf.IM.shape or np.abs(ref - tf.IM).max() > 1e-12 * 60:
            ck.violation(dict(sig, clause="transform-centres-with-set_center"), rep, "Transform(origin=…).IM is not set_center of the (odd-width) float image")
    # abel.Transform centres with center_image and nothing else: Transform(origin, center_options).IM is center_image(IM, origin, **options)
    # for every option — odd_size off (even widths stay even), square, axes, crop — and the shape it promises (maintain_size) is kept
    from abel.tools.center import center_image as _ci
    for it_ in range(40 if not deep else 300):
        r, c = (int(v) for v in rng.integers(7, 16, size=2))
        X = rng.random((r, c))
        opts = dict(odd_size=bool(rng.integers(0, 2)), square=bool(rng.random() < 0.25), crop=["maintain_size", "valid_region", "maintain_data"][int(rng.integers(0, 3))],
                    order=int(rng.integers(0, 3)))
        if rng.random() < 0.4:
            opts["axes"] = [0, 1, (0, 1)][int(rng.integers(0, 3))]
        o = [(int(rng.integers(2, r - 2)), int(rng.integers(2, c - 2))), (float(rng.uniform(2, r - 3)), float(rng.uniform(2, c - 3))), "com", "convolution"][int(rng.integers(0, 4))]
        if it_ % 3 == 1:
            # … and with no center_options at all it is center_image with its defaults — in every call of a session, whatever origins
            # (whole-pixel, fractional) the earlier calls had
            opts = {}
            o = [(int(rng.integers(2, r - 2)), int(rng.integers(2, c - 2))), (float(rng.uniform(2, r - 3)), float(rng.uniform(2, c - 3)))][(it_ // 3) % 2]
        ck.count(("S.transform-options", opts.get("odd_size"), opts.get("square"), opts.get("crop"), c % 2, str(opts.get("axes"))), suite="S.frac")
        rep = dict(shape=[r, c], origin=o if isinstance(o, str) else list(o), options={k: (list(v) if isinstance(v, tuple) else v) for k, v in opts.items()})
        sig = dict(site="Transform", clause="centres-with-center_image")
        try:
            ref = quiet_call(_ci, X, o, **opts)
        except Exception:
            continue                                  # (a combination center_image itself refuses)
        if ref.shape[1] % 2 == 0 or ref.shape[0] < 3 or ref.shape[1] < 5:
            # the quadrant methods need an odd width: whatever Transform does with an even one, it must not silently drop columns — IM is compared only
            try:
                t = quiet_call(abel.Transform, X, method="hansenlaw", origin=o, **(dict(center_options=opts) if opts else {}))
            except Exception:
                continue
        else:
            try:
                t = quiet_call(abel.Transform, X, method="hansenlaw", origin=o, **(dict(center_options=opts) if opts else {}))
            except Exception as e:
                ck.violation(dict(sig, clause="exception"), rep, f"{type(e).__name__}: {e}")
                continue
        if t.IM.shape != ref.shape or not np.allclose(t.IM, ref, rtol=0, atol=1e-12):
            ck.violation(sig, rep, f"Transform(origin={o!r}, center_options={opts}).IM has shape {t.IM.shape}, center_image with the same options gives {ref.shape}"
                         if t.IM.shape != ref.shape else f"Transform(...).IM differs from center_image with the same options by {np.abs(t.IM - ref).max():.3g}")
    # centring is separable: both axes at once = one axis, then the other — for every mix of whole-pixel and fractional coordinates
    # (a whole-pixel axis is not interpolated, not padded or cut for fractional ends, whatever the other axis needs)
    for _ in range(60 if not deep else 600):
        r, c = (int(v) for v in rng.integers(6, 16, size=2))
        im = rng.random((r, c))
        kinds = int(rng.integers(0, 3))
        o0 = float(rng.integers(1, r - 1)) if kinds != 1 else float(rng.uniform(1, r - 2))
        o1 = float(rng.integers(1, c - 1)) if kinds == 1 else float(rng.uniform(1, c - 2))
        if kinds == 2 and rng.random() < 0.5:
            o0, o1 = int(o0), o1                      # (an int next to a float)
        crop = ["maintain_size", "valid_region", "maintain_data"][int(rng.integers(0, 3))]
        order = int(rng.integers(1, 4))
        ck.count(("S.separable", kinds, crop, order), suite="S.frac")
        rep = dict(shape=[r, c], origin=[o0, o1], crop=crop, order=order, image=im.tolist())
        sig = dict(site="set_center", kind="fractional", clause="separable")
        try:
            both = set_center(im, (o0, o1), crop=crop, order=order)
            seq = set_center(set_center(im, (o0, None), crop=crop, order=order), (None, o1), crop=crop, order=order)
        except Exception as e:
            ck.violation(dict(sig, clause="exception"), rep, f"{type(e).__name__}: {e}")
            continue
        if both.shape != seq.shape or np.abs(both - seq).max() > 1e-12:
            ck.violation(sig, rep, f"set_center(im, {(o0, o1)}, crop={crop!r}) has shape {both.shape}; centring the rows and then the columns gives "
                                   f"{seq.shape}" + ("" if both.shape != seq.shape else f" and differs by {np.abs(both - seq).max():.3g}"))
    # integer images given to set_center itself: with a fractional origin the interpolation is done on their values (total intensity
    # preserved exactly for order 1), not rounded back to the integer dtype
    for _ in range(20 if not deep else 150):
        r, c = (int(v) for v in rng.integers(7, 16, size=2))
        dt = [np.int32, np.int64, np.uint16, np.uint8][int(rng.integers(0, 4))]
        Xi = np.zeros((r, c), dt)
        Xi[2:r - 2, 2:c - 2] = rng.integers(1, 9, size=(r - 4, c - 4))            # compact support: nothing leaves the frame
        o = (float(r // 2 + rng.uniform(-0.9, 0.9)), float(c // 2 + rng.uniform(-0.9, 0.9)))
        crop = ["maintain_size", "valid_region", "maintain_data"][int(rng.integers(0, 3))]
        order = int(rng.integers(1, 4))
        ck.count(("S.int-frac", np.dtype(dt).name, crop, order), suite="S.frac")
        rep = dict(shape=[r, c], dtype=np.dtype(dt).name, origin=list(o), crop=crop, order=order, image=Xi.tolist())
        sig = dict(site="set_center", kind="fractional", clause="integer-image")
        try:
            gi = set_center(Xi, o, crop=crop, order=order)
            gf = set_center(Xi.astype(np.float64), o, crop=crop, order=order)
        except Exception as e:
            ck.violation(dict(sig, clause="exception"), rep, f"{type(e).__name__}: {e}")
            continue
        if gi.shape != gf.shape or np.abs(np.asarray(gi, float) - gf).max() > 1e-12 * 9:
            ck.violation(sig, rep, f"set_center of the {np.dtype(dt).name} image differs from that of its float64 copy by "
                                   f"{np.abs(np.asarray(gi, float) - gf).max() if gi.shape == gf.shape else 'shape'} (sum {float(np.sum(gi)):.6g} vs {Xi.sum()})")
    # center_image with an explicit origin: the requested point of the *input* image lands at the centre of the output, whatever
    # rows / columns the odd_size and square trimming removes, and also when the point is counted from the end
    for _ in range(150 if not deep else 1500):
        r, c = (int(v) for v in rng.integers(3, 14, size=2))
        odd, sq = bool(rng.integers(0, 2)), bool(rng.integers(0, 2))
        crop = ["maintain_size", "valid_region", "maintain_data"][int(rng.integers(0, 3))]
        pr, pc = int(rng.integers(0, r)), int(rng.integers(0, c))          # (a point the trimming removes is skipped below)
        im = np.zeros((r, c))
        im[pr, pc] = 1.0
        o = [pr - r if rng.random() < 0.3 else pr, pc - c if rng.random() < 0.3 else pc]
        ck.count(("S.explicit", r % 2, c % 2, (r > c) - (r < c), odd, sq, crop, o[0] < 0, o[1] < 0), suite="S.flags")
        rep = dict(shape=[r, c], point=[pr, pc], method=o, odd_size=odd, square=sq, crop=crop)
        sig = dict(site="center_image", odd_size=odd, square=sq, crop=crop)
        # (a point in a row / column that the odd_size or square trimming drops is not a request that can be honoured: which pixels
        # survive is read off a labelled image centred about its own middle, where nothing moves)
        try:
            kept = center_image(np.arange(1.0, r * c + 1).reshape(r, c), method="image_center", odd_size=odd, square=sq)
        except Exception:
            continue
        if (pr * c + pc + 1) not in kept:
            # the requested point lies in what the trimming removes: it cannot land at the centre — the call must say so, not move another point
            try:
                out = center_image(im, method=tuple(o), odd_size=odd, square=sq, crop=crop)
                if out.size and out[out.shape[0] // 2, out.shape[1] // 2] == 0 and (odd or sq):
                    ck.violation(dict(sig, clause="explicit-origin-trimmed-away"), rep,
                                 f"the requested point {(pr, pc)} is removed by the odd_size/square trimming, yet the call returned a {out.shape} image "
                                 "centred about some other point")
            except ValueError:
                pass
            except Exception as e:
                ck.violation(dict(sig, clause="exception"), rep, f"{type(e).__name__}: {e}")
            continue
        try:
            out = center_image(im, method=tuple(o), odd_size=odd, square=sq, crop=crop)
        except Exception as e:
            ck.violation(dict(sig, clause="exception"), rep, f"{type(e).__name__}: {e}")
            continue
        where = np.argwhere(out > 0.5).tolist()
        if where != [[out.shape[0] // 2, out.shape[1] // 2]]:
            ck.violation(dict(sig, clause="explicit-origin"), rep,
                         f"the requested point {(pr, pc)} (given as {tuple(o)}) ended up at {where} of the {out.shape} output, centre is "
                         f"{(out.shape[0] // 2, out.shape[1] // 2)}")
    # … the same claims with every crop option, axes selection and origin method, on images with an off-centre blob
    for _ in range(400 if not deep else 4000):
        r, c = (int(v) for v in rng.integers(6, 18, size=2))
        odd, sq = bool(rng.integers(0, 2)), bool(rng.integers(0, 2))
        crop = ["maintain_size", "valid_region", "maintain_data"][int(rng.integers(0, 3))]
        axes = [0, 1, (0, 1)][int(rng.integers(0, 3))]
        yy, xx = np.mgrid[:r, :c]
        by, bx = rng.uniform(1.5, r - 2.5), rng.uniform(1.5, c - 3.5)
        im = np.exp(-((yy - by) ** 2 + (xx - bx) ** 2) / 2.0) + 1e-3
        kind = int(rng.integers(0, 5))
        # (explicit origins are coordinates in the input image; chosen well inside the block that the odd_size / square trimming keeps,
        # read off a labelled image centred about its own middle)
        try:
            kept = center_image(np.arange(1.0, r * c + 1).reshape(r, c), method="image_center", odd_size=odd, square=sq)
            r_lo, c_lo = divmod(int(kept[0, 0]) - 1, c)
            r_hi, c_hi = divmod(int(kept[-1, -1]) - 1, c)
        except Exception:
            continue
        if r_hi - r_lo < 3 or c_hi - c_lo < 3:
            continue
        meth = ["image_center", "com", "convolution", (int(rng.integers(r_lo + 1, r_hi)), int(rng.integers(c_lo + 1, c_hi))),
                (float(rng.uniform(r_lo + 1, r_hi - 1)), float(rng.uniform(c_lo + 1, c_hi - 1)))][kind]
        ck.count(("S.flags-crop", crop, str(axes), kind, odd, sq), suite="S.flags")
        sig = dict(site="center_image", odd_size=odd, square=sq, crop=crop)
        rep = dict(shape=[r, c], odd_size=odd, square=sq, crop=crop, axes=axes, method=meth if isinstance(meth, str) else list(meth), blob=[by, bx])
        try:
            out = center_image(im, method=meth, odd_size=odd, square=sq, crop=crop, axes=axes)
        except Exception as e:
            ck.violation(dict(sig, clause="exception"), rep, f"{type(e).__name__}: {e}")
            continue
        if out.size == 0:
            ck.violation(dict(sig, clause="empty"), rep, f"empty result {out.shape}")
        elif odd and out.shape[1] % 2 != 1:
            ck.violation(dict(sig, clause="odd"), rep, f"odd_size=True returned width {out.shape[1]} (crop={crop}, axes={axes})")
        elif sq and out.shape[0] != out.shape[1]:
            ck.violation(dict(sig, clause="square"), rep, f"square=True returned shape {out.shape} (crop={crop}, axes={axes})")


def quiet_call(f, *a, **k):
    import warnings
    with warnings.catch_warnings():
        warnings.simplefilter("ignore")
        return f(*a, **k)


def run(tier):
    ck = Check("C12", tier)
    ck.cov["rule"] = ("K.int: shapes 1x1..8x8 (thorough 12x12) x per-axis origins {all for n<=5; else -n,-n+1,-1,0,1,"
                      "n/2-1,n/2,n/2+1,n-2,n-1} + None x axes {0,1,(0,1),()} x 3 crops, labelled images, bit-for-bit; "
                      "K.dtype: integer images, float whole-pixel origins, orders 0-5; K.round: order=0 with k/8 "
                      "origins; K.trim: center_image on all shapes 1..10 x flags. distinct = (parities, size class, "
                      "origin class per axis, axes, crop | suite-specific key). S: brute-force translate reference, "
                      "intensity/centroid conservation for fractional origins (orders 1-5), center_image flag claims")
    ck.cov["trusted_base"] = ["Lean 4.33 kernel", "axioms propext/Classical.choice/Quot.sound",
                              "hand-written model lean/PyAbel/Model/Center.lean tied to abel/tools/center.py by the "
                              "bit-exact correspondence suites K.*",
                              "fractional origins: order=1 is modelled (linear interpolation of the zero-padded data, Model/Center.lean "
                              "`shiftLin`, tied to scipy.ndimage.shift and to set_center by K.shiftlin; conservation of total and first "
                              "moment proved in Props/C12Frac.lean); orders 2-5 (spline prefilter) are outside the model, measured by S.frac",
                              "origins outside the frame are not range-checked by the code; theorems assume 0<=o<n"]
    ck.cov["unproved_clauses"] = ["fractional origin, orders 2-5: intensity/centroid conservation to interpolation accuracy (measured)"]
    ck.cov["source_fingerprint"] = source_fingerprint(["abel/tools/center.py"])
    ck.proofs("PyAbel.Props.C12")
    ck.proofs("PyAbel.Props.C12Frac")
    ck.proofs("PyAbel.Props.C12Explicit")
    ok, log = ensure_driver()
    if not ok:
        ck.broken.append(dict(kind="proof", module="pyabel_drv", why="driver build failed", log=log[-1500:]))
    else:
        correspondence(ck, tier)
        corr_shiftlin(ck, tier)
        corr_explicit(ck, tier)
    oracle(ck, tier, deep=bool(ck.broken) or tier == "thorough")
    return ck.finish()


def replay(path):
    from abel.tools.center import set_center, center_image
    rec = json.loads(open(path).read())
    print(json.dumps({k: v for k, v in rec.items() if k != "replay"}, indent=1)[:2000])
    r = rec.get("replay", {})
    if "image" in r:
        im = np.array(r["image"])
        out = set_center(im, tuple(r["origin"]), crop=r["crop"], axes=eval(r["axes"]), order=r["order"])
        print("input\n", im, "\noutput\n", out)
    elif "odd_size" in r:
        print(center_image(np.ones(r["shape"]), method="image_center", odd_size=r["odd_size"], square=r["square"]).shape)
    return 1
