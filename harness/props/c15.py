"""
C15 — distribution representations agree and respect image symmetries.

proofs : lean/PyAbel/Props/C15.lean (cos^n ↔ cos^n sin^m identity for up to five terms over any commutative ring;
         exact Legendre tables for orders 0..8 with and without odd terms, decided by the kernel; weight scaling and
         zero-weight pixels on the algebraic core of Distributions); lean/PyAbel/Props/C15Mirror.lean (on the same core: the
         result of a radial bin depends only on the multiset of its pixel contributions — pixel order, storage layout and
         the left-right mirror are immaterial; the top-bottom mirror flips the sign of the odd terms for 1, 2 and 3 angular
         terms; weight scaling for 3 terms)
K      : Results.Ibeta(window) vs the Lean model of the windowed anisotropy (Model/Window.lean, driver op ibeta; theorems in
         Props/C15Window.lean: a radius-independent anisotropy survives any window, the mask is the averaged P0, window 1 is the ratio);
         the conversion matrices used by Results.cossin() / harmonics() vs the exact Lean tables; cossin / harmonics / Ibeta
         of random coefficient arrays vs the model matrices
S      : all representations evaluate to the same angular function at random θ; I = 4πr²P0, β_n = P_n/P0 (window 1) and the
         moving average for windows > 1; invariances of Distributions results: left-right mirror, top-bottom mirror (odd
         orders change sign), weight scaling, zero-weight pixels, origin as tuple / negative / string, larger rmax — on interior
         origins and on origins in a corner / on an edge (no folding), with and without weights, up to rmax='all', and for
         the same pixels stored column-major; one Distributions object reused for frames of other shapes = fresh objects
"""
import json
from fractions import Fraction

import numpy as np

from harness.common import Check, drive, ensure_driver, seed, source_fingerprint
from harness.methods import quiet


def model_cossin(N):
    t = drive([f"cossin {N}"])[0].split()
    return np.array([int(v) for v in t[3:]], dtype=float).reshape(N, N)


def model_harm(odd, terms):
    t = drive([f"harm {int(odd)} {terms}"])[0].split()
    return np.array([float(Fraction(v)) for v in t[3:]]).reshape(terms, terms)


def results(cn, order, odd):
    from abel.tools.vmi import Distributions
    return Distributions.Results(np.arange(cn.shape[1]), cn, order, odd)


def correspondence(ck, tier):
    rng = np.random.default_rng(seed() + 15)
    for order in range(0, 9):
        for odd in ((False, True) if order % 2 == 0 and order > 0 else ((order % 2 == 1),)):
            terms = 1 + (order if odd else order // 2)
            cn = rng.normal(size=(terms, 7))
            R = results(cn, order, odd)
            ck.count(("K.repr", order, odd), suite="K.representations")
            case = dict(order=order, odd=odd)
            # harmonics
            H = model_harm(odd, terms)
            got = quiet(R.harmonics)
            if np.abs(got - H @ cn).max() > 1e-10 * max(1, np.abs(got).max()):
                ck.disagree("K.representations", case, f"harmonics() differs from the exact Legendre table by {np.abs(got - H @ cn).max():.3g}")
            # cossin
            cs = quiet(R.cossin)
            Ne = 1 + order // 2
            CS = model_cossin(Ne)
            want = np.empty_like(cn)
            if odd:
                want[::2] = CS @ cn[::2]
                CSo = CS if order % 2 else model_cossin(Ne - 1)
                want[1::2] = CSo @ cn[1::2]
            else:
                want = CS @ cn
            if not np.array_equal(cs, want) and np.abs(cs - want).max() > 1e-13:
                ck.disagree("K.representations", case, "cossin() differs from the flipped-Pascal table")
    ck.sample(dict(suite="K.representations", harm_even_3=model_harm(False, 3).tolist()))
    # Results.Ibeta(window)[1:] vs the Lean model of the windowed anisotropy (Model/Window.lean: centred moving average of the harmonics
    # with the end samples repeated, masked by the averaged P0; theorems in Props/C15Window.lean) — odd and even windows, windows longer
    # than the array, radii without data.  (Where a whole window is without data the implementation divides two rounding residues of
    # scipy's running mean; the angular function is zero there whatever β is, and those positions are not compared.)
    from harness.common import arr2h, drive, h2arr
    lines, refs = [], []
    for it in range(40 if tier == "quick" else 400):
        order = int(rng.choice([2, 4, 6, 3]))
        odd = order % 2 == 1
        terms = 1 + (order if odd else order // 2)
        n = int(rng.integers(3, 15))
        H = model_harm(odd, terms)
        harm_target = rng.normal(size=(terms, n))
        harm_target[0] = rng.uniform(0.5, 2.0, size=n)
        cn = np.linalg.solve(H, harm_target)
        if it % 2:
            cn[:, rng.choice(n, size=int(rng.integers(1, max(2, n // 2))), replace=False)] = 0.0
        R = results(cn, order, odd)
        w = int(rng.choice([1, 2, 3, 4, 5, 6, 7, 9, n + 2]))
        harm = quiet(R.harmonics)
        lines.append(f"ibeta {w} {n} {terms} {arr2h(harm)}")
        refs.append((w, n, terms, harm, quiet(R.Ibeta, w)[1:]))
    for out, (w, n, terms, harm, got) in zip(drive(lines), refs):
        ck.count(("K.ibeta", w, terms, bool((harm[0] == 0).any())), suite="K.window")
        case = dict(window=w, n=n, terms=terms, harmonics=harm.tolist())
        if not out.startswith("ok"):
            ck.disagree("K.window", case, f"model refused: {out[:80]}")
            continue
        model = h2arr(out.split()[3:]).reshape(terms - 1, n)
        idx = np.clip(np.arange(n)[:, None] + np.arange(w)[None, :] - w // 2, 0, n - 1)
        live = (harm[0][idx] != 0).any(axis=1) if w > 1 else np.ones(n, bool)
        if np.abs(model[:, live] - got[:, live]).max(initial=0.0) > 1e-11 * max(1.0, np.abs(got[:, live]).max(initial=0.0)):
            ck.disagree("K.window", case, f"Ibeta(window={w}) differs from the Lean model by {np.abs(model[:, live] - got[:, live]).max():.3g}")


def eval_cos(cn, orders, th):
    return sum(c * np.cos(th) ** n for c, n in zip(cn, orders))


def oracle_repr(ck, tier, deep):
    from scipy.special import eval_legendre
    rng = np.random.default_rng(seed() + 1515)
    for it in range(60 if not deep else 600):
        order = int(rng.integers(0, 9))
        odd = bool(rng.integers(0, 2)) or order % 2 == 1
        if order == 0:
            odd = False
        terms = 1 + (order if odd else order // 2)
        cn = rng.normal(size=(terms, 6 if it % 2 == 0 else 11))
        cn[0] += 3.0
        if it % 2:                 # radii without data (masked rings, the rows beyond a corner): all coefficients exactly zero there,
            cn[:, rng.choice(cn.shape[1], size=int(rng.integers(1, 4)), replace=False)] = 0.0      # next to radii with data
        R = results(cn, order, odd)
        th = rng.uniform(0, np.pi, size=9)
        ck.count(("S.repr", order, odd), suite="S.representations")
        rep = dict(order=order, odd=odd, cn=cn.tolist())
        for k in range(cn.shape[1]):
            f_cos = eval_cos(cn[:, k], R.orders, th)
            cs = quiet(R.cossin)[:, k]
            f_cs = sum(c * np.cos(th) ** n * np.sin(th) ** m for c, n, m in zip(cs, R.orders, R.sinpowers))
            hm = quiet(R.harmonics)[:, k]
            f_h = sum(c * eval_legendre(n, np.cos(th)) for c, n in zip(hm, R.orders))
            scale = np.abs(cn[:, k]).sum()
            if np.abs(f_cs - f_cos).max() > 1e-12 * scale:
                ck.violation(dict(site="Results.cossin", clause="same-function"), rep, f"cossin representation differs by {np.abs(f_cs - f_cos).max():.3g}")
                break
            if np.abs(f_h - f_cos).max() > 1e-11 * scale:
                ck.violation(dict(site="Results.harmonics", clause="same-function"), rep, f"harmonics representation differs by {np.abs(f_h - f_cos).max():.3g}")
                break
        harm = quiet(R.harmonics)
        Ib = quiet(R.Ibeta)
        if np.abs(Ib[0] - 4 * np.pi * R.r ** 2 * harm[0]).max() > 1e-12 * np.abs(Ib[0]).max() + 1e-300:
            ck.violation(dict(site="Results.Ibeta", clause="I=4πr²P0"), rep, "I(r) != 4 pi r^2 P0(r)")
        nz = harm[0] != 0
        if terms > 1 and np.abs(Ib[1:][:, nz] - harm[1:][:, nz] / harm[0][nz]).max() > 1e-12 * max(1.0, np.abs(Ib[1:]).max()):
            ck.violation(dict(site="Results.Ibeta", clause="beta=Pn/P0"), rep, "beta_n != P_n / P0")
        win = int(rng.integers(2, 6))
        Ibw = quiet(R.Ibeta, win)
        from scipy.ndimage import uniform_filter1d
        P0 = uniform_filter1d(harm[:1], win, axis=1, mode="nearest")
        Pn = uniform_filter1d(harm[1:], win, axis=1, mode="nearest")
        if terms > 1 and np.abs(Ibw[1:] - np.divide(Pn, P0, out=np.zeros_like(Pn), where=P0 != 0)).max() > 1e-12 * max(1.0, np.abs(Ibw[1:]).max()):
            ck.violation(dict(site="Results.Ibeta", clause="window"), dict(rep, window=win), "windowed beta is not the ratio of moving averages")
        if np.abs(Ibw[0] - 4 * np.pi * R.r ** 2 * harm[0]).max() > 1e-12 * np.abs(Ib[0]).max() + 1e-300:
            ck.violation(dict(site="Results.Ibeta", clause="I=4πr²P0-windowed"), dict(rep, window=win),
                         f"with window={win}, I(r) != 4 pi r^2 P0(r) (the window is documented to average beta only)")
        rIbw = quiet(R.rIbeta, win)
        if not (np.array_equal(rIbw[0], R.r) and np.array_equal(rIbw[1:], Ibw)):
            ck.violation(dict(site="Results.rIbeta", clause="window"), dict(rep, window=win), "rIbeta(window) is not r prepended to Ibeta(window)")
        for a, b in ((R.rcos(), R.cos()), (R.rcossin(), R.cossin()), (R.rharmonics(), R.harmonics()), (R.rIbeta(), R.Ibeta())):
            if not (np.array_equal(a[0], R.r) and np.array_equal(a[1:], b)):
                ck.violation(dict(site="Results", clause="r-prefixed"), rep, "r-prefixed variant differs from the plain one")


def oracle_invariance(ck, tier, deep):
    from abel.tools.vmi import Distributions
    rng = np.random.default_rng(seed() + 151515)
    for it in range(60 if not deep else 800):
        h, w = (int(v) for v in rng.integers(15, 40, size=2))
        row, col = int(rng.integers(3, h - 3)), int(rng.integers(3, w - 3))
        order = int(rng.choice([0, 1, 2, 3, 4]))
        odd = bool(rng.integers(0, 2)) or order % 2 == 1
        if order == 0:
            odd = False
        method = ["nearest", "linear"][int(rng.integers(0, 2))]
        usin = bool(rng.integers(0, 2))
        yy, xx = np.mgrid[:h, :w]
        r = np.hypot(yy - row, xx - col)
        im = np.exp(-(r - 6) ** 2 / 8) * (1 + 0.5 * (row - yy) / np.maximum(r, 1)) + 0.1 * rng.random((h, w))
        wt = rng.random((h, w)) + 0.3
        zero = rng.random((h, w)) < 0.15
        wt[zero] = 0
        rmax = int(rng.integers(5, 9))
        kw = dict(order=order, odd=odd, use_sin=usin, method=method)
        ck.count(("S.inv", order, odd, method, usin), suite="S.invariances")
        rep = dict(shape=[h, w], origin=[row, col], rmax=rmax, **kw)
        run = lambda IM, W, origin, rm=rmax: quiet(Distributions(origin=origin, rmax=rm, weights=W, **kw).image, IM).cos()
        try:
            base = run(im, wt, (row, col))
            good = slice(4, None)           # well-conditioned radii
            tol = 1e-9 * max(1.0, np.abs(base[:, good]).max())
            checks = {
                "mirror-left-right": run(im[:, ::-1], wt[:, ::-1], (row, w - 1 - col)),
                "weight-scaling": run(im, wt * float(rng.choice([7.5, 1e-6, 2.0 ** -20, 1e5, 1.0 / wt.sum()])), (row, col)),
                "zero-weight-pixels": run(np.where(zero, 1e3 * rng.random((h, w)), im), wt, (row, col)),
                # masked bad pixels are typically NaN / inf in the data
                "zero-weight-pixels-nonfinite": run(np.where(zero, [np.nan, np.inf, -np.inf][it % 3], im), wt, (row, col)),
                "origin-negative": run(im, wt, (row - h, col - w)),
                # coordinates computed with NumPy (np.unravel_index, np.argmax, an integer array) are the same position
                "origin-numpy-integers": run(im, wt, [(np.int64(row), np.int64(col)), (np.intp(row), col), (row, np.int32(col)), np.array([row, col])][it % 4]),
                "larger-rmax": run(im, wt, (row, col), rmax + 3)[:, :rmax + 1],
            }
            # the weights' dtype is not part of the request: a bool mask / uint8 weights mean their float values
            wb = wt > 0.6
            w8 = np.round(wt * 180).astype(np.uint8)
            ref_b, got_b = run(im, wb.astype(float), (row, col)), run(im, wb, (row, col))
            ref_8, got_8 = run(im, w8.astype(float), (row, col)), run(im, w8, (row, col))
            for nm, rf, gt in (("bool", ref_b, got_b), ("uint8", ref_8, got_8)):
                ok_r = np.all(np.isfinite(rf[:, good]), axis=0) & np.all(np.isfinite(gt[:, good]), axis=0)
                if np.abs(rf[:, good][:, ok_r] - gt[:, good][:, ok_r]).max(initial=0.0) > 1e-9 * max(1.0, np.abs(rf[:, good][:, ok_r]).max(initial=0.0)):
                    ck.violation(dict(site="Distributions", clause="weights-dtype"), dict(rep, dtype=nm),
                                 f"{nm} weights give distributions different from the same weights as float64")
            tb = run(im[::-1], wt[::-1], (h - 1 - row, col))
            sign = np.array([(-1) ** n for n in (range(order + 1) if odd else range(0, order + 1, 2))])[:, None]
            checks["mirror-top-bottom"] = tb * sign
            if (row, col) == (h // 2, w // 2):
                checks["origin-string"] = run(im, wt, "center")
        except Exception as e:
            ck.violation(dict(site="Distributions", clause="exception"), rep, f"{type(e).__name__}: {e}")
            continue
        for name, val in checks.items():
            if val.shape != base.shape or not (np.abs(val - base)[:, good].max() <= tol):
                ck.violation(dict(site="Distributions", clause=name), rep,
                             f"{name}: results differ by {np.abs(val - base)[:, good].max() if val.shape == base.shape else 'shape'}")
    # weight scaling at the higher orders (4 and more angular terms use a general matrix inverse with a degeneracy test), for weights
    # in any unit: inverse variances of order 1e-13 or 1e+12 are as good as weights of order 1
    for it in range(8 if not deep else 60):
        n = int(rng.choice([61, 71, 81]))
        odd = bool(it % 2)
        order = int(rng.choice([3, 4, 5] if odd else [6, 8]))
        method = ["nearest", "linear"][int(rng.integers(0, 2))]
        im = rng.random((n, n))
        wt = rng.uniform(1, 2, size=(n, n))
        s = float(rng.choice([1e-13, 1e-20, 1e-11, 1e12, 3e-16]))
        ck.count(("S.inv-scale", order, odd, method, s), suite="S.invariances")
        rep = dict(shape=[n, n], order=order, odd=odd, method=method, weight_scale=s)
        try:
            a = quiet(Distributions(origin="cc", rmax=n // 2 - 3, order=order, odd=odd, weights=wt, method=method).image, im).cos()
            b = quiet(Distributions(origin="cc", rmax=n // 2 - 3, order=order, odd=odd, weights=wt * s, method=method).image, im).cos()
        except Exception as e:
            ck.violation(dict(site="Distributions", clause="exception"), rep, f"{type(e).__name__}: {e}")
            continue
        good = slice(max(14, 3 * order), None)
        if a.shape != b.shape or not (np.abs(a - b)[:, good].max() <= 1e-6 * max(1.0, np.abs(a[:, good]).max())):
            ck.violation(dict(site="Distributions", clause="weight-scaling"), rep,
                         f"weights x {s:g} (order {order}, odd={odd}): results differ by {np.abs(a - b)[:, good].max() if a.shape == b.shape else 'shape'}")
    # … and at the lower orders for any positive factor at all: the 2x2 / 3x3 inverses are written out by hand, with determinants that
    # are quadratic / cubic in the weights (repair F64: they under- or overflowed for factors like 1e-105 and 1e+105 — NaN results or
    # radii wrongly declared degenerate), as is the single-term case
    lattice = [1e-160, 1e-120, 1e-105, 1e-75, 1e-40, 1e40, 1e75, 1e100] if not deep else \
        [10.0 ** e for e in (-300, -200, -160, -140, -120, -105, -90, -75, -60, -40, -25, 25, 40, 60, 75, 90, 100)]
    for order, odd in ((0, False), (1, True), (2, False), (2, True), (4, False)):
        n = 41
        im = rng.random((n, n))
        wt = rng.uniform(1, 2, size=(n, n))
        for method in ("nearest", "linear", "remap"):
            for origin, rmax in (("cc", 15), ("ul", "MIN")):
                try:
                    a = quiet(Distributions(origin=origin, rmax=rmax, order=order, odd=odd, weights=wt, method=method).image, im).cos()
                except Exception as e:
                    ck.violation(dict(site="Distributions", clause="exception"), dict(order=order, odd=odd, method=method, origin=origin), f"{type(e).__name__}: {e}")
                    continue
                for s_ in lattice:
                    if order >= 3 and not 1e-80 < s_ < 1e80:
                        continue
                    ck.count(("S.inv-scale-extreme", order, odd, method, origin, s_), suite="S.invariances")
                    rep = dict(shape=[n, n], order=order, odd=odd, method=method, origin=origin, weight_scale=s_)
                    try:
                        b = quiet(Distributions(origin=origin, rmax=rmax, order=order, odd=odd, weights=wt * s_, method=method).image, im).cos()
                    except Exception as e:
                        ck.violation(dict(site="Distributions", clause="exception"), rep, f"{type(e).__name__}: {e}")
                        continue
                    good = slice(max(6, 3 * order), None)
                    if a.shape != b.shape or not (np.abs(a - b)[:, good].max() <= 1e-6 * max(1.0, np.abs(a[:, good]).max())):
                        ck.violation(dict(site="Distributions", clause="weight-scaling-extreme"), rep,
                                     f"weights x {s_:g} (order {order}, odd={odd}, {method}, origin {origin}): results differ by "
                                     f"{np.abs(a - b)[:, good].max() if a.shape == b.shape else 'shape'}")
    # the same invariances where no folding happens (origin in a corner or on an edge), up to rmax='all', with and without weights,
    # and for the same pixels stored column-major (transposed views, np.rot90, Fortran/MATLAB data): layout is not part of the image
    for it in range(60 if not deep else 600):
        h, w = (int(v) for v in rng.integers(15, 36, size=2))
        odd = bool(rng.integers(0, 2))
        order = int(rng.choice([1, 3] if odd else [0, 2, 4]))
        row = int(rng.choice([0, h - 1])) if not odd else int(rng.integers(4, h - 4))
        col = int(rng.choice([0, w - 1]))
        method = ["nearest", "linear"][int(rng.integers(0, 2))]
        usin = bool(rng.integers(0, 2))
        yy, xx = np.mgrid[:h, :w]
        r = np.hypot(yy - row, xx - col)
        im = np.exp(-(r - 9) ** 2 / 18) * (1 + 0.5 * (row - yy) / np.maximum(r, 1)) + 0.1 * rng.random((h, w))
        wt = None if rng.random() < 0.5 else rng.random((h, w)) + 0.3
        rmax = ["MAX", "all", "MIN", int(rng.integers(12, 30))][int(rng.integers(0, 4))]
        kw = dict(order=order, odd=odd, use_sin=usin, method=method)
        ck.count(("S.inv-edge", order, odd, method, usin, wt is None, str(rmax)), suite="S.invariances")
        rep = dict(shape=[h, w], origin=[row, col], rmax=rmax, weights=wt is not None, **kw)
        run = lambda IM, W, origin, rm=rmax: quiet(Distributions(origin=origin, rmax=rm, weights=W, **kw).image, IM).cos()
        F = lambda a: None if a is None else np.asfortranarray(a)
        V = lambda a: None if a is None else np.ascontiguousarray(a.T).T
        try:
            base = run(im, wt, (row, col))
            # radii where the fit is well conditioned: enough pixels and angular range — judged on the reference itself (finite values)
            good = np.arange(base.shape[1]) >= 6
            good &= np.all(np.isfinite(base), axis=0)
            good &= np.arange(base.shape[1]) <= min(max(row, h - 1 - row), max(col, w - 1 - col))
            checks = {
                "stored-column-major": run(F(im), F(wt), (row, col)),
                "stored-as-transposed-view": run(V(im), V(wt), (row, col)),
                "mirror-left-right": run(np.ascontiguousarray(im[:, ::-1]), None if wt is None else np.ascontiguousarray(wt[:, ::-1]), (row, w - 1 - col)),
                "mirror-left-right-column-major": run(F(im[:, ::-1]), F(None if wt is None else wt[:, ::-1]), (row, w - 1 - col)),
                "origin-negative": run(im, wt, (row - h, col - w)),
            }
            if isinstance(rmax, int):
                checks["larger-rmax"] = run(im, wt, (row, col), rmax + 4)[:, :base.shape[1]]
            tb = run(im[::-1], None if wt is None else wt[::-1], (h - 1 - row, col))
            sign = np.array([(-1) ** n for n in (range(order + 1) if odd else range(0, order + 1, 2))])[:, None]
            checks["mirror-top-bottom"] = tb * sign
        except Exception as e:
            ck.violation(dict(site="Distributions", clause="exception"), rep, f"{type(e).__name__}: {e}")
            continue
        if not good.any():
            continue
        tol = 1e-8 * max(1.0, np.abs(base[:, good]).max())
        for name, val in checks.items():
            if val.shape != base.shape or not (np.abs(val - base)[:, good].max() <= tol):
                ck.violation(dict(site="Distributions", clause=name), rep,
                             f"{name} (origin on the frame's edge): results differ by {np.abs(val - base)[:, good].max() if val.shape == base.shape else 'shape'}")
    # origin strings vs tuples on exact geometry
    for name, fn in (("center", lambda h, w: (h // 2, w // 2)), ("ul", lambda h, w: (0, 0)), ("lr", lambda h, w: (h - 1, w - 1)),
                     ("cl", lambda h, w: (h // 2, 0)), ("top center", lambda h, w: (0, w // 2)), ("bottom right", lambda h, w: (h - 1, w - 1))):
        h, w = 17, 22
        im = rng.random((h, w))
        a = quiet(Distributions(origin=name, order=2).image, im).cos()
        b = quiet(Distributions(origin=fn(h, w), order=2).image, im).cos()
        ck.count(("S.origin-string", name), suite="S.invariances")
        if not np.array_equal(a, b):
            ck.violation(dict(site="Distributions", clause="origin-string"), dict(origin=name), f"origin='{name}' differs from the tuple {fn(h, w)}")


def oracle_reuse(ck, tier):
    """a Distributions object (no weights) is the description of an analysis, not of one frame: used for an image of another shape it returns —
    in every representation — what a freshly made object with the same arguments returns (origins named by a string or counted from the far
    edge are resolved for the frame at hand)"""
    from abel.tools.vmi import Distributions
    rng = np.random.default_rng(seed() + 1551)
    origins = ["cc", "center", "ll", "ur", "lower right", "top center", (-3, -4), (-1, 5), (4, 6)]
    for it in range(9 if tier == "quick" else 60):
        origin = origins[it % len(origins)]
        rmax = ["MIN", "all", "MAX", "hor"][it % 4]
        order = int(rng.choice([0, 2, 4]))
        shapes = [(int(rng.integers(11, 30)), int(rng.integers(11, 30))) for _ in range(3)]
        D = Distributions(origin, rmax, order)
        for k, shp in enumerate(shapes):
            im = rng.random(shp) + 0.1
            ck.count(("S.reuse", str(origin), rmax, k), suite="S.invariance")
            rep = dict(origin=str(origin), rmax=rmax, order=order, shapes=[list(s_) for s_ in shapes[:k + 1]])
            try:
                got, want = quiet(D, im), quiet(Distributions(origin, rmax, order), im)
            except Exception as e:
                ck.violation(dict(site="Distributions", clause="exception"), rep, f"{type(e).__name__}: {e}")
                break
            bad = [nm for nm in ("rcos", "rharmonics", "rIbeta") if np.shape(getattr(got, nm)()) != np.shape(getattr(want, nm)())
                   or not np.array_equal(getattr(got, nm)(), getattr(want, nm)(), equal_nan=True)]
            if bad:
                ck.violation(dict(site="Distributions", clause="object-reuse"), rep,
                             f"Distributions({origin!r}, {rmax!r}, {order}) used for image {k + 1} of shapes {shapes[:k + 1]}: {bad} differ from a fresh object's")
                break


def run(tier):
    ck = Check("C15", tier)
    deep = tier == "thorough"
    ck.cov["rule"] = ("K: conversion matrices for every order 0..8 x parity vs the exact Lean tables (exhaustive over the 13 cells). "
                      "S: 60 (thorough 600) random coefficient arrays: cos^n, cos^n sin^m, Legendre evaluate to the same function at "
                      "random θ (1e-12), I=4πr²P0, β=Pn/P0, windows 2-5; 60 (thorough 800) random images/weights/origins: mirror "
                      "left-right, mirror top-bottom with odd-order sign flip, weight scaling, zero-weight pixel values, negative "
                      "origin, larger rmax (common radii), origin strings, at radii ≥ 4 (1e-9). distinct = (order, odd, method, sin)")
    ck.cov["exhaustive"] = False
    ck.cov["trusted_base"] = ["Lean 4.33 kernel", "axioms propext/Classical.choice/Quot.sound",
                              "Legendre polynomials defined by Bonnet's recurrence (Model/Representations.lean); scipy.special.legendre / "
                              "pascal / inv tied to the exact tables numerically (1e-10)",
                              "mirror invariances rest on the folding geometry, not proved: measured on the implementation"]
    ck.cov["unproved_clauses"] = ["mirror / origin-form / larger-rmax invariances (measured)", "weight scaling for three angular terms (measured)"]
    ck.cov["source_fingerprint"] = source_fingerprint(["abel/tools/vmi.py"])
    ck.proofs("PyAbel.Props.C15")
    ck.proofs("PyAbel.Props.C15Mirror")
    ck.proofs("PyAbel.Props.C15Window")
    ok, log = ensure_driver()
    if ok:
        correspondence(ck, tier)
    else:
        ck.broken.append(dict(kind="proof", module="pyabel_drv", why="driver build failed", log=log[-1500:]))
    oracle_repr(ck, tier, deep or bool(ck.broken))
    oracle_invariance(ck, tier, deep or bool(ck.broken))
    oracle_reuse(ck, tier)
    return ck.finish()


def replay(path):
    rec = json.loads(open(path).read())
    print(json.dumps(rec, indent=1, default=str)[:3000])
    return 1
