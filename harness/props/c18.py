"""
C18 — public functions leave their arguments intact and are repeatable.

proofs : lean/PyAbel/Props/C18.lean — soundness of the points-to certificate check (a parameter not listed as written is
         never modified in place in any execution of the unit's statements); the certificates generated from the current
         source are accepted by the kernel; the only flagged parameters of public functions are number-valued; no public
         function returns an object sharing memory with a module-level cache (except documented-internal getters)
K      : gen_effects.py regenerates lean/PyAbel/Gen/Effects.lean (IR + certificates) from /repo on every run; the runtime
         verdict (argument bytes before/after; read-only arguments) must agree with the static one
S      : registry of public callables: arguments unchanged (float64 / float32 / integer, contiguous / strided / read-only,
         lists, option dicts), repeated call bit-identical, caller-side mutation of results does not affect the next call,
         fresh-process result bit-identical
"""
import contextlib
import copy
import importlib
import io
import os
import warnings
import json
import multiprocessing as mp
import subprocess

import numpy as np

from harness.common import Check, VERIF, seed, source_fingerprint
from harness.methods import quiet


# ------------------------------------------------------------------------------------------ helpers
def snapshot(x):
    if isinstance(x, np.ndarray):
        return ("nd", x.dtype.str, x.shape, x.tobytes())
    if isinstance(x, (list, tuple)):
        return (type(x).__name__, tuple(snapshot(v) for v in x))
    if isinstance(x, dict):
        return ("dict", tuple((k, snapshot(v)) for k, v in x.items()))
    return ("obj", repr(x))


def canon(r):
    """result → nested tuples of arrays / scalars that can be compared bit-for-bit"""
    if r is None or isinstance(r, (bool, int, float, str, np.generic)):
        return r
    if isinstance(r, np.ndarray):
        return r.copy()                 # (a snapshot: a result that aliases library state must not follow later changes of that state)
    if isinstance(r, (list, tuple)):
        return tuple(canon(v) for v in r)
    if isinstance(r, dict):
        return tuple((k, canon(v)) for k, v in sorted(r.items()))
    out = []
    for attr in ("transform", "IM", "angular_integration", "radial", "Beta", "projection", "func", "abel", "r", "dr", "image", "c", "valid"):
        if hasattr(r, attr):
            v = getattr(r, attr)
            out.append((attr, canon(v() if callable(v) and attr in ("image",) else v) if not callable(v) else None))
    for meth in ("cos", "harmonics"):
        if hasattr(r, meth) and callable(getattr(r, meth)):
            try:
                out.append((meth, canon(getattr(r, meth)())))
            except Exception:
                pass
    if hasattr(r, "distr"):
        out.append(("distr", canon(r.distr.cos())))
    return tuple(out) if out else ("obj", type(r).__name__)


def same(a, b):
    if isinstance(a, np.ndarray) or isinstance(b, np.ndarray):
        return isinstance(a, np.ndarray) and isinstance(b, np.ndarray) and a.shape == b.shape and a.dtype == b.dtype and \
            np.array_equal(a, b, equal_nan=True)
    if isinstance(a, tuple) and isinstance(b, tuple):
        return len(a) == len(b) and all(same(x, y) for x, y in zip(a, b))
    if isinstance(a, float) and isinstance(b, float):
        return a == b or (a != a and b != b)
    return a == b


def scribble(r):
    """caller-side mutation of everything mutable in a result"""
    if isinstance(r, np.ndarray):
        if r.flags.writeable:
            r[...] = -12345 if r.dtype.kind in "iu" else np.nan
    elif isinstance(r, (list, tuple)):
        for v in r:
            scribble(v)
    elif isinstance(r, dict):
        for v in r.values():
            scribble(v)
    else:
        for attr in ("transform", "IM", "angular_integration", "radial", "Beta", "projection", "func", "abel"):
            v = getattr(r, attr, None)
            if isinstance(v, (np.ndarray, tuple, list)):
                scribble(v)
        if hasattr(r, "distr"):
            scribble(r.distr.cn)
            if isinstance(getattr(r.distr, "valid", None), np.ndarray):
                r.distr.valid[...] = True
        if hasattr(r, "cn"):
            scribble(r.cn)
        if isinstance(getattr(r, "valid", None), np.ndarray):
            r.valid[...] = True                      # (flags of radii without data: the caller may overwrite them too)


def map_arrays(x, f):
    if isinstance(x, np.ndarray):
        return f(x)
    if isinstance(x, list):
        return [map_arrays(v, f) for v in x]
    if isinstance(x, tuple):
        return tuple(map_arrays(v, f) for v in x)
    if isinstance(x, dict):
        return {k: map_arrays(v, f) for k, v in x.items()}
    return x


def strided(a):
    if a.ndim == 0 or a.size == 0:
        return a
    big = np.zeros(tuple(2 * s for s in a.shape), dtype=a.dtype)
    sl = tuple(slice(None, None, 2) for _ in a.shape)
    big[sl] = a
    return big[sl]


def readonly(a):
    b = a.copy()
    b.flags.writeable = False
    return b


# ------------------------------------------------------------------------------------------ registry
def registry(rng):
    import abel
    from abel.tools import center, symmetry, vmi, polar, circularize, math as amath, polynomial, analytical, transform_pairs
    n = 21
    half = rng.random((5, n)) + 0.1
    sq = rng.random((n, n)) + 0.1
    yy, xx = np.mgrid[:n, :n] - n // 2
    rr = np.hypot(yy, xx)
    spot = np.exp(-((yy - 1.3) ** 2 + (xx + 0.7) ** 2) / 18.0) + 0.01 * rng.random((n, n))
    ring = np.exp(-(rr - 6) ** 2 / 4.0) * (1 + 0.5 * (yy / np.maximum(rr, 1)) ** 2) + 0.01
    w = rng.random((n, n)) + 0.2
    r1 = np.arange(30.0)
    i1 = np.exp(-(r1 - 12) ** 2 / 9.0)
    theta = np.linspace(-np.pi, np.pi, 60)
    E = []
    add = lambda label, f, *a, **k: E.append((label, f, a, k))
    for name, f in (("basex", abel.basex.basex_transform), ("daun", abel.daun.daun_transform), ("hansenlaw", abel.hansenlaw.hansenlaw_transform),
                    ("onion_bordas", abel.onion_bordas.onion_bordas_transform), ("onion_peeling", abel.dasch.onion_peeling_transform),
                    ("two_point", abel.dasch.two_point_transform), ("three_point", abel.dasch.three_point_transform)):
        add(f"{name}_transform", f, half)
    # non-default options and 1-D rows: code paths that skip a copy the default path makes are where arguments get written
    add("onion_bordas_transform/noshift", abel.onion_bordas.onion_bordas_transform, half, shift_grid=False)
    add("onion_bordas_transform/noshift/1d", abel.onion_bordas.onion_bordas_transform, half[0], shift_grid=False, dr=0.5)
    add("hansenlaw_transform/1d/hold1", abel.hansenlaw.hansenlaw_transform, half[1], hold_order=1, dr=0.5)
    add("basex_transform/nocorr/1d", abel.basex.basex_transform, half[2], correction=False, dr=2.0)
    add("daun_transform/1d/forward", abel.daun.daun_transform, half[3], direction="forward", dr=0.5)
    add("three_point_transform/1d", abel.dasch.three_point_transform, half[4], dr=2.0)
    add("direct_transform/nocorr/forward", abel.direct.direct_transform, half, backend="python", correction=False, direction="forward")
    add("direct_transform", abel.direct.direct_transform, half, backend="python")
    add("direct_transform/r", abel.direct.direct_transform, half, r=np.arange(n) * 0.5, backend="python")
    add("basex_transform/forward", abel.basex.basex_transform, half, direction="forward", reg=3.0, sigma=1.5)
    add("hansenlaw_transform/forward/hold1", abel.hansenlaw.hansenlaw_transform, half, direction="forward", hold_order=1)
    for deg in (1, 2, 3):
        add(f"daun_transform/deg{deg}", abel.daun.daun_transform, half, degree=deg, reg=("diff", 1.0))
    add("daun_transform/nonneg", abel.daun.daun_transform, half[:, :9], reg="nonneg")
    add("basex_core_transform", abel.basex.basex_core_transform, half, rng.random((n, n)))
    add("dasch_transform", abel.dasch.dasch_transform, half, rng.random((n, n)))
    add("linbasex_transform_full", abel.linbasex.linbasex_transform_full, sq, proj_angles=[0, 0.6, np.pi / 2], legendre_orders=[0, 2, 4])
    add("linbasex_transform", abel.linbasex.linbasex_transform, sq[:11, :11], return_Beta=True)
    add("rbasex_transform", abel.rbasex.rbasex_transform, sq, weights=w, order=2)
    add("rbasex_transform/forward", abel.rbasex.rbasex_transform, sq, direction="forward", origin=(9, 11), out="full")
    add("rbasex_transform/pos", abel.rbasex.rbasex_transform, ring, reg="pos")
    wring = np.ones((n, n))
    wring[(rr > 3.5) & (rr < 6.5)] = 0                                          # radii without data: `valid` flags matter
    add("rbasex_transform/masked-ring", abel.rbasex.rbasex_transform, sq, weights=wring)
    add("rbasex_transform/list-origin", abel.rbasex.rbasex_transform, sq, origin=[9, 11])
    add("rbasex_transform/array-origin", abel.rbasex.rbasex_transform, sq, origin=np.array([9, 11]))
    add("Distributions/masked-ring", vmi.Distributions(weights=wring.copy()).image, sq)          # one analysis object, called repeatedly
    add("Transform", abel.Transform, sq, method="hansenlaw", origin=(9.5, 10.2), symmetry_axis=0,
        transform_options=dict(dr=0.5), center_options=dict(crop="maintain_data"), angular_integration=True,
        angular_integration_options=dict(dt=0.1))
    add("Transform/three_point/list", abel.Transform, sq, symmetry_axis=[0, 1], use_quadrants=[True, True, False, True],
        transform_options=dict(basis_dir=None), angular_integration=True)
    add("Transform/rbasex", abel.Transform, sq, method="rbasex", transform_options=dict(weights=w, order=2))
    add("Transform/int", abel.Transform, (sq * 100).astype(np.int32), method="two_point", origin="com")
    for m in ("image_center", "com", "convolution", "gaussian", "slice"):
        add(f"find_origin/{m}", center.find_origin, spot, m)
    add("center_image", center.center_image, spot, "com", square=True, crop="valid_region")
    add("set_center/int", center.set_center, spot, (9, 11), crop="maintain_data")
    add("set_center/frac", center.set_center, spot, (9.4, 11.3), order=3)
    add("set_center/list-origin", center.set_center, spot, [9.4, -8.0], order=1)
    add("set_center/object-origin", center.set_center, spot, np.array([9.4, None], dtype=object), crop="maintain_data", order=1)
    add("set_center/int/valid_region", center.set_center, spot, (9, 11), crop="valid_region")
    add("set_center/order0/valid_region", center.set_center, spot, (9.4, 11.3), crop="valid_region", order=0)
    add("center_image/round", center.center_image, spot, "com", crop="valid_region", round_output=True)
    add("get_image_quadrants", symmetry.get_image_quadrants, sq, symmetry_axis=(0, 1), use_quadrants=[True, False, True, True])
    add("get_image_quadrants/fourier", symmetry.get_image_quadrants, sq, symmetry_axis=0, symmetrize_method="fourier")
    add("get_image_quadrants/split", symmetry.get_image_quadrants, sq)                       # no symmetrisation: the plain split
    add("get_image_quadrants/split-unflipped", symmetry.get_image_quadrants, sq[:, :20], reorient=False)
    Q = tuple(rng.random((11, 11)) for _ in range(4))
    add("put_image_quadrants", symmetry.put_image_quadrants, Q, (21, 21), symmetry_axis=1)
    for kind in ("int2D", "int3D", "avg2D", "avg3D"):
        add(f"radial_intensity/{kind}", vmi.radial_intensity, kind, ring, origin=(10, 10), dr=0.5)
    add("angular_integration_3D", vmi.angular_integration_3D, ring)
    add("average_radial_intensity_2D", vmi.average_radial_intensity_2D, ring, origin=[10, 10])
    add("radial_integration", vmi.radial_integration, ring, radial_ranges=[(2, 5), (5, 9)])
    add("anisotropy_parameter", vmi.anisotropy_parameter, theta, 2.0 * (1 + 0.7 * (3 * np.cos(theta) ** 2 - 1) / 2), theta_ranges=[(-3, -1), (0.5, 2.5)])
    add("toPES", vmi.toPES, r1, i1, 1.3e-5, photon_energy=1.0, Vrep=-2000.0)
    add("toPES/array-calibration", vmi.toPES, r1, i1, np.array(1.3e-5), Vrep=-2000.0)
    add("Distributions.image", lambda IM, weights: vmi.Distributions(origin=(10, 9), order=4, weights=weights).image(IM), ring, w)
    add("Distributions.image/nearest-odd", lambda IM: vmi.Distributions(origin="cc", order=3, method="nearest", use_sin=False).image(IM), ring)
    add("harmonics", vmi.harmonics, ring, order=4)
    add("Ibeta", vmi.Ibeta, ring, (10, 10), 8, 2, 3)
    add("reproject_image_into_polar", polar.reproject_image_into_polar, ring, origin=[10, 9], Jacobian=True)
    add("index_coords", polar.index_coords, ring, origin=[-3, 4])
    add("cart2polar", polar.cart2polar, xx.astype(float), yy.astype(float))
    add("polar2cart", polar.polar2cart, rr, np.arctan2(xx, yy))
    add("circularize_image", circularize.circularize_image, ring, method="lsq", dr=0.5, dt=0.2, smooth=0, ref_angle=None, inverse=False, return_correction=True)
    add("circularize", circularize.circularize, ring, lambda t: 1 + 0.01 * np.cos(t), ref_angle=0.3)
    Pol = np.array([np.exp(-(np.arange(40.) - 20 * (1 + 0.02 * np.cos(a))) ** 2 / 8) for a in np.linspace(-3, 3, 8)])
    add("circularize.correction/lsq", circularize.correction, Pol, np.linspace(-3, 3, 8), np.arange(40.0), "lsq")
    add("circularize.correction/argmax", circularize.correction, Pol, np.linspace(-3, 3, 8), np.arange(40.0), "argmax")
    add("math.gradient", amath.gradient, half, x=np.cumsum(rng.random(n) + 0.5))
    add("math.fit_gaussian", amath.fit_gaussian, spot.sum(axis=0))
    add("math.guess_gaussian", amath.guess_gaussian, spot.sum(axis=1))
    rgrid = np.arange(40.0)
    add("Polynomial", polynomial.Polynomial, rgrid, 5.0, 25.0, [1.0, -0.2, 0.03], r_0=3.0, s=2.0, reduced=True)
    add("Polynomial/array-c", polynomial.Polynomial, rgrid, 5, 25, np.array([1.0, -0.2, 0.03]))
    add("Polynomial/array-c/scaled", polynomial.Polynomial, rgrid, 5.0, 25.0, np.array([1.0, -0.2, 0.03]), r_0=3.0, s=2.0)
    add("Polynomial/array-c/reduced", polynomial.Polynomial, rgrid, 5.0, 25.0, np.array([1.0, -0.2, 0.03, 0.0]), reduced=True)
    cshared = np.array([0.5, 0.25, -0.01])
    add("PiecewisePolynomial/shared-c", polynomial.PiecewisePolynomial, rgrid, [(2, 10, cshared, 1.0, 2.0), (10, 30, cshared, 5.0, 3.0)])
    add("PiecewisePolynomial", polynomial.PiecewisePolynomial, rgrid, [(2, 10, [1, 0.5]), (10, 30, [0, 0, 0.1], 5.0, 2.0)])
    R2 = np.hypot(*np.mgrid[:15, :15])
    C2 = np.divide(np.mgrid[:15, :15][0], R2, out=np.zeros_like(R2), where=R2 > 0)
    add("SPolynomial", polynomial.SPolynomial, R2, C2, 2.0, 12.0, [[1.0, 0.2], [0.1, 0.05]])
    add("SPolynomial/array-c", polynomial.SPolynomial, R2, C2, 2.0, 12.0, np.array([[1.0, 0.2], [0.1, 0.05]]), r_0=1.0, s=2.0)
    add("ApproxGaussian", polynomial.ApproxGaussian, 1e-3)
    add("rcos", polynomial.rcos, shape=(9, 11), origin=(4, 5))
    add("bspline", polynomial.bspline, __import__("scipy.interpolate", fromlist=["x"]).UnivariateSpline(np.arange(10.), rng.random(10), s=0))
    add("Angular.mul", lambda a, b: (polynomial.Angular(a) * polynomial.Angular(b)).c, [1.0, 0.0, 2.0], np.array([0.5, 1.0]))
    add("StepAnalytical", analytical.StepAnalytical, 51, 20.0, 5.0, 12.0)
    add("GaussianAnalytical", analytical.GaussianAnalytical, 50, 20.0, sigma=4.0)
    add("SampleImage/Gerber", lambda: analytical.SampleImage(61, name="Gerber").func)
    add("SampleImage/abel", lambda: analytical.SampleImage(41, name="Ominus").abel)
    add("TransformPair", lambda k: (lambda p: (p.func, p.abel, p.r))(analytical.TransformPair(40, profile=k)), 3)
    add("transform_pairs.profile5", transform_pairs.profile5, np.linspace(0, 1, 30))
    for k_ in (1, 2, 3, 4, 6, 7):          # (radial vectors that contain the end points 0.0 and 1.0 exactly)
        add(f"transform_pairs.profile{k_}", getattr(transform_pairs, f"profile{k_}"), np.linspace(0.05 if k_ in (1, 4) else 0, 1, 21))
    add("linbasex.int_beta", abel.linbasex.int_beta, rng.random((2, 30)) + 0.5, regions=[(3, 9), (12, 20)])
    add("linbasex.mean_beta", abel.linbasex.mean_beta, np.arange(30.0), rng.random((2, 30)) + 0.5, [(3, 9), (12, 20)])
    return E


def call(f, a, k):
    return quiet(f, *a, **k)


def _fresh_worker(label, seedv, q):
    import abel
    for m in ("abel.basex", "abel.daun", "abel.dasch", "abel.linbasex", "abel.rbasex"):
        mod = importlib.reload(importlib.import_module(m))
        setattr(abel, m.split(".")[1], mod)
    E = {e[0]: e for e in registry(np.random.default_rng(seedv))}
    _, f, a, k = E[label]
    try:
        q.put(("ok", canon(call(f, a, k))))
    except Exception as e:
        q.put(("err", repr(e)))


def fresh_process(label, seedv):
    ctx = mp.get_context("fork")
    q = ctx.SimpleQueue()
    p = ctx.Process(target=_fresh_worker, args=(label, seedv, q))
    p.start()
    kind, val = q.get()
    p.join()
    return kind, val


def runtime(ck, tier, deep):
    rng_seed = seed() + 18
    E = registry(np.random.default_rng(rng_seed))
    for (label, f, a, k) in E:
        site = label.split("/")[0]
        sig = dict(site=site)
        rep = dict(callable=label)
        args0, kw0 = copy.deepcopy(a), copy.deepcopy(k)
        snap = snapshot((a, k))
        ck.count(("S.runtime", label, "plain"), suite="S.runtime")
        try:
            r1 = canon(call(f, a, k))
        except Exception as e:
            ck.violation(dict(sig, clause="exception"), rep, f"{label}: {type(e).__name__}: {e}")
            continue
        if snapshot((a, k)) != snap:
            ck.violation(dict(sig, clause="argument-modified"), rep, f"{label} modified one of its arguments")
        # repeated call, bit-identical
        try:
            r2 = canon(call(f, a, k))
        except Exception as e:
            ck.violation(dict(sig, clause="not-repeatable"), rep, f"{label}: a second call with the same arguments raised {type(e).__name__}: {e}")
            continue
        if not same(r1, r2):
            ck.violation(dict(sig, clause="not-repeatable"), rep, f"{label}: a second call with the same arguments returned different bits")
        # the caller edits its own arrays in place and calls again with the same objects: the answer is the one for the edited
        # values (what a call with clean caches gives), not a remembered one
        def edit(x):
            if x.dtype.kind == "f" and x.ndim >= 1 and x.size >= 4 and x.flags.writeable:
                y = x.reshape(-1) if x.flags.c_contiguous else None
                if y is not None:
                    y[::3] *= 0.5
                    if x.ndim == 2 and min(x.shape) >= 9:            # … and a whole ring around the middle, for weight-like arrays
                        yy, xx = np.mgrid[:x.shape[0], :x.shape[1]]
                        rr = np.hypot(yy - x.shape[0] // 2, xx - x.shape[1] // 2)
                        x[(rr > 3.5) & (rr < 6.5)] = 0.0
            return x
        ea, ek = copy.deepcopy(args0), copy.deepcopy(kw0)
        try:
            for m_ in ("basex", "dasch", "daun", "linbasex", "rbasex"):        # (so that whatever is remembered is remembered from *these* objects)
                getattr(__import__("abel"), m_).cache_cleanup()
            call(f, ea, ek)
            map_arrays(ea, edit), map_arrays(ek, edit)
            if isinstance(ek.get("origin"), list):               # an origin kept in a list and moved in place
                ek["origin"][:] = [ek["origin"][0] - 2, ek["origin"][1] + 1]
            r_edit = canon(call(f, ea, ek))
            for m_ in ("basex", "dasch", "daun", "linbasex", "rbasex"):
                getattr(__import__("abel"), m_).cache_cleanup()
            r_clean = canon(call(f, copy.deepcopy(ea), copy.deepcopy(ek)))
            ck.count(("S.runtime", label, "edited"), suite="S.runtime")
            fl1 = np.concatenate([np.ravel(x).astype(float) for x in _arrays(r_edit)]) if _arrays(r_edit) else np.zeros(0)
            fl2 = np.concatenate([np.ravel(x).astype(float) for x in _arrays(r_clean)]) if _arrays(r_clean) else np.zeros(0)
            if fl1.shape != fl2.shape or (fl1.size and np.nanmax(np.abs(fl1 - fl2), initial=0) > 1e-9 * max(1.0, np.nanmax(np.abs(fl2), initial=0))):
                ck.violation(dict(sig, clause="remembers-edited-argument"), rep,
                             f"{label}: after its array arguments were edited in place, the call returns something else than for the same values with clean caches")
        except Exception:
            pass                  # (the edited values may be unacceptable to the callable: not a question of this clause)
        # caller scribbles over everything returned, then calls again
        raw = call(f, a, k)
        scribble(raw)
        if snapshot((a, k)) != snap:
            ck.violation(dict(sig, clause="result-aliases-argument"), rep, f"{label}: modifying the result changed an argument")
            a, k = copy.deepcopy(args0), copy.deepcopy(kw0)
        r3 = canon(call(f, a, k))
        if not same(r1, r3):
            ck.violation(dict(sig, clause="result-aliases-state"), rep, f"{label}: modifying the returned arrays changed the next call's result")
        # read-only arguments: an attempted in-place write raises
        ck.count(("S.runtime", label, "readonly"), suite="S.runtime")
        ro = (map_arrays(copy.deepcopy(args0), readonly), map_arrays(copy.deepcopy(kw0), readonly))
        try:
            r4 = canon(call(f, *ro))
            if not same(r1, r4):
                ck.violation(dict(sig, clause="readonly-differs"), rep, f"{label}: read-only arguments give a different result")
        except ValueError as e:
            if "read-only" in str(e) or "not writeable" in str(e).lower():
                ck.violation(dict(sig, clause="writes-to-argument"), rep, f"{label} tried to write into a (read-only) argument: {e}")
        except Exception:
            pass
        # non-contiguous views, float32, integers: arguments still untouched
        for variant, fn in (("strided", strided), ("float32", lambda x: x.astype(np.float32) if x.dtype.kind == "f" else x),
                            ("int", lambda x: np.round(x * 50).astype(np.int64) if x.dtype.kind == "f" and x.ndim == 2 else x)):
            ck.count(("S.runtime", label, variant), suite="S.runtime")
            va, vk = map_arrays(copy.deepcopy(args0), fn), map_arrays(copy.deepcopy(kw0), fn)
            vs = snapshot((va, vk))
            try:
                rv = canon(call(f, va, vk))
            except Exception:
                rv = None
            if snapshot((va, vk)) != vs:
                ck.violation(dict(sig, clause="argument-modified", variant=variant), rep, f"{label} modified a {variant} argument")
            if variant == "strided" and rv is not None and not same(r1, rv):
                # same values, different memory layout: equal to rounding is all that can be asked
                flat1 = np.concatenate([np.ravel(x).astype(float) for x in _arrays(r1)]) if _arrays(r1) else np.zeros(0)
                flat2 = np.concatenate([np.ravel(x).astype(float) for x in _arrays(rv)]) if _arrays(rv) else np.zeros(1)
                if flat1.shape != flat2.shape or np.nanmax(np.abs(flat1 - flat2), initial=0) > 1e-9 * max(1.0, np.nanmax(np.abs(flat1), initial=0)):
                    ck.violation(dict(sig, clause="layout-dependent"), rep, f"{label}: a non-contiguous view of the same data gives different numbers")
        # a new process
        if deep or label.split("_")[0] in ("basex", "daun", "hansenlaw", "onion", "two", "three", "direct", "rbasex", "linbasex", "Transform"):
            ck.count(("S.runtime", label, "fresh-process"), suite="S.runtime")
            kind, val = fresh_process(label, rng_seed)
            if kind == "ok" and not same(r1, val):
                ck.violation(dict(sig, clause="process-dependent"), rep, f"{label}: a fresh process returns different bits")
    ck.sample(dict(suite="S.runtime", callables=[e[0] for e in E][:12], total=len(E)))


def mutated_containers(ck, tier):
    """an option passed as a mutable container (list, dict, array) belongs to the caller, who may change it between calls: the
    second call must follow the new content — the library must not have kept the caller's object as part of a cache key
    (repair F62: rbasex compared the caller's list with itself and reused the matrices of the old strength)"""
    import abel
    from abel import daun, linbasex, rbasex
    rng = np.random.default_rng(seed() + 1862)
    full = rng.random((21, 21))
    half = rng.random((4, 15))

    def clean():
        for mod in ("basex", "daun", "dasch", "linbasex", "rbasex"):
            getattr(abel, mod).cache_cleanup()

    def rb(reg):
        return rbasex.rbasex_transform(full, reg=reg)[0]

    def dn(reg):
        return daun.daun_transform(half, reg=reg, verbose=False)

    def lb(pa, lo):
        return linbasex.linbasex_transform_full(full, proj_angles=pa, legendre_orders=lo, basis_dir=None)[1]

    def tr(opts):
        return abel.Transform(full, method="daun", transform_options=opts).transform

    cases = [
        ("rbasex reg list, strength", lambda c: rb(c), ["L2", 1.0], lambda c: c.__setitem__(1, 1000.0)),
        ("rbasex reg list, type", lambda c: rb(c), ["L2", 5.0], lambda c: c.__setitem__(0, "diff")),
        ("rbasex reg list, SVD strength", lambda c: rb(c), ["SVD", 0.1], lambda c: c.__setitem__(1, 0.5)),
        ("daun reg list, strength", lambda c: dn(c), ["L2", 1.0], lambda c: c.__setitem__(1, 100.0)),
        ("daun reg list, type", lambda c: dn(c), ["diff", 3.0], lambda c: c.__setitem__(0, "L2c")),
        ("linbasex proj_angles list", lambda c: lb(c, [0, 2]), [0, np.pi / 2], lambda c: c.__setitem__(1, np.pi / 3)),
        ("linbasex legendre_orders list", lambda c: lb([0, np.pi / 2], c), [0, 2], lambda c: c.__setitem__(1, 4)),
        ("Transform transform_options dict", lambda c: tr(c), dict(reg=("L2", 1.0), verbose=False), lambda c: c.__setitem__("reg", ("L2", 50.0))),
        ("rbasex weights array", lambda c: rbasex.rbasex_transform(full, weights=c)[0], np.ones_like(full),
         lambda c: c.__setitem__((slice(None), slice(0, 5)), 0.0)),
    ]
    for label, f, container, change in cases:
        ck.count(("S.mutated-container", label), suite="S.runtime")
        try:
            clean()
            c = copy.deepcopy(container)
            first = np.array(quiet(f, c), float)
            change(c)
            second = np.array(quiet(f, c), float)
            clean()
            want = np.array(quiet(f, copy.deepcopy(c)), float)
        except Exception as e:
            ck.violation(dict(site=label, clause="mutated-container-exception"), dict(case=label), f"{type(e).__name__}: {e}")
            continue
        if second.shape != want.shape or not np.allclose(second, want, rtol=0, atol=1e-9 * max(1.0, float(np.nanmax(np.abs(want)))), equal_nan=True):
            stale = second.shape == first.shape and np.array_equal(second, first, equal_nan=True)
            ck.violation(dict(site=label, clause="mutated-container"), dict(case=label, after=repr(c)[:200]),
                         f"{label}: after the caller changed the container to {repr(c)[:80]}, the call returns "
                         f"{'the result of the old content' if stale else 'something else'} (differs from a clean-cache call by "
                         f"{np.nanmax(np.abs(second - want)) if second.shape == want.shape else 'shape'})")
    clean()


def interleaved_repeats(ck, tier):
    """calling again with the same arguments returns the same result also when another call of the same module came in between:
    A, B, A — the two A's agree (whatever B left in the module's caches: matrices corrected or masked in place, keys that cover
    more than one request)"""
    import abel
    from abel import basex, daun, rbasex
    rng = np.random.default_rng(seed() + 1877)
    half = rng.random((4, 15))
    full = rng.random((21, 21))
    yy, xx = np.indices(full.shape)
    ring = np.where(np.abs(np.hypot(yy - 10, xx - 10) - 5) < 1.5, 0.0, 1.0)
    fam = {
        "daun": (daun.cache_cleanup, [(f"degree={dg}, reg={rg}, {dr}", (lambda dg=dg, rg=rg, dr=dr: daun.daun_transform(half, degree=dg, reg=rg, direction=dr, verbose=False)))
                                      for dg in (0, 3) for rg, dr in ((None, "inverse"), (("L2", 2.0), "inverse"), (("L2c", 2.0), "inverse"), (("diff", 2.0), "inverse"),
                                                                     ("nonneg", "inverse"), (None, "forward"))]),
        "rbasex": (rbasex.cache_cleanup, [(lab, (lambda kw=kw: rbasex.rbasex_transform(full, **kw)[0]))
                                          for lab, kw in (("inverse", {}), ("forward", dict(direction="forward")), ("L2", dict(reg=("L2", 5.0))),
                                                          ("masked forward", dict(direction="forward", weights=ring)), ("masked L2", dict(reg=("L2", 5.0), weights=ring)),
                                                          ("masked pos", dict(reg="pos", weights=ring)), ("masked inverse", dict(weights=ring)),
                                                          ("masked SVD", dict(reg=("SVD", 0.2), weights=ring)), ("pos", dict(reg="pos")))]),
        "basex": (basex.cache_cleanup, [(f"sigma={sg}, reg={rg}, corr={co}, {dr}",
                                         (lambda sg=sg, rg=rg, co=co, dr=dr: basex.basex_transform(half, sigma=sg, reg=rg, correction=co, direction=dr, basis_dir=None, verbose=False)))
                                        for sg, rg, co, dr in ((1.0, 0.0, True, "inverse"), (1.0, 5.0, True, "inverse"), (1.0, 5.0, False, "inverse"),
                                                               (2.0, 0.0, True, "inverse"), (1.0, 0.0, True, "forward"))]),
    }
    for name, (cleanup, calls) in fam.items():
        for ia, (la, A) in enumerate(calls):
            for ib, (lb, B) in enumerate(calls):
                if ia == ib:
                    continue
                ck.count(("S.interleaved", name, ia, ib), suite="S.runtime")
                try:
                    cleanup()
                    first = np.array(quiet(A), float)
                    quiet(B)
                    again = np.array(quiet(A), float)
                except Exception as e:
                    ck.violation(dict(site=name, clause="interleaved-repeat-exception"), dict(module=name, call=la, between=lb), f"{type(e).__name__}: {e}")
                    continue
                if first.shape != again.shape or not np.allclose(first, again, rtol=0, atol=1e-11 * max(1.0, float(np.nanmax(np.abs(first)))), equal_nan=True):
                    ck.violation(dict(site=name, clause="interleaved-repeat"), dict(module=name, call=la, between=lb),
                                 f"{name}: [{la}] gives another result after a call with [{lb}] in between (differs by "
                                 f"{np.nanmax(np.abs(first - again)) if first.shape == again.shape else 'shape'})")
        cleanup()


def array_arguments(ck, tier):
    """small arguments given as NumPy arrays (an origin computed with NumPy, counted from the far edge or not; ranges; angles) are the
    caller's as much as the image is: unchanged after the call, and a repeated call returns the same"""
    import abel
    from abel.tools import polar, vmi, center
    rng = np.random.default_rng(seed() + 1818)
    im = rng.random((23, 27))
    cases = []
    for o in (np.array([-6.0, -8.0]), np.array([7.0, 9.0]), np.array([-6, -8]), np.array([7, 9])):
        cases += [("reproject_image_into_polar", lambda o=o: polar.reproject_image_into_polar(im, origin=o)[0], o),
                  ("angular_integration_3D", lambda o=o: vmi.angular_integration_3D(im, origin=o)[1], o),
                  ("average_radial_intensity_2D", lambda o=o: vmi.average_radial_intensity_2D(im, origin=o)[1], o),
                  ("radial_intensity", lambda o=o: vmi.radial_intensity("int3D", im, origin=o)[1], o),
                  ("Distributions", lambda o=o: vmi.Distributions(origin=o if o.dtype.kind == "i" else tuple(int(v) for v in o), rmax="MIN", order=2).image(im).cos(), o),
                  ("set_center", lambda o=o: center.set_center(im, o), o),
                  ("center_image", lambda o=o: center.center_image(im, o), o),
                  ("rbasex_transform", lambda o=o: abel.rbasex.rbasex_transform(im, origin=o if o.dtype.kind == "i" else tuple(int(v) for v in o))[1].cos(), o)]
    for label, f, arg in cases:
        keep = arg.copy()
        ck.count(("S.array-args", label, arg.dtype.kind, bool((arg < 0).any())), suite="S.runtime")
        rep = dict(function=label, origin=keep.tolist(), dtype=str(arg.dtype))
        try:
            a = np.asarray(quiet(f), float)
            changed = not np.array_equal(arg, keep)
            b = np.asarray(quiet(f), float)
        except Exception as e:
            if not np.array_equal(arg, keep):
                ck.violation(dict(site=label, clause="array-argument-changed"), rep, f"{label}: origin array {keep.tolist()} is {arg.tolist()} after a call that raised {type(e).__name__}")
            arg[...] = keep
            continue                              # (a form of origin the function refuses loudly is not this property's matter)
        if changed or not np.array_equal(arg, keep):
            ck.violation(dict(site=label, clause="array-argument-changed"), rep, f"{label}: the caller's origin array {keep.tolist()} is {arg.tolist()} after the call")
        elif a.shape != b.shape or not np.array_equal(a, b, equal_nan=True):
            ck.violation(dict(site=label, clause="array-argument-repeat"), rep, f"{label}: a second identical call with origin array {keep.tolist()} returned something else")
        arg[...] = keep


def disk_sessions(ck, tier):
    """calling again with the same arguments returns the same bits — also when other methods' calls come in between and the basis
    directory on disk is in use: each call of an interleaved session is compared with its first occurrence"""
    import shutil
    import tempfile
    import abel
    rng = np.random.default_rng(seed() + 1818)
    half = rng.random((4, 19)) + 0.1
    calls = {"two_point": lambda d: abel.dasch.two_point_transform(half, basis_dir=d),
             "three_point": lambda d: abel.dasch.three_point_transform(half, basis_dir=d),
             "onion_peeling": lambda d: abel.dasch.onion_peeling_transform(half, basis_dir=d),
             "daun1": lambda d: abel.daun.daun_transform(half, degree=1, basis_dir=d, verbose=False),
             "daun2": lambda d: abel.daun.daun_transform(half, degree=2, reg=("L2", 0.5), basis_dir=d, verbose=False),
             "basex": lambda d: abel.basex.basex_transform(half, sigma=1.0, reg=1.0, basis_dir=d, verbose=False),
             "basex2": lambda d: abel.basex.basex_transform(half, sigma=2.0, reg=1.0, basis_dir=d, verbose=False)}
    for sess in range(6 if tier == "quick" else 40):
        names = [list(calls)[i] for i in rng.choice(len(calls), size=3, replace=False)]
        seq = [names[i] for i in rng.integers(0, 3, size=9)]
        d = tempfile.mkdtemp(prefix="c18_", dir=os.environ.get("VERIF_SCRATCH"))
        for mod in ("basex", "daun", "dasch"):
            getattr(abel, mod).cache_cleanup()
        first = {}
        try:
            for step, name in enumerate(seq):
                ck.count(("S.disk-session", name, step), suite="S.runtime")
                with warnings.catch_warnings(), contextlib.redirect_stdout(io.StringIO()):
                    warnings.simplefilter("ignore")
                    out = np.array(calls[name](d))
                if name in first and not np.array_equal(out, first[name]):
                    ck.violation(dict(site=name, clause="not-repeatable"), dict(session=seq[:step + 1], basis_dir="a directory, empty at the start"),
                                 f"{name}: call {step} of the session {seq[:step + 1]} (shared basis directory) differs from the first {name} call by "
                                 f"{np.abs(out - first[name]).max():.3g}")
                    break
                first.setdefault(name, out)
        except Exception as e:
            ck.violation(dict(site="session", clause="exception"), dict(session=seq), f"{type(e).__name__}: {e}")
        finally:
            shutil.rmtree(d, ignore_errors=True)
    for mod in ("basex", "daun", "dasch"):
        getattr(abel, mod).cache_cleanup()


def _arrays(c):
    if isinstance(c, np.ndarray):
        return [c]
    if isinstance(c, tuple):
        return [a for v in c for a in _arrays(v)]
    return []


def regenerate(ck):
    p = subprocess.run(["/venv/bin/python", str(VERIF / "harness" / "gen_effects.py")], capture_output=True, text=True)
    if p.returncode != 0:
        ck.broken.append(dict(kind="translator", module="gen_effects", why=p.stderr[-800:]))
    else:
        ck.cov["translated"] = p.stdout.strip()


def run(tier):
    ck = Check("C18", tier)
    deep = tier == "thorough"
    ck.cov["rule"] = ("static: every function/class of abel/*.py, abel/tools/*.py (136 units) → effect IR + points-to certificates, checked "
                      "by the Lean kernel. runtime: a registry of ~90 public callables, each called with float64 arguments (bytes of "
                      "every array/list/dict argument compared before/after), repeated (bit-identical), after scribbling over the "
                      "returned arrays (bit-identical), with read-only / strided / float32 / integer arguments, and (transform "
                      "functions; thorough: all) in a forked fresh process with re-imported modules. distinct = (callable, variant)")
    ck.cov["trusted_base"] = ["Lean 4.33 kernel", "axioms propext/Classical.choice/Quot.sound",
                              "gen_effects.py: AST → IR (which NumPy calls return views / mutate is a table in that file; names rebound "
                              "become new versions; loops walked twice; `if x is not None: x = …` special case)",
                              "semantics of the IR in Props/C18.lean (flow-insensitive executions, callees within their summaries)",
                              "dynamic features the walker cannot see (getattr, exec, C extensions) are covered by the runtime suite only",
                              "determinism of NumPy/SciPy kernels for repeatability across processes"]
    ck.cov["source_fingerprint"] = source_fingerprint(["abel/tools/vmi.py", "abel/hansenlaw.py", "abel/tools/circularize.py", "abel/transform.py"])
    regenerate(ck)
    ck.proofs("PyAbel.Props.C18")
    runtime(ck, tier, deep or bool(ck.broken))
    disk_sessions(ck, tier)
    mutated_containers(ck, tier)
    interleaved_repeats(ck, tier)
    array_arguments(ck, tier)
    return ck.finish()


def replay(path):
    rec = json.loads(open(path).read())
    print(json.dumps(rec, indent=1, default=str)[:3000])
    return 1
