"""
C08 — a damaged or concurrently written basis file never changes a result.

proofs : lean/PyAbel/Props/C08.lean — `.npy` container: decode∘encode, every strict prefix rejected; cache machine
         with fault operations (damage / remove / other processes' saves): every answer right or an exception,
         recovery once no usable file is damaged (built on Props/C07.lean)
K      : (a) real basis files of every method truncated at every byte (small sizes; header/chunk boundaries for large
         ones), extended, or replaced by garbage: NumPy's verdict vs the Lean decoder's;  (b) histories with fault
         operations on the real get_bs_cached functions vs the Lean machine (harness/cachelab.py)
S      : transform-level histories with files truncated / overwritten / emptied / removed between calls: every result
         equals the pristine no-disk result or the call raises; writer-exposure check: np.save must never be pointed
         at a final basis name (else the two-writer "hole" state is built and shown to load with wrong numbers);
         real multi-process races on a shared empty directory; a basis served by cropping a larger file (every such pair)
         stays correct when the file is overwritten afterwards
"""
import glob
import io
import json
import multiprocessing as mp
import os
import tempfile

import numpy as np

from harness.cachelab import ADAPTERS
from harness.common import Check, drive, ensure_driver, seed, source_fingerprint
from harness.methods import quiet
from harness.props import c07


def np_verdict(data: bytes):
    try:
        a = np.load(io.BytesIO(data), allow_pickle=False)
        return "ok", a
    except Exception as e:
        return "error", e


def corr_npy(ck, tier):
    rng = np.random.default_rng(seed() + 8)
    d = tempfile.mkdtemp(prefix="npy_", dir=os.environ.get("VERIF_SCRATCH"))
    lines, cases = [], []
    for ad in ADAPTERS:
        ad.cache_cleanup()
        key = ad.lattice[0]
        ad.call(key, d)
        files = sorted(glob.glob(os.path.join(d, "*.npy")))
        for f in files:
            data = open(f, "rb").read()
            os.remove(f)
            n = len(data)
            cuts = list(range(0, n + 1)) if (n <= 1500 or tier == "thorough" and n <= 6000) else \
                sorted(set(list(range(0, 200)) + [n - k for k in range(0, 40)] + [int(v) for v in rng.integers(200, n, size=150)]))
            for k in cuts:
                cases.append((ad.name, os.path.basename(f), f"prefix {k}/{n}", data[:k], k == n))
            cases.append((ad.name, os.path.basename(f), "trailing bytes", data + b"\x00" * 7, True))
            for _ in range(20):
                g = bytes(rng.integers(0, 256, size=int(rng.integers(0, 200)), dtype=np.uint8))
                cases.append((ad.name, os.path.basename(f), "garbage", g, None))
            for _ in range(20):                      # well-formed header, payload of the wrong length
                cut = int(rng.integers(1, 64))
                cases.append((ad.name, os.path.basename(f), f"short payload -{cut}", data[:-cut], False))
        ad.cache_cleanup()
    replies = drive(["npy " + c[3].hex() for c in cases])
    for (mod, fname, kind, data, complete), rep in zip(cases, replies):
        ck.count(("K.npy", mod, kind.split()[0], len(data) % 97), suite="K.npy")
        v, a = np_verdict(data)
        mv = "ok" if rep.startswith("ok") else "error"
        if v != mv:
            ck.disagree("K.npy", dict(module=mod, file=fname, kind=kind, bytes=len(data)), f"NumPy: {v}, Lean decoder: {mv}")
        elif v == "ok":
            shape = tuple(int(t) for t in rep.split("|")[0].split()[1:])
            if shape != a.shape:
                ck.disagree("K.npy", dict(module=mod, file=fname, kind=kind), f"shape NumPy {a.shape}, decoder {shape}")
        if complete is False and v == "ok":
            ck.violation(dict(site="np.load", clause="prefix-accepted"), dict(module=mod, file=fname, kind=kind, hex=data[:64].hex()),
                         f"{kind} of {fname} loads without error")
    ck.sample(dict(suite="K.npy", cases=len(cases), example=cases[5][:3]))


def truncation_calls(ck, tier):
    """every method: save a basis, truncate it at a byte, call again: same numbers as without disk, or an exception;
    then remove the file: back to normal"""
    rng = np.random.default_rng(seed() + 81)
    d = tempfile.mkdtemp(prefix="trunc_", dir=os.environ.get("VERIF_SCRATCH"))
    for ad in ADAPTERS:
        key = ad.lattice[len(ad.lattice) // 2]
        ad.cache_cleanup()
        ad.call(key, d)
        want = ad.fresh(key)
        files = sorted(glob.glob(os.path.join(d, "*.npy")))
        if not files:
            ck.disagree("K.faults", dict(module=ad.name), "no basis file was saved")
            continue
        f = files[0]
        data = open(f, "rb").read()
        n = len(data)
        cuts = sorted(set([0, 1, 5, 6, 8, 9, 10, 11, 64, 127, 128, 129, n - 8, n - 1] + [int(v) for v in rng.integers(0, n, size=12 if tier == "quick" else 80)]))
        for k in [c for c in cuts if 0 <= c < n]:
            open(f, "wb").write(data[:k])
            ad.cache_cleanup()
            ck.count(("S.truncate", ad.name, k if k < 130 else "body"), suite="S.truncated-call")
            out, res = ad.call(key, d)
            rep = dict(module=ad.name, file=os.path.basename(f), truncated_at=k, size=n)
            if out == "ok" and not c07.same_result(res, want):
                ck.violation(dict(site=ad.name, clause="truncated-file-changes-result"), rep,
                             f"{ad.name}: basis file truncated at byte {k} silently changed the result")
            # a second call right after a failure must not be answered from stale state either
            out2, res2 = ad.call(key, d)
            if out2 == "ok" and not c07.same_result(res2, want):
                ck.violation(dict(site=ad.name, clause="stale-after-failed-load"), rep,
                             f"{ad.name}: the call following a failed load returned different numbers")
            if os.path.exists(f):
                os.remove(f) if open(f, "rb").read() != data else None
            out3, res3 = ad.call(key, d)
            if out3 != "ok" or not c07.same_result(res3, want):
                ck.violation(dict(site=ad.name, clause="no-recovery"), rep,
                             f"{ad.name}: after removing the damaged file the call {'raised' if out3 != 'ok' else 'is wrong'}")
            for g in glob.glob(os.path.join(d, "*")):
                os.remove(g)
            ad.cache_cleanup()
            ad.call(key, d)
            data = open(f, "rb").read() if os.path.exists(f) else data
        for g in glob.glob(os.path.join(d, "*")):
            os.remove(g)
        ad.cache_cleanup()


def poison_scenarios(ck, tier):
    """memory holds basis A; the file for a different request B is damaged; the failed load of B must not leave A
    filed under B: the next requests for B (without and with the directory) return B's basis or raise"""
    rng = np.random.default_rng(seed() + 82)
    d = tempfile.mkdtemp(prefix="poison_", dir=os.environ.get("VERIF_SCRATCH"))
    for ad in ADAPTERS:
        lat = ad.lattice
        pairs = [(a, b) for a in lat for b in lat if a != b]
        # the pairs most at risk first, deterministically: A larger than B with the same parameters (B could be "served" by cropping A's
        # basis or file) and A at least as large with other parameters (A's arrays would fit B's shapes), then random ones
        crop = [(a, b) for a, b in pairs if tuple(a[1:]) == tuple(b[1:]) and a[0] > b[0]]
        fits = [(a, b) for a, b in pairs if tuple(a[1:]) != tuple(b[1:]) and a[0] >= b[0]]
        rot = lambda L, k: (L[seed() % max(1, len(L)):] + L[:seed() % max(1, len(L))])[:k]
        chosen = list(crop) + rot(fits, 8 if tier == "quick" else 40)
        rest = [pq for pq in pairs if pq not in chosen]
        chosen += [rest[i] for i in rng.choice(len(rest), size=min(len(rest), 3 if tier == "quick" else 30), replace=False)]
        pairs = chosen
        for (A, B) in pairs:
            for kind in (1, 2):
                for g in glob.glob(os.path.join(d, "*")):
                    os.remove(g)
                ad.cache_cleanup()
                ad.call(B, d)
                ad.cache_cleanup()
                ad.call(A, d)                                   # memory now holds A
                ad.damage(d, B, kind)
                for g in glob.glob(os.path.join(d, "*.npy")):    # rbasex may have saved B under another suffix
                    if ad.parse(os.path.basename(g)) is not None and ad.parse(os.path.basename(g))[:len(B) - (1 if ad.name == "rbasex" else 0)] == B[:len(B) - (1 if ad.name == "rbasex" else 0)]:
                        open(g, "wb").write(b"" if kind == 2 else b"garbage, not npy")
                ck.count(("S.poison", ad.name, A, B, kind), suite="S.poison")
                first = ad.call(B, d)
                want = ad.fresh(B)
                rep = dict(module=ad.name, cached=list(map(int, A)), requested=list(map(int, B)), damage={1: "garbage", 2: "empty"}[kind])
                for label, (out, res) in (("the failing call itself", first), ("the next call without a directory", ad.call(B, None)),
                                          ("the next call with the directory", ad.call(B, d))):
                    if out == "ok" and not c07.same_result(res, want):
                        ck.violation(dict(site=ad.name, clause="stale-after-failed-load"), dict(rep, which=label),
                                     f"{ad.name}: with {A} cached and the file for {B} damaged, {label} returned a different basis")
                        break
        for g in glob.glob(os.path.join(d, "*")):
            os.remove(g)
        ad.cache_cleanup()


def live_file_scenarios(ck, tier):
    """a basis served by cropping a larger file stays correct when that file is later overwritten in place (same length) or
    replaced by a well-formed file holding a smaller array than its name promises; every later call returns the fresh numbers or raises"""
    d = tempfile.mkdtemp(prefix="live_", dir=os.environ.get("VERIF_SCRATCH"))
    rng = np.random.default_rng(seed() + 83)
    for ad in ADAPTERS:
        lat = sorted(ad.lattice)
        pairs = [(b, k) for b in lat for k in lat if k != b and all(x <= y for x, y in zip(k, b))]
        crop = [p for p in pairs if tuple(p[0][1:]) == tuple(p[1][1:])]     # same parameters, smaller size: where the modules crop a larger file
        other = [p for p in pairs if p not in crop]
        rot = seed() % max(1, len(crop))
        chosen = (crop[rot:] + crop[:rot])[:4 if tier == "quick" else len(crop)]
        chosen += [other[int(i)] for i in rng.integers(0, len(other), size=2 if tier == "quick" else 8)] if other else []
        for big, small in chosen:
            # (a well-formed file holding a smaller array than its name says cannot come from a crash, garbage or a concurrent
            #  writer of this library — it is indistinguishable from a legitimately saved basis — and is not one of the faults)
            for kind in ("garbage-in-place",):
                for g in glob.glob(os.path.join(d, "*")):
                    os.remove(g)
                ad.cache_cleanup()
                ad.call(big, d)
                ad.cache_cleanup()
                first = ad.call(small, d)                        # served from the larger file (where the module crops), now in memory
                files = sorted(glob.glob(os.path.join(d, "*.npy")))
                for f in files:
                    size = os.path.getsize(f)
                    if kind == "garbage-in-place":
                        with open(f, "r+b") as fh:
                            fh.write(bytes(rng.integers(0, 256, size=size, dtype=np.uint8)))
                    else:
                        try:
                            arr = np.load(f, allow_pickle=True)
                            np.save(f, arr[..., :max(1, arr.shape[-1] // 2)])
                        except Exception:
                            pass
                ck.count(("S.live", ad.name, kind), suite="S.live-file")
                want = ad.fresh(small)
                rep = dict(module=ad.name, saved=list(map(int, big)), requested=list(map(int, small)), damage=kind)
                try:
                    seq = (("the call repeated with the directory", ad.call(small, d)), ("the call without a directory", ad.call(small, None)),
                           ("the call after cache_cleanup", (ad.cache_cleanup(), ad.call(small, d))[1]))
                except Exception as e:
                    ck.notes.append(f"live_file_scenarios {ad.name}: {type(e).__name__}: {e}")
                    continue
                for label, (out, res) in (("the first call", first),) + seq:
                    if out == "ok" and not c07.same_result(res, want):
                        ck.violation(dict(site=ad.name, clause="live-file"), dict(rep, which=label),
                                     f"{ad.name}: basis for {small} served from the file of {big}; after the file was changed ({kind}) {label} returned different numbers")
                        break
        for g in glob.glob(os.path.join(d, "*")):
            os.remove(g)
        ad.cache_cleanup()


def writer_exposure(ck):
    """np.save called with a final basis file name exposes half-written files to other processes.  If that happens,
    build the state two racing writers leave (A: open,hdr,bulk | B: open(O_TRUNC) | A: tail | B: hdr) from np.save's
    observed write pattern (header, bulk = whole 4096-byte blocks, tail) and show a reader loads wrong numbers."""
    import abel
    d = tempfile.mkdtemp(prefix="expo_", dir=os.environ.get("VERIF_SCRATCH"))
    seen = []
    real_save = np.save

    def spy(file, arr, *a, **k):
        seen.append(file if isinstance(file, (str, bytes, os.PathLike)) else None)
        return real_save(file, arr, *a, **k)
    np.save = spy
    try:
        for ad in ADAPTERS:
            ad.cache_cleanup()
            seen.clear()
            big = max(ad.lattice, key=lambda k: k[0] if ad.name != "dasch" else k[1])
            key = {"dasch": (big[0], 60), "daun": (60, 1), "basex": (40, 1), "linbasex": (41,) + tuple(big[1:]),
                   "rbasex": (40, 2, 0, 1)}[ad.name]
            out, res = ad.call(key, d)
            ck.count(("S.exposure", ad.name), suite="S.writer-exposure")
            exposed = [p for p in seen if p is not None and str(p).endswith(".npy") and "_basis_" in os.path.basename(str(p))]
            if not exposed:
                continue
            p = str(exposed[0])
            good = open(p, "rb").read()
            hdr = 128
            bulk = ((len(good) - hdr) // 4096) * 4096
            state = bytearray(len(good))
            state[:hdr] = good[:hdr]
            state[hdr + bulk:] = good[hdr + bulk:]
            open(p, "wb").write(state)
            ad.cache_cleanup()
            out2, res2 = ad.call(key, d)
            if out2 == "ok" and not c07.same_result(res2, ad.fresh(key)):
                ck.violation(dict(site=ad.name, clause="concurrent-writers-hole"),
                             dict(module=ad.name, file=os.path.basename(p), schedule=["A open(O_TRUNC)", "A write header", "A write bulk",
                                                                                     "B open(O_TRUNC)", "A write tail", "B write header", "C load"],
                                  bulk_bytes=bulk, tail_bytes=len(good) - hdr - bulk),
                             f"{ad.name} saves {os.path.basename(p)} in place: two racing writers leave a full-length file with a valid "
                             f"header and a zero hole, which a third process loads as a (wrong) basis")
            for g in glob.glob(os.path.join(d, "*")):
                os.remove(g)
    finally:
        np.save = real_save
    for ad in ADAPTERS:
        ad.cache_cleanup()


def _scheduled_child(ad, key, d, sync, tag, pause_at):
    """forked child: np.save emits its normal bytes in three write() calls (header, first half, rest) and waits for the
    coordinator after the piece `pause_at`; then one call of the adapter; result pickled to <sync>/<tag>.out"""
    import io
    import pickle
    import time
    pid = os.fork()
    if pid:
        return pid
    code = 0
    try:
        real = np.save
        paused = []

        def checkpoint(name):
            if name != pause_at or paused:
                return
            paused.append(name)
            open(os.path.join(sync, tag + ".reached"), "w").close()
            t0 = time.time()
            while not os.path.exists(os.path.join(sync, tag + ".go")) and time.time() - t0 < 60:
                time.sleep(0.005)

        def slow(file, arr, *a, **k):
            buf = io.BytesIO()
            real(buf, arr, *a, **k)
            data = buf.getvalue()
            hl = 10 + int.from_bytes(data[8:10], "little")
            mid = hl + (len(data) - hl) // 2
            fh = open(file, "wb") if isinstance(file, (str, bytes, os.PathLike)) else file
            for name, piece in (("header", data[:hl]), ("half", data[hl:mid]), ("rest", data[mid:])):
                fh.write(piece)
                fh.flush()
                checkpoint(name)
            if fh is not file:
                fh.close()
        if pause_at:
            np.save = slow
        ad.cache_cleanup()
        try:
            out, res = ad.call(key, d)
        except BaseException as e:      # noqa
            out, res = "raised", repr(e)
        with open(os.path.join(sync, tag + ".out"), "wb") as f:
            pickle.dump((out, res), f)
    except BaseException:               # noqa
        code = 1
    finally:
        os._exit(code)


def scheduled_writers(ck, tier):
    """deterministic three-process schedule on an empty shared directory (what the random races only hit by luck):
         W1 writes header + half of its data, is descheduled | W2 opens its output and writes the header, is descheduled |
         W1 finishes and publishes | R reads | W2 finishes | R2 reads
       every process that returns must return the numbers of a pristine process without a basis directory"""
    import pickle
    import time

    def wait(path, timeout):
        t0 = time.time()
        while not os.path.exists(path) and time.time() - t0 < timeout:
            time.sleep(0.005)
        return os.path.exists(path)

    def reap(pid):
        try:
            os.waitpid(pid, 0)
        except ChildProcessError:
            pass
    for ad in ADAPTERS:
        big = max(ad.lattice, key=lambda k: k[0] if ad.name != "dasch" else k[1])
        key = {"dasch": (big[0], 60), "daun": (60, 1), "basex": (40, 1), "linbasex": (41,) + tuple(big[1:]), "rbasex": (40, 2, 0, 1)}[ad.name]
        d = tempfile.mkdtemp(prefix="sched_", dir=os.environ.get("VERIF_SCRATCH"))
        sync = tempfile.mkdtemp(prefix="sync_", dir=os.environ.get("VERIF_SCRATCH"))
        ck.count(("S.schedule", ad.name), suite="S.scheduled-writers")
        ad.cache_cleanup()
        want = ad.fresh(key)
        w1 = _scheduled_child(ad, key, d, sync, "W1", "half")
        got1 = wait(os.path.join(sync, "W1.reached"), 40)
        w2 = _scheduled_child(ad, key, d, sync, "W2", "header") if got1 else None
        if w2:
            wait(os.path.join(sync, "W2.reached"), 15)
        open(os.path.join(sync, "W1.go"), "w").close()
        reap(w1)
        r = _scheduled_child(ad, key, d, sync, "R", None)
        reap(r)
        open(os.path.join(sync, "W2.go"), "w").close()
        if w2:
            reap(w2)
        r2 = _scheduled_child(ad, key, d, sync, "R2", None)
        reap(r2)
        for tag in ("W1", "W2", "R", "R2"):
            f = os.path.join(sync, tag + ".out")
            if not os.path.exists(f):
                continue
            out, res = pickle.load(open(f, "rb"))
            if out == "ok" and not c07.same_result(res, want):
                ck.violation(dict(site=ad.name, clause="scheduled-writers"),
                             dict(module=ad.name, key=list(key), process=tag,
                                  schedule=["W1: header + first half written", "W2: output opened, header written", "W1: rest written, published",
                                            "R: reads", "W2: finishes", "R2: reads"]),
                             f"{ad.name}: process {tag} of the two-writers/one-reader schedule returned numbers that differ from the "
                             f"result without a basis directory")
        ad.cache_cleanup()
    if not got1:
        ck.notes.append("scheduled_writers: a writer never reached its pause point (no disk save?)")


def _race_worker(args):
    modname, d, seedv, pristine = args
    import abel
    import importlib
    if pristine:
        m = importlib.reload(importlib.import_module(modname))
        setattr(abel, modname.split(".")[1], m)
    else:
        importlib.import_module(modname).cache_cleanup()
    rng = np.random.default_rng(seedv)
    lat = c07.Lattice(np.random.default_rng(12345))          # same data in every process
    out = []
    for _ in range(6):
        label, f = lat.draw(modname, rng)
        try:
            out.append((label, "ok", quiet(f, abel, d)))
        except Exception as e:
            out.append((label, "raised", repr(e)))
    return out


def races(ck, tier):
    """real OS-level races: four processes start together on an empty shared directory and request the same or
    overlapping bases (two seeds, each used by two processes); every result must equal the result of the same call
    sequence in a pristine process without a basis directory (or the call raises)"""
    nrounds = 2 if tier == "quick" else 12
    ctx = mp.get_context("fork")
    for modname in ("abel.dasch", "abel.daun", "abel.basex", "abel.linbasex", "abel.rbasex"):
        for rnd in range(nrounds):
            d = tempfile.mkdtemp(prefix="race_", dir=os.environ.get("VERIF_SCRATCH"))
            seeds = [seed() * 1000 + rnd * 10, seed() * 1000 + rnd * 10 + 1]
            with ctx.Pool(1) as pool:
                refs = {sv: pool.map(_race_worker, [(modname, None, sv, True)])[0] for sv in seeds}
            with ctx.Pool(4) as pool:
                results = pool.map(_race_worker, [(modname, d, seeds[i % 2], False) for i in range(4)], chunksize=1)
            for i, proc in enumerate(results):
                for (label, out, val), (rl, ro, rv) in zip(proc, refs[seeds[i % 2]]):
                    ck.count(("S.race", modname, label.split("@")[0]), suite="S.races")
                    if out != "ok" or ro != "ok":
                        continue
                    if not c07.same_result(val, rv, 1e-9):
                        ck.violation(dict(site=modname.split(".")[1], clause="race"), dict(module=modname, call=label, round=rnd),
                                     f"{label}: a process racing on a shared empty basis directory returned different numbers")


def run(tier):
    ck = Check("C08", tier)
    deep = tier == "thorough"
    ck.cov["rule"] = ("K.npy: a saved basis file of every method x every byte offset (files <= 1.5 kB; boundaries + 150 random "
                      "offsets otherwise) + trailing bytes + random garbage + short payloads, NumPy verdict vs Lean decoder; "
                      "K.faults: cache histories with damage/removal (as C07) ; S: truncated file -> call -> repeat -> remove -> "
                      "call for every method at header/chunk boundaries and random offsets; 150 (thorough 800) transform-level "
                      "operations per module with files truncated / replaced by garbage / emptied / removed in between; "
                      "np.save exposure spy + constructed two-writer hole state; deterministic W1/W2/R/R2 schedule with np.save split into three writes (every module); 4-process races on an empty shared directory. "
                      "distinct = (suite, module, kind/offset class)")
    ck.cov["trusted_base"] = ["Lean 4.33 kernel", "axioms propext/Classical.choice/Quot.sound",
                              "Model/Npy.lean tied to numpy.load by K.npy (verdict class on every prefix of real files)",
                              "Model/Cache.lean as in C07; other processes' saves are atomic `publish` operations — "
                              "atomicity of os.replace/rename within one directory is assumed (POSIX)",
                              "np.save's write pattern (header, whole-4096-byte bulk, tail) as observed with strace on this platform",
                              "finer-than-syscall interleavings and torn writes inside one write(2) are out of scope"]
    ck.cov["source_fingerprint"] = source_fingerprint(["abel/basex.py", "abel/daun.py", "abel/dasch.py", "abel/linbasex.py",
                                                       "abel/rbasex.py", "abel/transform.py"])
    ck.proofs("PyAbel.Props.C08")
    ok, log = ensure_driver()
    if ok:
        corr_npy(ck, tier)
        c07.correspondence(ck, tier, faults=True, suite="K.faults", nhist=20 if tier == "quick" else 150)
    else:
        ck.broken.append(dict(kind="proof", module="pyabel_drv", why="driver build failed", log=log[-1500:]))
    truncation_calls(ck, tier)
    poison_scenarios(ck, tier)
    live_file_scenarios(ck, tier)
    c07.oracle_transform(ck, tier, deep or bool(ck.broken), faults=True, suite="S.fault-histories",
                         prop_clause="damaged-file-changes-result")
    writer_exposure(ck)
    scheduled_writers(ck, tier)
    races(ck, tier)
    # a save that fails or is interrupted part-way while the process lives on: the calls after it return the no-disk-cache values
    from harness.props.c07 import oracle_failed_saves
    oracle_failed_saves(ck, tier)
    return ck.finish()


def replay(path):
    rec = json.loads(open(path).read())
    print(json.dumps(rec, indent=1, default=str)[:4000])
    return 1
