"""
C05 — abel.Transform = centre, symmetrise, transform each quadrant, reassemble.

proofs : lean/PyAbel/Props/C05.lean (pixel formula of the reassembly for every shape, shape preservation,
         unread quadrants, dr routing)
K      : abel.Transform with a stub method patched into the eight method modules vs the Lean pipeline model,
         bit-for-bit on labelled/random integer images (data flow, not numerics)
S      : real methods vs an assembly from their own half-image functions written from the docstring;
         option routing by recording wrappers; int vs float; linbasex / rbasex pass-through
"""
import contextlib
import itertools
import json
import warnings

import numpy as np

from harness.common import Check, arr2h, drive, ensure_driver, h2arr, seed, source_fingerprint
from harness.props.c06 import AXES, MASKS, ref_defined, ref_quadrants

METHODS = {"basex": ("abel.basex", "basex_transform"), "daun": ("abel.daun", "daun_transform"),
           "direct": ("abel.direct", "direct_transform"), "hansenlaw": ("abel.hansenlaw", "hansenlaw_transform"),
           "onion_bordas": ("abel.onion_bordas", "onion_bordas_transform"),
           "onion_peeling": ("abel.dasch", "onion_peeling_transform"),
           "two_point": ("abel.dasch", "two_point_transform"), "three_point": ("abel.dasch", "three_point_transform")}
FWD = ["basex", "daun", "direct", "hansenlaw"]


@contextlib.contextmanager
def patched(modname, attr, new):
    import importlib
    mod = importlib.import_module(modname)
    old = getattr(mod, attr)
    setattr(mod, attr, new)
    try:
        yield
    finally:
        setattr(mod, attr, old)


class Stub:
    """row-wise, position dependent, non-symmetric, exact on small integers (same as Lean `stubT`)"""

    def __init__(self):
        self.calls = []

    def __call__(self, Q, direction="inverse", **kw):
        self.calls.append(dict(shape=Q.shape, direction=direction, kw=dict(kw), dtype=str(Q.dtype)))
        return 2 * Q + np.roll(Q, -1, axis=1) + (np.arange(Q.shape[1]) + 1.0)


def T(im, **kw):
    import abel
    with warnings.catch_warnings():
        warnings.simplefilter("ignore")
        return abel.Transform(im, **kw)


def correspondence(ck: Check, tier):
    rng = np.random.default_rng(seed() + 5)
    rows = range(3, 11) if tier == "quick" else range(3, 16)
    cols = [5, 6, 7, 8, 9, 11, 13] if tier == "quick" else list(range(5, 20))
    names = list(METHODS)
    lines, cases = [], []
    k = 0
    for r, c in itertools.product(rows, cols):
        for (axname, axis, code), mask in itertools.product(AXES, MASKS):
            kind = ("labelled", "randint", "intdtype")[k % 3]
            if kind == "labelled":
                im = 100.0 * (np.arange(r)[:, None] + 1) + np.arange(c)[None, :] + 1.0
            else:
                im = rng.integers(-40, 40, size=(r, c)).astype(float)
            method = names[k % len(names)]
            direction = ("inverse", "forward")[(k // 8) % 2]
            k += 1
            u = " ".join("1" if b else "0" for b in mask)
            lines.append(f"pipe {r} {c} {code} {u} {arr2h(im)}")
            cases.append((r, c, axname, axis, code, mask, kind, im, method, direction))
    replies = drive(lines)
    for (r, c, axname, axis, code, mask, kind, im, method, direction), rep in zip(cases, replies):
        ck.count((r % 2, c % 2, min(r, 5), min(c, 7), axname, mask), suite="K.stub")
        case = dict(shape=[r, c], symmetry_axis=axname, mask=list(mask), image=kind, method=method, direction=direction)
        stub = Stub()
        arg = im.astype(np.int64) if kind == "intdtype" else im
        opts = dict(marker=7)
        try:
            with patched(*METHODS[method], stub):
                t = T(arg, method=method, direction=direction, origin="none", symmetry_axis=axis, use_quadrants=mask,
                      transform_options=opts)
            impl = "ok"
        except ValueError:
            impl = "raise"
        except Exception as e:
            impl = f"exc:{type(e).__name__}"
        tok = rep.split()
        if tok[0] != impl:
            ck.disagree("K.stub", case, f"model {tok[0]} vs implementation {impl}")
            continue
        if impl != "ok":
            continue
        mo = h2arr(tok[3:]).reshape(int(tok[1]), int(tok[2]))
        if t.transform.shape != mo.shape or not np.array_equal(mo, t.transform):
            ck.disagree("K.stub", case, "Transform(...).transform differs from the pipeline model (bit-for-bit)")
            continue
        # the method saw: float64 quadrants of the quadrant shape, the requested direction, exactly the options
        want_calls = {0: 4, 1: 2, 2: 2, 3: 1}[code]
        bad = [cl for cl in stub.calls if cl["shape"] != ((r + 1) // 2, (c + 1) // 2) or cl["direction"] != direction
               or cl["kw"] != opts or cl["dtype"] != "float64"]
        if bad or len(stub.calls) != want_calls:
            ck.disagree("K.stub", case, f"method called {len(stub.calls)}x (model {want_calls}); bad calls: {bad[:1]}")
        if len(ck.cov["samples"]) < 3:
            ck.sample(dict(suite="K.stub", **case, out_row0=[float(v) for v in t.transform[0][:5]]))


# ------------------------------------------------------------------------------------------------ oracle
def ref_assemble(AQ, shape):
    """put four identically oriented quadrants back: centre column from the right, centre row from below"""
    n, m = shape
    nc, mc = (n + 1) // 2, (m + 1) // 2
    out = np.empty((n, m))
    out[:nc, :mc] = AQ[1][:, ::-1]
    out[:nc, m - mc:] = AQ[0]
    out[n - nc:, :mc] = AQ[2][::-1, ::-1]
    out[n - nc:, m - mc:] = AQ[3][::-1, :]
    return out


def ref_transform(im, func, code, mask, **kw):
    q = ref_quadrants(im)
    groups = {0: [[0], [1], [2], [3]], 1: [[0, 1], [0, 1], [2, 3], [2, 3]], 2: [[0, 3], [1, 2], [1, 2], [0, 3]],
              3: [[0, 1, 2, 3]] * 4}[code]
    AQ = []
    for k in range(4):
        en = [g for g in groups[k] if mask[g]]
        AQ.append(func(sum(q[g] for g in en) / len(en), **kw))
    return ref_assemble(AQ, im.shape)


def oracle(ck: Check, tier, deep):
    import abel
    import importlib
    rng = np.random.default_rng(seed() + 55)
    n_real = 400 if deep else 120
    opts_by_method = {"basex": [dict(), dict(sigma=1.5, reg=3.0, correction=False)],
                      "daun": [dict(), dict(degree=1), dict(degree=2, reg=("diff", 2.0))],
                      "direct": [dict(backend="python"), dict(backend="python", correction=False)],
                      "hansenlaw": [dict(), dict(hold_order=1)], "onion_bordas": [dict(), dict(shift_grid=False)],
                      "onion_peeling": [dict()], "two_point": [dict()], "three_point": [dict()]}
    for it in range(n_real):
        method = list(METHODS)[it % 8]
        direction = "forward" if (method in FWD and rng.random() < 0.4) else "inverse"
        r = int(rng.integers(3, 14))
        c = int(rng.choice([5, 7, 9, 11, 13, 15, 21]))
        (axname, axis, code) = AXES[int(rng.integers(0, len(AXES)))]
        masks_ok = [m for m in MASKS if ref_defined(code, m)]
        mask = masks_ok[int(rng.integers(0, len(masks_ok)))]
        kw = dict(opts_by_method[method][int(rng.integers(0, len(opts_by_method[method])))])
        if method == "direct" and direction == "forward":
            kw["correction"] = True
        dr = float(rng.choice([1.0, 0.5, 2.5]))
        kw["dr"] = dr
        im = rng.normal(size=(r, c))
        intd = rng.random() < 0.25
        arg = np.round(im * 20).astype(np.int32) if intd else im
        ck.count(("S.real", method, direction, axname, r % 2, intd), suite="S.real")
        sig = dict(site="Transform", method=method, clause="assembly")
        rep = dict(shape=[r, c], method=method, direction=direction, symmetry_axis=repr(axis), use_quadrants=list(mask),
                   transform_options={k: (list(v) if isinstance(v, tuple) else v) for k, v in kw.items()},
                   image=np.asarray(arg).tolist())
        rep["symmetrize_method"] = "fourier-or-average"
        func = getattr(importlib.import_module(METHODS[method][0]), METHODS[method][1])
        try:
            # (with every quadrant enabled the two symmetrisation methods are the same projector; 'fourier' ignores partial masks)
            symm = "fourier" if (code != 0 and all(mask) and rng.random() < 0.4) else "average"
            t = T(arg, method=method, direction=direction, symmetry_axis=axis, use_quadrants=mask, transform_options=kw,
                  symmetrize_method=symm)
            ref = ref_transform(np.asarray(arg, dtype="float64"), func, code, mask, direction=direction, **kw)
        except Exception as e:
            ck.violation(dict(sig, clause="exception"), rep, f"{type(e).__name__}: {e}")
            continue
        scale = max(1.0, np.abs(ref).max())
        if t.transform.shape != arg.shape:
            ck.violation(dict(sig, clause="shape"), rep, f"output shape {t.transform.shape} != input shape {arg.shape}")
        elif np.abs(t.transform - ref).max() > (1e-12 if symm == "average" else 1e-10) * scale * (1 if symm == "average" else max(1.0, np.abs(arg).max())):
            ck.violation(sig, rep, f"not the assembly of the method's own quadrant transforms (off by "
                                   f"{np.abs(t.transform - ref).max():.3g})")
        if intd:
            tf = T(np.asarray(arg, dtype="float64"), method=method, direction=direction, symmetry_axis=axis,
                   use_quadrants=mask, transform_options=kw, symmetrize_method=symm)
            if not np.array_equal(tf.transform, t.transform):
                ck.violation(dict(sig, clause="int-vs-float"), rep, "integer input differs from its float64 copy")
    # centring step and option routing
    from abel.tools import center as centermod, vmi as vmimod
    origins = ["none", (4, 5), (5.3, 6.7), "com", "convolution", "gaussian", "image_center"]
    for it in range(60 if not deep else 200):
        r, c = int(rng.integers(9, 16)), int(rng.choice([11, 13, 15]))
        yy, xx = np.mgrid[:r, :c]
        im = np.exp(-((yy - r / 2 - rng.uniform(-1, 1)) ** 2 + (xx - c / 2 - rng.uniform(-1, 1)) ** 2) / 6.0)
        origin = origins[it % len(origins)]
        dt = [None, np.uint8, None, np.int32, np.uint16][it % 5]        # integer images must be centred as their float64 copies
        if dt is not None:
            im = np.round(im * 200).astype(dt)
        crop = ["maintain_size", "valid_region", "maintain_data"][it % 3]
        copts = dict(crop=crop) if origin != "none" else dict()
        aopts = [dict(), dict(dr=0.25), dict(dt=0.1)][it % 3]
        topts = [dict(), dict(dr=2.0)][it % 2]
        method = ["hansenlaw", "two_point", "daun"][it % 3]
        ck.count(("S.route", str(origin), crop, it % 6, str(dt)), suite="S.route")
        seen = {}
        real_center, real_ai = centermod.center_image, vmimod.angular_integration_3D

        def rec_center(IM, method="com", **kw):
            seen["center"] = (method, dict(kw))
            return real_center(IM, method, **kw)

        def rec_ai(IM, **kw):
            seen["ai"] = dict(kw)
            return real_ai(IM, **kw)
        sig = dict(site="Transform", clause="routing")
        rep = dict(shape=[r, c], origin=str(origin), center_options=copts, angular_integration_options=aopts,
                   transform_options=topts, method=method, dtype=str(np.dtype(dt)) if dt else "float64", image=np.asarray(im).tolist())
        stub = Stub()
        try:
            with patched("abel.tools.center", "center_image", rec_center), \
                    patched("abel.tools.vmi", "angular_integration_3D", rec_ai), patched(*METHODS[method], stub):
                t = T(im, method=method, origin=origin, center_options=copts, transform_options=topts,
                      angular_integration=True, angular_integration_options=dict(aopts))
            with warnings.catch_warnings():
                warnings.simplefilter("ignore")
                imf = np.asarray(im, dtype="float64")
                want_im = imf if origin == "none" else real_center(imf, origin, **copts)
        except Exception as e:
            ck.violation(dict(sig, clause="exception"), rep, f"{type(e).__name__}: {e}")
            continue
        if origin == "none":
            if "center" in seen:
                ck.violation(dict(sig, what="center"), rep, "origin='none' still centred the image")
        elif seen.get("center") != (origin, copts):
            ck.violation(dict(sig, what="center_options"), rep, f"center_image received {seen.get('center')}")
        if t.IM.shape != want_im.shape or not np.array_equal(t.IM, want_im):
            ck.violation(dict(sig, what="IM"), rep, "Transform.IM is not center_image(float64(IM), origin, **center_options)")
        if t.transform.shape != t.IM.shape:
            ck.violation(dict(sig, what="shape"), rep, f"transform shape {t.transform.shape} != centred {t.IM.shape}")
        if any(cl["kw"] != topts for cl in stub.calls):
            ck.violation(dict(sig, what="transform_options"), rep, f"method received {stub.calls[0]['kw']}")
        want_ai = dict(aopts)
        if "dr" in topts and "dr" not in aopts:
            want_ai["dr"] = topts["dr"]
        if seen.get("ai") != want_ai:
            ck.violation(dict(sig, what="angular_integration_options"), rep,
                         f"angular integration received {seen.get('ai')}, expected {want_ai}")
    # option dictionaries are per call: a dr given once must not be remembered by later calls that give none
    seen = {}
    real_ai = vmimod.angular_integration_3D

    def rec_ai2(IM, **kw):
        seen.setdefault("calls", []).append(dict(kw))
        return real_ai(IM, **kw)
    ck.count("S.route.defaults", suite="S.route")
    try:
        im = rng.random((11, 11))
        user_opts = {}
        with patched("abel.tools.vmi", "angular_integration_3D", rec_ai2):
            T(im, method="two_point", angular_integration=True, transform_options=dict(dr=0.5, basis_dir=None))
            T(im, method="two_point", angular_integration=True, transform_options=dict(basis_dir=None))
            T(im, method="two_point", angular_integration=True, transform_options=dict(dr=0.25, basis_dir=None),
              angular_integration_options=user_opts)
        calls = seen.get("calls", [])
        if len(calls) != 3 or calls[0] != dict(dr=0.5) or calls[1] != {} or calls[2] != dict(dr=0.25) or user_opts != {}:
            ck.violation(dict(site="Transform", clause="routing", what="angular_integration_options-history"),
                         dict(calls=[str(c) for c in calls], user_dict_after=str(user_opts)),
                         f"angular integration received {calls} in three successive calls (dr=0.5, none, dr=0.25 with the caller's own empty dict, "
                         f"which is {user_opts} afterwards)")
    except Exception as e:
        ck.violation(dict(site="Transform", clause="exception"), dict(what="angular_integration defaults"), f"{type(e).__name__}: {e}")
    # linbasex / rbasex pass-through
    for it in range(12 if not deep else 40):
        n = int(rng.choice([11, 15, 21]))
        im = rng.random((n, n))
        ck.count(("S.full", it % 4, n), suite="S.full")
        sig = dict(site="Transform", clause="full-image-method")
        if it % 2 == 0:
            direction = ["inverse", "forward"][(it // 2) % 2]
            kw = [dict(), dict(order=4, odd=True if direction == "inverse" and False else False), dict(out="full")][it % 3]
            rep = dict(method="rbasex", direction=direction, transform_options=kw, n=n)
            try:
                t = T(im, method="rbasex", direction=direction, transform_options=kw)
                ref, distr = abel.rbasex.rbasex_transform(im, direction=direction, **kw)
            except Exception as e:
                ck.violation(dict(sig, clause="exception"), rep, f"{type(e).__name__}: {e}")
                continue
            same = (t.transform.shape == ref.shape and np.array_equal(t.transform, ref)
                    and np.array_equal(t.distr.cos(), distr.cos()) and np.array_equal(t.distr.r, distr.r))
            if not same:
                ck.violation(sig, rep, "Transform(method='rbasex') differs from rbasex_transform")
        else:
            kw = [dict(), dict(legendre_orders=[0, 2, 4], proj_angles=[0, np.pi / 4, np.pi / 2])][(it // 2) % 2]
            rep = dict(method="linbasex", transform_options={k: list(v) for k, v in kw.items()}, n=n)
            try:
                t = T(im, method="linbasex", transform_options=kw)
                ref = abel.linbasex.linbasex_transform_full(im, **kw)
            except Exception as e:
                ck.violation(dict(sig, clause="exception"), rep, f"{type(e).__name__}: {e}")
                continue
            got = (t.transform, t.radial, t.Beta, t.projection)
            if not all(np.array_equal(np.asarray(a), np.asarray(b)) for a, b in zip(got, ref)):
                ck.violation(sig, rep, "Transform(method='linbasex') differs from linbasex_transform_full")


def run(tier):
    ck = Check("C05", tier)
    ck.cov["rule"] = ("K.stub: heights 3..10 x widths {5,6,7,8,9,11,13} (thorough 3..15 x 5..19) x 5 symmetry_axis forms x "
                      "16 masks, cycling the 8 quadrant methods x 2 directions x {labelled, random-int float, int64} "
                      "images, with a stub method patched in; Transform.transform vs Lean pipeline bit-for-bit and the "
                      "recorded method calls (count, quadrant shape, dtype, direction, options). distinct = (parities, "
                      "size class, axis form, mask). S.real: real methods vs assembly from their own half-image "
                      "functions; S.route: option routing by recording wrappers, origin kinds x crops; S.full: "
                      "rbasex/linbasex pass-through")
    ck.cov["trusted_base"] = ["Lean 4.33 kernel", "axioms propext/Classical.choice/Quot.sound",
                              "models Model/Pipeline.lean + Model/Symmetry.lean tied to abel/transform.py, "
                              "abel/tools/symmetry.py by the bit-exact stub correspondence",
                              "centring inside Transform is compared with center_image itself (C12 decides center_image)",
                              "the stub replaces the numerical method: data flow is observed, numerics are C01-C04"]
    ck.cov["source_fingerprint"] = source_fingerprint(["abel/transform.py", "abel/tools/symmetry.py"])
    ck.proofs("PyAbel.Props.C05")
    ok, log = ensure_driver()
    if not ok:
        ck.broken.append(dict(kind="proof", module="pyabel_drv", why="driver build failed", log=log[-1500:]))
    else:
        correspondence(ck, tier)
    oracle(ck, tier, deep=bool(ck.broken) or tier == "thorough")
    return ck.finish()


def replay(path):
    rec = json.loads(open(path).read())
    print(json.dumps(rec, indent=1, default=str)[:3000])
    return 1
