"""
C20 — a request the library cannot honour fails loudly, never silently substituted.

proofs : lean/PyAbel/Props/C20.lean (dispatch model: forward never answered by inverse; raise ⇔ unsupported);
         lean/PyAbel/Props/C07Rbasex.lean (along histories: in the machine of rbasex's transform caches an impossible
         regularisation raises after every history, and the direction of the request is respected)
K      : rbasex sessions mixing valid requests with ones that must raise, on the real module vs that machine (outcome
         and the six cache globals after every call); every request class executed on the real code (abel.Transform and the transform functions), outcome
         classified raise / forward / inverse *independently of the library* by the amplitude ratio on a Gaussian
         (forward multiplies a Gaussian of width s by ~s*sqrt(pi), inverse divides by it) and compared with the model
S      : the property itself on the same table; linbasex_transform_full on 1-D / single-row data; SVD factors just above 1
"""
import contextlib
import io
import itertools
import json
import warnings

import numpy as np

from harness.common import Check, drive, ensure_driver, seed, source_fingerprint

METHODS = ["basex", "daun", "direct", "hansenlaw", "onion_bordas", "onion_peeling", "two_point", "three_point",
           "linbasex", "rbasex"]
FWD_CAPABLE = {"basex", "daun", "direct", "hansenlaw", "rbasex"}
DIRS = [("forward", 0), ("inverse", 1), ("backward", 2), (None, 2), ("Forward", 2), ("", 2)]
SIG = 3.0


def gauss_full(rows, cols):
    y = np.arange(rows) - rows // 2
    x = np.arange(cols) - cols // 2
    return np.exp(-(y[:, None] ** 2 + x[None, :] ** 2) / SIG ** 2)


def gauss_half(rows, cols, one_d=False):
    g = np.exp(-np.arange(cols) ** 2 / SIG ** 2)
    return g if one_d else np.tile(g, (rows, 1))


def classify(out, inp, via_transform):
    """'fwd' / 'inv' from the amplitude ratio one pixel off the axis; None if it cannot be decided"""
    out = np.asarray(out, dtype=float)
    if out.ndim == 1:
        out, inp = out[None, :], np.atleast_2d(inp)
    if via_transform:
        r0, c0 = out.shape[0] // 2, out.shape[1] // 2
        i0, j0 = inp.shape[0] // 2, inp.shape[1] // 2
        if c0 + 1 >= out.shape[1]:
            return None
        ratio = out[r0, c0 + 1] / inp[i0, j0 + 1]
    else:
        if out.shape[1] < 2:
            return None
        ratio = out[out.shape[0] // 2, 1] / np.atleast_2d(inp)[np.atleast_2d(inp).shape[0] // 2, 1]
    f = SIG * np.sqrt(np.pi)
    if ratio > np.sqrt(f) * 1.2:
        return "fwd"
    if 0 < ratio < 1 / np.sqrt(f) * 1.6 or ratio <= 0:
        return "inv"
    return None


def func_of(method):
    import abel
    return {"basex": abel.basex.basex_transform, "daun": abel.daun.daun_transform,
            "direct": abel.direct.direct_transform, "hansenlaw": abel.hansenlaw.hansenlaw_transform,
            "onion_bordas": abel.onion_bordas.onion_bordas_transform,
            "onion_peeling": abel.dasch.onion_peeling_transform, "two_point": abel.dasch.two_point_transform,
            "three_point": abel.dasch.three_point_transform,
            "linbasex": lambda im, **kw: abel.linbasex.linbasex_transform_full(im, **kw)[0],
            "rbasex": lambda im, **kw: abel.rbasex.rbasex_transform(im, **kw)[0]}[method]


def execute(req):
    """run one request on the real code; returns 'raise' | 'fwd' | 'inv' | 'unclear' | 'exc:…'"""
    import abel
    m = req["method"]
    topts = {}
    if m == "direct":
        topts["backend"] = "python"
    if m in ("daun", "rbasex") and req["reg"] is not None:
        topts["reg"] = req["reg"]
    if m == "rbasex" and req["out"] is not None:
        topts["out"] = req["out"]
    if m == "rbasex" and req.get("order") is not None:
        topts["order"] = req["order"]
        topts["odd"] = bool(req.get("odd"))
    try:
        with warnings.catch_warnings(), contextlib.redirect_stdout(io.StringIO()):
            warnings.simplefilter("ignore")
            if req["via"]:
                im = gauss_full(req["rows"], req["cols"])
                if req["oneD"]:
                    im = im[req["rows"] // 2]
                kw = dict(method=m, direction=req["dir"], transform_options=topts, use_quadrants=req["uq"],
                          symmetrize_method=req["sym"])
                if req["origin"] is not None:
                    kw["origin"] = req["origin"]
                    kw["center_options"] = dict(crop=req["crop"])
                out = abel.Transform(im, **kw).transform
                if m == "rbasex" and req["out"] in ("fold", "full-unique"):
                    return "unclear"      # quadrant-shaped output: accepted, direction not classified here
                if req["origin"] not in (None, "com") or min(np.shape(out)) < 5:
                    return "unclear"      # re-centred about a point that is not the Gaussian's centre, or too small a frame:
                                          # accepted; the amplitude test (which assumes a centred Gaussian) does not apply
                src = im if req["origin"] is None else abel.Transform(
                    im, method="hansenlaw", origin=req["origin"], center_options=dict(crop=req["crop"])).IM
                cls = classify(out, src, True)
            else:
                if m in ("linbasex", "rbasex"):
                    im = gauss_full(req["rows"], req["cols"])
                    cls_via = True
                else:
                    im = gauss_half(req["rows"], req["cols"], req["oneD"])
                    cls_via = False
                out = func_of(m)(im, direction=req["dir"], **topts)
                if (m == "rbasex" and req["out"] in ("fold", "full-unique")) or (not cls_via and req["cols"] < 5):
                    return "unclear"      # too narrow / quadrant-shaped: accepted, direction not classified
                cls = classify(out, im, cls_via)
    except (ValueError, KeyError, TypeError, NotImplementedError, IndexError) as e:
        return "raise"
    except Exception as e:          # ZeroDivisionError, LinAlgError …: still loud
        return "raise"
    return cls or "unclear"


def model_line(req):
    mi = METHODS.index(req["method"]) if req["method"] in METHODS else "X"
    d = {"forward": 0, "inverse": 1}.get(req["dir"], 2)
    cen = req["origin"] is not None
    origin_ok = (not cen) or req["origin"] in ("com", "convolution", "gaussian", "image_center", "slice") or \
        isinstance(req["origin"], tuple)
    crop_ok = req["crop"] in ("maintain_size", "valid_region", "maintain_data")
    sym_ok = req["sym"] in ("average", "fourier")
    reg = req["reg"]
    if req["method"] == "daun":
        reg_ok = reg in (None, 0, "nonneg") or isinstance(reg, (int, float)) or \
            (isinstance(reg, tuple) and reg[0] in ("diff", "L2", "L2c"))
    elif req["method"] == "rbasex":
        reg_ok = reg is None or reg == "pos" or (isinstance(reg, tuple) and reg[0] in ("L2", "diff", "SVD"))
    else:
        reg_ok = True
    out_ok = req["out"] in (None, "same", "fold", "unfold", "full", "full-unique") or req["method"] != "rbasex"
    b = lambda v: "1" if v else "0"
    return (f"dispatch {b(req['via'])} {mi} {d} {b(req['oneD'])} {req['rows']} {req['cols']} {b(cen)} "
            f"{b(any(req['uq']))} {b(origin_ok)} {b(crop_ok)} {b(sym_ok)} {b(reg_ok)} {b(out_ok)}")


def base(**kw):
    r = dict(via=True, method="hansenlaw", dir="inverse", oneD=False, rows=11, cols=11, origin=None,
             crop="maintain_size", uq=(True, True, True, True), sym="average", reg=None, out=None, order=None, odd=False)
    r.update(kw)
    return r


def table(tier):
    reqs = []
    # A. direction table: every method x direction representative x entry point
    for via, m, (d, _) in itertools.product((True, False), METHODS, DIRS):
        reqs.append(base(via=via, method=m, dir=d, rows=11 if via or m in ("linbasex", "rbasex") else 5))
    # B. shapes
    for m in METHODS:
        reqs.append(base(method=m, oneD=True))
        for rows in (1, 2, 3):
            reqs.append(base(method=m, rows=rows, cols=11))
        reqs.append(base(via=False, method=m, oneD=m not in ("linbasex", "rbasex"), rows=11, cols=11))
    for shape in ((11, 13), (13, 11), (10, 10), (12, 11), (11, 12)):
        for via in (True, False):
            reqs.append(base(via=via, method="linbasex", rows=shape[0], cols=shape[1]))
    for m in ("two_point", "three_point", "onion_peeling"):
        for cols in (1, 2, 3, 4, 5, 6, 7):
            reqs.append(base(via=False, method=m, rows=4, cols=cols))
            reqs.append(base(via=True, method=m, rows=5, cols=cols))
    # C. named options
    for m in METHODS + ["bogus", "Three_point", ""]:
        reqs.append(base(method=m))
        reqs.append(base(via=False, method=m) if m in METHODS else base(method=m, dir="forward"))
        for origin in ("bogus", "COM", "com", "image_center", (5, 5)):
            for crop in ("maintain_size", "valid_region", "bogus"):
                reqs.append(base(method=m, origin=origin, crop=crop))
        for uq in ((False,) * 4, (True, False, False, False), (True,) * 4):
            for ax_sym in ("average", "fourier", "bogus", "Average", "mean", ""):
                reqs.append(base(method=m, uq=uq, sym=ax_sym))
    for m in ("daun", "rbasex"):
        # (unknown names also with strength 0 — "no regularisation" of an unknown kind is still an unknown request — and wrong case)
        regs = [None, 0, 1.5, "nonneg", ("diff", 1.0), ("L2", 1.0), ("L2c", 1.0), "bogus", ("bogus", 1.0), ("bogus", 0), ("l2", 0.0), ("Diff", 1.0)] \
            if m == "daun" else [None, "pos", ("L2", 1.0), ("diff", 1.0), ("SVD", 0.1), "bogus", ("bogus", 1.0), ("Tikhonov", 0), ("l2", 0.0), ("svd", 0)]
        for reg, via, (d, _) in itertools.product(regs, (True, False), DIRS[:3]):
            if m == "rbasex" and reg == "pos" and d == "forward":
                continue          # documented as inverse-only; raises — covered by S below, class not in the model
            reqs.append(base(via=via, method=m, reg=reg, dir=d))
    for out, via, (d, _) in itertools.product(("same", "fold", "unfold", "full", "full-unique", "bogus", "Same"),
                                              (True, False), DIRS[:3]):
        reqs.append(base(via=via, method="rbasex", out=out, dir=d))
    # … the output names also with odd angular orders (another branch of the output-geometry code)
    for out, via, (order, odd) in itertools.product(("same", "full", "bogus", "Full", "unique", ""), (True, False), ((1, False), (3, False), (2, True), (0, False))):
        for d in ("inverse", "forward"):
            reqs.append(base(via=via, method="rbasex", out=out, dir=d, order=order, odd=odd))
    # D. seeded random interactions
    rng = np.random.default_rng(seed() + 20)
    n = 400 if tier == "quick" else 4000
    pick = lambda xs: xs[int(rng.integers(0, len(xs)))]
    for _ in range(n):
        m = pick(METHODS + ["bogus"])
        via = bool(rng.integers(0, 2)) or m == "bogus"
        reqs.append(base(via=via, method=m, dir=pick(DIRS)[0], oneD=rng.random() < 0.1,
                         rows=pick([2, 3, 9, 10, 11]) if via or m in ("linbasex", "rbasex") else pick([1, 4]),
                         cols=pick([5, 7, 9, 11]) if via or m in ("linbasex", "rbasex") else
                         pick([1, 2, 3, 6, 9] if m in ("two_point", "three_point") else [2, 3, 6, 9]),
                         origin=pick([None, None, "com", (4, 4), "bogus"]) if via else None,
                         crop=pick(["maintain_size", "valid_region", "maintain_data", "bogus"]),
                         uq=pick([(True,) * 4, (True,) * 4, (False,) * 4, (True, True, False, True)]) if via else (True,) * 4,
                         sym=pick(["average", "average", "fourier", "bogus"]) if via else "average",
                         reg=pick([None, None, ("L2", 1.0), "bogus"]) if m in ("daun", "rbasex") else None,
                         out=pick([None, "same", "full", "bogus"]) if m == "rbasex" else None))
    return reqs


def centring_keeps_class(req):
    """the dispatch model classifies a request by the shape it is given; an explicit origin / crop that moves the frame so far
    that the centred image falls into another shape class (e.g. `valid_region` about (4, 4) of a 5-column image leaves one
    column) is outside that abstraction, so such requests are not generated"""
    if not req["via"] or req["origin"] in (None, "bogus"):
        return True
    if req["method"] == "linbasex" and (req["rows"] != req["cols"] or req["cols"] % 2 == 0):
        return False          # cropping about the origin can turn the frame into the odd square linbasex wants
    return req["rows"] >= 9 and req["cols"] >= 9


def admissible_mask(req):
    """symmetry_axis=None with a partial mask is rejected by get_image_quadrants (C06) — outside this model's
    `anyQuadrant` flag, so such requests are given all-or-nothing masks only"""
    return all(req["uq"]) or not any(req["uq"])


def direction_flips(ck, tier):
    """a forward request that follows an inverse one with the very same options (and the other way round) is answered with a
    forward transform: whatever the first call left in a cache must not be handed out for the other direction"""
    import abel
    rng = np.random.default_rng(seed() + 2020)
    n = 15
    half = gauss_half(5, n)
    opts = {"basex": [dict(basis_dir=None, verbose=False), dict(sigma=2.0, reg=5.0, basis_dir=None, verbose=False), dict(dr=0.5, correction=False, basis_dir=None, verbose=False)],
            "daun": [dict(verbose=False), dict(degree=2, verbose=False), dict(degree=3, reg=("L2", 1.0), verbose=False)],
            "direct": [dict(backend="python")], "hansenlaw": [dict(), dict(hold_order=1)]}
    for m, sets in opts.items():
        f = func_of(m)
        for o in sets:
            for first in ("inverse", "forward"):
                second = "forward" if first == "inverse" else "inverse"
                for mod in ("basex", "daun", "dasch", "linbasex", "rbasex"):
                    getattr(abel, mod).cache_cleanup()
                ck.count(("S.flip", m, first, tuple(sorted(o))), suite="S.property")
                try:
                    with warnings.catch_warnings(), contextlib.redirect_stdout(io.StringIO()):
                        warnings.simplefilter("ignore")
                        f(half, direction=first, **o)
                        out = f(half, direction=second, **o)
                except Exception as e:
                    ck.violation(dict(site=m, clause="exception"), dict(method=m, options={k: str(v) for k, v in o.items()}, first=first, then=second),
                                 f"{type(e).__name__}: {e}")
                    continue
                cls = classify(out / o.get("dr", 1.0) if second == "forward" else out * o.get("dr", 1.0), half, False)
                if cls is not None and cls != ("fwd" if second == "forward" else "inv"):
                    ck.violation(dict(site=m, clause="direction-after-other-direction"),
                                 dict(method=m, options={k: str(v) for k, v in o.items()}, first=first, then=second),
                                 f"{m}: a {second} request right after a {first} request with the same options was answered with "
                                 f"{'an inverse' if cls == 'inv' else 'a forward'} transform")
    # rbasex on whole images
    im = gauss_full(21, 21)
    for o in (dict(), dict(order=0), dict(out="full")):
        for first in ("inverse", "forward"):
            second = "forward" if first == "inverse" else "inverse"
            abel.rbasex.cache_cleanup()
            ck.count(("S.flip", "rbasex", first, tuple(sorted(o))), suite="S.property")
            try:
                with warnings.catch_warnings(), contextlib.redirect_stdout(io.StringIO()):
                    warnings.simplefilter("ignore")
                    abel.rbasex.rbasex_transform(im, direction=first, **o)
                    out = abel.rbasex.rbasex_transform(im, direction=second, **o)[0]
            except Exception as e:
                ck.violation(dict(site="rbasex", clause="exception"), dict(method="rbasex", options=o, first=first, then=second), f"{type(e).__name__}: {e}")
                continue
            cls = classify(out, im, True)
            if cls is not None and cls != ("fwd" if second == "forward" else "inv"):
                ck.violation(dict(site="rbasex", clause="direction-after-other-direction"), dict(method="rbasex", options=o, first=first, then=second),
                             f"rbasex: a {second} request right after a {first} one was answered with the other transform")


def symmetry_axis_forms(ck, tier):
    """the same symmetry request spelled as an int, a list or a tuple gets the same answer: in particular a quadrant mask that
    leaves a quadrant without a defined value is refused whatever the spelling (repair F59: a one-element tuple skipped the test
    and NaNs came back)"""
    import abel
    from abel.tools import symmetry
    rng = np.random.default_rng(seed() + 2059)
    forms = {"none": [None, [None], (None,)], "0": [0, [0], (0,)], "1": [1, [1], (1,)], "both": [(0, 1), [0, 1], (1, 0), [1, 0]]}
    shapes = [(9, 9), (8, 11)] if tier == "quick" else [(9, 9), (8, 11), (11, 8), (10, 10), (5, 7)]
    for shape in shapes:
        im = rng.random(shape)
        for uq in itertools.product((True, False), repeat=4):
            for name, spellings in forms.items():
                outs = []
                for sa in spellings:
                    ck.count(("S.sym-forms", name, type(sa).__name__, uq), suite="S.property")
                    res = []
                    for call in ("quadrants", "transform"):
                        try:
                            with warnings.catch_warnings(), contextlib.redirect_stdout(io.StringIO()):
                                warnings.simplefilter("ignore")
                                if call == "quadrants":
                                    r = np.array(symmetry.get_image_quadrants(im, symmetry_axis=sa, use_quadrants=uq))
                                else:
                                    r = abel.Transform(im, method="hansenlaw", symmetry_axis=sa, use_quadrants=uq).transform
                            res.append(r)
                        except Exception as e:
                            res.append("raise")
                    outs.append(res)
                # … and whatever the symmetrisation method: 'fourier' works on the whole image, but a mask the request rules out is ruled out
                for call, a in zip(("get_image_quadrants", "Transform"), outs[0]):
                    ck.count(("S.sym-forms-fourier", name, call, uq), suite="S.property")
                    try:
                        with warnings.catch_warnings(), contextlib.redirect_stdout(io.StringIO()):
                            warnings.simplefilter("ignore")
                            if call == "get_image_quadrants":
                                symmetry.get_image_quadrants(im, symmetry_axis=spellings[0], use_quadrants=uq, symmetrize_method="fourier")
                            else:
                                abel.Transform(im, method="hansenlaw", symmetry_axis=spellings[0], use_quadrants=uq, symmetrize_method="fourier")
                        fr = "returned"
                    except Exception:
                        fr = "raise"
                    if (fr == "raise") != isinstance(a, str):
                        ck.violation(dict(site=call, clause="fourier-mask-refusal"), dict(shape=list(shape), symmetry_axis=repr(spellings[0]), use_quadrants=list(uq)),
                                     f"{call}(symmetry_axis={spellings[0]!r}, use_quadrants={uq}, symmetrize_method='fourier') {'raised' if fr == 'raise' else 'returned a result'} "
                                     f"although the same request with 'average' {'raised' if isinstance(a, str) else 'returned a result'}")
                for sa, res in zip(spellings[1:], outs[1:]):
                    for call, a, b in zip(("get_image_quadrants", "Transform"), outs[0], res):
                        same = (isinstance(a, str) and isinstance(b, str)) or \
                               (not isinstance(a, str) and not isinstance(b, str) and a.shape == b.shape and np.array_equal(a, b, equal_nan=True))
                        if not same:
                            what = "returned a result" if isinstance(a, str) else "raised"
                            ck.violation(dict(site=call, clause="symmetry-axis-spelling"),
                                         dict(shape=list(shape), symmetry_axis=repr(sa), reference=repr(spellings[0]), use_quadrants=list(uq)),
                                         f"{call}(symmetry_axis={sa!r}, use_quadrants={uq}) {what if isinstance(b, str) == isinstance(a, str) else ('raised' if isinstance(b, str) else 'returned a result')} "
                                         f"although symmetry_axis={spellings[0]!r} {'raised' if isinstance(a, str) else 'returned a result'}"
                                         + ("" if isinstance(a, str) or isinstance(b, str) else " (different values)"))
                        elif not isinstance(b, str) and not np.all(np.isfinite(b)):
                            ck.violation(dict(site=call, clause="undefined-quadrant-returned"),
                                         dict(shape=list(shape), symmetry_axis=repr(sa), use_quadrants=list(uq)),
                                         f"{call}(symmetry_axis={sa!r}, use_quadrants={uq}) returned non-finite values for a finite image")


def run(tier):
    ck = Check("C20", tier)
    ck.cov["rule"] = ("request classes: entry point (abel.Transform | method function) x 10 methods + unknown names x "
                      "direction in {forward, inverse, 'backward', None, 'Forward', ''} x shapes (1-D, 1-3 rows, "
                      "linbasex non-square/even, widths 1..7 for the Dasch methods) x origin/crop/symmetrize/reg/out "
                      "values inside and outside their documented sets x quadrant masks, plus seeded random "
                      "interactions; each executed on the real code and classified raise/forward/inverse by the "
                      "Gaussian amplitude ratio; distinct = distinct request tuples")
    ck.cov["trusted_base"] = ["Lean 4.33 kernel", "axioms propext/Classical.choice/Quot.sound",
                              "model lean/PyAbel/Model/Dispatch.lean tied to the code by executing every request "
                              "class of the table on the real functions",
                              "forward/inverse classification: amplitude ratio on a Gaussian (independent of PyAbel)",
                              "the C backend of `direct` is not built here: backend='python' only"]
    ck.cov["source_fingerprint"] = source_fingerprint(
        ["abel/transform.py", "abel/dasch.py", "abel/onion_bordas.py", "abel/linbasex.py", "abel/daun.py",
         "abel/rbasex.py", "abel/basex.py", "abel/hansenlaw.py", "abel/direct.py"])
    ck.proofs("PyAbel.Props.C20")
    ck.proofs("PyAbel.Props.C07Rbasex")          # invalid_reg_raises / direction_respected along any history of rbasex requests
    ok, log = ensure_driver()
    reqs = [r for r in table(tier) if admissible_mask(r) and centring_keeps_class(r)]
    replies = drive([model_line(r) for r in reqs]) if ok else [None] * len(reqs)
    if not ok:
        ck.broken.append(dict(kind="proof", module="pyabel_drv", why="driver build failed", log=log[-1500:]))
    for req, rep in zip(reqs, replies):
        key = json.dumps(req, sort_keys=True, default=str)
        ck.count(key, suite="K.dispatch")
        got = execute(req)
        again = execute(req)
        if rep is not None and rep.split()[0] == "raise" and req["method"] in METHODS:
            # the same unsupported request in a session that has just served a valid, larger request of the same method
            execute(dict(base(), method=req["method"], via=req["via"], rows=21, cols=21 if (req["via"] or req["method"] in ("linbasex", "rbasex")) else 15))
            # … and the same frame with every option at its valid default (so that whatever the method caches for this frame exists)
            execute(dict(req, dir="inverse", reg=None, out=None, origin=None, crop="maintain_size", sym="average", uq=(True,) * 4))
            primed = execute(req)
            if primed == "raise":
                primed = execute(req)         # … and once more: the refusal must not have left the request half-accepted
            if primed != "raise" and got == "raise":
                ck.violation(dict(site="Transform" if req["via"] else req["method"], method=req["method"], clause="accepted-after-valid-request"),
                             {k: (list(v) if isinstance(v, tuple) else v) for k, v in req.items()},
                             f"the request raises in a fresh session but is answered ('{primed}') after a valid larger request of the same method")
        show = {k: (list(v) if isinstance(v, tuple) else v) for k, v in req.items()}
        if rep is not None:
            want = rep.split()[0]
            if got != want and not (got == "unclear" and want != "raise"):
                ck.disagree("K.dispatch", show, f"model {rep} vs implementation {got}")
        # the property itself, independent of the model
        sig = dict(site="Transform" if req["via"] else req["method"], method=req["method"])
        d = req["dir"]
        if again != got:
            ck.violation(dict(sig, clause="repeat"), show,
                         f"the same request was answered '{got}' and then '{again}' (stale state after a failure)")
        if d == "forward" and got == "inv":
            ck.violation(dict(sig, clause="forward-answered-with-inverse"), show,
                         "a forward request returned an inverse transform")
        elif d == "inverse" and got == "fwd":
            ck.violation(dict(sig, clause="inverse-answered-with-forward"), show,
                         "an inverse request returned a forward transform")
        elif d not in ("forward", "inverse") and got != "raise":
            ck.violation(dict(sig, clause="unknown-direction"), show, f"direction={d!r} was accepted ({got})")
        elif d == "forward" and req["method"] in METHODS and req["method"] not in FWD_CAPABLE and got != "raise":
            ck.violation(dict(sig, clause="unimplemented-direction"), show, "forward not implemented but accepted")
        elif req["method"] not in METHODS and got != "raise":
            ck.violation(dict(sig, clause="unknown-method"), show, "unknown method accepted")
        elif req["via"] and (req["oneD"] or req["rows"] <= 2 or not any(req["uq"])) and got != "raise":
            ck.violation(dict(sig, clause="shape-or-quadrants"), show, "1-D / <3 rows / no quadrants accepted")
        elif req["via"] and req["origin"] == "bogus" and got != "raise":
            ck.violation(dict(sig, clause="unknown-origin"), show, "unknown origin accepted")
        elif req["via"] and req["origin"] is not None and req["crop"] == "bogus" and got != "raise":
            ck.violation(dict(sig, clause="unknown-crop"), show, "unknown crop accepted")
        elif req["via"] and req["method"] in METHODS[:8] and req["sym"] not in ("average", "fourier") and got != "raise":
            ck.violation(dict(sig, clause="unknown-symmetrize"), show, "unknown symmetrize_method accepted")
        elif req["reg"] in ("bogus", ("bogus", 1.0), ("bogus", 0), ("l2", 0.0), ("Diff", 1.0), ("Tikhonov", 0), ("svd", 0)) \
                and d == "inverse" and got != "raise":   # (daun also rejects it for forward)
            ck.violation(dict(sig, clause="unknown-reg"), show, "unknown regularisation accepted")
        elif req["out"] in ("bogus", "Same") and got != "raise":
            ck.violation(dict(sig, clause="unknown-out"), show, "unknown rbasex out accepted")
        elif req["method"] in ("two_point", "three_point") and not req["via"] and not req["oneD"] and d == "inverse" \
                and req["cols"] < (2 if req["method"] == "two_point" else 3) and got != "raise":
            ck.violation(dict(sig, clause="dasch-too-narrow"), show, f"{req['method']} accepted a {req['cols']}-column half-image")
        elif req["method"] == "linbasex" and (req["rows"] != req["cols"] or req["cols"] % 2 == 0) and got != "raise" \
                and not (req["via"] and req["origin"] is not None):      # (centring may crop the frame to an odd square)
            ck.violation(dict(sig, clause="linbasex-shape"), show, "non-square / even image accepted by linbasex")
        if len(ck.cov["samples"]) < 5 and got != "raise":
            ck.sample(dict(request=show, outcome=got))
    # documented inverse-only regulariser: rbasex reg='pos' forward must raise
    import abel
    try:
        with contextlib.redirect_stdout(io.StringIO()):
            abel.rbasex.rbasex_transform(gauss_full(11, 11), reg="pos", direction="forward")
        ck.violation(dict(site="rbasex", clause="pos-forward"), dict(reg="pos", direction="forward"),
                     "rbasex reg='pos' accepted for the forward transform")
    except Exception:
        pass
    ck.count("rbasex-pos-forward", suite="S.extra")
    # an unknown crop option is refused whatever the origin and the interpolation order (also when nothing would have to move)
    from abel.tools import center as _center
    im9 = gauss_full(9, 11)
    for crop in ("bogus", "valid", "", None):
        for order in (0, 1, 3):
            for origin in ((4, 5), (4.0, 5.0), (3, 4), (4.5, 5.25)):
                ck.count(("crop", str(crop), order, str(origin)), suite="S.extra")
                try:
                    with contextlib.redirect_stdout(io.StringIO()):
                        _center.set_center(im9, origin, crop=crop, order=order)
                    ck.violation(dict(site="set_center", clause="unknown-crop"), dict(crop=str(crop), order=order, origin=list(origin)),
                                 f"set_center(crop={crop!r}, order={order}, origin={origin}) returned instead of raising")
                except Exception:
                    pass
            try:
                with contextlib.redirect_stdout(io.StringIO()), warnings.catch_warnings():
                    warnings.simplefilter("ignore")
                    _center.center_image(im9, "image_center", crop=crop, order=order)
                    abel.Transform(im9, method="two_point", origin="image_center", center_options=dict(crop=crop, order=order),
                                   transform_options=dict(basis_dir=None))
                ck.violation(dict(site="center_image", clause="unknown-crop"), dict(crop=str(crop), order=order, origin="image_center"),
                             f"center_image / Transform(center_options=dict(crop={crop!r}, order={order})) returned instead of raising")
            except Exception:
                pass
    # lin-BASEX works on an odd-sized square image: anything else given to linbasex_transform_full — 1-D data of any length (array or
    # list), a single row as a 1 x n image, non-square, even — is refused, whatever its length happens to be
    for label, data in [(f"1-D array, {n} points", gauss_full(n, n)[n // 2]) for n in (5, 21, 22)] + \
                       [(f"1-D list, {n} points", gauss_full(n, n)[n // 2].tolist()) for n in (5, 21)] + \
                       [("1 x 21 image", gauss_full(21, 21)[10:11]), ("21 x 1 image", gauss_full(21, 21)[:, 10:11])]:
        ck.count(("linbasex-shape", label), suite="S.extra")
        try:
            with contextlib.redirect_stdout(io.StringIO()), warnings.catch_warnings():
                warnings.simplefilter("ignore")
                abel.linbasex.linbasex_transform_full(data)
            ck.violation(dict(site="linbasex", clause="linbasex-shape"), dict(data=label), f"linbasex_transform_full accepted {label}")
        except Exception:
            pass
    # the truncated-SVD strength of rbasex is a fraction of the singular values to drop: anything above 1 is refused, however little above
    for n in (21, 31, 61):
        for s_ in (1.0 + 1e-9, 1.001, 1.0133, 1.0333, 1.06, 1.1, 2.0):
            ck.count(("svd-factor", n, s_), suite="S.extra")
            try:
                with contextlib.redirect_stdout(io.StringIO()), warnings.catch_warnings():
                    warnings.simplefilter("ignore")
                    abel.rbasex.rbasex_transform(gauss_full(n, n), reg=("SVD", s_))
                ck.violation(dict(site="rbasex", clause="svd-factor-above-1"), dict(n=n, reg=["SVD", s_]),
                             f"rbasex_transform({n}x{n}, reg=('SVD', {s_})) returned instead of refusing a truncation factor above 1")
            except ValueError:
                pass
            except Exception as e:
                ck.violation(dict(site="rbasex", clause="exception"), dict(n=n, reg=["SVD", s_]), f"{type(e).__name__}: {e}")
    ck.cov["exhaustive"] = True
    ck.cov["explanation"] = ("the request-class table is finite and enumerated completely (section A-C); section D adds "
                             "seeded random interactions")
    direction_flips(ck, tier)
    symmetry_axis_forms(ck, tier)
    from harness import rbxmachine
    rbxmachine.run_sessions(ck, tier)            # requests that raise, interleaved with valid ones: outcome and cache state vs the Lean machine
    return ck.finish()


def replay(path):
    rec = json.loads(open(path).read())
    print(json.dumps(rec, indent=1, default=str)[:3000])
    if rec.get("kind") == "failing-input":
        r = rec["replay"]
        for k in ("uq", "origin", "reg"):
            if isinstance(r.get(k), list):
                r[k] = tuple(r[k])
        print("outcome now:", execute(r))
    return 1
