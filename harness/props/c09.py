"""
C09 — every basis projection and operator equals its defining Abel integral.

proofs : lean/PyAbel/Props/C09.lean (Daun degree 0 and the onion-peeling weights are, for all indices, the line-of-sight
         integrals of the rectangular shells — Lemmas/Abel.lean `abel_shell`; Daun degree 1 and degree 2 entries are, for all
         indices, the integrals of the hat functions / quadratic B-splines — Lemmas/AbelRamp.lean `abel_ramp`, `abel_qramp`, by the
         fundamental theorem of calculus); lean/PyAbel/Props/C09Rbasex.lean (every rBasex entry p_{R;n}(r), 1 ≤ r ≤ R, every
         angular order: the code's closed forms F[−1..3], its recursion for higher F[n] and the second difference of rFRF are
         2∫ b_R(ρ)(r/ρ)ⁿ dz — Lemmas/AbelFrac.lean: reduction formula for ∫(r/ρ)ⁿ by the fundamental theorem of calculus);
         lean/PyAbel/Props/C09Daun3.lean (Daun degree 3: the coded antiderivative P(R,a,b,c,d) is the integral of the cubic piece,
         p(j)[i] / q(j)[i] are for all i, j the integrals of the cubic Hermite value / derivative functions; the Thomas algorithm
         solves the (1, 4, 1) system, the system is symmetric, hence the final matrix applied to any samples is, at every pixel,
         the Abel integral of the clamped cubic spline through them — `daun3_eq_abel_spline`, every size n ≥ 2);
         lean/PyAbel/Props/C09TwoPoint.lean, C09ThreePoint.lean (the two-point and three-point operators applied to any samples are, at
         every pixel incl. the axis row with Dasch's special cases, the inverse Abel integral — in its line-of-sight form
         −(1/π)∫₀^∞ P′(ρ)/ρ dt — of the piecewise-linear / local quadratic interpolant of the samples: J, I0, I1 are integrals of 1/ρ and
         (ρ − j)/ρ over shells, the operators follow by first- / second-order summation by parts);
         lean/PyAbel/Props/C09Basex.lean (BASEX: for every k, σ > 0 and distance x ≥ 0, σ times the whole series the code sums for χ_k is
         the Abel integral of ρ_k(r/σ) — binomial theorem and the Gaussian moments Γ(m + ½)/2; the code's two shoulders are not proved)
K      : Lean matrices (onionW, twoPointD, threePointD, daun0, daun1, daun2, daun3 incl. the tridiagonal solve) vs the arrays
         the implementation builds;
         the Lean model of _bs_rbasex (driver op rbxbasis) vs rbasex._bs_rbasex, whole matrices, orders 0..8, Rmax up to 150
         + through get_bs_cached after other requests (memory and disk): the arrays handed out are the generators' arrays
S      : quadrature of the defining integral (scipy.integrate.quad on the smooth line-of-sight form
         2∫₀^∞ f(√(x²+z²)) dz; independent of PyAbel) for basex χ_k (σ ∈ (0.5, 3]), daun degrees 0-3 (degree 3: Abel of the
         clamped cubic Hermite spline through the data), rbasex p_{R;n} (orders 0-8), and the inverse-Abel integrals of the
         two-point / three-point local interpolants; unprojected basis functions vs their documented formulas
"""
import json
import os

import numpy as np
from scipy.integrate import quad
from scipy.interpolate import CubicHermiteSpline, CubicSpline

from harness.common import Check, ensure_driver, seed, source_fingerprint
from harness.methods import corr_operators, quiet


def corr_rbasex_basis(ck, tier):
    """the Lean model of rbasex._bs_rbasex (the object of C09Rbasex's theorems) vs the arrays the implementation builds"""
    from abel import rbasex
    from harness.common import drive, h2arr
    cases = [(6, 4, False), (12, 5, True), (40, 8, True), (25, 2, False)] if tier == "quick" else \
            [(6, 4, False), (12, 5, True), (40, 8, True), (100, 2, False), (150, 6, False), (60, 8, False), (33, 3, True), (1, 2, False), (2, 1, True)]
    for Rmax, order, odd in cases:
        bs = quiet(rbasex._bs_rbasex, Rmax, order, odd)
        orders = list(range(0, order + 1, 1 if odd else 2))
        outs = drive([f"rbxbasis {Rmax} {n}" for n in orders])
        for P, out, n in zip(bs, outs, orders):
            ck.count(("K.rbxbasis", Rmax, n), suite="K.rbasex-basis")
            M = h2arr(out.split()[3:]).reshape(Rmax + 1, Rmax + 1) if out.startswith("ok") else None
            # second differences of terms of size R² ln R: a few ulps of those
            if M is None or M.shape != np.shape(P) or np.abs(M - P).max() > 1e-14 * max(4.0, Rmax) ** 2:
                ck.disagree("K.rbasex-basis", dict(Rmax=Rmax, order=order, odd=odd, n=n),
                            f"_bs_rbasex({Rmax}, {order}, {odd}) for n={n} differs from the Lean model by "
                            f"{np.abs(M - P).max() if M is not None and M.shape == np.shape(P) else 'shape / bad-op'}")


def corr_basex_basis(ck, tier):
    """the Lean model of _bs_basex (Model/Basex.lean: the series as coded, log-Gamma tables as finite sums, both shoulders) vs the
    matrices the implementation builds, entry by entry"""
    from abel import basex
    from harness.common import drive, f2h, h2arr
    cases = [(5, 1.0), (12, 1.0), (30, 1.0), (30, 2.0), (31, 0.7), (40, 3.0)] + ([(60, 1.0), (61, 1.3), (45, 0.5)] if tier == "thorough" else [])
    for n, sigma in cases:
        ck.count(("K.basex-basis", n, sigma), suite="K.basex-basis")
        try:
            M, Mc = quiet(basex._bs_basex, n, sigma, verbose=False)
            nbf = M.shape[1]
            out = drive([f"basex M {n} {nbf} {f2h(sigma)}", f"basex Mc {n} {nbf} {f2h(sigma)}"])
            gm = h2arr(out[0].split()[3:]).reshape(n, nbf)
            gc = h2arr(out[1].split()[3:]).reshape(n, nbf)
        except Exception as e:
            ck.disagree("K.basex-basis", dict(n=n, sigma=sigma), f"{type(e).__name__}: {e}")
            continue
        # (the model sums logarithms where the code calls gammaln: relative differences up to ~k²·ε in the exponent)
        dm = np.abs(gm - M).max() / np.abs(M).max()
        dc = np.abs(gc - Mc).max()
        if not (dm <= 1e-9 and dc <= 1e-12):
            where = np.unravel_index(int(np.argmax(np.abs(gm - M))), M.shape)
            ck.disagree("K.basex-basis", dict(n=n, sigma=sigma, entry=[int(v) for v in where], M=float(M[where]), model=float(gm[where])),
                        f"_bs_basex({n}, {sigma}): projected basis differs from the Lean model by {dm:.3g} of its maximum (entry {where}), basis by {dc:.3g}")


def abel_quad(f, x, rmax, breaks=()):
    """2 ∫_0^{√(rmax²−x²)} f(√(x²+z²)) dz  for f supported in [0, rmax]; `breaks` = radii where f is not smooth"""
    if x >= rmax:
        return 0.0
    zmax = np.sqrt(rmax ** 2 - x ** 2)
    pts = sorted({np.sqrt(b ** 2 - x ** 2) for b in breaks if x < b < rmax})
    val, err = quad(lambda z: f(np.sqrt(x * x + z * z)), 0, zmax, points=pts or None, limit=max(200, 2 * len(pts) + 50), epsabs=1e-13, epsrel=1e-12)
    return 2 * val


def special_indices(n, rng, k):
    idx = {(0, 0), (0, 1), (1, 0), (1, 1), (n - 1, n - 1), (0, n - 1), (n - 1, 0), (n - 2, n - 1), (n - 1, n - 2), (1, 2), (2, 1)}
    for _ in range(k):
        i, j = (int(v) for v in rng.integers(0, n, size=2))
        idx |= {(i, j), (i, i), (i, min(n - 1, i + 1)), (max(0, i - 1), i)}
    return sorted((i, j) for i, j in idx if 0 <= i < n and 0 <= j < n)


def oracle(ck, tier, deep):
    import abel
    from abel import basex, daun, dasch, rbasex
    rng = np.random.default_rng(seed() + 9)
    # ---------------- daun degrees 0-2: A[j, i] = Abel(b_j)(i)
    def b0(j):
        return (lambda r: 1.0 * ((r >= j - 0.5) & (r < j + 0.5))), j + 0.5, [j - 0.5]

    def b1(j):
        return (lambda r: np.maximum(0.0, 1 - np.abs(r - j))), j + 1, [j - 1, j]

    def b2(j):
        def f(r):
            d = np.abs(r - j)
            return np.where(d <= 0.5, 1 - 2 * d ** 2, np.where(d <= 1, 2 * (d - 1) ** 2, 0.0))
        return f, j + 1, [j - 1, j - 0.5, j, j + 0.5]
    for n in ([12, 60] if not deep else [12, 60, 200, 400]):
        for deg, mk in ((0, b0), (1, b1), (2, b2)):
            A = quiet(daun._bs_daun, n, deg)
            for (j, i) in special_indices(n, rng, 12 if not deep else 60):
                f, rmax, brk = mk(j)
                ck.count(("S.daun", deg, min(j, 3), min(i, 3), np.sign(j - i)), suite="S.daun")
                want = abel_quad(f, float(i), rmax, brk)
                # the coded closed forms cancel terms of size j^(deg+2): a few ulps of those is their rounding, not a formula error
                if abs(A[j, i] - want) > 1e-9 * max(1.0, abs(want)) + 16 * 2.0 ** -53 * float(j + 1) ** (deg + 2):
                    ck.violation(dict(site="daun", degree=deg, clause="projection=abel-integral"), dict(n=n, degree=deg, j=j, i=i),
                                 f"daun degree {deg}: A[{j},{i}] = {A[j, i]:.12g}, Abel integral of the basis function = {want:.12g}")
        # degree 3: forward(data) = Abel of the clamped cubic Hermite spline through the data (zero slope at 0, n-1 and n)
        A3 = quiet(daun._bs_daun, n, 3)
        for _ in range(2 if not deep else 6):
            s = rng.normal(size=n)
            cs = CubicSpline(np.arange(n), s, bc_type="clamped")
            d = cs(np.arange(n), 1)
            spline = CubicHermiteSpline(np.arange(n + 1), np.append(s, 0.0), np.append(d, 0.0))
            fwd = s @ A3
            for i in sorted({0, 1, n // 3, n - 2, n - 1, int(rng.integers(0, n))}):
                ck.count(("S.daun", 3, min(i, 3)), suite="S.daun")
                want = abel_quad(lambda r: spline(r), float(i), float(n), list(range(i + 1, n + 1)))
                # degree 3 is ill-conditioned (finding F17): rounding noise grows like a power of n
                if abs(fwd[i] - want) > 1e-8 * max(1.0, np.abs(s).max() * n) * max(1.0, (n / 60.0) ** 3):
                    ck.violation(dict(site="daun", degree=3, clause="projection=abel-integral"), dict(n=n, i=i, data=s.tolist()),
                                 f"daun degree 3: forward(data)[{i}] = {fwd[i]:.12g}, Abel integral of the clamped cubic spline = {want:.12g}")
    # ---------------- basex: rho_k formula and chi_k = Abel(rho_k)
    for sigma in ([0.7, 1.0, 2.3] if not deep else [0.55, 0.7, 1.0, 1.5, 2.3, 3.0]):
        n = 40 if not deep else 120
        M, Mc = quiet(basex._bs_basex, n, sigma, None, verbose=False)
        nbf = M.shape[1]

        def rho(k):
            k2 = k * k
            if k == 0:
                return lambda r: np.exp(-(r / sigma) ** 2)
            return lambda r: np.where(r > 0, np.exp(k2 * (1 - np.log(k2)) + 2 * k2 * np.log(np.maximum(r, 1e-300) / sigma) - (r / sigma) ** 2), 0.0)
        ks = sorted({0, 1, 2, nbf // 2, nbf - 1} | {int(v) for v in rng.integers(0, nbf, size=3)})
        for k in ks:
            f = rho(k)
            for i in sorted({0, 1, int(round(k * sigma)), min(n - 1, int(round(k * sigma)) + 1), n - 1} | {int(v) for v in rng.integers(0, n, size=2)}):
                if not 0 <= i < n:
                    continue
                ck.count(("S.basex", sigma, min(k, 3), min(i, 3)), suite="S.basex")
                if abs(Mc[i, k] - float(f(float(i)))) > 1e-12:
                    ck.violation(dict(site="basex", clause="basis-function-formula"), dict(sigma=sigma, k=k, i=i),
                                 f"basex rho_{k}({i}) = {Mc[i, k]:.12g}, documented formula gives {float(f(float(i))):.12g}")
                want = abel_quad(f, float(i), (k + 12) * sigma + 12 * sigma)
                if abs(M[i, k] - want) > 1e-9 * max(1e-3, abs(want)) + 1e-12:
                    ck.violation(dict(site="basex", clause="projection=abel-integral"), dict(sigma=sigma, k=k, i=i, n=n),
                                 f"basex chi_{k}({i}) = {M[i, k]:.12g} (sigma={sigma}), Abel integral of rho_k = {want:.12g}")
    # ---------------- rbasex: P[n][R, r] = 2 ∫ b_R(ρ) (r/ρ)^n dz, b_R = triangle of half-width 1 at R
    for (order, odd) in ([(2, False), (3, True)] if not deep else [(0, False), (2, False), (4, False), (8, False), (1, True), (3, True), (8, True)]):
        Rmax = 14 if not deep else 60
        bs = quiet(rbasex._bs_rbasex, Rmax, order, odd)
        orders = list(range(0, order + 1, 1 if odd else 2))
        for P, nn in zip(bs, orders):
            for (R, r) in special_indices(Rmax + 1, rng, 6 if not deep else 30):
                ck.count(("S.rbasex", nn, min(R, 3), min(r, 3), np.sign(R - r)), suite="S.rbasex")
                if R == 0 and r == 0 and nn > 0:
                    continue          # documented convention: P[n][0,0] := 1 for n > 0 "to make P nondegenerate" (the integral is 0)
                if r > R:
                    want = 0.0
                else:
                    f = lambda q: np.maximum(0.0, 1 - np.abs(q - R)) * ((r / q) ** nn if q > 0 else (1.0 if nn == 0 else 0.0))
                    want = abel_quad(f, float(r), R + 1.0, [R - 1, R]) if (r > 0 or nn == 0) else 0.0
                if abs(P[R, r] - want) > 1e-9 * max(1.0, abs(want)):
                    ck.violation(dict(site="rbasex", clause="projection=abel-integral", order=nn), dict(Rmax=Rmax, order=order, odd=odd, n=nn, R=R, r=r),
                                 f"rbasex p_(R={R};n={nn})(r={r}) = {P[R, r]:.12g}, line-of-sight integral = {want:.12g}")
    # ---------------- Dasch operators: inverse Abel integral of the local interpolant of the data, every row
    for n in ([9, 30] if not deep else [9, 30, 100]):
        P = rng.normal(size=n)
        # two-point: P piecewise linear on [j, j+1], zero slope beyond the last sample → f_i = -(1/π) Σ_j slope_j ∫ dy/√(y²-i²)
        D2 = quiet(dasch._bs_two_point, n)
        D3 = quiet(dasch._bs_three_point, n)
        f2, f3 = D2 @ P, D3 @ P
        Pe = np.append(P, 0.0)            # both operators take the profile to vanish beyond the last pixel? (J terms up to j = n-1 use P_{j+1} = 0)
        for i in range(1, n):
            ck.count(("S.dasch", 2, min(i, 3)), suite="S.dasch")
            ac = lambda y: np.log(y + np.sqrt(max(y * y - i * i, 0.0)))
            want2 = 0.0
            for j in range(i, n):
                slope = Pe[j + 1] - Pe[j]
                want2 += -slope / np.pi * (ac(j + 1.0) - ac(max(float(j), float(i))))
            if abs(f2[i] - want2) > 1e-10 * max(1.0, np.abs(P).max()):
                ck.violation(dict(site="two_point", clause="operator=inverse-abel-of-interpolant"), dict(n=n, i=i, P=P.tolist()),
                             f"two_point: (D P)[{i}] = {f2[i]:.12g}, inverse Abel integral of the piecewise-linear interpolant = {want2:.12g}")
            # three-point: on [j-1/2, j+1/2] P'(y) = (P_{j+1}-P_{j-1})/2 + (P_{j+1}-2P_j+P_{j-1})(y-j); integrate from max(i, j-1/2)
            ck.count(("S.dasch", 3, min(i, 3)), suite="S.dasch")
            want3 = 0.0
            Pm = lambda k: Pe[k] if 0 <= k <= n else 0.0
            for j in range(i, n + 1):        # data are taken to vanish beyond the last pixel: interval n still sees P_{n-1}
                a1 = (Pm(j + 1) - Pm(j - 1)) / 2
                a2 = Pm(j + 1) - 2 * Pm(j) + Pm(j - 1)
                lo, hi = max(float(i), j - 0.5), j + 0.5
                val, _ = quad(lambda t: (a1 + a2 * (i * np.cosh(t) - j)), np.arccosh(max(lo / i, 1.0)), np.arccosh(hi / i), epsabs=1e-13)
                want3 += -val / np.pi
            if abs(f3[i] - want3) > 1e-9 * max(1.0, np.abs(P).max()):
                ck.violation(dict(site="three_point", clause="operator=inverse-abel-of-interpolant"), dict(n=n, i=i, P=P.tolist()),
                             f"three_point: (D P)[{i}] = {f3[i]:.12g}, inverse Abel integral of the local quadratic interpolant = {want3:.12g}")
        # the axis row (i = 0): Dasch's special cases stand for the even parabola through P_0, P_1 near the axis (zero slope at r = 0),
        # where P'(y)/y is the constant 2 (P_1 − P_0); beyond, the same interpolants as above with ∫ dy/y = log
        # (two-point: theorem twoPoint_axis_eq_invAbel)
        ck.count(("S.dasch", 2, 0), suite="S.dasch")
        want2 = -(2 * (Pe[1] - Pe[0]) + sum((Pe[j + 1] - Pe[j]) * np.log((j + 1.0) / j) for j in range(1, n))) / np.pi
        if abs(f2[0] - want2) > 1e-10 * max(1.0, np.abs(P).max()):
            ck.violation(dict(site="two_point", clause="operator=inverse-abel-of-interpolant"), dict(n=n, i=0, P=P.tolist()),
                         f"two_point: (D P)[0] = {f2[0]:.12g}, inverse Abel integral on the axis of the interpolant (parabola on [0,1), linear beyond) = {want2:.12g}")
        ck.count(("S.dasch", 3, 0), suite="S.dasch")
        want3 = Pe[1] - Pe[0]                      # ∫_0^{1/2} 2 (P_1 − P_0) dy
        for j in range(1, n + 1):
            a1 = (Pm(j + 1) - Pm(j - 1)) / 2
            a2 = Pm(j + 1) - 2 * Pm(j) + Pm(j - 1)
            want3 += (a1 - a2 * j) * np.log((j + 0.5) / (j - 0.5)) + a2
        want3 = -want3 / np.pi
        if abs(f3[0] - want3) > 1e-10 * max(1.0, np.abs(P).max()):
            ck.violation(dict(site="three_point", clause="operator=inverse-abel-of-interpolant"), dict(n=n, i=0, P=P.tolist()),
                         f"three_point: (D P)[0] = {f3[0]:.12g}, inverse Abel integral on the axis of the local quadratic interpolant = {want3:.12g}")
        # onion peeling: D = W^{-1} with W the shell projections (theorem) — D·W = 1 numerically
        Dop = quiet(dasch._bs_onion_peeling, n)
        W = np.array([[abel_quad(lambda r, j=j: 1.0 * ((r >= j - 0.5) & (r < j + 0.5)), float(i), j + 0.5, [j - 0.5]) for j in range(n)] for i in range(n)])
        ck.count(("S.dasch", "onion", n), suite="S.dasch")
        if np.abs(Dop @ W - np.eye(n)).max() > 1e-8 * n:
            ck.violation(dict(site="onion_peeling", clause="operator=inverse-of-shell-projection"), dict(n=n),
                         f"onion_peeling D times the shell-projection matrix differs from the identity by {np.abs(Dop @ W - np.eye(n)).max():.3g}")
    # ---------------- the same arrays as users obtain them: through get_bs_cached, in a session that has already served another
    # request (other method / larger size in memory or on disk).  The generators above are decided against the integrals; what
    # get_bs_cached hands out must be those arrays (Dasch and Daun degree ≤ 2 operators for n are leading blocks of larger ones).
    import tempfile
    scratch = os.environ.get("VERIF_SCRATCH")
    gens = {"two_point": dasch._bs_two_point, "three_point": dasch._bs_three_point, "onion_peeling": dasch._bs_onion_peeling}
    for m1 in gens:
        for m2 in gens:
            for (n1, n2) in ((12, 12), (12, 9), (9, 12)):
                if m1 == m2 and n1 == n2:
                    continue
                for use_dir in (False, True):
                    d = tempfile.mkdtemp(prefix="c09_", dir=scratch) if use_dir else None
                    dasch.cache_cleanup()
                    ck.count(("S.cached", "dasch", m1, m2, n1, n2, use_dir), suite="S.get_bs_cached")
                    try:
                        quiet(dasch.get_bs_cached, m1, n1, basis_dir=d)
                        # … and a transform with a pixel size in between: it must not leave its scaling in the cached operator
                        quiet(getattr(dasch, m1 + "_transform"), rng.normal(size=(2, n1)), basis_dir=d, dr=0.5)
                        if use_dir:
                            dasch.cache_cleanup()
                            quiet(dasch.get_bs_cached, m1, n1, basis_dir=d)
                        got = np.array(quiet(dasch.get_bs_cached, m2, n2, basis_dir=d))
                        want = quiet(gens[m2], n2)
                    except Exception as e:
                        ck.violation(dict(site=m2, clause="exception"), dict(first=[m1, n1], then=[m2, n2], basis_dir=use_dir), f"{type(e).__name__}: {e}")
                        continue
                    if got.shape != want.shape or np.abs(got - want).max() > 1e-12 * max(1.0, np.abs(want).max()):
                        ck.violation(dict(site=m2, clause="get_bs_cached=generator"), dict(first=[m1, n1], then=[m2, n2], basis_dir=use_dir),
                                     f"dasch.get_bs_cached({m2!r}, {n2}) after ({m1!r}, {n1}) is not the {m2} operator "
                                     f"(off by {np.abs(got - want).max() if got.shape == want.shape else 'shape'})")
    dasch.cache_cleanup()
    # … longer sessions: one method's operator read back from its file between two requests for another (generated) method, smaller
    # sizes after larger ones — whatever is handed out is the generator's array for the method and size asked for
    import itertools as _it
    for X, Y in _it.permutations(list(gens), 2):
        d = tempfile.mkdtemp(prefix="c09_", dir=scratch)
        dasch.cache_cleanup()
        ck.count(("S.cached", "dasch-session", X, Y), suite="S.get_bs_cached")
        steps = [(Y, 25), (X, 17), (Y, 25), (X, 9), (Y, 12), (X, 17)]
        for k, (m, n) in enumerate(steps):
            try:
                got = np.array(quiet(dasch.get_bs_cached, m, n, basis_dir=d))
                want = quiet(gens[m], n)
            except Exception as e:
                ck.violation(dict(site=m, clause="exception"), dict(session=[list(t) for t in steps], at=k), f"{type(e).__name__}: {e}")
                break
            if got.shape != want.shape or np.abs(got - want).max() > 1e-12 * max(1.0, np.abs(want).max()):
                ck.violation(dict(site=m, clause="get_bs_cached=generator"), dict(session=[list(t) for t in steps], at=k, basis_dir=True),
                             f"dasch.get_bs_cached({m!r}, {n}) as request #{k} of the session {steps} (with a basis directory) is not the {m} operator "
                             f"(off by {np.abs(got - want).max() if got.shape == want.shape else 'shape'})")
                break
    dasch.cache_cleanup()
    for deg in (0, 1, 2, 3):
        for (n1, n2) in ((12, 8), (8, 12), (12, 12)):
            for mode in ("memory", "disk"):
                d = tempfile.mkdtemp(prefix="c09_", dir=scratch) if mode == "disk" else None
                daun.cache_cleanup()
                ck.count(("S.cached", "daun", deg, n1, n2, mode), suite="S.get_bs_cached")
                try:
                    quiet(daun.get_bs_cached, n1, degree=deg, direction="forward", basis_dir=d)
                    if mode == "disk":
                        daun.cache_cleanup()         # the second request must be served from the file of the first
                    got = np.array(quiet(daun.get_bs_cached, n2, degree=deg, direction="forward", basis_dir=d))
                    want = quiet(daun._bs_daun, n2, deg)
                except Exception as e:
                    ck.violation(dict(site="daun", degree=deg, clause="exception"), dict(first=n1, then=n2, mode=mode), f"{type(e).__name__}: {e}")
                    continue
                if got.shape != want.shape or np.abs(got - want).max() > 1e-12 * max(1.0, np.abs(want).max()):
                    ck.violation(dict(site="daun", degree=deg, clause="get_bs_cached=generator"), dict(first=n1, then=n2, degree=deg, mode=mode),
                                 f"daun.get_bs_cached({n2}, degree={deg}) after a size-{n1} request ({mode}) is not the size-{n2} projected basis "
                                 f"(off by {np.abs(got - want).max() if got.shape == want.shape else 'shape'})")
    daun.cache_cleanup()
    # rbasex: matrices requested with a mask of valid radii, then without: the unmasked request gets the full operators again
    for (order, odd) in ((2, False), (3, True)):
        Rm = 14
        rbasex.cache_cleanup()
        ck.count(("S.cached", "rbasex", order, odd), suite="S.get_bs_cached")
        try:
            bs = [P.copy() for P in quiet(rbasex._bs_rbasex, Rm, order, odd)]
            valid = np.ones(Rm + 1, bool)
            valid[4:8] = False
            for direction, reg in (("forward", None), ("inverse", ("L2", 1.0)), ("inverse", None)):
                quiet(rbasex.get_bs_cached, Rm, order, odd, direction, reg, valid)
            Af = quiet(rbasex.get_bs_cached, Rm, order, odd, "forward")
            Ai = quiet(rbasex.get_bs_cached, Rm, order, odd, "inverse")
            for k, (P, a, b) in enumerate(zip(bs, Af, Ai)):
                lo = 0 if k == 0 else 1
                if np.abs(np.asarray(a) - P.T).max() > 0:
                    ck.violation(dict(site="rbasex", clause="get_bs_cached=generator"), dict(Rmax=Rm, order=order, odd=odd, term=k),
                                 f"rbasex.get_bs_cached(forward) after masked requests differs from the projected basis (term {k}) by "
                                 f"{np.abs(np.asarray(a) - P.T).max():.3g}")
                    break
                e = np.abs((np.asarray(b) @ P.T)[lo:, lo:] - np.eye(Rm + 1)[lo:, lo:]).max()
                if e > 1e-9:
                    ck.violation(dict(site="rbasex", clause="get_bs_cached=generator"), dict(Rmax=Rm, order=order, odd=odd, term=k),
                                 f"rbasex.get_bs_cached(inverse) after masked requests is not the inverse of the projected basis (term {k}, off by {e:.3g})")
                    break
        except Exception as e:
            ck.violation(dict(site="rbasex", clause="exception"), dict(Rmax=Rm, order=order, odd=odd), f"{type(e).__name__}: {e}")
    # rbasex, one session with a basis directory: the unregularised inverse is computed (and saved together with the basis), then the
    # forward operators are requested — they are still the projected basis
    for (Rm, order, odd) in ((14, 2, False), (20, 4, True), (9, 0, False)):
        d = tempfile.mkdtemp(prefix="c09_", dir=scratch)
        rbasex.cache_cleanup()
        ck.count(("S.cached", "rbasex-save", Rm, order, odd), suite="S.get_bs_cached")
        try:
            quiet(rbasex.get_bs_cached, Rm, order, odd, "inverse", basis_dir=d)
            Af = [np.array(a) for a in quiet(rbasex.get_bs_cached, Rm, order, odd, "forward", basis_dir=d)]
            Ai = [np.array(a) for a in quiet(rbasex.get_bs_cached, Rm, order, odd, "inverse", ("L2", 0.5), basis_dir=d)]
            rbasex.cache_cleanup()
            bs = [P.copy() for P in quiet(rbasex._bs_rbasex, Rm, order, odd)]
            Ai_ref = [np.array(a) for a in quiet(rbasex.get_bs_cached, Rm, order, odd, "inverse", ("L2", 0.5))]
            if any(np.abs(a - P.T).max() > 1e-12 * max(1.0, np.abs(P).max()) for a, P in zip(Af, bs)) or \
                    any(np.abs(a - b).max() > 1e-9 * max(1.0, np.abs(b).max()) for a, b in zip(Ai, Ai_ref)):
                ck.violation(dict(site="rbasex", clause="get_bs_cached=generator"), dict(Rmax=Rm, order=order, odd=odd, mode="after saving the inverse"),
                             f"rbasex.get_bs_cached({Rm}, {order}, {odd}) forward / regularised operators requested after the unregularised inverse "
                             "was computed and saved are not those of the projected basis")
        except Exception as e:
            ck.violation(dict(site="rbasex", clause="exception"), dict(Rmax=Rm, order=order, odd=odd, mode="after saving the inverse"), f"{type(e).__name__}: {e}")
        finally:
            import shutil
            shutil.rmtree(d, ignore_errors=True)
    rbasex.cache_cleanup()
    # basex from disk: a later session asks for a basis width that differs from a saved one only beyond the second decimal
    for (n_, s1, s2) in ((20, 1.5, 1.504), (16, 0.7, 0.7000000000000001), (20, 2.0, 2.004), (24, 1.25, 1.254)):
        d = tempfile.mkdtemp(prefix="c09_", dir=scratch)
        basex.cache_cleanup()
        ck.count(("S.cached", "basex-disk", n_, s1, s2), suite="S.get_bs_cached")
        try:
            quiet(basex.get_bs_cached, n_, s1, 0.0, False, d, 1.0, False, "forward")
            basex.cache_cleanup()
            got = np.array(quiet(basex.get_bs_cached, n_, s2, 0.0, False, d, 1.0, False, "forward"))
            basex.cache_cleanup()
            want = np.array(quiet(basex.get_bs_cached, n_, s2, 0.0, False, None, 1.0, False, "forward"))
            if got.shape != want.shape or np.abs(got - want).max() > 1e-10 * max(1.0, np.abs(want).max()):
                ck.violation(dict(site="basex", clause="get_bs_cached=generator"), dict(n=n_, first_sigma=s1, then_sigma=s2, mode="disk"),
                             f"basex.get_bs_cached({n_}, sigma={s2!r}) served from a directory holding sigma={s1!r} differs from the sigma={s2!r} "
                             f"operator by {np.abs(got - want).max() if got.shape == want.shape else 'shape'}")
        except Exception as e:
            ck.violation(dict(site="basex", clause="exception"), dict(n=n_, first_sigma=s1, then_sigma=s2), f"{type(e).__name__}: {e}")
        finally:
            import shutil
            shutil.rmtree(d, ignore_errors=True)
    basex.cache_cleanup()
    # rbasex from disk: a later session (empty memory cache) is served from the file an earlier request left — larger radius,
    # higher order, the other parity — and must get exactly the projected basis it asked for
    for (first, then) in (((20, 4, False), (14, 2, True)), ((20, 3, True), (14, 2, False)), ((20, 3, True), (14, 3, True)),
                          ((14, 2, False), (20, 2, False)), ((20, 2, False), (14, 2, False)), ((14, 2, True), (14, 4, False)),
                          ((20, 4, False), (20, 1, True))):
        d = tempfile.mkdtemp(prefix="c09_", dir=scratch)
        rbasex.cache_cleanup()
        ck.count(("S.cached", "rbasex-disk", first, then), suite="S.get_bs_cached")
        try:
            quiet(rbasex.get_bs_cached, first[0], first[1], first[2], "forward", basis_dir=d)
            rbasex.cache_cleanup()
            Af = [np.array(a) for a in quiet(rbasex.get_bs_cached, then[0], then[1], then[2], "forward", basis_dir=d)]
            rbasex.cache_cleanup()
            bs = [P.copy() for P in quiet(rbasex._bs_rbasex, *then)]
            bad = len(Af) != len(bs) or any(a.shape != P.T.shape or np.abs(a - P.T).max() > 1e-12 * max(1.0, np.abs(P).max()) for a, P in zip(Af, bs))
            if bad:
                ck.violation(dict(site="rbasex", clause="get_bs_cached=generator"), dict(first=list(first), then=list(then), mode="disk"),
                             f"rbasex.get_bs_cached{then} served from the basis file of an earlier {first} request is not the projected basis "
                             f"(Rmax, order, odd) = {then}")
        except Exception as e:
            ck.violation(dict(site="rbasex", clause="exception"), dict(first=list(first), then=list(then), mode="disk"), f"{type(e).__name__}: {e}")
        finally:
            import shutil
            shutil.rmtree(d, ignore_errors=True)
    rbasex.cache_cleanup()
    ck.sample(dict(suite="S", families=["daun0-3", "basex", "rbasex", "two_point", "three_point", "onion_peeling", "get_bs_cached histories"]))


def run(tier):
    ck = Check("C09", tier)
    deep = tier == "thorough"
    ck.cov["rule"] = ("K: entrywise model vs implementation for onionW / twoPointD / threePointD / daun0-2, sizes 2..40 (thorough ..150). "
                      "S: scipy quadrature of the defining integral at the special indices (k=0, i=0, i=k, i=k±1, last row/column) and "
                      "random ones: daun 0-3 at n ∈ {12,60} (thorough ..400), basex σ ∈ {0.7,1,2.3} (thorough 6 values up to 3.0), rbasex "
                      "orders (thorough 0..8 ± odd, Rmax 60), two/three-point rows i ≥ 1, onion D·W = 1. distinct = (family, order/degree, "
                      "index class)")
    ck.cov["trusted_base"] = ["Lean 4.33 kernel", "axioms propext/Classical.choice/Quot.sound",
                              "theorem-backed families on this run: daun degrees 0-2, onion-peeling W, rbasex p_{R;n} (all indices, all orders)",
                              "quadrature-backed only: daun 3, basex (series with ±9(u+2) cut-off), two/three-point (rows i ≥ 1; "
                              "the axis row uses the documented special cases and is compared with the model only)",
                              "scipy.integrate.quad (1e-12) and scipy CubicSpline for the degree-3 interpolant"]
    ck.cov["unproved_clauses"] = ["basex: the full series is proved equal to the Abel integral; what the code drops (terms beyond ±9(u+2) of the largest, u > k + 8) is measured by quadrature; two-/three-point: the inverse Abel integral is taken in its line-of-sight form (the substitution x = √(r²+t²) from the textbook form is not formalised); daun degree 3: scipy.linalg.solve_banded is modelled by the Thomas algorithm (proved to solve the system; tied to the code by the entrywise comparison)"]
    ck.cov["source_fingerprint"] = source_fingerprint(["abel/basex.py", "abel/daun.py", "abel/rbasex.py", "abel/dasch.py"])
    ck.proofs("PyAbel.Props.C09")
    ck.proofs("PyAbel.Props.C09Rbasex")
    ck.proofs("PyAbel.Props.C09Daun3")
    ck.proofs("PyAbel.Props.C09TwoPoint")
    ck.proofs("PyAbel.Props.C09ThreePoint")
    ck.proofs("PyAbel.Props.C09Basex")
    ok, log = ensure_driver()
    if ok:
        corr_operators(ck, tier)
        corr_rbasex_basis(ck, tier)
        corr_basex_basis(ck, tier)
    else:
        ck.broken.append(dict(kind="proof", module="pyabel_drv", why="driver build failed", log=log[-1500:]))
    oracle(ck, tier, deep or bool(ck.broken))
    return ck.finish()


def replay(path):
    rec = json.loads(open(path).read())
    print(json.dumps({k: v for k, v in rec.items()}, indent=1, default=str)[:3000])
    return 1
