"""
C04 — every transform is a fixed linear, row-independent operator scaling with dr.

proofs : lean/PyAbel/Props/C04.lean (x·M, M x, triangular solve are linear; dr scaling; NNLS positive homogeneity)
         lean/PyAbel/Props/C04Recursions.lean (the Hansen–Law recursion, the direct quadrature and the Bordas peeling loop as
         coded are linear in the row for every constant table / grid; dr scaling of all three, both directions; the Bordas loop
         is the exact solve of its arcsine shell-weight system)
K      : Model/Recursions.lean (hansenlaw_transform, direct_transform python backend, onion_bordas_transform with
         shift_grid=False) vs the implementation on random rows,
         every direction/hold order/correction, dr values, sizes 3..301 (Hansen–Law constants regenerated from the source
         into Gen/Tables.lean by gen_tables.py on every run);
         the matrix models vs the implementation's arrays (harness/methods.corr_operators); for every method the
         implementation is compared with *its own extracted operator*: T(X) == X @ operator_of(T) — i.e. the
         implementation really is the fixed matrix form the theorems are about
         is_uniform_sampling vs Model/Grid.lean on grids of every kind in units 1e-18 … 1e+9 (theorem: Props/C02Grid.lean)
S      : linearity on random pairs (negative values), row independence (bit-for-bit), dr scaling, NNLS positive
         homogeneity, integer dtypes, image tools, abel.Transform settings; sparse images (one column, a band between empty
         borders) = X @ operator; integer images through set_center; explicit grids in units from 1e-16 to 1e3
"""
import itertools
import json

import numpy as np

from harness.common import Check, ensure_driver, seed, source_fingerprint
from harness.methods import cases, corr_operators, operator_of, quiet


def lin_defect(T, X, Y, a, b):
    lhs = T(a * X + b * Y)
    rhs = a * T(X) + b * T(Y)
    scale = abs(a) * np.abs(T(X)).max() + abs(b) * np.abs(T(Y)).max() + 1e-300
    return np.abs(lhs - rhs).max() / scale


def oracle_methods(ck, tier, deep):
    rng = np.random.default_rng(seed() + 4)
    sizes = [5, 12, 31] if not deep else [3, 5, 8, 12, 31, 64]
    reps = 2 if not deep else 6
    for label, name, f, d, opts in cases():
        for n in sizes:
            if name == "three_point" and n < 3:
                continue
            rows = int(rng.integers(2, 6))
            T = lambda Z, dr=None: quiet(f, Z, direction=d, **opts, **({} if dr is None else dict(dr=dr)))
            sig = dict(site=name, direction=d, opts=label.split("/")[-1])
            base = dict(method=name, direction=d, opts={k: (list(v) if isinstance(v, tuple) else v) for k, v in opts.items()}, n=n, rows=rows)
            try:
                # fixed operator: T(X) == X @ M with M extracted from unit rows
                M = operator_of(f, n, d, opts)
                for _ in range(reps):
                    X, Y = rng.normal(size=(rows, n)), rng.normal(size=(rows, n))
                    a, b = (float(v) for v in rng.normal(size=2) * rng.choice([0.1, 1, 30], size=2))
                    ck.count(("S.lin", label, n), suite="S.linearity")
                    TX = T(X)
                    dm = np.abs(TX - X @ M).max() / (np.abs(TX).max() + 1e-300)
                    if dm > 1e-9:
                        ck.disagree("K.fixed-operator", dict(base), f"T(X) differs from X @ operator by {dm:.3g} (relative)")
                    # … on every image, the sparse ones included: one non-zero column, a band of columns between empty borders (zero-padded
                    # or masked data) — X @ M again, nothing is "skipped" because a column happens to vanish
                    for kind in ("column", "band"):
                        E = np.zeros((rows, n))
                        j0 = int(rng.integers(0, n))
                        j1 = j0 + 1 if kind == "column" else min(n, j0 + int(rng.integers(1, max(2, n // 3))))
                        E[:, j0:j1] = rng.normal(size=(rows, j1 - j0))
                        TE = T(E)
                        de = np.abs(TE - E @ M).max() / (np.abs(E @ M).max() + 1e-300)
                        if de > 1e-9:
                            ck.violation(dict(sig, clause="sparse-image"), dict(base, columns=[j0, j1], X=E.tolist()),
                                         f"image with non-zero columns {j0}..{j1 - 1} only: T(X) differs from X @ operator by {de:.3g} (relative)")
                    df = lin_defect(T, X, Y, a, b)
                    if df > 1e-9:
                        ck.violation(dict(sig, clause="linearity"), dict(base, a=a, b=b, X=X.tolist(), Y=Y.tolist()),
                                     f"T(aX+bY) != aT(X)+bT(Y): relative defect {df:.3g}")
                    # row independence: change one row, the others must not move
                    r = int(rng.integers(0, rows))
                    X2 = X.copy()
                    X2[r] = rng.normal(size=n) * 7
                    T2 = T(X2)
                    others = [k for k in range(rows) if k != r]
                    leak = np.abs(T2[others] - TX[others]).max()
                    tol = 1e-12 * np.abs(X2).max() * max(1.0, np.abs(M).max()) \
                        if (name == "onion_bordas" and opts.get("shift_grid", True)) else 0.0
                    if leak > tol:
                        ck.violation(dict(sig, clause="row-independence"), dict(base, row=r, X=X.tolist(), X2row=X2[r].tolist()),
                                     f"changing row {r} changed other output rows by {leak:.3g}")
                    # dr scaling
                    dr = float(rng.choice([0.25, 0.5, 2.0, 2.5, 4.0]))
                    Tdr = T(X, dr=dr)
                    T1 = T(X, dr=1.0)
                    want = T1 * dr if d == "forward" else T1 / dr
                    ds = np.abs(Tdr - want).max() / (np.abs(want).max() + 1e-300)
                    if ds > 1e-12:
                        ck.violation(dict(sig, clause="dr-scaling"), dict(base, dr=dr, X=X.tolist()),
                                     f"dr={dr}: result is not {'dr*' if d == 'forward' else '(1/dr)*'}T(dr=1); rel {ds:.3g}")
                    # a single row given as a 1-D array is the same transform (with the same dr) as the row inside an image
                    T1 = T(X[0].copy(), dr=dr)
                    if np.shape(T1) != (n,) or np.abs(np.asarray(T1) - Tdr[0]).max() > 1e-12 * (np.abs(Tdr[0]).max() + 1e-300):
                        ck.violation(dict(sig, clause="1d-row"), dict(base, dr=dr, row=X[0].tolist()),
                                     f"dr={dr}: the first row as a 1-D array gives a different result than inside the image "
                                     f"({'shape ' + str(np.shape(T1)) if np.shape(T1) != (n,) else np.abs(np.asarray(T1) - Tdr[0]).max()})")
                    # integer input = its float copy
                    Xi = rng.integers(0, 200, size=(rows, n))
                    for dt in (np.uint8, np.int32):
                        try:
                            Ti = T(Xi.astype(dt))
                        except TypeError:
                            continue          # refusing an integer array loudly is not a linearity defect
                        Tf = T(Xi.astype(float))
                        di = np.abs(np.asarray(Ti, float) - Tf).max() / (np.abs(Tf).max() + 1e-300)
                        if di > 1e-12:
                            ck.violation(dict(sig, clause="integer-dtype"), dict(base, dtype=str(np.dtype(dt)), X=Xi.tolist()),
                                         f"{np.dtype(dt)} input differs from its float copy by {di:.3g} (relative)")
                    # the operator acts on the pixel values, however the array is laid out: column-major copies, strided and
                    # reversed views of larger arrays, read-only arrays, float32 / longer floats of the same values
                    big = np.zeros((2 * rows, 3 * n))
                    big[::2, ::3] = X
                    ro = X.copy()
                    ro.setflags(write=False)
                    layouts = {"fortran": np.asfortranarray(X), "strided": big[::2, ::3], "reversed": X[::-1, ::-1][::-1, ::-1],
                               "transposed-copy": np.ascontiguousarray(X.T).T, "read-only": ro}
                    for lname, Xl in layouts.items():
                        assert np.array_equal(Xl, X)
                        try:
                            Tl = np.asarray(T(Xl), float)
                        except Exception as e:
                            ck.violation(dict(sig, clause="layout-exception"), dict(base, layout=lname), f"{lname} input: {type(e).__name__}: {e}")
                            continue
                        dl = np.abs(Tl - TX).max() / (np.abs(TX).max() + 1e-300) if Tl.shape == TX.shape else np.inf
                        if not dl <= 1e-12:
                            ck.violation(dict(sig, clause="memory-layout"), dict(base, layout=lname, X=X.tolist()),
                                         f"the same pixel values as a {lname} array give a result different by {dl:.3g} (relative)")
                        if lname == "read-only":
                            continue
                        if not np.array_equal(Xl, X):
                            ck.violation(dict(sig, clause="layout-input-modified"), dict(base, layout=lname), f"the {lname} input array was modified")
            except Exception as e:
                ck.violation(dict(sig, clause="exception"), base, f"{type(e).__name__}: {e}")
    # the narrowest admissible half-images (e.g. quadrants of 3- and 5-column images): still a fixed linear operator, or a refusal
    for label, name, f, d, opts in cases():
        for n in (2, 3):
            X, Y = rng.normal(size=(3, n)), rng.normal(size=(3, n))
            T = lambda Z: quiet(f, Z, direction=d, **opts)
            sig = dict(site=name, direction=d, opts=label.split("/")[-1])
            base = dict(method=name, direction=d, opts={k: (list(v) if isinstance(v, tuple) else v) for k, v in opts.items()}, n=n)
            ck.count(("S.lin-narrow", label, n), suite="S.linearity")
            try:
                t1 = np.array(T(X), dtype=float)
                np.zeros((64, 64)) + rng.normal()            # (stir the allocator: uninitialised output would show)
                junk = rng.normal(size=(3, n)) * 1e150
                del junk
                t2 = np.array(T(X), dtype=float)
            except Exception:
                continue                                      # refusing a width is not a linearity defect (C20 owns refusals)
            if not (np.all(np.isfinite(t1)) and np.array_equal(t1, t2)):
                ck.violation(dict(sig, clause="fixed-operator-narrow"), dict(base, X=X.tolist(), first=t1.tolist(), second=t2.tolist()),
                             f"{n}-column half-image: two identical calls returned different or non-finite results")
                continue
            df = lin_defect(T, X, Y, 1.5, -0.5)
            if not (df <= 1e-9):
                ck.violation(dict(sig, clause="linearity"), dict(base, a=1.5, b=-0.5, X=X.tolist(), Y=Y.tolist()),
                             f"{n}-column half-image: T(aX+bY) != aT(X)+bT(Y), relative defect {df:.3g}")
    ck.sample(dict(suite="S.linearity", example_case=cases()[3][0], sizes=sizes))


def oracle_nnls(ck, tier, deep):
    import abel
    rng = np.random.default_rng(seed() + 44)
    for _ in range(6 if not deep else 30):
        n = int(rng.integers(6, 20))
        src = np.abs(rng.normal(size=(2, n))) * (rng.random((2, n)) < 0.7)
        for degree in (0, 1, 2, 3):
            P = quiet(abel.daun.daun_transform, src, degree=degree, direction="forward") + 0.05 * rng.normal(size=(2, n))
            lam = float(rng.choice([0.01, 0.5, 3.0, 250.0, 1e-9, 1e-12, 1e9]))           # any positive constant (small physical units too)
            ck.count(("S.nnls.daun", degree, n), suite="S.nnls")
            A = quiet(abel.daun.daun_transform, P, degree=degree, reg="nonneg")
            B = quiet(abel.daun.daun_transform, lam * P, degree=degree, reg="nonneg")
            dev = np.abs(B - lam * A).max() / (lam * np.abs(A).max() + 1e-300)
            if dev > 1e-8 or A.min() < 0:
                ck.violation(dict(site="daun", clause="nnls-homogeneity"), dict(degree=degree, lam=lam, P=P.tolist()),
                             f"daun reg='nonneg': T(λP) != λT(P) (rel {dev:.3g}) or negative output {A.min():.3g}")
            # the pixel size scales the non-negative solution like every other inverse transform: T(P, dr) = T(P, 1)/dr — also through Transform
            drv = float(rng.choice([0.25, 0.5, 2.0, 2.5]))
            Ad = quiet(abel.daun.daun_transform, P, degree=degree, reg="nonneg", dr=drv)
            if np.abs(Ad * drv - A).max() > 1e-10 * max(1e-300, np.abs(A).max()):
                ck.violation(dict(site="daun", clause="nnls-dr-scaling"), dict(degree=degree, dr=drv, P=P.tolist()),
                             f"daun reg='nonneg', dr={drv}: result is not (1/dr) x the dr=1 result (rel {np.abs(Ad * drv - A).max() / (np.abs(A).max() + 1e-300):.3g})")
            # detector counts: an integer image is transformed as its float copy
            Pi = np.round(np.abs(P) * 50).astype([np.int64, np.int32, np.uint16][int(rng.integers(0, 3))])
            Ci, Cf = quiet(abel.daun.daun_transform, Pi, degree=degree, reg="nonneg"), quiet(abel.daun.daun_transform, Pi.astype(float), degree=degree, reg="nonneg")
            if np.abs(np.asarray(Ci, float) - Cf).max() > 1e-12 * max(1.0, np.abs(Cf).max()):
                ck.violation(dict(site="daun", clause="nnls-integer-dtype"), dict(degree=degree, dtype=str(Pi.dtype), P=Pi.tolist()),
                             f"daun reg='nonneg': {Pi.dtype} data differ from their float copy by {np.abs(np.asarray(Ci, float) - Cf).max():.3g}")
            # each row is solved on its own: neighbouring rows that are nearly (not exactly) equal keep their own solutions
            P3 = np.vstack([P[0], P[0] * (1 + 3e-6), P[1]])
            C = quiet(abel.daun.daun_transform, P3, degree=degree, reg="nonneg")
            alone = [quiet(abel.daun.daun_transform, row, degree=degree, reg="nonneg") for row in P3]
            if max(np.abs(C[i] - alone[i]).max() for i in range(3)) > 1e-12 * max(1.0, np.abs(C).max()):
                ck.violation(dict(site="daun", clause="nnls-row-independence"), dict(degree=degree, P=P3.tolist()),
                             "daun reg='nonneg': a row transformed inside an image differs from the same row transformed alone")
    for _ in range(3 if not deep else 12):
        n = int(rng.choice([11, 15, 21]))
        im = np.abs(rng.normal(size=(n, n)))
        lam = float(rng.choice([0.02, 7.0]))
        for order in (0, 2, 4):
            ck.count(("S.nnls.rbasex", order, n), suite="S.nnls")
            A, da = quiet(abel.rbasex.rbasex_transform, im, order=order, reg="pos")
            B, db = quiet(abel.rbasex.rbasex_transform, lam * im, order=order, reg="pos")
            dev = np.abs(B - lam * A).max() / (lam * np.abs(A).max() + 1e-300)
            if dev > 1e-8:
                ck.violation(dict(site="rbasex", clause="nnls-homogeneity"), dict(order=order, lam=lam, n=n, image=im.tolist()),
                             f"rbasex reg='pos': T(λ IM) != λ T(IM) (rel {dev:.3g})")


def oracle_units(ck, tier, deep):
    """the unit of length is the caller's: the same profile on an explicit radial grid given in pixels, micrometres or metres is the same
    transform, scaled by the unit (forward) or its inverse — for uniform and non-uniform grids alike (a grid is not "uniform" because
    its spacings differ by less than some absolute amount)"""
    import abel
    rng = np.random.default_rng(seed() + 4404)
    for it in range(6 if not deep else 40):
        n = int(rng.choice([31, 61, 101]))
        i = np.arange(n, dtype=float)
        grids = {"uniform": i * 0.7, "stretched": i * (1 + 0.004 * i), "quadratic": 0.5 * i + 0.01 * i ** 2,
                 "half-pixel": (i + 0.5) * 0.7, "offset": 12.0 + i * (1 + 0.004 * i)}      # (grids that do not start on the axis)
        f = np.exp(-(i / n * 3) ** 2)[None, :] * np.array([[1.0], [0.3]])
        for gname, r in grids.items():
            for direction in ("forward", "inverse"):
                ref = quiet(abel.direct.direct_transform, f, r=r, direction=direction, backend="python")
                for unit in (1e-6, 1e-3, 1e3, 1e-13, 1e-16):
                    ck.count(("S.units", gname, direction, unit), suite="S.linearity")
                    got = quiet(abel.direct.direct_transform, f, r=r * unit, direction=direction, backend="python")
                    want = ref * unit if direction == "forward" else ref / unit
                    dev = np.abs(got - want).max() / (np.abs(want).max() + 1e-300)
                    if not dev <= 1e-9:
                        ck.violation(dict(site="direct", clause="length-unit", direction=direction), dict(grid=gname, n=n, unit=unit, direction=direction),
                                     f"direct {direction} on the {gname} grid given in units of {unit:g}: result is not the pixel-unit result "
                                     f"{'times' if direction == 'forward' else 'divided by'} the unit (rel {dev:.3g})")


def corr_uniformity(ck, tier):
    """abel.direct.is_uniform_sampling vs the Lean model (Model/Grid.lean; Props/C02Grid.lean: the verdict does not depend on the unit of
    length) on uniform, offset, perturbed and smoothly non-uniform grids in units from 1e-18 to 1e+9 (perturbations well away from the
    borderline 1e-13 of the largest coordinate: 1e-16 and below, or 1e-10 and above, relative)"""
    import abel
    from harness.common import arr2h, drive
    rng = np.random.default_rng(seed() + 4242)
    lines, refs = [], []
    for it in range(60 if tier == "quick" else 600):
        n = int(rng.integers(2, 40))
        i = np.arange(n, dtype=float)
        kind = it % 5
        base = [i * float(rng.uniform(0.1, 3)), float(rng.uniform(1, 50)) + i * float(rng.uniform(0.1, 3)), i * (1 + 0.004 * i),
                np.cumsum(1.0007 ** i), i * 0.7][kind]
        if kind == 4 and n > 2:                       # one sample displaced: by rounding-size noise (still uniform) or clearly
            k = int(rng.integers(1, n))
            base = base.copy()
            base[k] += base[-1] * float(rng.choice([1e-17, -1e-17, 1e-9, -1e-7, 1e-3]))
        unit = float(10.0 ** rng.integers(-18, 10))
        r = base * unit
        lines.append(f"isuniform {n} {arr2h(r)}")
        refs.append((kind, n, unit, r, bool(abel.direct.is_uniform_sampling(r))))
    for out, (kind, n, unit, r, got) in zip(drive(lines), refs):
        ck.count(("K.uniform", kind, n > 2, int(np.log10(unit)) // 6), suite="K.uniformity")
        if out.split() != ["ok", "1" if got else "0"]:
            ck.disagree("K.uniformity", dict(kind=kind, n=n, unit=unit, r=r.tolist()),
                        f"is_uniform_sampling says {got}, the Lean model {out} (grid kind {kind}, unit {unit:g})")


def oracle_tools(ck, tier, deep):
    """image tools that are linear by definition + abel.Transform settings"""
    import abel
    from abel.tools import symmetry, center, vmi
    rng = np.random.default_rng(seed() + 444)
    tools = []
    for ax, uq, meth in itertools.product([None, 0, 1, (0, 1)], [(True,) * 4, (True, False, True, True)], ["average", "fourier"]):
        if ax is None and not all(uq):
            continue
        tools.append((f"symmetrise/{ax}/{uq}/{meth}", lambda Z, ax=ax, uq=uq, meth=meth: symmetry.put_image_quadrants(
            symmetry.get_image_quadrants(Z, symmetry_axis=ax, use_quadrants=uq, symmetrize_method=meth), Z.shape, ax)))
    for origin, crop, order in itertools.product([(3, 5), (4.3, 6.6)], ["maintain_size", "valid_region", "maintain_data"], [0, 1, 3]):
        tools.append((f"set_center/{origin}/{crop}/{order}", lambda Z, o=origin, c=crop, k=order: center.set_center(Z, o, crop=c, order=k)))
    for kind in ("int2D", "int3D", "avg2D", "avg3D"):
        tools.append((f"radial_intensity/{kind}", lambda Z, kind=kind: vmi.radial_intensity(kind, Z, origin=(5, 6))[1]))
    tools.append(("angular_integration_3D", lambda Z: vmi.angular_integration_3D(Z, dr=0.5)[1]))
    tools.append(("radial_integration", lambda Z: np.array(vmi.radial_integration(Z, radial_ranges=[(0, 3), (2, 5)])[3])))
    for meth, order, odd in itertools.product(["nearest", "linear"], [0, 2, 4], [False, True]):
        if odd and order == 0:
            continue
        tools.append((f"Distributions/{meth}/{order}/{odd}",
                      lambda Z, m=meth, o=order, od=odd: vmi.Distributions(origin=(5, 6) if od else "cc", rmax="MIN", order=o,
                                                                           odd=od, method=m).image(Z).cos()))
    # one analysis object used for image after image (as rbasex does internally), origin nearer the bottom/right or the top/left edge
    for meth, order, origin, rmax in itertools.product(["nearest", "linear"], [0, 2], [(7, 9), (3, 2), (7, 2)], ["MIN", "all"]):
        D = vmi.Distributions(origin=origin, rmax=rmax, order=order, method=meth)
        tools.append((f"Distributions-reused/{meth}/{order}/{origin}/{rmax}", lambda Z, D=D: D.image(Z).cos()))
    for origin in [(8, 9), (4, 3), (9, 4)]:
        tools.append((f"rbasex/inverse/origin={origin}", lambda Z, o=origin: abel.rbasex.rbasex_transform(Z, origin=o)[0]))
        tools.append((f"rbasex/forward/origin={origin}", lambda Z, o=origin: abel.rbasex.rbasex_transform(Z, origin=o, direction="forward")[1].cos()))
    tools.append(("rbasex/inverse", lambda Z: abel.rbasex.rbasex_transform(Z)[0]))
    tools.append(("rbasex/forward/order4", lambda Z: abel.rbasex.rbasex_transform(Z, direction="forward", order=4)[0]))
    tools.append(("rbasex/L2", lambda Z: abel.rbasex.rbasex_transform(Z, reg=("L2", 5.0))[1].cos()))
    tools.append(("linbasex/image", lambda Z: abel.linbasex.linbasex_transform_full(Z)[0]))
    tools.append(("linbasex/image/3angles", lambda Z: abel.linbasex.linbasex_transform_full(
        Z, proj_angles=[0, np.pi / 4, np.pi / 2], legendre_orders=[0, 2, 4])[0]))
    tools.append(("Distributions/remap/corner", lambda Z: vmi.Distributions(origin=(0, 0), order=2, method="remap").image(Z).cos()))
    tools.append(("Distributions/linear/uint8-weights", lambda Z: vmi.Distributions(
        origin=(5, 6), order=2, weights=np.full(Z.shape, 3, np.uint8)).image(Z).cos()))
    for m, ax, uq, origin in [("hansenlaw", None, (True,) * 4, "none"), ("three_point", 0, (True, True, False, True), (5, 6)),
                              ("daun", 1, (True,) * 4, (4.5, 6.2)), ("basex", (0, 1), (False, True, True, True), "none"),
                              ("onion_bordas", None, (True,) * 4, (6, 5)), ("two_point", (0, 1), (True,) * 4, (5.5, 6.5))]:
        tools.append((f"Transform/{m}/{ax}/{uq}/{origin}", lambda Z, m=m, ax=ax, uq=uq, origin=origin: abel.Transform(
            Z, method=m, symmetry_axis=ax, use_quadrants=uq, origin=origin, transform_options=dict(dr=0.5)).transform))
    reps = 2 if not deep else 8
    for label, T in tools:
        for _ in range(reps):
            X, Y = rng.normal(size=(11, 13)), rng.normal(size=(11, 13))
            if label.startswith(("linbasex", "rbasex")):
                X, Y = rng.normal(size=(13, 13)), rng.normal(size=(13, 13))
            a, b = (float(v) for v in rng.normal(size=2) * 3)
            ck.count(("S.tools", label), suite="S.tools")
            sig = dict(site=label.split("/")[0], clause="linearity", tool=label)
            try:
                df = lin_defect(lambda Z: np.asarray(quiet(T, Z), float), X, Y, a, b)
            except Exception as e:
                ck.violation(dict(sig, clause="exception"), dict(tool=label), f"{type(e).__name__}: {e}")
                break
            if df > 1e-9:
                ck.violation(sig, dict(tool=label, a=a, b=b, X=X.tolist(), Y=Y.tolist()),
                             f"{label}: T(aX+bY) != aT(X)+bT(Y), relative defect {df:.3g}")
                break
            # pixel values, not memory: column-major, strided and read-only images give the result of the row-major copy, unmodified
            big = np.zeros((2 * X.shape[0], 2 * X.shape[1]))
            big[::2, 1::2] = X
            ro = X.copy()
            ro.setflags(write=False)
            try:
                ref = np.asarray(quiet(T, X.copy()), float)
                bad = None
                for lname, Xl in (("fortran", np.asfortranarray(X)), ("strided", big[::2, 1::2]), ("read-only", ro),
                                  ("transposed-copy", np.ascontiguousarray(X.T).T)):
                    keep = Xl.copy()
                    tl = np.asarray(quiet(T, Xl), float)
                    if tl.shape != ref.shape or not np.allclose(tl, ref, rtol=0, atol=1e-12 * max(1.0, float(np.nanmax(np.abs(ref)))), equal_nan=True):
                        bad = (lname, float(np.nanmax(np.abs(tl - ref))) if tl.shape == ref.shape else "shape")
                    elif not np.array_equal(Xl, keep):
                        bad = (lname, "input modified")
                    if bad:
                        break
            except Exception as e:
                ck.violation(dict(sig, clause="layout-exception"), dict(tool=label), f"{type(e).__name__}: {e}")
                break
            if bad:
                ck.violation(dict(sig, clause="memory-layout"), dict(tool=label, layout=bad[0], X=X.tolist()),
                             f"{label}: the same pixel values as a {bad[0]} array: {bad[1] if isinstance(bad[1], str) else 'result differs by %.3g' % bad[1]}")
                break
            # detector counts: an integer image is transformed as its float64 copy (centring with fractional origins included)
            if label.startswith(("Transform/", "linbasex/image", "Distributions/remap/corner", "Distributions/linear/uint8", "symmetrise/", "set_center/")):
                Xi = np.round(X * 40).astype([np.int32, np.uint16, np.int64, np.uint8][int(rng.integers(0, 4))])
                if Xi.dtype == np.uint16:
                    Xi = np.abs(np.round(X * 40)).astype(np.uint16)
                if Xi.dtype == np.uint8:
                    Xi = np.clip(np.abs(np.round(X * 80)), 0, 255).astype(np.uint8)
                try:
                    ti, tf = np.asarray(quiet(T, Xi), float), np.asarray(quiet(T, Xi.astype(np.float64)), float)
                except Exception as e:
                    ck.violation(dict(sig, clause="exception"), dict(tool=label, dtype=str(Xi.dtype)), f"{type(e).__name__}: {e}")
                    break
                if np.abs(ti - tf).max() > 1e-12 * max(1.0, np.abs(tf).max()):
                    ck.violation(dict(sig, clause="integer-dtype"), dict(tool=label, dtype=str(Xi.dtype), X=Xi.tolist()),
                                 f"{label}: {Xi.dtype} image differs from its float64 copy by {np.abs(ti - tf).max():.3g}")
                    break


def corr_recursions(ck, tier):
    """Lean models of the Hansen–Law recursion and of the direct quadrature vs the implementation, row by row"""
    import abel
    from harness.common import drive, h2arr, arr2h, f2h
    rng = np.random.default_rng(seed() + 404)
    sizes = [2, 3, 4, 5, 9, 26, 60] if tier == "quick" else [2, 3, 4, 5, 6, 9, 26, 60, 101, 201, 301]
    lines, meta = [], []
    for n in sizes:
        for dr in (1.0, float(rng.uniform(0.05, 3.0))):
            x = rng.normal(size=n) * rng.uniform(0.1, 10)
            for fwd in (0, 1):
                for opt in (0, 1):
                    lines.append(f"hansen {fwd} {opt} {f2h(dr)} {arr2h(x)}")          # (2 columns: the recursion fills nothing, zeros)
                    meta.append(("hansenlaw", n, dr, fwd, opt, x))
                    if n >= 3:
                        lines.append(f"direct {fwd} {opt} {f2h(dr)} {arr2h(x)}")
                        meta.append(("direct", n, dr, fwd, opt, x))
            if n >= 3:
                lines.append(f"bordas {f2h(dr)} {arr2h(x)}")
                meta.append(("onion_bordas", n, dr, 0, 0, x))
    try:
        replies = drive(lines)
    except Exception as e:
        ck.disagree("K.recursions", dict(), f"driver: {type(e).__name__}: {e}")
        return
    for (meth, n, dr, fwd, opt, x), rep in zip(meta, replies):
        ck.count(("K.rec", meth, n, fwd, opt), suite="K.recursions")
        d = "forward" if fwd else "inverse"
        if meth == "hansenlaw":
            ref = quiet(abel.hansenlaw.hansenlaw_transform, x, dr=dr, direction=d, hold_order=opt)
        elif meth == "onion_bordas":
            ref = quiet(abel.onion_bordas.onion_bordas_transform, x, dr=dr, shift_grid=False)
        else:
            ref = quiet(abel.direct.direct_transform, x, dr=dr, direction=d, correction=bool(opt), backend="python")
        t = rep.split()
        got = h2arr(t[3:]) if t and t[0] == "ok" else None
        tol = 1e-13 * (1 + (n / 50.0) ** 2)          # cancellation in B0 = γ1 − γ0 (n−1) grows with n in both implementations
        if meth == "hansenlaw" and opt == 1:
            tol *= 10                                # … and most in the first-order hold (measured: up to 1.4e-13·(1 + (n/50)²), the two
                                                     # evaluation orders differ by rounding only; a changed constant shows at 1e-6 and above)
        if got is None or got.shape != np.shape(ref) or not np.abs(got - ref).max() <= tol * max(1.0, np.abs(ref).max()):
            ck.disagree("K.recursions", dict(method=meth, n=n, dr=dr, direction=d, option=opt, row=x.tolist()),
                        f"Lean model of {meth} differs from the implementation by "
                        f"{'shape/bad-op' if got is None or got.shape != np.shape(ref) else np.abs(got - ref).max()}")
    ck.sample(dict(suite="K.recursions", example=dict(method="hansenlaw", n=sizes[-1], directions=2, hold_orders=2)))


def run(tier):
    ck = Check("C04", tier)
    deep = tier == "thorough"
    ck.cov["rule"] = ("every half-image method x direction x option set (harness/methods.py: 8 methods, 26 option sets) x "
                      "sizes {5,12,31} (thorough {3,5,8,12,31,64}) x random pairs with negative entries and random (a,b): "
                      "fixed-operator form T(X)==X@M, linearity, row independence (bit-for-bit), dr scaling, uint8/int32 "
                      "inputs; NNLS positive homogeneity (daun nonneg deg 0-3, rbasex pos); image tools and "
                      "abel.Transform settings. distinct = (suite, case label, size)")
    ck.cov["trusted_base"] = ["Lean 4.33 kernel", "axioms propext/Classical.choice/Quot.sound",
                              "theorems are about the matrix / triangular-solve forms; that each implementation *is* such "
                              "a fixed form is checked numerically (K.fixed-operator) for the sizes explored",
                              "hansenlaw, direct (python backend) and onion_bordas (shift_grid=False) are modelled in Lean "
                              "(Model/Recursions.lean, correspondence K.recursions to 1e-13); the scipy half-pixel shift of "
                              "onion_bordas shift_grid=True is covered by K.fixed-operator + S only",
                              "scipy nnls / lstsq / ndimage.shift are external"]
    ck.cov["unproved_clauses"] = ["linearity of scipy.ndimage.shift in onion_bordas shift_grid=True (measured)",
                                  "linearity of image tools using scipy resampling (measured)"]
    ck.cov["source_fingerprint"] = source_fingerprint(["abel/hansenlaw.py", "abel/daun.py", "abel/dasch.py", "abel/basex.py",
                                                       "abel/direct.py", "abel/onion_bordas.py"])
    import subprocess
    from harness.common import VERIF
    p = subprocess.run(["/venv/bin/python", str(VERIF / "harness" / "gen_tables.py")], capture_output=True, text=True)
    if p.returncode != 0:
        ck.broken.append(dict(kind="translator", module="gen_tables", why=(p.stderr or p.stdout)[-800:]))
    ck.proofs("PyAbel.Props.C04")
    ck.proofs("PyAbel.Props.C04Recursions")
    ck.proofs("PyAbel.Props.C02Grid")          # the uniformity test of explicit radial grids is independent of the unit of length
    ok, log = ensure_driver()
    if ok:
        corr_operators(ck, tier)
        corr_recursions(ck, tier)
        corr_uniformity(ck, tier)
    else:
        ck.broken.append(dict(kind="proof", module="pyabel_drv", why="driver build failed", log=log[-1500:]))
    oracle_methods(ck, tier, deep or bool(ck.broken))
    oracle_nnls(ck, tier, deep)
    oracle_tools(ck, tier, deep)
    oracle_units(ck, tier, deep)
    return ck.finish()


def replay(path):
    rec = json.loads(open(path).read())
    print(json.dumps({k: v for k, v in rec.items() if k != "replay"}, indent=1, default=str)[:2000])
    r = rec.get("replay", {})
    print({k: v for k, v in r.items() if k not in ("X", "Y", "P", "image")})
    return 1
