"""
C19 — polar tools honour the angle convention and the integration Jacobians.

proofs : lean/PyAbel/Props/C19.lean (exact polar round trip with arctan2 = arg; angle convention; index_coords;
         sample positions; int2D = 2πr·avg2D, int3D = 4πr²·avg3D; toPES conservation; circularize with a constant)
K      : cart2polar / polar2cart / index_coords / the four radial_intensity kinds (with a stubbed polar image) / toPES
         vs the Lean model
S      : the clauses of the property on random coordinates, images, grids; isotropic profiles and conservation to
         quadrature accuracy; circularize with constant corrections and on circular images; integer / float32 / boolean images =
         their float64 copies through every polar tool
"""
import json

import numpy as np

from harness.common import Check, arr2h, drive, ensure_driver, f2h, h2arr, seed, source_fingerprint
from harness.methods import quiet
from harness.props.c05 import patched

KINDS = ["int2D", "int3D", "avg2D", "avg3D"]


def close(a, b, tol):
    a, b = np.asarray(a, float), np.asarray(b, float)
    return a.shape == b.shape and bool(np.all(np.abs(a - b) <= tol * np.maximum(1.0, np.abs(b))))


def correspondence(ck, tier):
    from abel.tools import polar, vmi
    rng = np.random.default_rng(seed() + 19)
    n = 300 if tier == "quick" else 3000
    pts = rng.normal(size=(n, 2)) * rng.choice([1e-3, 1, 50, 1e4], size=(n, 1))
    pts[:8] = [(0, 0), (0, 1), (1, 0), (0, -1), (-1, 0), (1, 1), (-1, -1), (3, -4)]
    rep = drive([f"c2p {f2h(x)} {f2h(y)}" for x, y in pts])
    pol = []
    for (x, y), line in zip(pts, rep):
        ck.count(("K.c2p", int(np.sign(x)), int(np.sign(y))), suite="K.coords")
        m = h2arr(line.split()[3:])
        r, t = polar.cart2polar(x, y)
        pol.append((r, t))
        if not (close(r, m[0], 4e-16) and abs(t - m[1]) <= 4e-16 * max(1, abs(t))):
            ck.disagree("K.coords", dict(x=float(x), y=float(y)), f"cart2polar: implementation {(r, t)}, model {tuple(m)}")
    rep = drive([f"p2c {f2h(r)} {f2h(t)}" for r, t in pol])
    for (r, t), line in zip(pol, rep):
        m = h2arr(line.split()[3:])
        x, y = polar.polar2cart(r, t)
        if not (close(x, m[0], 4e-16) and close(y, m[1], 4e-16)) and abs(x - m[0]) + abs(y - m[1]) > 1e-15 * max(1, r):
            ck.disagree("K.coords", dict(r=float(r), theta=float(t)), f"polar2cart: implementation {(x, y)}, model {tuple(m)}")
    lines, cases = [], []
    for _ in range(n):
        rows, cols = (int(v) for v in rng.integers(1, 12, size=2))
        orow, ocol = int(rng.integers(-rows, rows)), int(rng.integers(-cols, cols))
        row, col = int(rng.integers(0, rows)), int(rng.integers(0, cols))
        lines.append(f"idx {rows} {cols} {orow} {ocol} {row} {col}")
        cases.append((rows, cols, orow, ocol, row, col))
    for (rows, cols, orow, ocol, row, col), line in zip(cases, drive(lines)):
        ck.count(("K.idx", orow < 0, ocol < 0, rows % 2, cols % 2), suite="K.coords")
        x, y = polar.index_coords(np.zeros((rows, cols)), origin=(orow, ocol))
        mx, my = (int(v) for v in line.split()[1:])
        if (x[row, col], y[row, col]) != (mx, my):
            ck.disagree("K.coords", dict(shape=[rows, cols], origin=[orow, ocol], pixel=[row, col]),
                        f"index_coords: implementation {(x[row, col], y[row, col])}, model {(mx, my)}")
    # … and without an origin (the pole is the centre pixel, Model/Polar `indexCoordsDefault`, Props/C19 `index_coords_default`)
    lines, cases = [], []
    for _ in range(n // 2):
        rows, cols = (int(v) for v in rng.integers(1, 14, size=2))
        row, col = int(rng.integers(0, rows)), int(rng.integers(0, cols))
        lines.append(f"idx0 {rows} {cols} {row} {col}")
        cases.append((rows, cols, row, col))
    for (rows, cols, row, col), line in zip(cases, drive(lines)):
        ck.count(("K.idx0", rows % 2, cols % 2, rows == cols), suite="K.coords")
        x, y = polar.index_coords(np.zeros((rows, cols)))
        mx, my = (int(v) for v in line.split()[1:]) if line.startswith("ok") else (None, None)
        if (x[row, col], y[row, col]) != (mx, my):
            ck.disagree("K.coords", dict(shape=[rows, cols], origin=None, pixel=[row, col]),
                        f"index_coords without an origin: implementation {(x[row, col], y[row, col])}, model {(mx, my)}")
    # radial_intensity arithmetic on a stubbed polar image
    for _ in range(40 if tier == "quick" else 400):
        nr, nt = int(rng.integers(2, 9)), int(rng.integers(3, 12))
        P = rng.normal(size=(nr, nt))
        r_i = np.sort(rng.random(nr)) * 20
        t_i = np.linspace(-np.pi, np.pi, nt, endpoint=False) + rng.uniform(0, 0.1)
        T, R = np.meshgrid(t_i, r_i)
        stub = lambda IM, origin=None, Jacobian=False, dr=1, dt=None: (P.copy(), R.copy(), T.copy())
        for ki, kind in enumerate(KINDS):
            ck.count(("K.radint", kind, nr, nt), suite="K.radial_intensity")
            with patched("abel.tools.vmi", "reproject_image_into_polar", stub):
                r, I = vmi.radial_intensity(kind, np.zeros((3, 3)))
            k = int(rng.integers(0, nr))
            dt = T[0, 1] - T[0, 0]
            m = h2arr(drive([f"radint {ki} {nt} {f2h(R[k, 0])} {f2h(dt)} {arr2h(T[0])} {arr2h(P[k])}"])[0].split()[3:])[0]
            if abs(I[k] - m) > 1e-13 * max(1.0, np.abs(P[k]).sum() * max(1, R[k, 0] ** 2)):
                ck.disagree("K.radial_intensity", dict(kind=kind, nr=nr, nt=nt, k=k), f"implementation {I[k]}, model {m}")
    # toPES
    for _ in range(40 if tier == "quick" else 400):
        n = int(rng.integers(2, 30))
        radial = (np.arange(n) + float(rng.choice([0.0, 0.0, 0.5, 0.7071]))) * float(rng.choice([1.0, 0.5, 2.0]))      # (grids off the axis too)
        inten = rng.random(n)
        c = float(rng.uniform(0.1, 5))
        ck.count(("K.topes", n % 4, radial[0] == 0), suite="K.toPES")
        e, p = vmi.toPES(radial, inten.copy(), c)
        m = h2arr(drive([f"topes {n} {f2h(c)} {arr2h(radial)} {arr2h(inten)}"])[0].split()[3:]).reshape(2, n)
        if not (close(e, m[0], 1e-15) and close(p, m[1], 1e-15)):
            ck.disagree("K.toPES", dict(n=n, c=c), "toPES differs from the model")
    # … with its options: repeller voltage x zoom, photon energy, intensity per energy or per pixel (the model leaves the samples in radial
    # order; the implementation sorts them by energy)
    for _ in range(40 if tier == "quick" else 400):
        n = int(rng.integers(2, 30))
        radial = (np.arange(n) + float(rng.choice([0.0, 0.5]))) * float(rng.choice([1.0, 0.5, 2.0]))
        inten = rng.random(n)
        c = float(rng.uniform(0.1, 5))
        vrep = None if rng.random() < 0.4 else -float(rng.uniform(50, 3000))
        zoom = float(rng.choice([1.0, 0.5, 2.0, 501 / 2048]))
        hv = None if rng.random() < 0.5 else float(rng.uniform(0.5, 2.0) * c * radial[-1] ** 2 * (abs(vrep) if vrep else 1))
        per = bool(rng.integers(0, 2))
        ck.count(("K.topes-opts", vrep is None, zoom == 1.0, hv is None, per), suite="K.toPES")
        e, p = vmi.toPES(radial, inten.copy(), c, photon_energy=hv, Vrep=vrep, zoom=zoom, per_energy_scaling=per)
        m = h2arr(drive([f"topes2 {n} {f2h(c)} {int(vrep is not None)} {f2h(vrep or 0.0)} {f2h(zoom)} {int(hv is not None)} {f2h(hv or 0.0)} {int(per)} "
                         f"{arr2h(radial)} {arr2h(inten)}"])[0].split()[3:]).reshape(2, n)
        order = np.argsort(m[0], kind="stable")
        if not (close(e, m[0][order], 1e-14) and close(p, m[1][order], 1e-14)):
            ck.disagree("K.toPES", dict(n=n, c=c, Vrep=vrep, zoom=zoom, photon_energy=hv, per_energy_scaling=per), "toPES with options differs from the model")
    ck.sample(dict(suite="K.coords", point=[float(pts[8][0]), float(pts[8][1])], polar=[float(v) for v in pol[8]]))


def oracle(ck, tier, deep):
    from abel.tools import polar, vmi, circularize
    rng = np.random.default_rng(seed() + 1919)
    n = 300 if not deep else 5000
    for _ in range(n):
        x, y = rng.normal(size=2) * rng.choice([1e-6, 1, 300])
        ck.count(("S.roundtrip", int(np.sign(x)), int(np.sign(y))), suite="S.coords")
        r, t = polar.cart2polar(x, y)
        x2, y2 = polar.polar2cart(r, t)
        if abs(x2 - x) + abs(y2 - y) > 4e-16 * max(1e-300, r) * 4:
            ck.violation(dict(site="cart2polar", clause="roundtrip"), dict(x=float(x), y=float(y)), f"round trip gives {(x2, y2)}")
    for (x, y, want) in ((0, 1, 0.0), (1, 0, np.pi / 2), (0, -1, np.pi), (-1, 0, -np.pi / 2), (1, 1, np.pi / 4)):
        r, t = polar.cart2polar(float(x), float(y))
        ck.count(("S.angle", x, y), suite="S.coords")
        if abs(t - want) > 1e-15 and not (abs(want) == np.pi and abs(abs(t) - np.pi) < 1e-15):
            ck.violation(dict(site="cart2polar", clause="angle-convention"), dict(x=x, y=y), f"theta={t}, expected {want}")
    for _ in range(n // 3):
        rows, cols = (int(v) for v in rng.integers(2, 30, size=2))
        o = (int(rng.integers(-rows, rows)), int(rng.integers(-cols, cols)))
        ck.count(("S.idx", o[0] < 0, o[1] < 0), suite="S.coords")
        X, Y = polar.index_coords(np.zeros((rows, cols)), origin=o)
        oo = (o[0] % rows, o[1] % cols)
        if X[oo] != 0 or Y[oo] != 0 or X[oo[0], min(cols - 1, oo[1] + 1)] < 0 or (oo[0] > 0 and Y[oo[0] - 1, oo[1]] != 1):
            ck.violation(dict(site="index_coords", clause="origin"), dict(shape=[rows, cols], origin=list(o)),
                         "(0,0) is not at the requested origin, or the axes do not point right/up")
    # without an origin the pole is the centre pixel (rows // 2, cols // 2) — of non-square frames too
    for (rows, cols) in ((5, 9), (12, 4), (1, 7), (8, 8), (7, 2), (3, 30)):
        ck.count(("S.idx-default", rows, cols), suite="S.coords")
        X, Y = polar.index_coords(np.zeros((rows, cols)))
        X2, Y2 = polar.index_coords(np.zeros((rows, cols)), origin=(rows // 2, cols // 2))
        if not (np.array_equal(X, X2) and np.array_equal(Y, Y2)) or X[rows // 2, cols // 2] != 0 or Y[rows // 2, cols // 2] != 0:
            ck.violation(dict(site="index_coords", clause="default-origin"), dict(shape=[rows, cols]),
                         f"index_coords of a {rows}x{cols} frame without an origin does not put (0, 0) at pixel {(rows // 2, cols // 2)}")
    # the pole may lie on or beyond the last row / column, at fractional positions too: x = col − ox, y = oy − row everywhere
    for _ in range(n // 3):
        rows, cols = (int(v) for v in rng.integers(2, 30, size=2))
        o = (float(rng.uniform(-rows, 2.5 * rows)), float(rng.uniform(-cols, 2.5 * cols)))
        if rng.random() < 0.5:
            o = (float(np.round(o[0])), float(np.round(o[1])))
        ck.count(("S.idx-any", o[0] >= rows, o[1] >= cols, o[0] == round(o[0])), suite="S.coords")
        X, Y = polar.index_coords(np.zeros((rows, cols)), origin=o)
        oy, ox = (o[0] + rows if o[0] < 0 else o[0]), (o[1] + cols if o[1] < 0 else o[1])
        if np.abs(X - (np.arange(cols)[None, :] - ox)).max() > 1e-12 or np.abs(Y - (oy - np.arange(rows)[:, None])).max() > 1e-12:
            ck.violation(dict(site="index_coords", clause="origin"), dict(shape=[rows, cols], origin=list(o)),
                         "coordinates are not (col − origin_x, origin_y − row) for this origin")
    # reproject_image_into_polar asks the resampler for exactly the polar positions (resampler replaced by a recorder)
    for _ in range(40 if not deep else 300):
        rows, cols = (int(v) for v in rng.integers(3, 40, size=2))
        o = (int(rng.integers(-rows, rows)), int(rng.integers(-cols, cols))) if rng.random() < 0.7 else None
        dr, dt = float(rng.choice([1.0, 0.5, 2.0])), (None if rng.random() < 0.5 else float(rng.uniform(0.05, 0.3)))
        ck.count(("S.reproject", rows % 2, cols % 2, dr, dt is None, o is None), suite="S.reproject")
        seen = {}

        def recorder(data, coords, output=None, **kw):
            seen["coords"] = np.array(coords)
            return np.zeros(np.shape(coords)[1])
        im = rng.random((rows, cols))
        with patched("abel.tools.polar", "map_coordinates", recorder):
            out, R, T = polar.reproject_image_into_polar(im, origin=o, dr=dr, dt=dt)
        oo = (rows // 2, cols // 2) if o is None else (o[0] % rows, o[1] % cols)
        prow, pcol = oo[0] - R * np.cos(T), oo[1] + R * np.sin(T)
        got = seen["coords"].reshape((2,) + R.shape)
        dev = max(np.abs(got[0] - prow).max(), np.abs(got[1] - pcol).max())
        rep = dict(shape=[rows, cols], origin=None if o is None else list(o), dr=dr, dt=dt)
        if dev > 1e-12 * max(rows, cols):
            ck.violation(dict(site="reproject_image_into_polar", clause="sample-positions"), rep,
                         f"samples are not taken at (o_r - r cos t, o_c + r sin t): off by {dev:.3g} px")
        if R.shape[0] > 1 and abs(R[1, 0] - R[0, 0] - (R[-1, 0] - R[0, 0]) / (R.shape[0] - 1)) > 1e-9:
            ck.violation(dict(site="reproject_image_into_polar", clause="uniform-grid"), rep, "radial grid is not uniform")
        if R.shape[0] > 2 and not (0.5 * dr <= R[1, 0] - R[0, 0] <= 1.0001 * dr):
            ck.violation(dict(site="reproject_image_into_polar", clause="dr-grid"), rep, f"radial step {R[1, 0] - R[0, 0]} for dr={dr}")
    # … and what comes back is the image at those positions: where a polar position lies outside the frame there is no image (0),
    # also when the frame's border is bright (background, signal reaching the edge, origin near an edge); total intensity is then
    # still that of the pixels
    for _ in range(20 if not deep else 150):
        rows, cols = (int(v) for v in rng.integers(12, 40, size=2))
        o = (int(rng.integers(0, rows)), int(rng.integers(0, cols)))
        if rng.random() < 0.3:
            o = (o[0] - rows, o[1] - cols)                 # the same point counted from the end
        im = 1.0 + rng.random((rows, cols))
        ck.count(("S.reproject-border", rows % 2, cols % 2, o[0] < 0), suite="S.reproject")
        rep = dict(shape=[rows, cols], origin=list(o), image="1 + uniform noise (bright border)")
        try:
            out, R, T = quiet(polar.reproject_image_into_polar, im, origin=o)
        except Exception as e:
            ck.violation(dict(site="reproject_image_into_polar", clause="exception"), rep, f"{type(e).__name__}: {e}")
            continue
        oo = (o[0] % rows, o[1] % cols)
        prow, pcol = oo[0] - R * np.cos(T), oo[1] + R * np.sin(T)
        outside = (prow < -1) | (prow > rows) | (pcol < -1) | (pcol > cols)
        inside = (prow >= 1) & (prow <= rows - 2) & (pcol >= 1) & (pcol <= cols - 2)
        if outside.any() and np.abs(out[outside]).max() != 0:
            ck.violation(dict(site="reproject_image_into_polar", clause="outside-is-empty"), rep,
                         f"polar positions outside the {rows}x{cols} frame return up to {np.abs(out[outside]).max():.3g} instead of 0")
            continue
        if inside.any() and (out[inside].min() < 0.7 or out[inside].max() > 2.3):
            ck.violation(dict(site="reproject_image_into_polar", clause="inside-is-image"), rep,
                         f"polar samples well inside the frame range over [{out[inside].min():.3g}, {out[inside].max():.3g}], the image over [1, 2]")
            continue
        rr, I2 = quiet(vmi.radial_intensity, "int2D", im, origin=o)
        tot = float(np.sum(I2) * (rr[1] - rr[0]))
        if not (0.7 * im.sum() <= tot <= 1.15 * im.sum()):        # (0.79 … 0.98 on frames this small: edge pixels are only partly sampled)
            ck.violation(dict(site="radial_intensity", clause="conservation-bright-border"), rep,
                         f"Σ int2D·dr = {tot:.6g} for an image with total intensity {im.sum():.6g}")
    # Jacobians, isotropic profile, conservation
    for _ in range(25 if not deep else 200):
        nimg = int(rng.choice([81, 101, 121]))
        o = (nimg // 2 + int(rng.integers(-3, 4)), nimg // 2 + int(rng.integers(-3, 4)))
        yy, xx = np.mgrid[:nimg, :nimg]
        r = np.hypot(yy - o[0], xx - o[1])
        w, r0 = rng.uniform(4, 8), rng.uniform(8, 20)
        prof = lambda q: np.exp(-(q - r0) ** 2 / w ** 2) + 0.5 * np.exp(-q ** 2 / (2 * w) ** 2)
        im = prof(r)
        dr = float(rng.choice([1.0, 0.5]))
        ck.count(("S.jacobian", nimg, dr), suite="S.jacobians")
        res = {k: vmi.radial_intensity(k, im, origin=o, dr=dr) for k in KINDS}
        rg = res["int2D"][0]
        rep = dict(n=nimg, origin=list(o), dr=dr, r0=r0, w=w)
        d2 = np.abs(res["int2D"][1] - 2 * np.pi * rg * res["avg2D"][1]).max()
        d3 = np.abs(res["int3D"][1] - 4 * np.pi * rg ** 2 * res["avg3D"][1]).max()
        if d2 > 1e-12 * np.abs(res["int2D"][1]).max():
            ck.violation(dict(site="radial_intensity", clause="int2D=2πr·avg2D"), rep, f"defect {d2:.3g}")
        if d3 > 1e-12 * np.abs(res["int3D"][1]).max():
            ck.violation(dict(site="radial_intensity", clause="int3D=4πr²·avg3D"), rep, f"defect {d3:.3g}")
        sel = (rg > 2) & (rg < nimg // 2 - 6)
        for k in ("avg2D", "avg3D"):
            dev = np.abs(res[k][1] - prof(rg))[sel].max()
            if dev > 2e-2:
                ck.violation(dict(site="radial_intensity", clause="isotropic-profile", kind=k), rep, f"{k} differs from the radial profile by {dev:.3g}")
        tot = im.sum()
        est = res["int2D"][1].sum() * dr
        if abs(est - tot) > 2e-2 * tot:
            ck.violation(dict(site="radial_intensity", clause="conserves-total"), rep, f"integral of int2D {est:.6g} vs image sum {tot:.6g}")
        wrappers = {"int2D": vmi.angular_integration_2D, "int3D": vmi.angular_integration_3D, "avg2D": vmi.average_radial_intensity_2D,
                    "avg3D": vmi.average_radial_intensity_3D}
        for k, wf in wrappers.items():           # the four named wrappers are radial_intensity(kind, …) with the same origin / dr / dt
            wr = quiet(wf, im, origin=o, dr=dr)
            if not (np.array_equal(wr[0], res[k][0]) and np.array_equal(wr[1], res[k][1])):
                ck.violation(dict(site=wf.__name__, clause="wrapper"), rep, f"{wf.__name__}(origin={o}, dr={dr}) differs from radial_intensity('{k}', …)")
    # the Jacobian identities are exact wherever the origin is — on an edge, in a corner, counted from the end — and on any frame
    for _ in range(30 if not deep else 200):
        rows, cols = (int(v) for v in rng.integers(15, 60, size=2))
        place = int(rng.integers(0, 4))
        o = [(int(rng.integers(0, rows)), 0), (int(rng.integers(0, rows)), cols - 1), (int(rng.choice([0, rows - 1])), int(rng.integers(0, cols))),
             (int(rng.choice([0, rows - 1])), int(rng.choice([0, cols - 1])))][place]
        if rng.random() < 0.3:
            o = (o[0] - rows, o[1] - cols)
        im = rng.random((rows, cols)) + 0.1
        dr = float(rng.choice([1.0, 0.5, 2.0]))
        ck.count(("S.jacobian-edge", place, o[0] < 0, dr), suite="S.jacobians")
        rep = dict(shape=[rows, cols], origin=list(o), dr=dr)
        try:
            res = {k: quiet(vmi.radial_intensity, k, im, origin=o, dr=dr) for k in KINDS}
        except Exception as e:
            ck.violation(dict(site="radial_intensity", clause="exception"), rep, f"{type(e).__name__}: {e}")
            continue
        rg = res["int2D"][0]
        d2 = np.abs(res["int2D"][1] - 2 * np.pi * rg * res["avg2D"][1]).max()
        d3 = np.abs(res["int3D"][1] - 4 * np.pi * rg ** 2 * res["avg3D"][1]).max()
        if d2 > 1e-12 * np.abs(res["int2D"][1]).max():
            ck.violation(dict(site="radial_intensity", clause="int2D=2πr·avg2D"), rep, f"origin {o} on the frame's border: defect {d2:.3g}")
        if d3 > 1e-12 * np.abs(res["int3D"][1]).max():
            ck.violation(dict(site="radial_intensity", clause="int3D=4πr²·avg3D"), rep, f"origin {o} on the frame's border: defect {d3:.3g}")
    # toPES conservation
    for _ in range(40 if not deep else 400):
        K = int(rng.integers(20, 200))
        dr = float(rng.choice([1.0, 0.5, 0.25]))
        radial = np.arange(K + 1) * dr
        inten = np.sin(np.pi * np.arange(K + 1) / K) ** 2 * (1 + 0.5 * np.cos(radial))
        inten[0] = inten[-1] = 0
        c = float(rng.uniform(1e-3, 10))
        pe = None if rng.random() < 0.5 else float(c * radial[-1] ** 2 * 1.5)
        vrep = None if rng.random() < 0.6 else -float(rng.uniform(100, 3000))
        ck.count(("S.topes", K % 5, dr, pe is None, vrep is None), suite="S.toPES")
        keep = inten.copy()
        vmi.toPES(radial, inten, c)                      # a first conversion of the same profile (another calibration) …
        zoom = 1 if rng.random() < 0.4 else float(rng.choice([0.5, 2.0, 501 / 2048]))          # (with or without a repeller voltage)
        E, P = vmi.toPES(radial, inten, c, photon_energy=pe, Vrep=vrep, zoom=zoom)          # … must not have consumed it
        if not np.array_equal(inten, keep):
            ck.violation(dict(site="toPES", clause="argument-modified"), dict(K=K, dr=dr, c=c), "toPES modified the intensity array passed to it")
            inten = keep
        lhs = np.sum((P[1:] + P[:-1]) / 2 * np.diff(E))
        rhs = np.sum((inten[1:] + inten[:-1]) / 2 * np.diff(radial))
        if abs(abs(lhs) - rhs) > 1e-12 * rhs:
            ck.violation(dict(site="toPES", clause="conservation"), dict(K=K, dr=dr, c=c, photon_energy=pe, Vrep=vrep, zoom=zoom),
                         f"integrated PES {lhs:.12g} vs integrated intensity {rhs:.12g}")
    # … and the Jacobian dE = 2 c r dr is linear in the calibration factor: c·P is the same spectrum for every c, sample by sample —
    # also for profiles that do not vanish on the axis (avg-type profiles, central spots, grids not starting at r = 0)
    for _ in range(30 if not deep else 200):
        K = int(rng.integers(10, 120))
        start = 0.0 if rng.random() < 0.6 else float(rng.uniform(0.5, 4))
        radial = start + np.arange(K + 1) * float(rng.choice([1.0, 0.5]))
        inten = np.exp(-radial ** 2 / (0.1 * K) ** 2) + 0.3 + 0.1 * rng.random(K + 1)
        c1, c2 = float(rng.uniform(1e-3, 10)), float(rng.uniform(20, 300))
        ck.count(("S.topes-cal", start == 0), suite="S.toPES")
        # (the calibration factor may come out of an array; with a repeller voltage it is rescaled inside — not in the caller's array)
        c_arr = np.array(c1)
        vmi.toPES(radial, inten.copy(), c_arr, Vrep=-float(rng.uniform(100, 3000)))
        if float(c_arr) != c1:
            ck.violation(dict(site="toPES", clause="argument-modified"), dict(K=K, c=c1, now=float(c_arr)),
                         f"toPES(..., energy_cal_factor=np.array({c1}), Vrep=…) changed the caller's array to {float(c_arr)}")
        E1, P1 = vmi.toPES(radial, inten.copy(), c1)
        E2, P2 = vmi.toPES(radial, inten.copy(), c2)
        # the Jacobian dE/dr = 2 c r at every sample with r > 0, the first one included when the grid does not start on the axis
        k0 = 1 if radial[0] == 0 else 0
        want = inten[k0:] / (2 * radial[k0:] * c1)
        if np.abs(P1[k0:] - want).max() > 1e-12 * np.abs(want).max():
            bad = int(np.argmax(np.abs(P1[k0:] - want))) + k0
            ck.violation(dict(site="toPES", clause="jacobian"), dict(K=K, radial_start=start, c=c1, sample=bad),
                         f"toPES: sample {bad} (r = {radial[bad]}) is {P1[bad]:.6g}, I/(2 c r) = {inten[bad] / (2 * radial[bad] * c1):.6g}")
        F1, Q1 = vmi.toPES(radial, inten.copy(), c1, per_energy_scaling=False)
        rep = dict(K=K, radial_start=start, c1=c1, c2=c2, first_intensity=float(inten[0]))
        if np.abs(P1 * c1 - P2 * c2).max() > 1e-12 * np.abs(P1 * c1).max() or np.abs(E1 / c1 - E2 / c2).max() > 1e-12 * np.abs(E1 / c1).max():
            bad = int(np.argmax(np.abs(P1 * c1 - P2 * c2)))
            ck.violation(dict(site="toPES", clause="calibration-scaling"), rep,
                         f"c·P differs between calibration factors {c1:.4g} and {c2:.4g} (sample {bad}: {P1[bad] * c1:.6g} vs {P2[bad] * c2:.6g})")
        elif np.abs(Q1 - P1 * c1).max() > 1e-12 * np.abs(Q1).max() or np.abs(F1 - E1).max() > 0:
            ck.violation(dict(site="toPES", clause="per-pixel"), rep, "per_energy_scaling=False is not c times the per-energy spectrum on the same energy grid")
    # circularize: constant correction / already circular image
    for it in range(12 if not deep else 80):
        nimg = int(rng.choice([51, 101]))
        ncol = nimg if it % 3 else int(rng.choice([nimg - 20, nimg + 14, nimg + 31]))        # non-square frames too
        yy, xx = np.mgrid[:nimg, :ncol]
        yy, xx = yy - nimg // 2, xx - ncol // 2
        r = np.hypot(yy, xx)
        im = np.exp(-(r - min(nimg, ncol) / 4) ** 2 / 9.0) + 0.2 * rng.random((nimg, ncol))
        cval = float(rng.uniform(0.5, 2.0))
        ref = None if rng.random() < 0.5 else float(rng.uniform(-3, 3))
        if it == 0:            # fixed probe of the recorded finding F20
            cval, ref = 1.1697745804289952, None
        ck.count(("S.circ", nimg, (ncol > nimg) - (ncol < nimg), ref is None), suite="S.circularize")
        out = circularize.circularize(im, lambda t: np.full(np.shape(t), cval), ref_angle=ref)
        inner = np.abs(out - im)[1:-1, 1:-1].max()
        border = max(np.abs(out - im)[0].max(), np.abs(out - im)[-1].max(), np.abs(out - im)[:, 0].max(), np.abs(out - im)[:, -1].max())
        rep = dict(shape=[nimg, ncol], constant=cval, ref_angle=ref)
        if inner > 1e-10:
            ck.violation(dict(site="circularize", clause="constant-correction", where="interior"), rep, f"interior changed by {inner:.3g}")
        if border > 1e-10:
            ck.violation(dict(site="circularize", clause="constant-correction", where="border", ref_angle="None" if ref is None else "given"),
                         dict(rep, border_change=float(border)), f"border pixel changed by {border:.3g} with a constant correction")


def integer_coordinates(ck, tier):
    """coordinates are numbers whatever their dtype: integer arrays (pixel offsets in a narrow type) give the polar coordinates of
    the equal floats (repair F69: x**2 + y**2 wrapped around in int8 / int16)"""
    from abel.tools import polar
    rng = np.random.default_rng(seed() + 1969)
    for cast in (np.int8, np.uint8, np.int16, np.uint16, np.int32, np.int64, np.float32):
        info = np.iinfo(cast) if np.issubdtype(cast, np.integer) else None
        hi = min(info.max if info else 3000, 30000)
        lo = max(info.min if info else -3000, -30000)
        x = rng.integers(lo, hi + 1, size=200).astype(cast)
        y = rng.integers(lo, hi + 1, size=200).astype(cast)
        x[:2], y[:2] = (hi, hi), (hi, lo)
        ck.count(("S.int-coords", np.dtype(cast).name), suite="S.coords")
        try:
            r, t = polar.cart2polar(x, y)
            rf, tf = polar.cart2polar(x.astype(np.float64), y.astype(np.float64))
            r0, t0 = polar.cart2polar(x[0], y[0])
        except Exception as e:
            ck.violation(dict(site="cart2polar", clause="integer-coordinates-exception"), dict(dtype=np.dtype(cast).name), f"{type(e).__name__}: {e}")
            continue
        tol = 1e-12 if cast is not np.float32 else 1e-6
        if not (np.allclose(r, rf, rtol=tol, atol=0) and np.allclose(t, tf, rtol=0, atol=tol) and abs(float(r0) - float(rf[0])) <= tol * float(rf[0])):
            k = int(np.argmax(np.abs(np.asarray(r, float) - rf)))
            ck.violation(dict(site="cart2polar", clause="integer-coordinates"), dict(dtype=np.dtype(cast).name, x=int(x[k]), y=int(y[k])),
                         f"cart2polar of {np.dtype(cast).name} coordinates ({x[k]}, {y[k]}): r = {np.asarray(r, float)[k]:.6g}, for the equal floats {rf[k]:.6g}")


def integer_images(ck, tier):
    """detector frames are arrays of counts: an integer (or float32, or boolean) image gives the polar image, the radial intensities and the
    angular integrals of its float64 copy — interpolated values are not rounded back to whole counts"""
    from abel.tools import polar, vmi
    rng = np.random.default_rng(seed() + 1920)
    tools = [("reproject_image_into_polar", lambda Z: polar.reproject_image_into_polar(Z, origin=(7, 8))[0]),
             ("reproject_image_into_polar/dr,dt", lambda Z: polar.reproject_image_into_polar(Z, dr=0.5, dt=0.2)[0]),
             ("angular_integration_3D", lambda Z: vmi.angular_integration_3D(Z)[1]),
             ("average_radial_intensity_2D", lambda Z: vmi.average_radial_intensity_2D(Z)[1])]
    tools += [(f"radial_intensity/{k}", lambda Z, k=k: vmi.radial_intensity(k, Z)[1]) for k in ("int2D", "int3D", "avg2D", "avg3D")]
    for label, f in tools:
        for dt in (np.int64, np.uint8, np.int16, np.float32, bool):
            Zi = (rng.integers(0, 2, size=(15, 17)).astype(bool) if dt is bool else
                  rng.integers(0, 200, size=(15, 17)).astype(dt))
            ck.count(("S.int-image", label, np.dtype(dt).name), suite="S.oracle")
            try:
                a, b = np.asarray(quiet(f, Zi), float), np.asarray(quiet(f, Zi.astype(np.float64)), float)
            except Exception as e:
                ck.violation(dict(site=label.split("/")[0], clause="exception"), dict(tool=label, dtype=np.dtype(dt).name), f"{type(e).__name__}: {e}")
                continue
            tol = (1e-5 if dt is np.float32 else 1e-12) * max(1.0, float(np.abs(b).max()))
            if a.shape != b.shape or np.abs(a - b).max() > tol:
                ck.violation(dict(site=label.split("/")[0], clause="integer-image"), dict(tool=label, dtype=np.dtype(dt).name, image=Zi.astype(int).tolist()),
                             f"{label}: a {np.dtype(dt).name} image gives values differing from those of its float64 copy by "
                             f"{np.abs(a - b).max() if a.shape == b.shape else 'shape'}")


def circular_images(ck, tier):
    from abel.tools import circularize
    # … of an already circular image: circularize_image determines the per-angle radial correction itself (both methods); the result
    # is the image again, to resampling accuracy — also when the brightest point is the centre, where the 'argmax' method has no
    # radial scale to compare (repair F63: 0/0 corrections turned the image into garbage)
    yy, xx = np.indices((81, 81))
    rr = np.hypot(yy - 40, xx - 40)
    circ = {"gauss-centre": np.exp(-rr ** 2 / 200), "ring": np.exp(-(rr - 25) ** 2 / 18), "centre+ring": np.exp(-rr ** 2 / 30) + 0.5 * np.exp(-(rr - 25) ** 2 / 18),
            "plateau": 1 / (1 + (rr / 15) ** 4)}
    for cname, cim in circ.items():
        for meth in ("argmax", "lsq"):
            ck.count(("S.circ-image", cname, meth), suite="S.circularize")
            try:
                res = quiet(circularize.circularize_image, cim, method=meth, dr=0.5, dt=0.1)
                out = res[0] if isinstance(res, tuple) else res
            except Exception as e:
                ck.violation(dict(site="circularize_image", clause="circular-image-exception", method=meth), dict(image=cname, method=meth), f"{type(e).__name__}: {e}")
                continue
            inner = rr < 34
            dev = float(np.abs(np.where(inner, out - cim, 0)).max()) if out.shape == cim.shape and np.all(np.isfinite(out[inner])) else np.inf
            if not dev <= 2e-2:            # (resampling on the dr, dt grid and, for lsq, the fitted sub-pixel factors: measured ≤ 6e-3)
                ck.violation(dict(site="circularize_image", clause="circular-image-changed", method=meth), dict(image=cname, method=meth, deviation=dev),
                             f"circularize_image(method={meth!r}) of the circular image '{cname}' differs from it by {dev:.3g} of its peak")


def run(tier):
    ck = Check("C19", tier)
    deep = tier == "thorough"
    ck.cov["rule"] = ("K: 300 (thorough 3000) points incl. the axes for cart2polar/polar2cart; random shapes/origins (negative too) "
                      "for index_coords; 40 stubbed polar images x 4 kinds; 40 toPES inputs; vs the Lean model. S: round trip, "
                      "angle convention, origin placement, linear images sampled at the polar positions (dr, dt grids), "
                      "Jacobian identities (1e-12), isotropic profile and total conservation (2e-2), toPES conservation "
                      "(1e-12), circularize with constant corrections (interior / border separately). distinct = (suite, class)")
    ck.cov["trusted_base"] = ["Lean 4.33 kernel", "axioms propext/Classical.choice/Quot.sound",
                              "Model/Polar.lean: arctan2(a,b) read as Complex.arg(b + a i); tied to numpy by K.coords (4e-16)",
                              "scipy.ndimage.map_coordinates (spline resampling) is outside the model; sampling positions are "
                              "checked through images that cubic splines reproduce exactly (linear in row and column)",
                              "isotropic-profile and conservation clauses hold to quadrature/interpolation accuracy only (measured)"]
    ck.cov["unproved_clauses"] = ["radial profile of an isotropic image / total conservation (quadrature accuracy, measured)",
                                  "circularize of an already circular image (resampling accuracy, measured)"]
    ck.cov["source_fingerprint"] = source_fingerprint(["abel/tools/polar.py", "abel/tools/vmi.py", "abel/tools/circularize.py"])
    ck.proofs("PyAbel.Props.C19")
    ok, log = ensure_driver()
    if ok:
        correspondence(ck, tier)
    else:
        ck.broken.append(dict(kind="proof", module="pyabel_drv", why="driver build failed", log=log[-1500:]))
    oracle(ck, tier, deep or bool(ck.broken))
    circular_images(ck, tier)
    integer_coordinates(ck, tier)
    integer_images(ck, tier)
    return ck.finish()


def replay(path):
    rec = json.loads(open(path).read())
    print(json.dumps(rec, indent=1, default=str)[:3000])
    return 1
