"""
C14 — radial distributions recover an exact angular model exactly.

proofs : lean/PyAbel/Props/C14.lean (normal equations for any pixel set and weights; the coded 2x2/3x3 adjugate
         inverses; exact recovery for 1-3 angular terms when the Hankel determinant is non-zero)
K      : Distributions(...).image(IM).cos() vs the executable Lean model (geometry, folding, bins, weights, sin
         weighting, nearest/linear, up to 3 angular terms) on random images at well-conditioned radii
S      : synthetic images Σ c_n(r) cos^n θ → returned c_n (all shapes / origins incl. edges and strings / rmax keywords /
         orders 0-8 / odd / methods / use_sin / positive weights, also zones weighted 1e250 apart); every documented origin name = the
         tuple it names; anisotropy_parameter on noiseless curves
"""
import json

import numpy as np

from harness.common import Check, arr2h, drive, ensure_driver, h2arr, seed, source_fingerprint
from harness.methods import quiet

RMAX = ["hor", "ver", "HOR", "VER", "min", "max", "MIN", "MAX", "all"]
VERT = {"top": 0, "upper": 0, "center": None, "bottom": -1, "lower": -1}
HORZ = {"left": 0, "center": None, "right": -1}
ORIGINS = ["center", "c"] + [v[0] + hz[0] for v in VERT for hz in HORZ] + [f"{v} {hz}" for v in VERT for hz in HORZ]     # every documented form


def model_cos(h, w, row, col, spec, odd, N, lin, usin, im, wt):
    line = f"distr {h} {w} {row} {col} {spec} {int(odd)} {N} {int(lin)} {int(usin)} {int(wt is not None)} {arr2h(im)}" + \
           ("" if wt is None else " " + arr2h(wt))
    rep = drive([line])[0]
    if not rep.startswith("ok"):
        raise RuntimeError(rep)
    head, geo, cond = rep.split(" | ")
    t = head.split()
    nr, nn = int(t[1]), int(t[2])
    return h2arr(t[3:]).reshape(nr, nn).T, h2arr(cond.split())


def correspondence(ck, tier):
    from abel.tools.vmi import Distributions
    rng = np.random.default_rng(seed() + 14)
    n = 250 if tier == "quick" else 2500
    worst = 0.0
    for _ in range(n):
        h, w = (int(v) for v in rng.integers(3, 16, size=2))
        row, col = int(rng.integers(0, h)), int(rng.integers(0, w))
        odd = bool(rng.integers(0, 2))
        order = int(rng.choice([1, 2] if odd else [0, 2, 4]))
        N = 1 + (order if odd else order // 2)
        lin, usin, hasw = (bool(rng.integers(0, 2)) for _ in range(3))
        spec = str(rng.choice(RMAX + ["3", "5", "8"]))
        im = rng.random((h, w))
        wt = rng.random((h, w)) + 0.1 if hasw else None
        if hasw and rng.random() < 0.3:
            wt[rng.random((h, w)) < 0.3] = 0
        ck.count(("K.distr", h % 2, w % 2, spec, odd, order, lin, usin, hasw), suite="K.distributions")
        case = dict(shape=[h, w], origin=[row, col], rmax=spec, order=order, odd=odd, method="linear" if lin else "nearest",
                    use_sin=usin, weights=hasw)
        try:
            D = quiet(Distributions, origin=(row, col), rmax=int(spec) if spec.isdigit() else spec, order=order, odd=odd,
                      use_sin=usin, weights=wt, method="linear" if lin else "nearest")
            res = quiet(D.image, im).cos()
            m, cond = model_cos(h, w, row, col, spec, odd, N, lin, usin, im, wt)
        except Exception as e:
            ck.disagree("K.distributions", case, f"{type(e).__name__}: {e}")
            continue
        if m.shape != res.shape:
            ck.disagree("K.distributions", case, f"shape: implementation {res.shape}, model {m.shape}")
            continue
        okr = np.abs(cond) > 1e-3
        if not okr.any():
            continue
        d = np.abs(m - res)[:, okr].max() / max(1.0, np.abs(res[:, okr]).max())
        worst = max(worst, d)
        if d > 1e-9:
            ck.disagree("K.distributions", case, f"differs from the model by {d:.3g} at well-conditioned radii")
    ck.cov["worst_model_vs_impl"] = worst
    ck.sample(dict(suite="K.distributions", last_case=case))


def synth_image(shape, origin, coeffs, odd):
    """Σ_n c_n cos^n θ about `origin` with constant coefficients; θ from the upward vertical"""
    yy, xx = np.mgrid[:shape[0], :shape[1]]
    y, x = origin[0] - yy, xx - origin[1]
    r = np.hypot(x, y)
    cos = np.divide(y, r, out=np.zeros_like(r), where=r > 0)
    orders = range(len(coeffs)) if odd else range(0, 2 * len(coeffs), 2)
    return sum(c * cos ** n for c, n in zip(coeffs, orders)), r


def oracle(ck, tier, deep):
    from abel.tools import vmi
    rng = np.random.default_rng(seed() + 1414)
    n = 300 if not deep else 4000
    for it in range(n):
        h, w = (int(v) for v in rng.integers(21, 48, size=2))
        odd = bool(rng.integers(0, 2))
        order = int(rng.integers(0, 9))
        if order % 2:
            odd = True
        if order == 0:
            odd = False
        N = 1 + (order if odd else order // 2)
        kind = rng.random()
        if kind < 0.5:
            origin = (int(rng.integers(0, h)), int(rng.integers(0, w)))
            o_arg = origin if rng.random() < 0.7 else (origin[0] - h, origin[1] - w)
        else:
            name = ORIGINS[int(rng.integers(0, len(ORIGINS)))]
            v, hz = (name[0], name[1]) if len(name) == 2 else ("c", "c") if name in ("center", "c") else tuple(s[0] for s in name.split())
            origin = ({"t": 0, "u": 0, "c": h // 2, "b": h - 1, "l": h - 1}[v], {"l": 0, "c": w // 2, "r": w - 1}[hz])
            o_arg = name
        rmax = RMAX[int(rng.integers(0, len(RMAX)))] if rng.random() < 0.7 else int(rng.integers(6, 20))
        rmax_arg = np.int64(rmax) if isinstance(rmax, int) and rng.random() < 0.5 else rmax        # (a radius taken from an array)
        method = ["nearest", "linear"][int(rng.integers(0, 2))]
        usin = bool(rng.integers(0, 2))
        coeffs = rng.normal(size=N)
        im, r = synth_image((h, w), origin, coeffs, odd)
        wt = None if rng.random() < 0.4 else rng.random((h, w)) + 0.2
        if wt is not None:        # any strictly positive weights: inverse variances, normalised maps … (overall scale is immaterial)
            wt = wt * float(rng.choice([1.0, 1.0, 1e-6, 2.0 ** -20, 1e5]))
        ck.count(("S.recover", odd, order, method, usin, wt is None, type(rmax).__name__, type(o_arg).__name__), suite="S.recover")
        rep = dict(shape=[h, w], origin=o_arg if isinstance(o_arg, str) else list(o_arg), rmax=rmax, order=order, odd=odd, method=method,
                   use_sin=usin, weights=wt is not None, coeffs=coeffs.tolist())
        sig = dict(site="Distributions", clause="exact-recovery", method=method)
        try:
            # ("odd … is enabled automatically if order is odd": leaving it at its default is the same request)
            okw = {} if (order % 2 and rng.random() < 0.5) else dict(odd=odd)
            rep["odd_argument"] = "default" if not okw else odd
            D = quiet(vmi.Distributions, origin=o_arg, rmax=rmax_arg, order=order, use_sin=usin, weights=wt, method=method, **okw)
            res = quiet(D.image, im)
            cn = res.cos()
        except Exception as e:
            ck.violation(dict(sig, clause="exception"), rep, f"{type(e).__name__}: {e}")
            continue
        # "any rmax choice": the radii returned are 0 … rmax with rmax as documented for each keyword (fitting inside = distance to
        # the nearer edge, touching = to the farther one), so that every radius with the full angular range is reported
        row, col = origin
        hor, HOR, ver, VER = min(col, w - 1 - col), max(col, w - 1 - col), min(row, h - 1 - row), max(row, h - 1 - row)
        want_rmax = rmax if isinstance(rmax, int) else {"hor": hor, "ver": ver, "HOR": HOR, "VER": VER, "min": min(hor, ver), "max": max(hor, ver),
                                                        "MIN": min(HOR, VER), "MAX": max(HOR, VER)}.get(rmax)
        if (want_rmax is not None and cn.shape[1] != want_rmax + 1) or (rmax == "all" and cn.shape[1] < max(HOR, VER) + 1):
            ck.violation(dict(sig, clause="radial-range"), rep, f"rmax={rmax!r} with origin {origin} in a {h}x{w} image returned radii 0..{cn.shape[1] - 1}, "
                                                                f"documented largest radius {want_rmax if want_rmax is not None else '>= ' + str(max(HOR, VER))}")
            continue
        # radii where the image contains the full angular range the orders need and at least a few pixels:
        # the full circle (odd: upper and lower half) of radius R lies inside the frame, R >= 6
        row, col = origin
        reach = min(max(row, h - 1 - row), max(col, w - 1 - col)) if not odd else min(row, h - 1 - row, max(col, w - 1 - col))
        good = [R for R in range(6 + N, min(cn.shape[1], reach - 1))]
        if not good:
            continue
        if cn.shape[0] != N:
            ck.violation(dict(sig, clause="number-of-terms"), rep, f"order={order}, odd={rep['odd_argument']}: {cn.shape[0]} angular terms returned, "
                                                                   f"the orders allowed by (order, odd) are {N}")
            continue
        err = np.abs(cn[:, good] - coeffs[:, None]).max()
        tol = 1e-9 * max(1.0, np.abs(coeffs).max()) * 10 ** (N - 1)
        if err > tol:
            ck.violation(sig, dict(rep, radii=[good[0], good[-1]]), f"recovered coefficients differ from the exact model by {err:.3g} (tol {tol:.3g})")
        # the same Distributions object fed an image of another shape (weights=None, shape-independent origin / rmax spec)
        if wt is None and isinstance(o_arg, str) and isinstance(rmax, str):
            h2, w2 = (int(v) for v in rng.integers(21, 60, size=2))
            origin2 = ({"t": 0, "u": 0, "c": h2 // 2, "b": h2 - 1, "l": h2 - 1}[v], {"l": 0, "c": w2 // 2, "r": w2 - 1}[hz])
            coeffs2 = rng.normal(size=N)
            im2, _ = synth_image((h2, w2), origin2, coeffs2, odd)
            ck.count(("S.reuse", odd, order, method, (h2 > h) - (h2 < h), (w2 > w) - (w2 < w)), suite="S.recover")
            try:
                cn2 = quiet(D.image, im2).cos()
            except Exception as e:
                ck.violation(dict(sig, clause="exception"), dict(rep, second_shape=[h2, w2]), f"{type(e).__name__}: {e}")
                continue
            row, col = origin2
            reach = min(max(row, h2 - 1 - row), max(col, w2 - 1 - col)) if not odd else min(row, h2 - 1 - row, max(col, w2 - 1 - col))
            good2 = [R for R in range(6 + N, min(cn2.shape[1], reach - 1))]
            if good2:
                err2 = np.abs(cn2[:, good2] - coeffs2[:, None]).max()
                tol2 = 1e-9 * max(1.0, np.abs(coeffs2).max()) * 10 ** (N - 1)
                if err2 > tol2:
                    ck.violation(dict(sig, clause="exact-recovery-object-reuse"), dict(rep, second_shape=[h2, w2], coeffs2=coeffs2.tolist()),
                                 f"the same Distributions object, second image of shape {(h2, w2)} after {(h, w)}: coefficients off by {err2:.3g}")
    # every documented way of naming the origin (one word, two-letter codes, two words) is the position it names: same distributions as
    # with the numeric tuple, on a non-square image
    for (h, w) in ((21, 30), (26, 19)) if not deep else ((21, 30), (26, 19), (24, 24), (31, 18)):
        im = rng.random((h, w)) + 0.1
        for name in ORIGINS:
            v, hz = (name[0], name[1]) if len(name) == 2 else ("c", "c") if name in ("center", "c") else tuple(s_[0] for s_ in name.split())
            origin = ({"t": 0, "u": 0, "c": h // 2, "b": h - 1, "l": h - 1}[v], {"l": 0, "c": w // 2, "r": w - 1}[hz])
            ck.count(("S.origin-name", name), suite="S.recover")
            rep = dict(shape=[h, w], origin=name, position=list(origin))
            try:
                a = quiet(quiet(vmi.Distributions, origin=name, rmax="MAX", order=2).image, im).cos()
                b = quiet(quiet(vmi.Distributions, origin=origin, rmax="MAX", order=2).image, im).cos()
            except Exception as e:
                ck.violation(dict(site="Distributions", clause="origin-name-exception"), rep, f"{type(e).__name__}: {e}")
                continue
            if a.shape != b.shape or not np.array_equal(a, b, equal_nan=True):
                ck.violation(dict(site="Distributions", clause="origin-name"), rep,
                             f"origin={name!r} on a {h}x{w} image is not the position {origin}: distributions differ from those for the tuple")
    # "any strictly positive weights": a large dynamic range concentrated in a narrow region (a slit, a beam block's surroundings)
    # leaves the higher-order systems invertible; the exact model is still recovered
    import itertools
    lattice = list(itertools.product([3.0, 5.0], [1e-6, 1e-4], [6, 8], [False])) + [(5.0, 1e-6, 8, True), (3.0, 1e-4, 5, True)]
    for it in range(len(lattice) if not deep else 40):
        n = int(rng.choice([81, 91, 101]))
        a_l, floor_l, order, odd = lattice[it] if it < len(lattice) else (float(rng.choice([3.0, 5.0, 8.0])), float(rng.choice([1e-6, 1e-4])),
                                                                           int(rng.choice([6, 8])), bool(it % 3 == 2))
        N = 1 + (order if odd else order // 2)
        origin = (n // 2, n // 2)
        coeffs = rng.normal(size=N)
        im, _ = synth_image((n, n), origin, coeffs, odd)
        xx = np.arange(n) - n // 2
        a, floor = a_l, floor_l
        wt = np.tile(np.exp(-(xx / a) ** 2) + floor, (n, 1))
        if it % 2:
            wt = wt.T.copy()                           # a horizontal slit
        ck.count(("S.slit", order, odd, a, floor, it % 2), suite="S.recover")
        rep = dict(shape=[n, n], origin=list(origin), order=order, odd=odd, slit_width=a, floor=floor, horizontal=bool(it % 2), coeffs=coeffs.tolist())
        sig = dict(site="Distributions", clause="exact-recovery", method="linear")
        try:
            cn = quiet(quiet(vmi.Distributions, origin=origin, rmax="MIN", order=order, odd=odd, weights=wt).image, im).cos()
        except Exception as e:
            ck.violation(dict(sig, clause="exception"), rep, f"{type(e).__name__}: {e}")
            continue
        good = slice(25, n // 2 - 2)
        err = np.abs(cn[:, good] - coeffs[:, None]).max()
        if not (err <= 1e-4 * max(1.0, np.abs(coeffs).max())):
            ck.violation(sig, dict(rep, radii=[25, n // 2 - 3]), f"slit weights (range {1 / floor:.0e}): recovered coefficients differ from the exact model by {err:.3g}")
    # "any strictly positive weights": zones of one image weighted many orders of magnitude apart (a saturated centre given a
    # vanishing weight, inverse variances of a detector with dead and hot regions) — every radius is fitted with its own weights only
    for it, (order, small, big, method) in enumerate(itertools.product([2, 4, 6, 3], [1e-3, 1e-100, 1e-160, 1e-250], [1.0, 1e100],
                                                                      ["nearest", "linear"])):
        if not deep and (it + seed()) % 3:
            continue
        odd = order == 3
        n = 61
        N = 1 + (order if odd else order // 2)
        origin = (n // 2, n // 2)
        coeffs = rng.normal(size=N)
        im, _ = synth_image((n, n), origin, coeffs, odd)
        yy, xx = np.mgrid[:n, :n] - n // 2
        wt = np.where(np.hypot(xx, yy) <= 15, big, small * big)
        ck.count(("S.zones", order, small, big, method), suite="S.recover")
        rep = dict(shape=[n, n], origin=list(origin), order=order, odd=odd, method=method, inner_weight=big, outer_weight=small * big, coeffs=coeffs.tolist())
        sig = dict(site="Distributions", clause="exact-recovery-weight-zones", method=method)
        try:
            cn = quiet(quiet(vmi.Distributions, origin=origin, rmax="MIN", order=order, odd=odd, weights=wt, method=method).image, im).cos()
        except Exception as e:
            ck.violation(dict(sig, clause="exception"), rep, f"{type(e).__name__}: {e}")
            continue
        for lo, hi in ((8, 13), (19, 28)):
            err = np.abs(cn[:, lo:hi] - coeffs[:, None]).max() if np.isfinite(cn[:, lo:hi]).all() else np.inf
            if not (err <= (1e-6 if method == "nearest" else 5e-3) * max(1.0, np.abs(coeffs).max())):
                ck.violation(sig, dict(rep, radii=[lo, hi - 1]), f"weights {big:g} inside r = 15 and {small * big:g} outside: coefficients at radii "
                             f"{lo}..{hi - 1} differ from the exact model by {err:.3g}")
    # "all images": the memory layout of the array is not part of the image — column-major data (a transposed view, np.rot90,
    # data read from Fortran/MATLAB files) give the coefficients of the same pixels; origins that need no folding included
    for _ in range(60 if not deep else 500):
        h, w = (int(v) for v in rng.integers(15, 36, size=2))
        odd = bool(rng.integers(0, 2))
        order = int(rng.choice([1, 3] if odd else [0, 2, 4]))
        N = 1 + (order if odd else order // 2)
        place = int(rng.integers(0, 3))
        rows_ = [0, h - 1] if not odd else [int(rng.integers(3, h - 3))]
        origin = (int(rng.choice(rows_)), int(rng.choice([0, w - 1]))) if place < 2 else (int(rng.integers(0, h)), int(rng.integers(0, w)))
        rmax = ["MAX", "all", "HOR", "VER", "MIN", int(max(h, w) * 0.8)][int(rng.integers(0, 6))]
        method = ["nearest", "linear"][int(rng.integers(0, 2))]
        usin = bool(rng.integers(0, 2))
        coeffs = rng.normal(size=N)
        im, _ = synth_image((h, w), origin, coeffs, odd)
        wt = None if rng.random() < 0.5 else rng.random((h, w)) + 0.2
        layout = ["asfortranarray", "transposed-view", "rot90"][int(rng.integers(0, 3))]
        ck.count(("S.layout", odd, method, usin, wt is None, place < 2, layout), suite="S.recover")
        rep = dict(shape=[h, w], origin=list(origin), rmax=rmax, order=order, odd=odd, method=method, use_sin=usin, weights=wt is not None,
                   layout=layout, coeffs=coeffs.tolist())
        sig = dict(site="Distributions", clause="memory-layout", method=method)

        def relayout(a):
            if a is None:
                return None
            if layout == "asfortranarray":
                return np.asfortranarray(a)
            if layout == "transposed-view":
                return np.ascontiguousarray(a.T).T
            return np.rot90(np.ascontiguousarray(np.rot90(a, -1)), 1)
        try:
            ref = quiet(vmi.Distributions(origin=origin, rmax=rmax, order=order, odd=odd, use_sin=usin, weights=wt, method=method).image, im).cos()
            imF, wtF = relayout(im), relayout(wt)
            assert np.array_equal(imF, im)
            got = quiet(vmi.Distributions(origin=origin, rmax=rmax, order=order, odd=odd, use_sin=usin, weights=wtF, method=method).image, imF).cos()
        except Exception as e:
            ck.violation(dict(sig, clause="exception"), rep, f"{type(e).__name__}: {e}")
            continue
        fin = np.isfinite(ref) & np.isfinite(got)
        if got.shape != ref.shape or not np.array_equal(np.isfinite(ref), np.isfinite(got)) or \
                np.abs(got[fin] - ref[fin]).max(initial=0.0) > 1e-9 * max(1.0, np.abs(ref[fin]).max(initial=0.0)):
            ck.violation(sig, rep, f"the same pixels stored column-major ({layout}) give different coefficients "
                                   f"(max difference {np.abs(got[fin] - ref[fin]).max(initial=0.0):.3g})")
    # a uniform image is c0 = const at every radius that has any pixel — also where the arcs are cut by the frame: non-square
    # frames with the origin in a corner (one quadrant, no folding), every rmax keyword and explicit radii between the shorter and
    # the longer side, every method (the normalisation of 'remap' must count only samples inside the frame)
    for _ in range(16 if not deep else 120):
        h, w = (int(v) for v in rng.choice([12, 17, 25, 30, 41, 60], size=2, replace=False))
        cval = float(rng.uniform(0.5, 5))
        im = np.full((h, w), cval)
        corner = ["ul", "ur", "ll", "lr"][int(rng.integers(0, 4))]
        lo, hi = min(h, w) - 1, max(h, w) - 1
        for rmax in ("MIN", "HOR", "VER", "MAX", "all", int(rng.integers(lo + 1, hi + 1)), lo, hi):
            for method in ("nearest", "linear", "remap"):
                ck.count(("S.uniform", corner, str(rmax) if isinstance(rmax, str) else "int", method, h > w), suite="S.recover")
                rep = dict(shape=[h, w], origin=corner, rmax=rmax, method=method, value=cval)
                try:
                    res = quiet(quiet(vmi.Distributions, origin=corner, rmax=rmax, order=0, method=method).image, im)
                    c0 = res.cos()[0]
                except Exception as e:
                    ck.violation(dict(site="Distributions", clause="exception"), rep, f"{type(e).__name__}: {e}")
                    continue
                valid = np.asarray(res.valid, bool) if hasattr(res, "valid") else np.ones(len(c0), bool)
                rr = np.arange(len(c0))
                sel = valid & (rr >= 1) & (rr <= np.hypot(h - 1, w - 1) - 2)
                bad = sel & ~(np.abs(c0 - cval) <= (1e-9 if method != "remap" else 1e-6) * cval)
                if bad.any():
                    k = int(np.argmax(bad))
                    ck.violation(dict(site="Distributions", clause="uniform-image", method=method), dict(rep, r=k, c0=float(c0[k])),
                                 f"uniform image {cval:.4g} on a {h}x{w} frame, origin {corner}, rmax={rmax}, {method}: c0({k}) = {c0[k]:.6g} (valid radius)")
    # the origin is a pair of integers whatever their type: coordinates taken from NumPy arrays of a narrow integer dtype (np.int16
    # pixel indices …) locate the same pixel as Python integers — also on frames whose squared size does not fit the narrow type
    for _ in range(10 if not deep else 80):
        h, w = int(rng.choice([40, 121, 300])), int(rng.choice([60, 200, 501]))
        im = rng.random((h, w))
        row, col = int(rng.integers(0, min(h, 120))), int(rng.integers(0, min(w, 120)))
        for cast in (np.int16, np.uint8, np.int8, np.int64, np.uint16, np.int32):
            if max(row, col) > np.iinfo(cast).max:
                continue
            for rmax in ("all", "MIN", "MAX", 17):
                ck.count(("S.origin-type", cast.__name__, str(rmax)), suite="S.recover")
                rep = dict(shape=[h, w], origin=[row, col], cast=cast.__name__, rmax=rmax)
                try:
                    a = quiet(quiet(vmi.Distributions, origin=(cast(row), cast(col)), rmax=rmax, order=2).image, im)
                    b = quiet(quiet(vmi.Distributions, origin=(row, col), rmax=rmax, order=2).image, im)
                except Exception as e:
                    ck.violation(dict(site="Distributions", clause="origin-type-exception"), rep, f"{type(e).__name__}: {e}")
                    continue
                ca, cb = a.cos(), b.cos()
                if ca.shape != cb.shape or not np.allclose(ca, cb, rtol=0, atol=1e-12 * max(1.0, float(np.nanmax(np.abs(cb)))), equal_nan=True):
                    ck.violation(dict(site="Distributions", clause="origin-type"), rep,
                                 f"origin ({cast.__name__}({row}), {cast.__name__}({col})) on a {h}x{w} frame, rmax={rmax}: "
                                 f"{ca.shape[1]} radii instead of {cb.shape[1]}" if ca.shape != cb.shape else
                                 f"origin given as {cast.__name__}: coefficients differ from those for Python integers by {np.nanmax(np.abs(ca - cb)):.3g}")
    # raw camera frames: an image stored as uint8 / uint16 / int32 is analysed as its float64 copy
    for _ in range(20 if not deep else 200):
        h, w = (int(v) for v in rng.integers(15, 40, size=2))
        dt = [np.uint8, np.uint16, np.int32][int(rng.integers(0, 3))]
        im = rng.integers(0, 250 if dt is np.uint8 else 60000, size=(h, w)).astype(dt)
        origin = (int(rng.integers(2, h - 2)), int(rng.integers(2, w - 2))) if rng.random() < 0.6 else \
                 (int(rng.choice([0, h - 1])), int(rng.choice([0, w - 1])))                 # (corner: no folding)
        order = int(rng.choice([0, 2, 4]))
        method = ["nearest", "linear", "remap"][int(rng.integers(0, 3))]
        u = rng.random()
        wts = None if u < 0.4 else rng.random((h, w)) + 0.2 if u < 0.7 else rng.integers(1, 4, size=(h, w)).astype([np.uint8, np.int16][int(rng.integers(0, 2))])
        ck.count(("S.dtype", str(np.dtype(dt)), order, method, "none" if wts is None else str(wts.dtype), origin[0] in (0, h - 1)), suite="S.recover")
        try:
            a = quiet(quiet(vmi.Distributions, origin=origin, order=order, method=method, weights=wts).image, im).cos()
            b = quiet(quiet(vmi.Distributions, origin=origin, order=order, method=method,
                            weights=None if wts is None else wts.astype(np.float64)).image, im.astype(np.float64)).cos()
        except Exception as e:
            ck.violation(dict(site="Distributions", clause="exception"), dict(shape=[h, w], dtype=str(np.dtype(dt))), f"{type(e).__name__}: {e}")
            continue
        ok = np.isfinite(a) & np.isfinite(b)
        if a.shape != b.shape or np.abs(a[ok] - b[ok]).max(initial=0.0) > 1e-9 * max(1.0, np.abs(b[ok]).max(initial=0.0)):
            ck.violation(dict(site="Distributions", clause="image-dtype"), dict(shape=[h, w], origin=list(origin), order=order, method=method, dtype=str(np.dtype(dt)),
                                                                                weights=None if wts is None else str(wts.dtype)),
                         f"a {np.dtype(dt)} image (weights: {None if wts is None else wts.dtype}) gives distributions different from the float64 copies")
    # anisotropy parameter of a noiseless curve
    for _ in range(40 if not deep else 400):
        beta, A = float(rng.uniform(-1, 2)), float(rng.uniform(0.1, 50))
        if rng.random() < 0.3:
            beta = float(rng.choice([-1.0, 2.0]))                 # the physical limits themselves
        if rng.random() < 0.4:
            A = float(10 ** rng.uniform(-12, 9))                  # any A > 0
        nth = int(rng.integers(30, 200))
        theta = np.sort(rng.uniform(-np.pi, np.pi, size=nth))
        inten = A * (1 + beta * (3 * np.cos(theta) ** 2 - 1) / 2)
        tr = None if rng.random() < 0.5 else [(-2.5, -0.5), (0.4, 2.8)]
        if rng.random() < 0.3:                                    # a narrow angular window (a slice between detector artefacts)
            tr = [[(1.5, 1.64)], [(0.9, 1.0)], [(-0.3, -0.2), (2.0, 2.1)]][int(rng.integers(0, 3))]
            theta = np.sort(rng.uniform(-np.pi, np.pi, size=int(rng.integers(400, 900))))
            inten = A * (1 + beta * (3 * np.cos(theta) ** 2 - 1) / 2)
            nth = len(theta)
        # (the curve must determine β: at least two angles inside the ranges, with different P2 — one angle, or a cluster, does not)
        sel_ = np.ones(len(theta), bool) if tr is None else np.any([(theta >= lo_) & (theta <= hi_) for lo_, hi_ in tr], axis=0)
        p2_ = (3 * np.cos(theta[sel_]) ** 2 - 1) / 2
        if sel_.sum() < 2 or p2_.max() - p2_.min() < 1e-3:
            continue
        narrow = p2_.max() - p2_.min() < 0.3                     # (the fit's own tolerances times the conditioning of a narrow window)
        ck.count(("S.beta", tr is None, round(beta)), suite="S.anisotropy")
        try:
            mode = ["raw", "reject", None, "bound"][int(rng.integers(0, 4))]        # None: the default
            (b, db), (a, da) = quiet(vmi.anisotropy_parameter, theta, inten, theta_ranges=tr, **({} if mode is None else dict(mode=mode)))
        except Exception as e:
            ck.violation(dict(site="anisotropy_parameter", clause="exception"), dict(beta=beta, A=A), f"{type(e).__name__}: {e}")
            continue
        tolb = 1e-4 if narrow else 1e-6
        if not (abs(b - beta) <= tolb and abs(a - A) <= tolb * A):
            ck.violation(dict(site="anisotropy_parameter", clause="beta"), dict(beta=beta, A=A, n=nth, theta_ranges=tr, mode=mode, theta=theta.tolist()),
                         f"fitted (beta, A) = ({b}, {a}) for a noiseless curve with ({beta}, {A}), mode={mode}")
    # a window holding only two to four angles still determines β (two parameters): every mode returns it — 'bound' too, which is documented
    # to return the best value inside the range, not NaN (repair F74; a fixed set of 400 such curves, the same on every run)
    rng_f = np.random.default_rng(20260930)
    done_ = 0
    while done_ < (400 if not deep else 1500):
        nth = int(rng_f.integers(100, 400))
        theta = np.sort(rng_f.uniform(-np.pi, np.pi, size=nth))
        beta, A = float(rng_f.choice([-1.0, 2.0, rng_f.uniform(-1, 2)])), float(rng_f.uniform(0.1, 50))
        tr = [[(1.5, 1.64)], [(0.9, 1.0)]][done_ % 2]
        sel_ = (theta >= tr[0][0]) & (theta <= tr[0][1])
        p2_ = (3 * np.cos(theta[sel_]) ** 2 - 1) / 2
        if not 2 <= sel_.sum() <= 4 or p2_.max() - p2_.min() < 1e-3:
            continue
        done_ += 1
        inten = A * (1 + beta * (3 * np.cos(theta) ** 2 - 1) / 2)
        mode = ["bound", "raw"][done_ % 4 == 0]
        ck.count(("S.beta-few", int(sel_.sum()), round(beta), mode), suite="S.anisotropy")
        try:
            (b, db), (a, da) = quiet(vmi.anisotropy_parameter, theta, inten, theta_ranges=tr, mode=mode)
        except Exception as e:
            ck.violation(dict(site="anisotropy_parameter", clause="exception"), dict(beta=beta, A=A, mode=mode), f"{type(e).__name__}: {e}")
            continue
        if not (abs(b - beta) <= 1e-4 and abs(a - A) <= 1e-4 * A):
            ck.violation(dict(site="anisotropy_parameter", clause="beta-few-angles"), dict(beta=beta, A=A, n=nth, angles_in_window=int(sel_.sum()), theta_ranges=tr, mode=mode, theta=theta.tolist()),
                         f"fitted (beta, A) = ({b}, {a}) for a noiseless curve with ({beta}, {A}) and {int(sel_.sum())} angles inside {tr}, mode={mode}")


def run(tier):
    ck = Check("C14", tier)
    deep = tier == "thorough"
    ck.cov["rule"] = ("K: 250 (thorough 2500) random images 3..15 px with random origin, 9 rmax keywords + integers, orders 0-4 "
                      "(1-3 angular terms), nearest/linear, use_sin, weights with zeros: implementation vs the Lean model at radii "
                      "whose normalised Hankel determinant exceeds 1e-3. S: 300 (thorough 4000) exact images Σ c_n cos^nθ with constant "
                      "random c_n, shapes 21..47, origins as tuples (incl. edges, negative) and 13 location strings, rmax keywords/"
                      "integers, orders 0..8, odd, both methods, use_sin, positive weights; recovered c_n at radii ≥ 6+N inside the "
                      "frame (1e-9·10^(N-1)); anisotropy_parameter on noiseless curves. distinct = option-combination classes")
    ck.cov["trusted_base"] = ["Lean 4.33 kernel", "axioms propext/Classical.choice/Quot.sound",
                              "Model/Distributions.lean tied to abel/tools/vmi.py by K (1e-9 on well-conditioned radii; measured worst in "
                              "`worst_model_vs_impl`)", "orders above 4 (invn via scipy inv) and method='remap' are outside the model: oracle only",
                              "scipy curve_fit (anisotropy_parameter) external"]
    ck.cov["unproved_clauses"] = ["non-singularity of the Hankel matrix from 'full angular range and a few pixels' (hypothesis of the theorems)",
                                  "orders 5-8 (general inverse), remap method, anisotropy_parameter: measured"]
    ck.cov["source_fingerprint"] = source_fingerprint(["abel/tools/vmi.py"])
    ck.proofs("PyAbel.Props.C14")
    ok, log = ensure_driver()
    if ok:
        correspondence(ck, tier)
    else:
        ck.broken.append(dict(kind="proof", module="pyabel_drv", why="driver build failed", log=log[-1500:]))
    oracle(ck, tier, deep or bool(ck.broken))
    return ck.finish()


def replay(path):
    rec = json.loads(open(path).read())
    print(json.dumps(rec, indent=1, default=str)[:3000])
    return 1
