"""
C07 — results never depend on basis-cache history (memory or disk).

proofs : lean/PyAbel/Props/C07.lean (generic two-tier cache machine: invariant preserved by every operation, every
         answer right or an exception, for all finite histories; the five modules' rule sets are lawful) and
         Props/C07Names.lean (cleanup masks match exactly their own method's file names; table regenerated from /repo);
         Props/C07Rbasex.lean (rbasex's in-memory transform caches as a machine over the six module globals: every call
         that returns, returns matrices made from the basis, mask and regularisation it names, after any history);
         Props/C07Basex.lean (the same for basex's basis / forward / inverse caches);
         Props/C07Daun.lean (the same for daun's basis and transform-matrix caches: the matrix handed out is the requested kind, of the
         requested degree, from a basis that covers the requested size — exactly that size for cubic splines —, with the requested
         regulariser and strength, after any history)
K      : daun sessions (sizes x degrees x regularisers x strengths incl. numerically equal zeros x direction, cleanups) vs its machine:
         _bs_prm, _tr, _tr_prm after every step, and the returned matrix vs a fresh process's;
         basex sessions (bases [n, sigma] x direction x [reg, correction, dr] with numerically equal spellings, cleanups) vs
         its machine: the five globals after every step, and the returned matrix vs a fresh process's;
         rbasex sessions (calls over bases x valid-radius masks x directions x regularisations incl. ones that raise,
         cache_cleanup of each kind) on the real module vs that machine: outcome and all six globals after every step;
         seeded random histories (calls over each module's key lattice with/without basis_dir, cache_cleanup,
         basis_dir_cleanup, file damage/removal) executed on the real get_bs_cached functions and on the Lean machine:
         outcome class, memory key and directory listing after every operation must agree
S      : every returned basis/operator equals a freshly generated one; transform-level histories over the wide
         parameter lattice vs the same call in a pristine (reloaded) module; basis_dir_cleanup exactness, also for
         directories whose names contain glob metacharacters
"""
import glob
import importlib
import json
import os
import subprocess
import tempfile

import numpy as np

from harness.cachelab import ADAPTERS, compare, model_line, parse_model, run_real, same_result
from harness.common import Check, VERIF, drive, ensure_driver, seed, source_fingerprint
from harness.methods import quiet


def random_history(ad, rng, length, faults=True):
    ops = []
    for _ in range(length):
        u = rng.random()
        key = ad.lattice[int(rng.integers(0, len(ad.lattice)))]
        if u < 0.62:
            ops.append(("call", key, rng.random() < 0.8))
        elif u < 0.72:
            ops.append(("cleanup",))
        elif u < 0.77:
            ops.append(("dircleanup",))
        elif u < 0.90 and faults:
            ops.append(("damage", key, int(rng.integers(0, 3))))
        elif u < 0.95:
            ops.append(("remove", key))
        else:
            ops.append(("call", key, False))
    return ops


def ambiguous(ad, op, files):
    """several usable files in different states: the implementation's pick (directory order / own metric) may
    legitimately differ from the model's"""
    if op[0] != "call" or ad.name not in ("dasch", "rbasex"):
        return False
    key = op[1]
    if ad.name == "dasch":
        usable = [st for (k, st) in files if k[0] == key[0] and k[1] >= key[1]]
    else:
        usable = [st for (k, st) in files if k[0] >= key[0] and k[1] >= key[1] and (not key[2] or k[2])]
    return len(set(usable)) > 1


def shrink(ad, ops, d, still_bad):
    ops = list(ops)
    changed = True
    while changed and len(ops) > 1:
        changed = False
        for i in range(len(ops)):
            cand = ops[:i] + ops[i + 1:]
            if still_bad(cand):
                ops, changed = cand, True
                break
    return ops


def correspondence(ck, tier, faults=True, suite="K.histories", nhist=None):
    rng = np.random.default_rng(seed() + 7)
    nhist = nhist or (30 if tier == "quick" else 200)
    d = tempfile.mkdtemp(prefix="hist_", dir=os.environ.get("VERIF_SCRATCH"))
    fresh_memo = {}
    for ad in ADAPTERS:
        def check(ops, report=True):
            obs = run_real(ad, ops, d)
            model = parse_model(drive([model_line(ad, ops)])[0], ad)
            if ad.name == "rbasex":        # inverse matrices are saved lazily (second-level state): listing not modelled
                for o, m in zip(obs, model):
                    m["files"] = o["files"]
            # tolerate legitimately ambiguous file picks (then re-sync is impossible: stop comparing this history)
            files_before = []
            for i, op in enumerate(ops):
                if ambiguous(ad, op, files_before):
                    obs, model, ops_c = obs[:i], model[:i], ops[:i]
                    break
                files_before = obs[i]["files"]
            else:
                ops_c = ops
            # C08 allows a call to raise while a damaged file sits in the directory; the model predicts the common outcome
            # (regenerate), the code may take another loud path (e.g. basex "extends" a larger valid file after failing to read
            # the best one and trips over the shapes).  Such a raise is not a disagreement; the history stops being comparable.
            for i in range(len(ops_c)):
                if ops_c[i][0] == "call" and obs[i]["out"] == "raised" and model[i]["out"] == "ok" and i > 0 \
                        and any(st != 0 for (_, st) in model[i - 1]["files"]):
                    obs, model, ops_c = obs[:i], model[:i], ops_c[:i]
                    break
            bad = compare(ad, ops_c, obs, model)
            # property level: every ok result equals the freshly generated basis for that key
            wrong = None
            for i, (op, o) in enumerate(zip(ops, obs)):
                if op[0] == "call" and o["out"] == "ok":
                    if op[1] not in fresh_memo:
                        fresh_memo[op[1]] = ad.fresh(op[1])
                    if not same_result(o["res"], fresh_memo[op[1]]):
                        wrong = (i, op)
                        break
            return bad, wrong, obs
        for h in range(nhist):
            ops = random_history(ad, rng, int(rng.integers(8, 30)), faults)
            bad, wrong, obs = check(ops)
            for op in ops:
                ck.count((suite, ad.name, op[0], op[1] if len(op) > 1 else None, op[2] if len(op) > 2 else None), suite=suite)
            if wrong is not None:
                small = shrink(ad, ops[:wrong[0] + 1], d, lambda c: c and c[-1] == ops[wrong[0]] and check(c)[1] is not None)
                ck.violation(dict(site=ad.name, clause="history-dependent-result"),
                             dict(module=ad.name, history=[list(map(str, o)) for o in small]),
                             f"{ad.name}: after this history the call {small[-1]} returns a basis different from a fresh one")
            elif bad is not None:
                small = shrink(ad, ops[:bad[0] + 1], d, lambda c: check(c)[0] is not None)
                ck.disagree(suite, dict(module=ad.name, history=[list(map(str, o)) for o in small]), bad[1])
            if h == 0:
                ck.sample(dict(suite=suite, module=ad.name, history=[" ".join(map(str, o)) for o in ops[:8]]))
        ad.cache_cleanup()


# ------------------------------------------------------------------------------ transform-level oracle
class Lattice:
    """wide parameter lattice of transform-level calls; `draw` returns (label, callable(abel, basis_dir))"""

    def __init__(self, rng):
        self.rows = rng.normal(size=(3, 40))
        self.im = rng.random((31, 41))
        self.imsq = rng.random((21, 21))
        self.w_fixed = rng.random((31, 41)) + 0.1
        self.w_live = np.ones((31, 41))          # mutated in place by the `mutate-weights` operation
        self.live_version = 0

    def mutate_weights(self, rng):
        if rng.random() < 0.4:           # a whole ring (some radii lose every valid pixel) …
            yy, xx = np.mgrid[:31, :41]
            a = float(rng.uniform(2, 12))
            rr = np.hypot(yy - 15, xx - 20)
            self.w_live[(rr > a) & (rr < a + 4)] = 0.0 if rng.random() < 0.6 else 1.0
        else:                            # … or a vertical stripe
            c = int(rng.integers(0, 30))
            self.w_live[:, c:c + 6] = 0.0 if rng.random() < 0.6 else 1.0
        self.live_version += 1
        self.force_repeat = True                 # the next rbasex call repeats the previous one with the edited array

    def draw(self, modname, rng):
        pick = lambda xs: xs[int(rng.integers(0, len(xs)))]
        rows, im, imsq = self.rows, self.im, self.imsq
        short = modname.split(".")[1]
        def sticky(fresh):
            """sessions repeat the previous call with one aspect changed (what exposes a cache keyed or reset on too little)"""
            last = getattr(self, "last_" + short, None)
            if last is not None and rng.random() < 0.6:
                prm = dict(last)
                k = pick(list(fresh) + [None])
                if k is not None:
                    prm[k] = fresh[k]
            else:
                prm = fresh
            setattr(self, "last_" + short, prm)
            return prm
        if short == "dasch":
            prm = sticky(dict(m=pick(["two_point", "three_point", "onion_peeling"]), n=pick([9, 17, 25]), dr=pick([0.5, 1.0, 2.0])))
            m, n, dr = prm["m"], prm["n"], prm["dr"]
            return f"{m}/{n}/{dr}", lambda A, d: getattr(A.dasch, m + "_transform")(rows[:, :n], basis_dir=d, dr=dr)
        if short == "daun":
            prm = sticky(dict(n=pick([9, 17, 25]), deg=pick([0, 1, 2, 3]), direction=pick(["inverse", "inverse", "forward"]),
                              reg=pick([None, ("diff", 2.0), ("L2", 1.0), ("L2c", 0.5), ("L2", 0), 3.0, "nonneg"]), dr=pick([2.0, 1.0, 0.5])))
            n, deg, direction, reg, dr = prm["n"], prm["deg"], prm["direction"], prm["reg"], prm["dr"]
            if reg == "nonneg" and (n != 9 or direction != "inverse"):
                reg = None
            return (f"daun/{n}/{deg}/{reg}/{direction}/{dr}",
                    lambda A, d: A.daun.daun_transform(rows[:, :n], degree=deg, reg=reg, direction=direction, basis_dir=d, verbose=False, dr=dr))
        if short == "basex":
            prm = sticky(dict(n=pick([9, 17, 25]), sigma=pick([0.7, 1.0, 1.5, 2.0]), reg=pick([0.0, 1.0, 5.0]), corr=pick([True, False]),
                              direction=pick(["inverse", "forward"]), dr=pick([1.0, 0.5, 2.0])))
            n, sigma, reg, corr, direction, dr = prm["n"], prm["sigma"], prm["reg"], prm["corr"], prm["direction"], prm["dr"]
            if sigma < 1 and reg == 0:
                reg = 2.0         # more basis functions than pixels and no regularisation: singular normal matrix, the
                                  # operator is rounding noise (changes with memory layout alone) — not a cache question
            return (f"basex/{n}/{sigma}/{reg}/{corr}/{direction}/{dr}",
                    lambda A, d: A.basex.basex_transform(rows[:, :n], sigma=sigma, reg=reg, correction=corr, direction=direction, dr=dr,
                                                         basis_dir=d, verbose=False))
        if short == "linbasex":
            prm = sticky(dict(orders=pick([[0, 2], [0, 2, 4], [0, 24], [0, 1, 2]]),
                              angles=pick([[0, np.pi / 2], [0, 0.6, 1.2, np.pi / 2], [0, 0.3, 0.9, np.pi / 2], [0, 0.01, np.pi / 2], [0, 0.02, np.pi / 2],
                                           [0, 0.7, np.pi / 2], [0, 0.5, np.pi / 2], [0, 0.51, np.pi / 2], [0, np.pi / 4]]),
                              step=pick([1, 1, 2]), clip=pick([0, 0, 1])))
            orders, angles, step, clip = prm["orders"], prm["angles"], prm["step"], prm["clip"]
            if len(angles) < len(orders):
                angles = [0, 0.6, 1.2, np.pi / 2]       # fewer projections than orders is an underdetermined request
            return (f"linbasex/{orders}/{[round(a, 3) for a in angles]}/{step}/{clip}",
                    lambda A, d: A.linbasex.linbasex_transform_full(imsq, basis_dir=d, legendre_orders=orders, proj_angles=angles,
                                                                    radial_step=step, clip=clip)[0])
        if short == "rbasex":
            fresh = dict(
                oo=pick([(0, False), (2, False), (4, False), (1, True), (2, True)]),
                dr=pick([("inverse", None), ("forward", None), ("inverse", ("L2", 3.0)), ("inverse", ("diff", 1.0)), ("inverse", "pos")]),
                out=pick(["same", "full", "fold", "unfold", "full-unique"]),
                geo=pick([("center", "MIN"), ((12, 20), "MIN"), ("center", 10), ("cc", "MIN"), ((15, 18), 12)]),
                wname=pick([None, None, "fixed", "live", "live"]))
            last = getattr(self, "last_rb", None)
            if last is not None and getattr(self, "force_repeat", False):
                self.force_repeat = False
                prm = dict(last, wname="live")
            elif last is not None and rng.random() < 0.65:
                # sticky: repeat the previous call, changing at most one aspect (how real sessions look, and what
                # exposes a cache keyed on too little)
                prm = dict(last)
                k = pick(["out", "dr", "wname", "geo", "oo", None, None])
                if k is not None:
                    prm[k] = fresh[k]
            else:
                prm = fresh
            self.last_rb = prm
            (order, odd), (direction, reg), out, (origin, rmax), wname = prm["oo"], prm["dr"], prm["out"], prm["geo"], prm["wname"]
            if reg == "pos" and odd and order > 1:
                reg = None
            wt = {None: None, "fixed": self.w_fixed, "live": self.w_live}[wname]
            label = f"rbasex/{order}/{odd}/{direction}/{reg}/{out}/{origin}/{rmax}/{wname}" + (f"@{hash(self.w_live.tobytes())}" if wname == "live" else "")
            wcopy = None if wt is None else wt.copy()

            def f(A, d, live=(wname == "live")):
                r = A.rbasex.rbasex_transform(im, origin=origin, rmax=rmax, order=order, odd=odd, weights=(self.w_live if live else wcopy),
                                              direction=direction, reg=reg, out=out, basis_dir=d)
                return r[0], r[1].cos()
            return label, f
        raise KeyError(short)


def oracle_transform(ck, tier, deep, faults=False, suite="S.transform-histories", prop_clause="history-dependent-result"):
    """transform-level histories on the real modules; each result vs the same call in a pristine re-imported module in a
    forked child with no basis directory.  With `faults`, basis files are also damaged / truncated / removed and a call
    may instead raise (C08)."""
    import abel
    rng = np.random.default_rng(seed() + (77 if not faults else 88))
    lat = Lattice(rng)
    ref = {}
    nops = 150 if not deep else 800
    scratch = os.environ.get("VERIF_SCRATCH")
    for modname in ("abel.dasch", "abel.daun", "abel.basex", "abel.linbasex", "abel.rbasex"):
        d1 = tempfile.mkdtemp(prefix="tr1_", dir=scratch)
        d2 = tempfile.mkdtemp(prefix="tr2_", dir=scratch)
        names = {d1: "d1", d2: "d2", None: "None", "": "''"}
        mod = importlib.import_module(modname)
        short = modname.split(".")[1]
        abel.transform.set_basis_dir(d1)
        hist = ["set_basis_dir(d1)"]
        for step in range(nops):
            u = rng.random()
            if u < 0.07:
                sel = ["all", "forward", "inverse"][int(rng.integers(0, 3))]
                if short in ("basex", "rbasex"):
                    mod.cache_cleanup(sel)
                elif short == "daun":
                    sel = "all" if sel == "all" else "inverse"
                    mod.cache_cleanup(sel)
                else:
                    mod.cache_cleanup()
                hist.append(f"cache_cleanup({sel})")
                continue
            if u < 0.11:
                meths = {"dasch": ["two_point", "three_point", "onion_peeling"]}.get(short, [short])
                m = meths[int(rng.integers(0, len(meths)))]
                dd = [d1, d2, ""][int(rng.integers(0, 3))]
                quiet(abel.transform.basis_dir_cleanup, dd, m)
                hist.append(f"basis_dir_cleanup({names[dd]}, {m})")
                continue
            if u < 0.15:
                dd = [d1, d2][int(rng.integers(0, 2))]
                abel.transform.set_basis_dir(dd)
                hist.append(f"set_basis_dir({names[dd]})")
                continue
            if u < 0.24 and short == "rbasex":
                lat.mutate_weights(rng)
                hist.append("weights array modified in place")
                continue
            if faults and u < 0.36:
                files = sorted(glob.glob(os.path.join(d1, "*.npy")) + glob.glob(os.path.join(d2, "*.npy")))
                if files:
                    f = files[int(rng.integers(0, len(files)))]
                    kind = ["truncate", "garbage", "empty", "remove", "zero-tail", "garbage-in-place"][int(rng.integers(0, 6))]
                    size = os.path.getsize(f)
                    if kind == "truncate":
                        cut = int(rng.integers(0, max(1, size)))
                        data = open(f, "rb").read()[:cut]
                        open(f, "wb").write(data)
                        kind = f"truncate@{cut}/{size}"
                    elif kind == "garbage":
                        open(f, "wb").write(bytes(rng.integers(0, 256, size=int(rng.integers(1, 300)), dtype=np.uint8)))
                    elif kind == "empty":
                        open(f, "wb").close()
                    elif kind == "remove":
                        os.remove(f)
                    elif kind == "garbage-in-place":     # overwritten without truncation, same length (what a process holding the
                        with open(f, "r+b") as fh:       # file open or mapped would see change under it)
                            fh.write(bytes(rng.integers(0, 256, size=size, dtype=np.uint8)))
                    elif kind == "short-payload":        # a well-formed .npy whose array is smaller than the name promises
                        try:
                            arr = np.load(f, allow_pickle=True)
                            np.save(f, arr[..., :max(1, arr.shape[-1] // 2)])
                        except Exception:
                            continue
                    else:      # same length, payload tail overwritten with zeros is a *valid* file of wrong numbers:
                        continue   # not a crash/garbage/concurrent-writer state of a single np.save; out of the property's scope
                    hist.append(f"{kind} {os.path.basename(f)} in {names[os.path.dirname(f)]}")
                continue
            label, f = lat.draw(modname, rng)
            dd = [None, "", d1, d2][int(rng.integers(0, 4))]
            hist.append(f"{label} basis_dir={names[dd]}")
            ck.count((suite, label.split("@")[0], str(dd is None)), suite=suite)
            try:
                got = quiet(f, abel, dd)
            except Exception as e:
                if faults:
                    continue          # an exception is an allowed answer to a damaged file
                # a request that raises in a pristine process too is not a question of history (e.g. a singular regularised
                # system for weights that mask whole rings): compare with the reference before calling it a violation
                try:
                    _reference(modname, f)
                    ref_raises = False
                except Exception:
                    ref_raises = True
                if not ref_raises:
                    ck.violation(dict(site=short, clause="exception"), dict(history=hist[-12:]), f"{label}: {type(e).__name__}: {e}")
                continue
            if label not in ref:
                try:
                    ref[label] = _reference(modname, f)
                except Exception as e:
                    ck.notes.append(f"reference for {label} failed: {e}")
                    continue
            if not same_result(got, ref[label], 1e-9):
                ck.violation(dict(site=short, clause=prop_clause), dict(call=label, history=hist[-15:]),
                             f"{label} differs from the pristine-state result after this history")
        mod.cache_cleanup()
    abel.transform.set_basis_dir(os.path.join(scratch or tempfile.gettempdir(), "basis"))
    ck.sample(dict(suite=suite, ops_per_module=nops, faults=faults, last_history=hist[-6:]))


def oracle_param_pairs(ck, tier, deep):
    """systematic single-parameter changes: for every parameter p of every caching method and every ordered pair of its
    values (v1, v2): call with p=v1, then with p=v2 (all else equal); the second result must equal the pristine result.
    This is the history that exposes a cache keyed on too little."""
    import abel
    rng = np.random.default_rng(seed() + 707)
    rows = rng.normal(size=(3, 40))
    im = rng.random((31, 41))
    im2 = rng.random((33, 37))
    imsq = rng.random((21, 21))
    imsq2 = rng.random((25, 25))
    w1 = rng.random((31, 41)) + 0.1
    w2 = w1.copy()
    w2[:, :9] = 0
    yy, xx = np.mgrid[:31, :41]
    w3 = w1 * ~((np.hypot(yy - 15, xx - 20) > 3.5) & (np.hypot(yy - 15, xx - 20) < 8.5))      # whole rings without valid pixels
    scratch = os.environ.get("VERIF_SCRATCH")

    def dasch(A, d, method="three_point", n=17, dr=1.0):
        return getattr(A.dasch, method + "_transform")(rows[:, :n], basis_dir=d, dr=dr)

    def daun(A, d, n=17, degree=1, reg=None, direction="inverse", dr=1.0):
        return A.daun.daun_transform(rows[:, :n], degree=degree, reg=reg, direction=direction, dr=dr, basis_dir=d, verbose=False)

    def basex(A, d, n=17, sigma=1.0, reg=1.0, correction=True, direction="inverse", dr=1.0):
        return A.basex.basex_transform(rows[:, :n], sigma=sigma, reg=reg, correction=correction, direction=direction, dr=dr,
                                       basis_dir=d, verbose=False)

    def linbasex(A, d, image=0, orders=(0, 2), angles=(0, np.pi / 2), step=1, clip=0):
        return A.linbasex.linbasex_transform_full([imsq, imsq2][image], basis_dir=d, legendre_orders=list(orders),
                                                  proj_angles=list(angles), radial_step=step, clip=clip)[0]

    def rbasex(A, d, image=0, oo=(2, False), direction="inverse", reg=None, out="same", origin="center", rmax="MIN", weights=None):
        wt = {None: None, "w1": w1, "w2": w2, "w3": w3}[weights]
        if image == 1 and wt is not None:
            wt = np.ones(im2.shape)
        r = A.rbasex.rbasex_transform([im, im2][image], origin=origin, rmax=rmax, order=oo[0], odd=oo[1], weights=wt,
                                      direction=direction, reg=reg, out=out, basis_dir=d)
        return r[0], r[1].cos()
    spec = {
        "abel.dasch": (dasch, dict(method=["two_point", "three_point", "onion_peeling"], n=[9, 17, 25], dr=[1.0, 0.5])),
        "abel.daun": (daun, dict(n=[9, 17, 25], degree=[0, 1, 2, 3], reg=[None, ("diff", 2.0), ("L2", 2.0), ("L2c", 2.0), ("L2", 0), 5.0],
                                 direction=["inverse", "forward"], dr=[1.0, 2.0])),
        "abel.basex": (basex, dict(n=[9, 17, 25], sigma=[1.0, 1.5, 0.7], reg=[1.0, 5.0, 0.0], correction=[True, False],
                                   direction=["inverse", "forward"], dr=[1.0, 0.5])),
        "abel.linbasex": (linbasex, dict(image=[0, 1], orders=[(0, 2), (0, 2, 4), (0, 24), (0, 1, 2)],
                                         angles=[(0, np.pi / 2), (0, 0.01, np.pi / 2), (0, 0.02, np.pi / 2), (0, 0.7, np.pi / 2)],
                                         step=[1, 2], clip=[0, 1])),
        "abel.rbasex": (rbasex, dict(image=[0, 1], oo=[(2, False), (0, False), (4, False), (1, True), (2, True)],
                                     direction=["inverse", "forward"], reg=[None, ("L2", 3.0), ("diff", 1.0), "pos"],
                                     out=["same", "full", "fold", "unfold", "full-unique"], origin=["center", (12, 20), "cc"],
                                     rmax=["MIN", 10, 12], weights=[None, "w1", "w2", "w3"])),
    }
    ref = {}
    for modname, (fn, params) in spec.items():
        mod = importlib.import_module(modname)
        short = modname.split(".")[1]
        for pname, values in params.items():
            pairs = [(a, b) for a in values for b in values if a != b]
            if not deep and len(pairs) > 8:
                pairs = [pairs[i] for i in rng.choice(len(pairs), size=8, replace=False)]
            for (v1, v2) in pairs:
                for use_dir in (False, True):
                    d = tempfile.mkdtemp(prefix="pp_", dir=scratch) if use_dir else None
                    mod.cache_cleanup()
                    kw1, kw2 = {pname: v1}, {pname: v2}
                    if short == "basex" and (kw2.get("sigma") == 0.7 or kw1.get("sigma") == 0.7):
                        kw1.setdefault("reg", 5.0), kw2.setdefault("reg", 5.0)
                    if short == "basex" and pname == "reg" and 0.0 in (v1, v2):
                        pass
                    label = f"{short}({pname}={v1!r} → {v2!r}, basis_dir={'dir' if use_dir else None})"
                    ck.count(("S.param-pairs", short, pname, repr(v1), repr(v2), use_dir), suite="S.param-pairs")
                    try:
                        quiet(fn, abel, d, **kw1)
                        got = quiet(fn, abel, d, **kw2)
                    except Exception as e:
                        if "pos" in (v1, v2) and "not implemented" in str(e):
                            continue
                        ck.violation(dict(site=short, clause="exception"), dict(case=label), f"{label}: {type(e).__name__}: {e}")
                        continue
                    key = (short, repr(sorted(kw2.items())))
                    if key not in ref:
                        ref[key] = _reference(modname, lambda A, dd, kw2=kw2: fn(A, None, **kw2))
                    if not same_result(got, ref[key], 1e-9):
                        ck.violation(dict(site=short, clause="history-dependent-result", parameter=pname),
                                     dict(case=label, first=repr(kw1), second=repr(kw2)),
                                     f"{label}: the second call differs from the pristine-state result")
        mod.cache_cleanup()


_REF_PROC = None


def _reference(modname, f):
    """evaluate the call in a forked child right after re-importing the module (globals at their initial values),
    with no basis directory: the 'fresh process with an empty basis directory' of the property"""
    import multiprocessing as mp
    ctx = mp.get_context("fork")
    q = ctx.SimpleQueue()

    def child():
        import abel
        m = importlib.reload(importlib.import_module(modname))
        setattr(abel, modname.split(".")[1], m)
        try:
            q.put(("ok", quiet(f, abel, None)))
        except Exception as e:
            q.put(("err", repr(e)))
    p = ctx.Process(target=child)
    p.start()
    kind, val = q.get()
    p.join()
    if kind == "err":
        raise RuntimeError("reference failed: " + val)
    return val


def oracle_sequences(ck, tier):
    """short curated sessions in which two aspects change between neighbouring calls (direction and σ; output geometry and its
    origin row; method and pixel size …) — the three-step patterns single-parameter pairs cannot reach; every call is compared
    with the same call in a pristine process"""
    import abel
    rng = np.random.default_rng(seed() + 717)
    rows = rng.normal(size=(3, 40))
    sq = rng.random((21, 21))
    im = rng.random((31, 41))
    B = lambda **k: (lambda A, d: A.basex.basex_transform(rows[:, :k.get("n", 17)], sigma=k.get("sigma", 1.0), reg=k.get("reg", 1.0),
                                                           correction=k.get("corr", True), direction=k.get("direction", "inverse"),
                                                           dr=k.get("dr", 1.0), basis_dir=d, verbose=False))
    D = lambda **k: (lambda A, d: A.daun.daun_transform(rows[:, :k.get("n", 17)], degree=k.get("degree", 1), reg=k.get("reg", None),
                                                         direction=k.get("direction", "inverse"), dr=k.get("dr", 1.0), basis_dir=d, verbose=False))
    S = lambda m, **k: (lambda A, d: getattr(A.dasch, m + "_transform")(rows[:, :k.get("n", 17)] if not k.get("one") else rows[0, :k.get("n", 17)],
                                                                          basis_dir=d, dr=k.get("dr", 1.0)))
    L = lambda **k: (lambda A, d: A.linbasex.linbasex_transform_full(sq, basis_dir=d, legendre_orders=k.get("orders", [0, 2]),
                                                                      proj_angles=k.get("angles", [0, np.pi / 2]), radial_step=k.get("step", 1), clip=k.get("clip", 0))[0])

    yy_, xx_ = np.indices(sq.shape)
    ringw = np.where(np.abs(np.hypot(yy_ - 10, xx_ - 10) - 5) < 1.5, 0.0, 1.0)          # a ring of radii without data
    shared_origin = [10, 10]            # an origin kept in one list object by the caller and moved in place between calls

    def R(**k):
        def f(A, d):
            if "move_origin" in k:
                shared_origin[:] = k["move_origin"]
                k["origin"] = shared_origin
            r = A.rbasex.rbasex_transform(k.get("im", sq), origin=k.get("origin", "center"), rmax=k.get("rmax", "MIN"), order=k.get("order", 2),
                                          odd=k.get("odd", False), direction=k.get("direction", "inverse"), reg=k.get("reg", None),
                                          out=k.get("out", "same"), basis_dir=d, weights=k.get("weights"))
            return r[0], r[1].cos()
        return f
    sessions = {
        "abel.basex": [[B(sigma=2.0), B(sigma=1.0, direction="forward"), B(sigma=1.0)],
                       [B(direction="forward", dr=0.5), B(dr=0.5), B(direction="forward", dr=0.5), B(dr=0.5)],
                       [B(n=25), B(n=9, direction="forward"), B(n=9), B(n=25, direction="forward")],
                       [B(reg=0.0, corr=False), B(reg=5.0, corr=False, direction="forward"), B(reg=5.0, corr=False)]],
        "abel.daun": [[D(degree=0), D(degree=1, direction="forward"), D(degree=1)],
                      [D(degree=2, n=25), D(degree=3, n=25, direction="forward"), D(degree=3, n=9), D(degree=2, n=9)],
                      [D(reg=("L2", 1.0)), D(reg=("diff", 1.0), degree=2), D(reg=("L2", 1.0), degree=2)],
                      [D(dr=0.5), D(dr=0.5, direction="forward"), D(dr=2.0), D(dr=2.0, direction="forward")],
                      # no regularisation right after a regularised call of the same size and degree (the cached inverse must be rebuilt),
                      # and regularisers that differ only in their post-correction
                      [D(degree=3, reg=("L2", 1.0)), D(degree=3), D(degree=3, reg=("diff", 2.0)), D(degree=3, reg=0)],
                      [D(degree=2, reg=("diff", 2.0), n=9), D(degree=2, n=9), D(degree=0, reg=("L2", 1.0)), D(degree=0)],
                      [D(reg=("L2", 2.0)), D(reg=("L2c", 2.0)), D(reg=("L2", 2.0)), D(reg=("L2c", 2.0), degree=3), D(reg=("L2", 2.0), degree=3)],
                      # the post-corrected regulariser on an image narrower than the basis held in memory (its correction sums are those of
                      # the cropped basis), every degree
                      [D(n=25, reg=("L2c", 2.0)), D(n=9, reg=("L2c", 2.0)), D(n=17, degree=2, reg=("L2", 1.0)), D(n=9, degree=2, reg=("L2c", 0.5)),
                       D(n=25, degree=1), D(n=17, degree=1, reg=("L2c", 2.0))]],
        "abel.dasch": [[S("two_point", dr=0.5), S("two_point", dr=0.5), S("three_point", dr=0.5), S("two_point", n=9, dr=2.0)],
                       [S("onion_peeling", n=25), S("two_point", n=9), S("onion_peeling", n=9, one=True, dr=0.5), S("onion_peeling", n=9, dr=0.5)],
                       # one method's operator read back from its file between two requests for another method (a generated one)
                       [S("three_point", n=25), S("two_point", n=17), S("three_point", n=25), S("two_point", n=9), S("three_point", n=9)],
                       [S("two_point", n=25), S("onion_peeling", n=25), S("two_point", n=17), S("onion_peeling", n=17), S("three_point", n=17), S("onion_peeling", n=9)]],
        "abel.linbasex": [[L(angles=[0, np.pi / 4]), L(), L(angles=[0, np.pi / 4]), L()],
                          [L(orders=[0, 2, 4], angles=[0, 0.6, 1.2, np.pi / 2]), L(step=2), L(orders=[0, 2, 4], angles=[0, 0.6, 1.2, np.pi / 2], step=2)],
                          # the same set of angles / orders listed in another order is another request (the projections are stacked in the caller's order)
                          [L(angles=[0, np.pi / 2]), L(angles=[np.pi / 2, 0]), L(angles=[0, np.pi / 2])],
                          [L(angles=[0, np.pi / 4, np.pi / 2]), L(angles=[np.pi / 2, np.pi / 4, 0]), L(angles=[np.pi / 4, 0, np.pi / 2])],
                          [L(orders=[0, 2]), L(orders=[2, 0]), L(orders=[0, 2, 4], angles=[0, 0.6, 1.2]), L(orders=[4, 0, 2], angles=[0, 0.6, 1.2])]],
        "abel.rbasex": [[R(origin=(7, 10), rmax=10, order=1, odd=True, out="same"), R(origin=(7, 10), rmax=10, order=1, odd=True, out="full"),
                         R(origin=(7, 10), rmax=10, order=1, odd=True, out="same")],
                        [R(order=2, direction="forward"), R(order=4, direction="forward"), R(order=2, direction="forward", out="full"), R(order=6, direction="forward", out="full")],
                        [R(im=im, origin=(12, 20), out="full"), R(im=im, origin=(15, 18), out="full"), R(im=im, origin=(15, 18), rmax=12, out="same")],
                        [R(reg=("L2", 3.0)), R(reg=("diff", 1.0)), R(reg=None), R(reg=("L2", 3.0), order=4)],
                        [R(move_origin=[10, 10]), R(move_origin=[7, 12]), R(move_origin=[10, 10]), R(move_origin=[12, 9], out="full")],
                        [R(origin=np.array([7, 10])), R(origin=np.array([7, 10])), R(origin=(7, 10)), R(origin=np.array([9.0, 11.0]))],
                        # weights that leave whole rings without data (masked transform matrices), then the same requests without weights
                        [R(weights=ringw, direction="forward"), R(direction="forward"), R()],
                        [R(weights=ringw, reg=("L2", 5.0)), R(reg=("L2", 5.0)), R(), R(direction="forward")],
                        [R(weights=ringw, reg="pos", order=2), R(reg="pos", order=2), R(order=2)],
                        [R(weights=ringw, reg=("SVD", 0.2)), R(weights=ringw), R(reg=("diff", 1.0)), R()],
                        [R(reg=("SVD", 0.3)), R(), R(reg=("L2", 0)), R(direction="forward"), R(reg=("SVD", 0.3), order=4), R(order=4)]],
    }
    scratch = os.environ.get("VERIF_SCRATCH")
    refs = {}
    for modname, sess in sessions.items():
        mod = importlib.import_module(modname)
        short = modname.split(".")[1]
        for si, seq in enumerate(sess):
            for use_dir in (False, True, "twice"):
                d = tempfile.mkdtemp(prefix="seq_", dir=scratch) if use_dir else None
                mod.cache_cleanup()
                for rep_ in range(2 if use_dir == "twice" else 1):
                    if rep_:
                        mod.cache_cleanup()                     # second pass: everything is on disk now
                    for ci, f in enumerate(seq):
                        ck.count(("S.sequences", short, si, ci, str(use_dir)), suite="S.sequences")
                        try:
                            got = quiet(f, abel, d)
                            if (short, si, ci) not in refs:
                                refs[(short, si, ci)] = _reference(modname, f)
                            want = refs[(short, si, ci)]
                        except Exception as e:
                            try:                                 # a call that fails here but not in a pristine process depends on history
                                if (short, si, ci) not in refs:
                                    refs[(short, si, ci)] = _reference(modname, f)
                                ck.violation(dict(site=short, clause="history-dependent-result"),
                                             dict(module=short, session=si, call=ci, basis_dir=str(use_dir), pass_=rep_),
                                             f"{short}: call {ci} of curated session {si} raised {type(e).__name__}: {e} — the same call succeeds in a pristine process")
                                break
                            except Exception:
                                ck.notes.append(f"sequence {short}/{si}/{ci}: {type(e).__name__}: {e}")
                                continue
                        if not same_result(got, want, 1e-9):
                            ck.violation(dict(site=short, clause="history-dependent-result"),
                                         dict(module=short, session=si, call=ci, basis_dir=str(use_dir), pass_=rep_),
                                         f"{short}: call {ci} of curated session {si} (basis_dir={use_dir}) differs from the pristine-state result")
                            break
        mod.cache_cleanup()


def oracle_failed_saves(ck, tier):
    """a call that fails while saving its basis (basis_dir that cannot be written) is part of the history like any other: the
    calls after it return what they return in a fresh process (repair F60: daun kept the new basis under the old parameters)"""
    import abel
    from abel import basex, dasch, daun, linbasex, rbasex
    rng = np.random.default_rng(seed() + 760)
    half = rng.random((4, 15))
    full = rng.random((21, 21))
    bad = os.path.join(tempfile.gettempdir(), "pyabel_verif_no_such_dir", "x")          # never created
    families = {
        "daun": (daun.cache_cleanup, [lambda d, k=k: daun.daun_transform(half, direction=k[0], degree=k[1], reg=k[2], basis_dir=d, verbose=False)
                                      for k in [("forward", 1, None), ("forward", 2, None), ("inverse", 0, None), ("inverse", 3, None),
                                                ("inverse", 1, ("L2", 2.0)), ("forward", 0, None)]]),
        "dasch": (dasch.cache_cleanup, [lambda d, m=m: getattr(dasch, m + "_transform")(half, basis_dir=d) for m in ("two_point", "three_point", "onion_peeling")]),
        "basex": (basex.cache_cleanup, [lambda d, k=k: basex.basex_transform(half, sigma=k[0], reg=k[1], direction=k[2], basis_dir=d, verbose=False)
                                        for k in [(1.0, 0.0, "inverse"), (2.0, 0.0, "inverse"), (1.0, 3.0, "inverse"), (1.0, 0.0, "forward")]]),
        "linbasex": (linbasex.cache_cleanup, [lambda d, k=k: linbasex.linbasex_transform_full(full, proj_angles=k[0], legendre_orders=k[1], basis_dir=d)[1]
                                              for k in [([0, np.pi / 2], [0, 2]), ([0, np.pi / 4, np.pi / 2], [0, 2]), ([0, np.pi / 2], [0, 2, 4]),
                                                        ([0, np.pi / 2], [0, 4]), ([0, np.pi / 3], [0, 2])]]),      # (bases of one shape: the memory cache can mix them up)
        "rbasex": (rbasex.cache_cleanup, [lambda d, k=k: rbasex.rbasex_transform(full, order=k[0], direction=k[1], reg=k[2], basis_dir=d)[0]
                                          for k in [(2, "inverse", None), (4, "inverse", None), (2, "forward", None), (2, "inverse", ("L2", 1.0))]]),
    }
    import contextlib

    @contextlib.contextmanager
    def interrupted_save(after):
        """numpy.save fails after `after` bytes have reached the file (disk full, signal): the process goes on"""
        real = np.save

        def broken(file, arr, *a, **k):
            import io as _io
            buf = _io.BytesIO()
            real(buf, arr, *a, **k)
            data = buf.getvalue()[:after]
            if hasattr(file, "write"):
                file.write(data)
            else:
                with open(file if str(file).endswith(".npy") else str(file) + ".npy", "wb") as fh:
                    fh.write(data)
            raise OSError("No space left on device (simulated)")
        np.save = broken
        try:
            yield
        finally:
            np.save = real
    scratch = os.environ.get("VERIF_SCRATCH")
    for name, (cleanup, calls) in families.items():
        refs = []
        for c in calls:
            cleanup()
            refs.append(np.array(quiet(c, None), float))
        # … the save interrupted part-way (a writable directory this time)
        for a, b in [(a, b) for a in range(len(calls)) for b in range(len(calls)) if a != b][:: 2 if tier == "quick" else 1]:
            for after in (0, 17, 300):
                ck.count(("S.interrupted-save", name, a, b, after), suite="S.failed-saves")
                d = tempfile.mkdtemp(prefix="intr_", dir=scratch)
                cleanup()
                try:
                    quiet(calls[a], None)
                    with interrupted_save(after):
                        try:
                            quiet(calls[b], d)
                        except Exception:
                            pass
                    again = np.array(quiet(calls[a], None), float)
                    third = np.array(quiet(calls[b], None), float)
                except Exception as e:
                    ck.violation(dict(site=name, clause="failed-save-history-exception"), dict(module=name, call=a, failing=b, after=after), f"{type(e).__name__}: {e}")
                    continue
                for lab, got, want in (("the earlier call repeated", again, refs[a]), ("the interrupted call repeated without a directory", third, refs[b])):
                    if got.shape != want.shape or np.abs(got - want).max() > 1e-9 * max(1.0, float(np.abs(want).max())):
                        ck.violation(dict(site=name, clause="interrupted-save-history"), dict(module=name, call=a, failing=b, after=after, which=lab),
                                     f"{name}: call #{a}, then call #{b} whose basis save is interrupted after {after} bytes, then {lab}: differs from the fresh-process value by "
                                     f"{np.abs(got - want).max() if got.shape == want.shape else 'shape'}")
                        break
        pairs = [(a, b) for a in range(len(calls)) for b in range(len(calls)) if a != b]
        for a, b in pairs:
            ck.count(("S.failed-save", name, a, b), suite="S.failed-saves")
            cleanup()
            try:
                first = np.array(quiet(calls[a], None), float)
                try:
                    quiet(calls[b], bad)
                    failed = False
                except Exception:
                    failed = True
                again = np.array(quiet(calls[a], None), float)
            except Exception as e:
                ck.violation(dict(site=name, clause="failed-save-history-exception"), dict(module=name, call=a, failing=b), f"{type(e).__name__}: {e}")
                continue
            tol = 1e-9 * max(1.0, float(np.abs(refs[a]).max()))
            if first.shape != refs[a].shape or again.shape != refs[a].shape or np.abs(again - refs[a]).max() > tol:
                ck.violation(dict(site=name, clause="failed-save-history"), dict(module=name, call=a, failing=b, save_failed=failed),
                             f"{name}: call #{a}, then call #{b} with an unwritable basis_dir ({'raised' if failed else 'returned'}), then call #{a} again: "
                             f"the last result differs from the fresh-process value by {np.abs(again - refs[a]).max() if again.shape == refs[a].shape else 'shape'}")
        cleanup()


def oracle_refused_calls(ck, tier):
    """a request the library refuses (unknown origin / rmax / regularisation / output name, impossible degree or shape) is part of the
    history like any other: the valid calls after it return what they return in a fresh process — they neither fail nor change
    (repair F66: an rbasex call refused while analysing its first image left a half-built object in the cache and every later
    call raised AttributeError until cache_cleanup())"""
    from abel import basex, dasch, daun, linbasex, rbasex
    rng = np.random.default_rng(seed() + 766)
    half = rng.random((4, 15))
    full = rng.random((21, 21))
    families = {
        "rbasex": (rbasex.cache_cleanup,
                   [lambda: rbasex.rbasex_transform(full)[0], lambda: rbasex.rbasex_transform(full, order=4, direction="forward")[0],
                    lambda: rbasex.rbasex_transform(full, origin=(9, 11), rmax=8, reg=("L2", 2.0))[0]],
                   [lambda: rbasex.rbasex_transform(full, origin="xx"), lambda: rbasex.rbasex_transform(full, rmax="foo"),
                    lambda: rbasex.rbasex_transform(full, reg=("bogus", 1.0)), lambda: rbasex.rbasex_transform(full, out="bogus"),
                    lambda: rbasex.rbasex_transform(full, origin=(50, 50)), lambda: rbasex.rbasex_transform(full, direction="sideways"),
                    lambda: rbasex.rbasex_transform(full, order=1, reg="pos", odd=True, weights=np.zeros((3, 3)))]),
        "daun": (daun.cache_cleanup,
                 [lambda: daun.daun_transform(half, degree=1, verbose=False), lambda: daun.daun_transform(half, degree=3, reg=("L2", 1.0), verbose=False),
                  lambda: daun.daun_transform(half, direction="forward", degree=2, verbose=False)],
                 [lambda: daun.daun_transform(half, degree=5, verbose=False), lambda: daun.daun_transform(half, reg="bogus", verbose=False),
                  lambda: daun.daun_transform(half, reg=("bogus", 2.0), degree=2, verbose=False), lambda: daun.daun_transform(half, direction="sideways", verbose=False)]),
        "basex": (basex.cache_cleanup,
                  [lambda: basex.basex_transform(half, basis_dir=None, verbose=False), lambda: basex.basex_transform(half, sigma=2.0, reg=3.0, basis_dir=None, verbose=False)],
                  [lambda: basex.basex_transform(half, direction="sideways", basis_dir=None, verbose=False),
                   lambda: basex.basex_transform(half, sigma=-1.0, basis_dir=None, verbose=False)]),
        "dasch": (dasch.cache_cleanup,
                  [lambda: dasch.two_point_transform(half, basis_dir=None), lambda: dasch.three_point_transform(half, basis_dir=None, dr=0.5)],
                  [lambda: dasch.three_point_transform(half[:, :2], basis_dir=None), lambda: dasch.two_point_transform(half, direction="forward", basis_dir=None)]),
        "linbasex": (linbasex.cache_cleanup,
                     [lambda: linbasex.linbasex_transform_full(full, basis_dir=None)[1]],
                     [lambda: linbasex.linbasex_transform_full(full[:, :20], basis_dir=None), lambda: linbasex.linbasex_transform_full(full, proj_angles=[0], basis_dir=None)]),
    }
    for name, (cleanup, good, bad) in families.items():
        refs = []
        for g in good:
            cleanup()
            refs.append(np.array(quiet(g), float))
        for ib, b in enumerate(bad):
            for ig, g in enumerate(good):
                ck.count(("S.refused-call", name, ib, ig), suite="S.refused-calls")
                cleanup()
                try:
                    quiet(good[(ig + 1) % len(good)])
                    try:
                        quiet(b)
                        refused = False
                    except Exception:
                        refused = True
                    got = np.array(quiet(g), float)
                except Exception as e:
                    ck.violation(dict(site=name, clause="call-after-refused-call-fails"), dict(module=name, refused=ib, then=ig),
                                 f"{name}: valid call #{ig} right after the refused request #{ib} raises {type(e).__name__}: {e}")
                    continue
                if got.shape != refs[ig].shape or not np.allclose(got, refs[ig], rtol=0, atol=1e-9 * max(1.0, float(np.nanmax(np.abs(refs[ig])))), equal_nan=True):
                    ck.violation(dict(site=name, clause="call-after-refused-call-differs"), dict(module=name, refused=ib, then=ig, was_refused=refused),
                                 f"{name}: valid call #{ig} right after request #{ib} ({'refused' if refused else 'accepted'}) differs from its fresh-process value by "
                                 f"{np.nanmax(np.abs(got - refs[ig])) if got.shape == refs[ig].shape else 'shape'}")
        cleanup()


def oracle_cleanup_exact(ck):
    """basis_dir_cleanup(method) removes exactly that method's basis files"""
    import abel
    d = tempfile.mkdtemp(prefix="clean_", dir=os.environ.get("VERIF_SCRATCH"))
    rng = np.random.default_rng(seed() + 777)

    def populate():
        for f in glob.glob(os.path.join(d, "*")):
            os.remove(f)
        for ad in ADAPTERS:
            ad.cache_cleanup()
            for key in ad.lattice[::4][:3]:
                ad.call(key, d)
        for extra in ("notes.txt", "mybasex_basis_3_1.0.npy", "basex_basis.txt", "xtwo_point_basis_5.npy", "daun_basisX_3_1.npy"):
            open(os.path.join(d, extra), "w").write("keep me")
    owners = {"basex": r"basex_basis_.*\.npy", "daun": r"daun_basis_.*\.npy", "linbasex": r"linbasex_basis_.*\.npy",
              "rbasex": r"rbasex_basis_.*\.npy", "two_point": r"two_point_basis_.*\.npy", "three_point": r"three_point_basis_.*\.npy",
              "onion_peeling": r"onion_peeling_basis_.*\.npy"}
    import re
    for m, pat in owners.items():
        populate()
        before = set(os.listdir(d))
        quiet(abel.transform.basis_dir_cleanup, d, m)
        after = set(os.listdir(d))
        want_removed = {f for f in before if re.fullmatch(pat, f)}
        ck.count(("S.cleanup", m), suite="S.cleanup-exact")
        if before - after != want_removed or not want_removed:
            ck.violation(dict(site="basis_dir_cleanup", method=m, clause="exactness"),
                         dict(method=m, removed=sorted(before - after), expected=sorted(want_removed)),
                         f"basis_dir_cleanup(method={m}) removed {sorted(before - after)}, expected exactly {sorted(want_removed)}")
    populate()
    before = set(os.listdir(d))
    quiet(abel.transform.basis_dir_cleanup, d, "all")
    left = set(os.listdir(d))
    ck.count(("S.cleanup", "all"), suite="S.cleanup-exact")
    if left != {f for f in before if not any(re.fullmatch(p, f) for p in owners.values())}:
        ck.violation(dict(site="basis_dir_cleanup", method="all", clause="exactness"), dict(left=sorted(left)),
                     "basis_dir_cleanup(method='all') did not remove exactly the library's basis files")


def oracle_cleanup_paths(ck):
    """explicit basis directories whose names contain glob metacharacters: cleanup removes the named directory's files of that method
    and nothing in sibling directories the name would match as a pattern; transforms through such a directory equal a plain one's"""
    import abel, re, shutil
    root = tempfile.mkdtemp(prefix="meta_", dir=os.environ.get("VERIF_SCRATCH"))
    pairs = [("d[12]", "d1"), ("a*b", "axb"), ("q?x", "qax")]
    owners = {"basex": "basex", "daun": "daun", "linbasex": "linbasex", "rbasex": "rbasex", "two_point": "dasch", "three_point": "dasch",
              "onion_peeling": "dasch"}
    for odd, plain in pairs:
        dodd, dplain = os.path.join(root, odd), os.path.join(root, plain)
        os.mkdir(dodd), os.mkdir(dplain)
        for ad in ADAPTERS:
            for key in ad.lattice[::4][:2]:
                ad.cache_cleanup()
                a = ad.call(key, dplain)
                ad.cache_cleanup()
                b = ad.call(key, dodd)
                ad.cache_cleanup()
                c = ad.call(key, dodd)             # now from whatever the lookup finds
                ck.count(("S.paths", ad.name, odd), suite="S.cleanup-paths")
                for got in (b, c):
                    if a[0] != got[0] or (a[0] == "ok" and not same_result(a[1], got[1])):
                        ck.violation(dict(site=ad.name, clause="metachar-basis-dir-result"), dict(module=ad.name, key=repr(key), dir=odd),
                                     f"{ad.name}: basis through directory {odd!r} differs from the one through {plain!r} for {key!r}")
        for m in owners:
            bo, bp = set(os.listdir(dodd)), set(os.listdir(dplain))
            quiet(abel.transform.basis_dir_cleanup, dodd, m)
            ao, ap = set(os.listdir(dodd)), set(os.listdir(dplain))
            want = {f for f in bo if re.fullmatch(m + r"_basis_.*\.npy", f)}
            ck.count(("S.paths.cleanup", m, odd), suite="S.cleanup-paths")
            if bo - ao != want or ap != bp:
                ck.violation(dict(site="basis_dir_cleanup", method=m, clause="metachar-basis-dir"),
                             dict(method=m, dir=odd, removed=sorted(bo - ao), expected=sorted(want), sibling_removed=sorted(bp - ap)),
                             f"basis_dir_cleanup({odd!r}, {m}) removed {sorted(bo - ao)} (expected {sorted(want)}) and {sorted(bp - ap)} from sibling {plain!r}")
    shutil.rmtree(root, ignore_errors=True)


def regenerate_names(ck):
    p = subprocess.run(["/venv/bin/python", str(VERIF / "harness" / "gen_tables.py")], capture_output=True, text=True)
    if p.returncode != 0:
        ck.broken.append(dict(kind="translator", module="gen_tables", why=p.stderr[-800:]))


def run(tier):
    ck = Check("C07", tier)
    deep = tier == "thorough"
    ck.cov["rule"] = ("K: per module (dasch, daun, basex, linbasex, rbasex) 12 (thorough 120) seeded histories of 8-30 operations "
                      "over its key lattice: get_bs_cached calls with/without basis_dir, cache_cleanup, basis_dir_cleanup, file "
                      "damage (ValueError-type / other), file removal; model vs implementation after every operation. "
                      "S: every returned basis vs a freshly generated one; 60 (thorough 400) transform-level operations per module "
                      "over the wide lattice (sizes, sigma, reg, correction, dr, direction, degree, order/odd, out, origin, rmax, "
                      "weights, angles, orders, radial_step, clip, cache_cleanup(select), basis_dir_cleanup, set_basis_dir, "
                      "basis_dir in {None,'',path}) vs a pristine re-imported module in a forked child; cleanup exactness. "
                      "distinct = (suite, module, op kind, key, flag)")
    ck.cov["trusted_base"] = ["Lean 4.33 kernel", "axioms propext/Classical.choice/Quot.sound",
                              "generic cache machine + five rule sets (Model/Cache.lean) tied to the get_bs_cached functions by the "
                              "history correspondence; array contents are abstract descriptors, `sound` encodes the crop facts "
                              "(entries depend on indices only; leading block of a triangular inverse)",
                              "second-level caches (transform matrices, rbasex lazy inverse save, _dst/_ibs) are not in the Lean "
                              "machine: covered by the transform-level oracle only",
                              "gen_tables.py (file-name patterns and cleanup masks from the AST)"]
    ck.cov["unproved_clauses"] = ["second-level (transform-matrix) caches: measured", "crop soundness of the numeric bases is a "
                                  "hypothesis of the machine (`sound`); proved only where the basis is modelled (Dasch W, daun degree 0)"]
    ck.cov["source_fingerprint"] = source_fingerprint(["abel/basex.py", "abel/daun.py", "abel/dasch.py", "abel/linbasex.py",
                                                       "abel/rbasex.py", "abel/transform.py"])
    regenerate_names(ck)
    ck.proofs("PyAbel.Props.C07")
    ck.proofs("PyAbel.Props.C07Names")
    ck.proofs("PyAbel.Props.C07Rbasex")
    ck.proofs("PyAbel.Props.C07Basex")
    ck.proofs("PyAbel.Props.C07Daun")
    ok, log = ensure_driver()
    if ok:
        correspondence(ck, tier)
    else:
        ck.broken.append(dict(kind="proof", module="pyabel_drv", why="driver build failed", log=log[-1500:]))
    oracle_param_pairs(ck, tier, deep or bool(ck.broken))
    oracle_sequences(ck, tier)
    oracle_transform(ck, tier, deep or bool(ck.broken))
    oracle_cleanup_exact(ck)
    oracle_cleanup_paths(ck)
    oracle_failed_saves(ck, tier)
    oracle_refused_calls(ck, tier)
    from harness import rbxmachine
    rbxmachine.run_sessions(ck, tier)              # rbasex's in-memory transform caches vs the Lean machine of C07Rbasex
    from harness import bxmachine
    bxmachine.run_sessions(ck, tier)               # basex's, vs the machine of C07Basex (globals after every call, matrices vs a fresh process)
    from harness import daunmachine
    daunmachine.run_sessions(ck, tier)             # daun's, vs the machine of C07Daun (basis / transform-matrix caches, crop reuse by degree)
    return ck.finish()


def replay(path):
    rec = json.loads(open(path).read())
    print(json.dumps(rec, indent=1, default=str)[:4000])
    return 1
