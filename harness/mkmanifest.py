"""Regenerates /verif/MANIFEST.json from the table below (run: /venv/bin/python -m harness.mkmanifest)."""
import json
from pathlib import Path

VERIF = Path(__file__).resolve().parent.parent
ALL = [f"C{k:02d}" for k in range(1, 21)]

CLAIMED = {
    "C06": dict(
        text="Lean 4 theorems over an executable model of get/put_image_quadrants (every shape, parity, mask, symmetry "
             "form, any field of characteristic 0): put∘get = id, mean formula, mirror symmetry, fixed points, "
             "idempotence, rejection ⇔ undefined quadrant. Model tied to abel/tools/symmetry.py by a bit-exact "
             "correspondence run on every check; 'fourier' branch tied numerically (not proved).",
        note="Trusted: Lean kernel + propext/Classical.choice/Quot.sound; the hand-written model is faithful only as "
             "far as the correspondence explores (shapes 2..9 quick, ..40 thorough; 5 axis forms x 16 masks); Float vs "
             "field arithmetic; FFT modelled as exact mirror average.",
        technique="Lean 4 proof (index arithmetic by omega, field_simp) + differential correspondence model↔code",
        design="§3 C06"),
    "C12": dict(
        text="Lean 4 theorems over a per-axis index-map model of set_center (whole-pixel path) and of center_image's "
             "trimming, for every axis length, origin inside the frame and crop mode: the origin lands at size//2; "
             "maintain_size is a pure translation with zero fill; valid_region is the largest symmetric block of "
             "original pixels; maintain_data keeps every pixel with minimal symmetric padding; unselected/None axes "
             "untouched; negative origins wrap; odd_size/square guarantees; center_image with an explicit whole-pixel origin (trimming, "
             "conversion of the origin from the input frame, centring, second squaring): the requested input pixel is the centre pixel "
             "of the output, or the request is refused — exactly when the trimming removes that pixel. Tied to abel/tools/center.py by bit-exact "
             "correspondence (labelled images, every crop / flag / origin incl. negative); for fractional origins the order-1 (linear interpolation) shift is modelled and its exact conservation "
             "of total intensity and first moment is proved (orders 2-5: measured).",
        note="Trusted: Lean kernel + standard axioms; model faithful as far as correspondence explores (shapes 1..8 "
             "quick / 1..12 thorough, all crops/axes, integer dtype, order=0 rounding); scipy.ndimage.shift (orders "
             "1-5, fractional origins) is outside the model and only measured (intensity, centroid).",
        technique="Lean 4 proof (omega over Int/Nat index maps) + differential correspondence model↔code",
        design="§3 C12"),
    "C05": dict(
        text="Lean 4 theorems over the Transform quadrant pipeline model (any shape, any shape-preserving half-image "
             "transform T): output shape = input shape; explicit pixel formula (which transformed quadrant, which "
             "local position; centre column from the right-hand, centre row from the lower quadrants); quadrants "
             "left as None are never read; dr routing. Tied to abel/transform.py by a bit-exact run of abel.Transform "
             "with a stub method patched in (all axis forms x masks x shapes), plus real-method assembly, option "
             "routing, int-vs-float and linbasex/rbasex pass-through oracles.",
        note="Trusted: Lean kernel + standard axioms; hand model faithful as far as the stub correspondence explores; "
             "centring inside Transform is compared with center_image itself (decided by C12); automatic origin "
             "finders are exercised, their correctness is C13.",
        technique="Lean 4 proof (index arithmetic) + differential correspondence with stubbed method",
        design="§3 C05"),
    "C20": dict(
        text="Lean 4 theorems over a decision model of request validation/dispatch (entry point x method x direction "
             "class x shape x option-validity flags): an inverse operator is only returned for an inverse request and "
             "a forward operator only for a forward request by a forward-capable method; dispatch raises iff the "
             "request is unsupported (declarative spec). Tied to the code by executing every request class on "
             "abel.Transform and the transform functions and classifying the outcome (raise/forward/inverse) by an "
             "independent amplitude test; finite table enumerated completely + seeded interactions; every request "
             "is issued twice to expose stale state after a failure. Along histories: in the state machine of rbasex's transform "
             "caches (C07Rbasex) a regularisation that cannot be honoured raises after every history of earlier requests and a "
             "forward request is never answered with inverse matrices (invariant by induction; sessions on the real module vs the machine).",
        note="Trusted: Lean kernel + standard axioms; the abstraction of concrete requests into classes (harness "
             "model_line); forward/inverse classification by the Gaussian amplitude ratio; direct's C backend not "
             "built here (python backend only).",
        technique="Lean 4 proof (case analysis, grind) + exhaustive differential correspondence over the request table",
        design="§3 C20"),
    "C03": dict(
        text="Lean 4 theorems (any field): back substitution inverts the triangular product and vice versa for every size "
             "and every row; the Daun bases of degree 0, 1, 2 and every rBasex radial matrix P[n] are lower-triangular with positive "
             "diagonal at every size (over the reals, from their Abel-integral theorems: nothing of a basis function inside the "
             "cylinder is seen, and the diagonal integrates a non-negative function that is positive on a stretch of the line of "
             "sight), hence their forward/inverse pairs undo each other exactly; matrix-pair round trip for basex/daun-3. Tied to the code by "
             "entrywise comparison of the Lean matrices/solves with the implementation's arrays and by structure checks on "
             "its bases; round trips on random rows (exact class) and smooth profiles (approximate class) as oracle.",
        note="Trusted: Lean kernel + standard axioms; correspondence sizes 2..40 (quick) / ..150 (thorough); "
             "G·F = 1 for basex / daun degree 3 is measured; approximate-class "
             "limits are 2x the pinned tree's error.",
        technique="Lean 4 proof (induction over back substitution) + operator-level differential correspondence",
        design="§3 C03"),
    "C04": dict(
        text="Lean 4 theorems: x·M, M·x and the triangular solve are linear in the data for every size; dr scaling of the "
             "matrix forms; NNLS solutions are positively homogeneous (over the reals); the Hansen–Law recursion, the direct quadrature "
             "(python backend) and the Bordas peeling loop as coded are linear in the row and scale with dr, for every constant table; the "
             "Bordas loop is the exact solve of its arcsine shell-weight system; the uniformity test that decides how `direct` integrates an "
             "explicit radial grid gives the same verdict in every unit of length (C02Grid). Tie: Lean models of those three run against the code row "
             "by row (Hansen–Law constants regenerated from the source);  for every method x direction x "
             "option set the implementation is compared with its own extracted fixed operator (T(X) = X@M), and the Lean "
             "matrices with the implementation's arrays; linearity, bit-exact row independence, dr scaling, integer dtypes, "
             "NNLS homogeneity, image tools and abel.Transform settings as oracle.",
        note="Trusted: Lean kernel + standard axioms; scipy resampling (ndimage.shift in onion_bordas shift_grid=True, image tools) is "
             "not modelled in Lean (fixed-operator form and linearity measured); direct's C backend not built; scipy nnls external.",
        technique="Lean 4 proof (finite-sum algebra, induction) + fixed-operator differential check",
        design="§3 C04"),
    "C17": dict(
        text="Lean 4 theorems: daun degree-0 matrix = onion-peeling W entrywise (all i, j); triangular solve = multiplication "
             "by any inverse; Aᵀ(AAᵀ+0·L)⁻¹ = A⁻¹; a feasible unconstrained solution is the unique NNLS solution; and the "
             "argument routing of all wrapper-shaped functions, decided by the kernel over a table regenerated from /repo by "
             "an AST translator on every run. Oracle: the equivalences on random data and 23 wrapper pairs at runtime.",
        note="Trusted: Lean kernel + standard axioms; gen_wrappers.py; the allowed renamings center→method, axis→axes; "
             "alternatives-within-envelopes and SVD clauses measured; direct's C backend not built.",
        technique="Lean 4 proof (real analysis of sqrt identities, Mathlib matrices, decide +kernel over generated table) + translator",
        design="§3 C17"),
    "C07": dict(
        text="Lean 4 theorems over a generic two-tier basis cache machine (memory slot + directory; calls with any key, with or "
             "without a directory, cache_cleanup, basis_dir_cleanup, file damage/removal, other processes' saves): the "
             "invariant 'what is in memory is right for its key' is preserved by every operation and every answer is the "
             "basis a fresh process would generate (up to the module's sound cropping) or an exception — by induction over "
             "all finite histories; the rule sets of dasch, daun, basex, linbasex, rbasex are proved lawful (and the "
             "pre-repair daun rule proved unlawful). Clean-up exactness is decided by the kernel over file-name tables "
             "regenerated from /repo. A second machine models rbasex's in-memory transform caches (_bs_prm, _valid_key, _trf, "
             "_tri_full, _tri_prm, _tri; calls with any basis / mask of valid radii / direction / regularisation, cache_cleanup of "
             "each kind): an invariant of the globals is preserved by every operation, so after any history a call returns matrices "
             "made from exactly what it asked for; a third machine does the same for basex's basis / forward / inverse caches keyed by "
             "[n, sigma] and [reg, correction, dr]. Tie: seeded histories on the real get_bs_cached functions vs the machines after every "
             "operation (for rbasex and basex: outcome and all cache globals after every call; for basex also the returned matrix vs a fresh process's); oracles: returned basis vs fresh, transform-level histories and single-parameter changes vs a "
             "pristine re-imported module in a forked child, cleanup exactness on a populated directory.",
        note="Trusted: Lean kernel + standard axioms; array contents are abstract descriptors and `sound` encodes crop facts "
             "assumed of the numeric bases; rbasex's matrices are tags (what they were computed from), their numeric content is the "
             "oracle's business; the other second-level caches (basex/daun transform matrices, rbasex _dst/_ibs, lazy inverse save) are "
             "not in a machine (oracle only); gen_tables.py; ill-conditioned basex (sigma<1, reg=0) excluded from the lattice.",
        technique="Lean 4 proof (invariant by induction over operation histories; decide +kernel over generated tables) + "
                  "history correspondence model↔code",
        design="§3 C07"),
    "C08": dict(
        text="Lean 4 theorems: .npy container round trip and rejection of every strict prefix of a well-formed file (all "
             "sizes, all truncation points); fault sequences on the C07 cache machine (damage, removal, concurrent atomic "
             "saves): a call returns the right basis or raises, and service recovers once no usable file is damaged. Tie: "
             "NumPy's verdict vs the Lean decoder on every prefix of real basis files of every method; fault histories on the "
             "real modules vs the machine. Oracles: truncated-file calls, poison scenarios, transform-level fault histories, "
             "np.save exposure spy with a constructed two-writer hole state, real 4-process races.",
        note="Trusted: Lean kernel + standard axioms; atomicity of rename within a directory; np.save's observed write pattern "
             "(strace: header, whole-4096-byte bulk, tail); interleavings finer than write(2) calls out of scope.",
        technique="Lean 4 proof (list/prefix reasoning, state-machine invariant) + byte-level differential check against numpy.load",
        design="§3 C08"),
    "C13": dict(
        text="Lean 4 theorems: the centre of mass of a profile symmetric about a centre on the half-pixel grid is that centre; it "
             "follows whole-pixel translations and ignores non-zero scaling (any field); every autoconvolution value is bounded by "
             "the energy, the bound is attained at the symmetry centre and, for a non-zero profile, at no other lag — the argmax is unique "
             "(reals; centre_is_unique_argmax). Tie: find_origin(com/convolution/image_center, "
             "axes) vs the Lean model bit-for-bit on integer-valued images. Oracle: symmetric images about every half-pixel centre, "
             "translations, scalings, axes; Gaussian spots for the Gaussian fit.",
        note="Trusted: Lean kernel + standard axioms; scipy center_of_mass / np.convolve / argmax as tied by K; the Gaussian fit "
             "(curve_fit) is measured, not proved.",
        technique="Lean 4 proof (finite-sum reflection, AM-GM) + bit-exact differential correspondence",
        design="§3 C13"),
    "C14": dict(
        text="Lean 4 theorems (any field): for every pixel set and every weights, if the folded pixel values follow Σ a_m tᵐ the data "
             "moments are the Hankel matrix of the weight moments applied to a (normal equations); the coded 2x2 / 3x3 adjugate "
             "inverses solve the Hankel system; hence exact recovery for 1-3 angular terms wherever the determinant is non-zero; the "
             "per-radius scaling inverse(p/s)/s the code applies against under-/overflow is exact in field arithmetic, degenerate "
             "branches included (solve2_scaled, solve3_scaled). "
             "Tie: Distributions(...).image(IM).cos() vs an executable Lean model of origin decoding, rmax keywords, folding, "
             "bins, weights, sin weighting and both bin methods (1e-9 on well-conditioned radii). Oracle: exact synthetic images "
             "over all shapes/origins/rmax/orders 0-8/odd/methods/weights; anisotropy_parameter on noiseless curves.",
        note="Trusted: Lean kernel + standard axioms; non-singularity of the Hankel matrix is a hypothesis; orders > 4 (scipy inv), "
             "method='remap' and curve_fit are outside the model (oracle only).",
        technique="Lean 4 proof (list-sum algebra, field identities) + differential correspondence of a full executable model",
        design="§3 C14"),
    "C15": dict(
        text="Lean 4 theorems: the flipped-Pascal cos^n→cos^n sin^m conversion evaluates to the same function (up to five terms, any "
             "commutative ring with c+s=1); the Legendre conversion matrices for orders 0..8 with/without odd terms are exact "
             "inverses of the Legendre coefficient matrices (kernel-decided over rationals); results are invariant under weight "
             "scaling (1, 2 and 3 angular terms) and under the values of zero-weight pixels, depend only on the multiset of a bin's pixel "
             "contributions (so pixel order, storage layout and the left-right mirror are immaterial), and the top-bottom mirror flips "
             "exactly the odd terms (algebraic core of Distributions, any field); the windowed anisotropy of Ibeta(window) is the ratio "
             "of centred moving averages masked by the averaged P0, so an anisotropy that does not depend on the radius survives any "
             "window, array ends included (C15Window). Tie: Results.cossin()/harmonics() vs the exact tables, Results.Ibeta(window) "
             "vs the executable window model. Oracle: same-function evaluation at random θ, I=4πr²P0, β=Pn/P0, windows, and the image-symmetry invariances.",
        note="Trusted: Lean kernel + standard axioms; Bonnet recurrence as the definition of P_n; mirror / origin-form / rmax-prefix "
             "invariances are measured on the implementation only.",
        technique="Lean 4 proof (ring identities, decide +kernel over exact rational tables) + differential correspondence",
        design="§3 C15"),
    "C16": dict(
        text="Lean 4 theorems: the rBasex image synthesis interpolates each distribution linearly between integer radii, falls "
             "linearly to zero between rmax and rmax+1, is zero beyond and linear in the distributions (any field); the five "
             "output frames: 'same' = input shape and origin, 'full' = centred (2rmax+1)-square, 'full-unique'/'fold' = unique "
             "parts of 'full'/'unfold', 'unfold' twice the fold minus the shared axes. Tie: rbasex_transform(...)[0] for every out "
             "value vs the Lean synthesis of the returned distributions (1e-11). Oracle: identical distributions across out "
             "values, independent numpy synthesis, mirror-unfolding, zero-weight pixels, valid flags, Transform pass-through.",
        note="Trusted: Lean kernel + standard axioms; pixel-value mirror symmetry of the Float synthesis measured; radial transform "
             "matrices are other properties' business.",
        technique="Lean 4 proof (list-sum algebra, index arithmetic) + differential correspondence on all output geometries",
        design="§3 C16"),
    "C19": dict(
        text="Lean 4 theorems over the reals: Cartesian→polar→Cartesian is the identity with arctan2(x,y)=arg(y+xi), zero angle up, "
             "positive to the right; index_coords origin/axes incl. negative origins; sample positions of the polar reprojection; "
             "int2D = 2πr·avg2D and int3D = 4πr²·avg3D for any polar image; toPES conserves the trapezoid integral on a uniform "
             "grid for profiles vanishing at both ends, with every option (repeller voltage, zoom, photon energy); circularize with a constant correction samples every pixel at itself. "
             "Tie: numpy coordinate functions, the four radial_intensity kinds on a stubbed polar image and toPES (with its options) vs the model. "
             "Oracle: the clauses on random inputs; recorded resampler positions; quadrature-level clauses with tolerances.",
        note="Trusted: Lean kernel + standard axioms; scipy map_coordinates outside the model; isotropic-profile / total-conservation "
             "clauses hold to quadrature accuracy (measured). Known finding F20 (circularize border pixels, ref_angle=None).",
        technique="Lean 4 proof (Complex.arg, finite-sum algebra, telescoping induction) + differential correspondence",
        design="§3 C19"),
    "C18": dict(
        text="Lean 4: (1) soundness theorem for a points-to certificate check over an effect IR (share / write / call / callret): "
             "in every execution of a unit's statements (any order, repetition, subset; callees within their summaries) a "
             "parameter not listed as written is never modified in place; (2) the IR and certificates are regenerated from "
             "/repo by an AST translator on every run and the certificates for all 136 functions/classes are accepted by the "
             "kernel; (3) the only possibly-written parameters of public functions are number-valued; (4) no public function "
             "returns an object sharing memory with a module cache. Runtime: ~90 public callables with argument snapshots, "
             "read-only / strided / float32 / integer arguments, repeated calls, scribbled results, fresh processes.",
        note="Trusted: Lean kernel + standard axioms; gen_effects.py (AST → IR, NumPy view/mutator tables); the IR semantics; "
             "dynamic features invisible to the AST walk are covered by the runtime suite only; NumPy/SciPy determinism.",
        technique="Lean 4 proof (invariant over an abstract heap) + certificate checking by decide +kernel over a generated IR + runtime differential",
        design="§3 C18"),
    "C09": dict(
        text="Lean 4 theorems over the reals (Mathlib measure theory): the Abel (line-of-sight) integral of the indicator of a radial "
             "shell [a, b) is twice the difference of the half-chords, for every shell and every distance; hence every entry of the "
             "Daun degree-0 projected basis and of the onion-peeling weight matrix W (all i, j) equals the Abel integral of its "
             "rectangular basis function, whose documented formula is also proved; the Abel integral of the ramp (R−r)₊ in closed form "
             "and of the quadratic ramp (R−r)₊² (fundamental theorem of calculus), hence every entry of the Daun degree-1 and degree-2 "
             "bases (all i, j) equals the Abel integral of its hat function / quadratic B-spline; the integrals ∫(r/ρ)ⁿ dz along a line of "
             "sight (closed forms for n ≤ 3, reduction formula for all n), hence every entry p_{R;n}(r), 1 ≤ r ≤ R, of rBasex's radial "
             "basis projections — as _bs_rbasex computes it, for every angular order — equals 2∫ b_R(ρ)(r/ρ)ⁿ dz; Daun degree 3: the coded "
             "antiderivative of a cubic piece, p(j)[i] and q(j)[i] = Abel integrals of the cubic Hermite value / derivative functions (all i, j), "
             "the Thomas algorithm solves the (1, 4, 1) slope system, and the assembled matrix applied to any samples is, at every pixel and "
             "every size, the Abel integral of the clamped cubic spline through them; the two-point and three-point operators applied to any "
             "samples are, at every pixel (axis row with Dasch's special cases included), the inverse Abel integral −(1/π)∫P′(ρ)/ρ dt along the line "
             "of sight of the piecewise-linear / local quadratic interpolant (J, I0, I1 = shell integrals of 1/ρ and (ρ−j)/ρ; summation by parts); "
             "BASEX: σ times the whole series the code sums for χ_k is the Abel integral of ρ_k(r/σ), every k, σ, x (binomial theorem, Gaussian moments). Tie: Lean matrices "
             "(onionW, twoPointD, threePointD, daun0-3, the _bs_rbasex and _bs_basex models) vs the implementation's arrays entrywise. Oracle: scipy quadrature of the defining integrals "
             "for daun 0-3 (degree 3 via the clamped cubic Hermite spline), basex χ_k/ρ_k for several σ, rbasex p_{R;n}, and the "
             "inverse-Abel integrals of the two-/three-point local interpolants; onion D·W = 1.",
        note="Partial: every family is theorem-backed (daun degrees 0-3, onion-peeling W, two-point, three-point, rbasex, basex); for basex the part of the series the code drops "
             "(beyond ±9(u+2) terms, u > k + 8) is only measured (quadrature, 1e-9); the inverse Abel integral of the Dasch theorems is stated in line-of-sight form (x = √(r²+t²) not formalised); scipy's solve_banded in daun degree 3 is modelled by the Thomas algorithm. Trusted: Lean kernel + standard axioms; scipy.integrate.quad; the reading of "
             "each basis function from the documentation; rbasex P[n][0,0]=1 (n>0) is a documented convention, not an integral.",
        technique="Lean 4 proof (Lebesgue integral of indicators, FTC for the ramp, real square-root/log algebra) + entrywise differential check + quadrature oracle",
        design="§3 C09"),
    "C10": dict(
        text="Lean 4 theorems (any field): the shift/stretch coefficient transform of Polynomial/SPolynomial yields the coefficients "
             "of p((r−r₀)/s) for every degree, r₀ and s ≠ 0 of either sign (binomial theorem + sum exchange); Angular products are "
             "polynomial products; cossin(m, n) holds the coefficients of x^m(1−x²)^{n/2}; and, over the reals, Polynomial.abel (coefficient "
             "recursion C, Horner sum of a(k), the differences (y r^p)| and ln(r+y)|) is the Abel integral of Polynomial.func for every "
             "degree, piece, shift, stretch and sample inside r_max (reduction formula of ∫ r^k dy by the fundamental theorem of calculus); every "
             "SPolynomial term r^m cos^n θ on [r_min, r_max) — the coded antiderivatives F(k, lim) for all integer k = n − m, closed forms, "
             "upward and downward recursion — is projected exactly (two-sided reduction formula of ∫(r/ρ)^k dz, k ∈ ℤ), including the value "
             "the code adds on the axis (r = 0); the half-open domains of adjoining pieces tile and the Abel transform of the whole is the "
             "sum over the pieces (C10Adjoin). Tie: Polynomial.func vs the Lean "
             "transform; Polynomial.abel and single-term SPolynomial.abel vs the Lean models; Angular products/cossin vs the model. Oracle: func and abel of random pieces vs the polynomial and vs "
             "scipy line-of-sight quadrature (relative to term size), piecewise sums, scalar ops, copies, SPolynomial on 2-D grids, "
             "Angular algebra, Legendre series, B-spline conversion, ApproxGaussian tolerances.",
        note="Partial: SPolynomial's shift/stretch and Horner assembly of the proved terms (linear) and ApproxGaussian's tolerance are "
             "measured (quadrature / dense lattice of tolerances), not proved. Trusted: Lean kernel + standard axioms; scipy quad.",
        technique="Lean 4 proof (binomial theorem, finite-sum algebra) + differential correspondence + quadrature oracle",
        design="§3 C10"),
    "C11": dict(
        text="Lean 4 theorems over the reals: StepAnalytical's and GaussianAnalytical's `abel` is the Abel integral of their `func` "
             "as functions of x, for every r1 < r2, A0, sigma (Mathlib measure theory: the shell lemma and the Gaussian integral); "
             "linear scaling of Abel pairs; TransformPair profiles 1-7 (profile 6 by a substitution that turns the line of sight into a Gaussian integral): the coded projection expression (each branch, with its "
             "square roots and logarithms) equals 2∫ source(√(x²+z²)) dz for every 0 < x < 1, as corollaries of the polynomial-piece "
             "theorem of C10. Tie: the classes' arrays vs the closed forms the theorems mention, on random grids "
             "(symmetric or not, odd/even n), and the Lean profile expressions evaluated in Float vs transform_pairs.profile<k> / "
             "TransformPair. Oracle: scipy line-of-sight quadrature of func vs abel for every shipped pair — "
             "Step, Gaussian, Polynomial wrappers, TransformPair profiles 1-7, SampleImage names x sizes x options.",
        note="Partial: the sample images are decided by "
             "quadrature, not by theorem. Trusted: Lean kernel + standard axioms; scipy quad as the independent integrator.",
        technique="Lean 4 proof (Mathlib interval/set integrals) + differential correspondence + quadrature oracle",
        design="§3 C11"),
    "C01": dict(
        text="Lean 4 theorems: for every exact inverse pair (T, A) the reconstruction error is at most the row-sum norm of T times "
             "the consistency error of the data (stability reduction), and daun degree 0 / onion peeling invert the true Abel "
             "projection of every piecewise-constant source exactly at every size (through C09's operator = Abel integral theorems); an "
             "a-priori envelope ‖T_i‖₁·L·(n−½) for inverting the true projection of any L-Lipschitz source with the degree-0 basis; rBasex's "
             "triangular solve recovers exactly the coefficients of any radially piecewise-linear distribution of any angular order from "
             "its true projection, at every Rmax (with C09Rbasex / C03Bases); the two-point and three-point operators applied to the samples "
             "of a projection return, at every pixel i ≥ 1 and every size, the textbook inverse Abel integral −(1/π)∫ P′(x) dx/√(x² − i²) of the "
             "piecewise-linear / local quadratic interpolant of the samples — so they are exact whenever the projection is such an interpolant "
             "(C01Dasch, from C09TwoPoint / C09ThreePoint). "
             "Tie: Lean operator models vs the implementation's arrays. Oracle independent of PyAbel: closed-form Abel pairs and "
             "Gauss–Legendre line-of-sight projections for every method x documented option x family x size x dr x rows; errors must "
             "stay within 2x the frozen pinned-tree envelope, below half the peak, and not grow under refinement.",
        note="Partial: the numerical envelope of each method is measured, not proved (floating point + discretisation); methods "
             "without an accuracy theorem (hansenlaw, direct, onion_bordas — modelled in C04 — basex, linbasex, rbasex at image level) are covered by the oracle only. "
             "Trusted: Lean kernel + standard axioms; the frozen baseline; numpy Gauss–Legendre nodes.",
        technique="Lean 4 proof (finite-sum bounds; Abel integral of shells) + operator correspondence + closed-form/quadrature oracle",
        design="§3 C01"),
    "C02": dict(
        text="Lean 4 theorems over the reals: the a-priori bound |Abel f x| ≤ 2M√(R²−x²), the exact dr scaling of the projection of a "
             "stretched source (the intensity scale set by the pixel size), and the chord bound for every entry of the degree-0 "
             "forward operator; with C09 the daun / onion-peeling forward operators are the Abel integrals of their basis functions, which "
             "gives machine-checked a-priori envelopes: degree 0 errs by ≤ L·√((n−½)²−i²) on L-Lipschitz sources (every size, pixel), degree 1 "
             "by ≤ 2ε·√(n²−i²) with ε the linear-interpolation error; rBasex's radial matrices (as _bs_rbasex computes them, every angular "
             "order) project every radially piecewise-linear distribution Σ c_R b_R(ρ) cosⁿθ exactly, at every integer distance and Rmax. "
             "Tie: Lean operator models vs implementation arrays (daun, onion peeling, the _bs_rbasex model entrywise). Oracle: as C01 for direction='forward' (basex, daun, direct incl. "
             "explicit r grids, hansenlaw, rbasex incl. explicit origin) at dr 1 and 0.5.",
        note="Partial: numerical envelopes measured (2x frozen pinned-tree error), not proved; hansenlaw/direct forward recursions are modelled "
             "(C04) without an accuracy theorem, basex is not modelled; rbasex's image-level pipeline (folding, Distributions) is oracle only. Trusted: Lean kernel + standard axioms; the frozen baseline; numpy Gauss–Legendre.",
        technique="Lean 4 proof (Mathlib set integrals, change of variables) + operator correspondence + closed-form/quadrature oracle",
        design="§3 C02"),
}

NOT_YET = "check not built yet in this session (planned, see DESIGN.md §3); not claimed until its theorems and correspondence run"


def main():
    checks = []
    for pid in ALL:
        if pid not in CLAIMED:
            continue
        c = CLAIMED[pid]
        checks.append(dict(
            property_id=pid,
            quick_cmd=f"./check {pid} --tier quick",
            thorough_cmd=f"./check {pid} --tier thorough",
            evidence_file=f"evidence/{pid}.json",
            replay_cmd_template=f"./check {pid} --replay {{path}}",
            engine="lean4+correspondence",
            level_claimed=dict(category=c.get("category", "proof"), text=c["text"], design_ref=c["design"]),
            level_note=c["note"],
            technique=c["technique"]))
    man = dict(
        version=1,
        setup_cmd="cd lean && lake build PyAbel pyabel_drv",
        hooks=dict(guard="PYABEL_VERIF", enable="export PYABEL_VERIF=1 (no source hook is needed: the harness reads "
                   "module globals directly; the variable is set by ./check for future guarded hooks)",
                   baseline_off_cmd="cd /repo && env -u PYABEL_VERIF /venv/bin/python -m pytest -ra -q -p no:cacheprovider "
                                    "--timeout=900 --continue-on-collection-errors",
                   source_commits=[], add_only=True),
        engines=[dict(name="lean4+correspondence", path="lean/ (models, theorems, driver) + harness/ (Python)",
                      serves_properties=sorted(CLAIMED),
                      kind_free_text="Lean 4 theorems about executable models; compiled model driver compared with "
                                     "the real abel code in-process on every run; property-level oracle search on break")],
        checks=checks,
        notes="Single entry point ./check <id> --tier quick|thorough [--replay file]. See DESIGN.md.",
        not_applicable=[dict(property_id=p, reason=NOT_YET) for p in ALL if p not in CLAIMED])
    (VERIF / "MANIFEST.json").write_text(json.dumps(man, indent=1) + "\n")
    print("claimed:", sorted(CLAIMED))


if __name__ == "__main__":
    main()
