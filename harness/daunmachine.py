"""
Correspondence between abel.daun.get_bs_cached's in-memory caches and the Lean machine PyAbel/Model/DaunCache.lean
(theorem: Props/C07Daun.lean — after any history a call hands out the matrix its request names, made from a basis of the requested
degree that covers the requested size).

Random sessions of calls (size x degree x regulariser x strength x direction, numerically equal spellings of the strength included)
and cache_cleanup(select) run on the real module with basis_dir=None; after every operation the module globals (_bs_prm, _tr is None,
_tr_prm) are compared with the machine's state, and the returned matrix with the one a fresh process computes for the same request —
which is what the machine's tag stands for (cropping a larger cached basis of degree 0-2 gives the smaller one to rounding: that part is
numerical and measured here, not in the machine).
"""
import numpy as np

from harness.common import drive, seed
from harness.methods import quiet

SIZES = [5, 8, 12]
REGS = [(None, 0, 0), ("nonneg", 1, 0), ("diff", 2, 1), ("L2", 2, 2), ("L2c", 2, 3)]          # (reg_type, kind code, regulariser id)
STRENGTHS = [(0, 0), (0.0, 0), (1, 1), (1.0, 1), (2.5, 2), (40, 3)]                              # (value, id): 0 = zero strength


def run_sessions(ck, tier, suite="K.daun-cache"):
    from abel import daun
    rng = np.random.default_rng(seed() + 7079)
    fresh = {}

    def reference(n, deg, reg, strength, direction):
        key = (n, deg, reg, float(strength), direction)
        if key not in fresh:
            daun.cache_cleanup()
            fresh[key] = np.array(quiet(daun.get_bs_cached, n, deg, reg, strength, direction, None, False), dtype=float)
            daun.cache_cleanup()
        return fresh[key]

    def show_prm(p):
        if p is None:
            return "-"
        try:
            size, reg, strength = p
            code = {None: "0:0", "nonneg": "1:0", "diff": "2:1", "L2": "2:2", "L2c": "2:3"}[reg]
            sid = "-" if float(strength) == 0 else str({1.0: 1, 2.5: 2, 40.0: 3}[float(strength)])
            return f"{int(size)},{code},{sid}"
        except Exception:
            return f"?{p!r}"
    for sess in range(25 if tier == "quick" else 250):
        plan = []
        degs = [int(v) for v in rng.choice([0, 1, 2, 3], size=2, replace=False)]
        for step in range(int(rng.integers(6, 16))):
            if rng.random() < 0.1:
                plan.append(("x", ["all", "inverse"][int(rng.integers(0, 2))]))
                continue
            n = SIZES[int(rng.integers(0, len(SIZES)))]
            deg = degs[int(rng.integers(0, 2))] if rng.random() < 0.85 else int(rng.integers(0, 4))
            reg, kcode, rid = REGS[int(rng.integers(0, len(REGS)))]
            sval, sid = STRENGTHS[int(rng.integers(0, len(STRENGTHS)))]
            d = "forward" if rng.random() < 0.3 else "inverse"
            plan.append(("c", n, deg, reg, kcode, rid, sval, sid, d, reference(n, deg, reg, sval if reg not in (None, "nonneg") else 0, d)))
        daun.cache_cleanup()
        ops, obs, log = [], [], []
        for item in plan:
            if item[0] == "x":
                daun.cache_cleanup(item[1])
                ops.append(f"x:{item[1]}")
                log.append(f"cache_cleanup({item[1]!r})")
                out = "clean"
            else:
                _, n, deg, reg, kcode, rid, sval, sid, d, ref = item
                ops.append(f"c:{n}:{deg}:{kcode}:{rid}:{sid}:{int(d == 'forward')}")
                log.append(f"get_bs_cached({n}, degree={deg}, reg_type={reg!r}, strength={sval!r}, direction={d!r})")
                try:
                    A = np.array(quiet(daun.get_bs_cached, n, deg, reg, sval, d, None, False), dtype=float)
                    good = A.shape == ref.shape and np.abs(A - ref).max() <= 1e-9 * max(1.0, np.abs(ref).max())
                    out = "ret" if good else "ret:not-the-requested-matrix"
                except Exception as e:
                    out = f"raise:{type(e).__name__}"
            g = daun
            bs = "-" if g._bs_prm is None else f"{int(g._bs_prm[0])},{int(g._bs_prm[1])}"
            obs.append(f"{out} bs={bs} tr={int(g._tr is not None)} trprm={show_prm(g._tr_prm)}")
        ck.count((suite, len(ops), tuple(sorted({o.split(':')[0] for o in ops}))), suite=suite)
        rep = drive(["dauncache " + " ".join(ops)])[0]
        model = [t.strip() for t in rep[3:].split("|")] if rep.startswith("ok") else [rep]
        model = [m.split(" ", 1)[0].split(":")[0] + " " + m.split(" ", 1)[1] if " " in m else m for m in model]      # drop the tags
        if len(model) != len(obs) or any(m != o for m, o in zip(model, obs)):
            first = next((i for i, (m, o) in enumerate(zip(model, obs)) if m != o), min(len(model), len(obs)))
            ck.disagree(suite, dict(session=log[:first + 1], implementation=obs[first] if first < len(obs) else None,
                                    model=model[first] if first < len(model) else None, ops=ops[:first + 1]),
                        f"daun.get_bs_cached session diverges from the Lean cache machine at step {first}: "
                        f"implementation [{obs[first] if first < len(obs) else '-'}] vs model [{model[first] if first < len(model) else '-'}]")
    daun.cache_cleanup()
