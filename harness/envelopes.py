"""
Accuracy-envelope measurements for C01 (inverse) and C02 (forward): closed-form Abel pairs, every method and documented
option, several sizes.  `python -m harness.envelopes --freeze` records the current tree's errors in
harness/baselines/envelopes.json (done once on the repaired tree; the check compares against 2x these values).
"""
import json
import sys
from pathlib import Path

import numpy as np
from scipy.special import beta as Beta

from harness.methods import quiet

BASE = Path(__file__).resolve().parent / "baselines" / "envelopes.json"
FLOOR = 1e-6          # errors below this fraction of the peak are rounding noise, not accuracy


# ------------------------------------------------------------------ profiles: r, dr → (f, P) closed form
def fam_gauss(n, dr, off=0.0, r=None):
    r = (np.arange(n) + off) * dr if r is None else r
    R = (n - 1) * dr
    s1, s2 = R / 3.5, R / 4          # ≥ 6 px already at n = 25, < 1e-5 of the peak at the edge; same physical distribution at every n
    f = np.exp(-r ** 2 / s1 ** 2) + 0.5 * np.exp(-r ** 2 / s2 ** 2)
    P = s1 * np.sqrt(np.pi) * np.exp(-r ** 2 / s1 ** 2) + 0.5 * s2 * np.sqrt(np.pi) * np.exp(-r ** 2 / s2 ** 2)
    return f, P


def fam_bump(n, dr, off=0.0, p=3, r=None):
    r = (np.arange(n) + off) * dr if r is None else r
    R = 0.8 * (n - 1) * dr
    u = np.clip(1 - r ** 2 / R ** 2, 0, None)
    return u ** p, R * Beta(0.5, p + 1) * u ** (p + 0.5)


def fam_ring(n, dr, off=0.0, r=None):
    """Gaussian ring; projection by Gauss–Legendre line-of-sight quadrature (independent of PyAbel)"""
    r = (np.arange(n) + off) * dr if r is None else r
    R = (n - 1) * dr
    r0, w = 0.4 * R, R / 6
    f = np.exp(-(r - r0) ** 2 / w ** 2)
    zmax = np.sqrt(np.maximum((r0 + 8 * w) ** 2 - r ** 2, 0))   # (the tail beyond the frame is part of the true projection)
    x, wt = np.polynomial.legendre.leggauss(400)
    z = 0.5 * zmax[:, None] * (x[None, :] + 1)
    P = 2 * (0.5 * zmax[:, None] * wt[None, :] * np.exp(-(np.sqrt(r[:, None] ** 2 + z ** 2) - r0) ** 2 / w ** 2)).sum(axis=1)
    return f, P


FAMILIES = {"gauss": fam_gauss, "bump": fam_bump, "ring": fam_ring}


def ring_image(n, order2, b4=0.0, b6=0.0):
    """anisotropic Gaussian ring (1 + b cos²θ + b4 cos⁴θ + b6 cos⁶θ) and its projection image (quadrature), full (2n-1)² image"""
    N = 2 * n - 1
    yy, xx = np.mgrid[:N, :N] - (n - 1)
    R = n - 1
    r0, w = 0.4 * R, R / 6
    rr = np.hypot(yy, xx)
    cos2 = np.divide(yy ** 2, rr ** 2, out=np.zeros_like(rr, dtype=float), where=rr > 0)
    f = np.exp(-(rr - r0) ** 2 / w ** 2) * (1 + order2 * cos2 + b4 * cos2 ** 2 + b6 * cos2 ** 3)
    x, wt = np.polynomial.legendre.leggauss(300)
    ax = np.abs(xx).astype(float)
    zmax = np.sqrt(np.maximum((r0 + 8 * w) ** 2 - ax ** 2 - yy ** 2, 0))
    P = np.zeros_like(f)
    for k in range(len(x)):
        z = 0.5 * zmax * (x[k] + 1)
        rho = np.sqrt(ax ** 2 + yy ** 2 + z ** 2)
        c2 = np.divide(yy ** 2, rho ** 2, out=np.zeros_like(rho), where=rho > 0)
        P += 2 * 0.5 * zmax * wt[k] * np.exp(-(rho - r0) ** 2 / w ** 2) * (1 + order2 * c2 + b4 * c2 ** 2 + b6 * c2 ** 3)
    return f, P


def stretch_grid(n, dr):
    """monotone grid on [0, (n-1) dr] whose cells grow linearly from dr/2 to 3 dr/2"""
    t = np.arange(n) / (n - 1)
    return (n - 1) * dr * (0.5 * t + 0.5 * t * t)


def region(n):
    return slice(max(3, n // 10), n - max(3, n // 8))


def half_cases():
    import abel
    C = []
    add = lambda name, f, opts, fwd: C.append((name, f, opts, fwd))
    for sigma, reg, corr in ((1.0, 0.0, True), (1.0, 0.0, False), (0.7, 10.0, True), (1.5, 0.0, True), (3.0, 0.0, True), (3.0, 10.0, True)):
        add(f"basex/sigma={sigma},reg={reg},corr={corr}", abel.basex.basex_transform, dict(sigma=sigma, reg=reg, correction=corr, basis_dir=None, verbose=False), True)
    for deg in (0, 1, 2, 3):
        add(f"daun/degree={deg}", abel.daun.daun_transform, dict(degree=deg, verbose=False), True)
    for reg in (("diff", 1.0), ("L2", 1.0), ("L2c", 1.0), "nonneg"):
        add(f"daun/degree=1,reg={reg}", abel.daun.daun_transform, dict(degree=1, reg=reg, verbose=False), reg == "nonneg")
    for reg, deg in ((("diff", 0), 1), (("L2", 0.0), 2), (("L2c", 0), 0)):          # a named regulariser of zero strength is no regularisation
        add(f"daun/degree={deg},reg={reg}", abel.daun.daun_transform, dict(degree=deg, reg=reg, verbose=False), False)
    add("hansenlaw/hold=0", abel.hansenlaw.hansenlaw_transform, dict(hold_order=0), True)
    add("hansenlaw/hold=1", abel.hansenlaw.hansenlaw_transform, dict(hold_order=1), True)
    add("direct/corr", lambda x, **k: abel.direct.direct_transform(x, backend="python", **k), dict(correction=True), True)
    add("direct/nocorr", lambda x, **k: abel.direct.direct_transform(x, backend="python", **k), dict(correction=False), True)

    def direct_rgrid(x, dr=1.0, **k):                      # explicit r grid instead of dr
        return abel.direct.direct_transform(x, backend="python", r=np.arange(x.shape[-1]) * dr, **k)
    add("direct/rgrid", direct_rgrid, dict(correction=True), True)

    def direct_halfgrid(x, dr=1.0, **k):                   # explicit uniform r grid that does not start at 0 (pixel centres)
        return abel.direct.direct_transform(x, backend="python", r=(np.arange(x.shape[-1]) + 0.5) * dr, **k)
    add("direct/halfgrid", direct_halfgrid, dict(correction=True), True)

    def direct_stretchgrid(x, dr=1.0, **k):                # explicit non-uniform r grid (cells from 0.5 dr to 1.5 dr)
        return abel.direct.direct_transform(x, backend="python", r=stretch_grid(x.shape[-1], dr), **k)
    add("direct/stretchgrid", direct_stretchgrid, dict(correction=True), True)
    add("onion_bordas/shift", abel.onion_bordas.onion_bordas_transform, dict(shift_grid=True), False)
    add("onion_bordas/noshift", abel.onion_bordas.onion_bordas_transform, dict(shift_grid=False), False)
    add("onion_peeling", abel.dasch.onion_peeling_transform, dict(basis_dir=None), False)
    add("two_point", abel.dasch.two_point_transform, dict(basis_dir=None), False)
    add("three_point", abel.dasch.three_point_transform, dict(basis_dir=None), False)
    return C


def measure(sizes, dr_values=(1.0,), with_images=True, nonneg_max_n=60, only=None, direction=None, with_transform=True):
    """returns {key: relative max error in the region away from axis and edge}"""
    import abel
    out = {}
    for name, f, opts, fwd in half_cases():
        if only is not None and name != only:
            continue
        for fam, mk in FAMILIES.items():
            for n in sizes:
                if "nonneg" in name and n > nonneg_max_n:
                    continue
                for dr in dr_values:
                    src, proj = mk(n, dr, 0.5 if name.endswith("/halfgrid") else 0.0, r=stretch_grid(n, dr) if name.endswith("/stretchgrid") else None)
                    sl = region(n)
                    amp = np.array([1.0, 0.5, 2.0])[:, None]        # several rows, each its own amplitude
                    rows = amp * proj[None, :]
                    try:
                        if direction == "forward":
                            raise StopIteration
                        quiet(f, rows, direction="inverse", dr=dr, **opts)
                        rec = quiet(f, rows, direction="inverse", dr=dr, **opts)          # the repeated identical call is judged
                        out[f"inverse|{name}|{fam}|n={n}|dr={dr}"] = float((np.abs(rec - amp * src[None, :]) / amp)[:, sl].max() / np.abs(src).max())
                    except StopIteration:
                        pass
                    except Exception as e:
                        out[f"inverse|{name}|{fam}|n={n}|dr={dr}"] = f"exc:{type(e).__name__}"
                    if fwd and direction != "inverse":
                        try:
                            quiet(f, amp * src[None, :], direction="forward", dr=dr, **opts)
                            pr = quiet(f, amp * src[None, :], direction="forward", dr=dr, **opts)
                            out[f"forward|{name}|{fam}|n={n}|dr={dr}"] = float((np.abs(pr - amp * proj[None, :]) / amp)[:, sl].max() / np.abs(proj).max())
                        except Exception as e:
                            out[f"forward|{name}|{fam}|n={n}|dr={dr}"] = f"exc:{type(e).__name__}"
    if with_images:
        for n in [s for s in sizes if s <= 101]:
            for b in (0.0, 1.5):
                src, proj = ring_image(n, b)
                c0 = n - 1
                i1 = int(round((0.4 - 1 / 6) * (n - 1)))       # inner flank of the ring
                zones = {"inner": slice(max(3, n // 10), i1), "ring": slice(i1, n - max(3, n // 8))}

                def err(rec, ref, oy=c0, ox=c0):
                    """max error on the rays right / down / diagonal from the origin, per zone (radius), relative to the peak"""
                    e = {}
                    for z, sl in zones.items():
                        ks = np.arange(n)[sl]
                        kd = np.unique(np.round(ks / np.sqrt(2)).astype(int))
                        kd = kd[(kd > 0) & (oy + kd < rec.shape[0]) & (ox + kd < rec.shape[1])]
                        h = np.abs(rec[oy, ox + ks] - ref[c0, c0 + ks]).max()
                        v = np.abs(rec[oy + ks, ox] - ref[c0 + ks, c0]).max()
                        d = np.abs(rec[oy + kd, ox + kd] - ref[c0 + kd, c0 + kd]).max() if len(kd) else 0.0
                        e[z] = float(max(h, v, d) / ref.max())
                    return e

                def put(direction, key, e):
                    for z, v in e.items():
                        out[f"{direction}|{key}|zone={z}|n={n}"] = v

                for order, odd, reg in ((2, False, None), (4, False, None), (2, True, None), (2, False, ("L2", 1.0)), (2, False, "pos")):
                    key = f"rbasex/order={order},odd={odd},reg={reg}|ring_b={b}"
                    try:
                        if direction != "forward":
                            rec = quiet(abel.rbasex.rbasex_transform, proj, order=order, odd=odd, reg=reg)[0]
                            put("inverse", key, err(rec, src))
                        if reg is None and direction != "inverse":
                            fw = quiet(abel.rbasex.rbasex_transform, src, order=order, odd=odd, direction="forward")[0]
                            put("forward", key, err(fw, proj))
                    except Exception as e:
                        out[f"{direction or 'inverse'}|{key}|zone=ring|n={n}"] = f"exc:{type(e).__name__}"
                # explicit origin on a cropped frame (the origin is no longer the centre pixel), out='same'
                key = f"rbasex/order=2,origin=offset|ring_b={b}"
                try:
                    oy, ox = c0 - 4, c0 - 2
                    if direction != "forward":
                        rec = quiet(abel.rbasex.rbasex_transform, proj[4:, 2:], origin=(oy, ox), order=2)[0]
                        put("inverse", key, err(rec, src, oy, ox))
                    if direction != "inverse":
                        fw = quiet(abel.rbasex.rbasex_transform, src[4:, 2:], origin=(oy, ox), order=2, direction="forward")[0]
                        put("forward", key, err(fw, proj, oy, ox))
                except Exception as e:
                    out[f"{direction or 'inverse'}|{key}|zone=ring|n={n}"] = f"exc:{type(e).__name__}"
                for lo, angles, step in () if direction == "forward" else (([0, 2], [0, np.pi / 2], 1), ([0, 2, 4], [0, 0.9553166, np.pi / 2], 1), ([0, 2], [0, np.pi / 2], 2)):
                    key = f"linbasex/orders={lo},angles={len(angles)},step={step}|ring_b={b}"
                    try:
                        rec = quiet(abel.linbasex.linbasex_transform_full, proj, legendre_orders=lo, proj_angles=angles, radial_step=step)[0]
                        put("inverse", key, err(rec, src))
                    except Exception as e:
                        out[f"{direction or 'inverse'}|{key}|zone=ring|n={n}"] = f"exc:{type(e).__name__}"
        # higher angular orders: cos⁴ and cos⁶ content (so that a wrong or missing power shows), centred and off-centre frames,
        # out='same' and 'full', lower order first on the same frame; linbasex with an outer radius that radial_step does not divide
        for n in [s for s in sizes if s <= 51]:
            src, proj = ring_image(n, 0.8, -0.6, 0.5)
            c0 = n - 1
            i1 = int(round((0.4 - 1 / 6) * (n - 1)))
            zones = {"ring": slice(i1, n - max(3, n // 8))}

            def err3(rec, ref, oy=c0, ox=c0):
                ks = np.arange(n)[zones["ring"]]
                kh = ks[ox + ks < rec.shape[1]]
                kv = ks[oy + ks < rec.shape[0]]
                kd = np.unique(np.round(ks / np.sqrt(2)).astype(int))
                kd = kd[(kd > 0) & (oy + kd < rec.shape[0]) & (ox + kd < rec.shape[1])]
                return float(max(np.abs(rec[oy, ox + kh] - ref[c0, c0 + kh]).max(), np.abs(rec[oy + kv, ox] - ref[c0 + kv, c0]).max(),
                                 np.abs(rec[oy + kd, ox + kd] - ref[c0 + kd, c0 + kd]).max()) / ref.max())
            # frame cut by 4 rows above, 6 below and 2 columns on the left: the largest vertical and horizontal extents differ, so the
            # output quadrant is larger than the one the radial distributions were extracted from
            oy, ox = c0 - 4, c0 - 2
            cut = (slice(4, -6), slice(2, None))
            seqs = [("centred", dict(), proj, src, c0, c0, c0, c0),
                    ("offset-same", dict(origin=(oy, ox)), proj[cut], src[cut], oy, ox, oy, ox),
                    ("offset-full", dict(origin=(oy, ox), out="full"), proj[cut], src[cut], None, None, oy, ox)]
            for tag, kw, P_, S_, ry, rx, _, _ in seqs:
                for order in (2, 6):                          # the order-2 call first: a stale cache from it must not leak
                    key = f"rbasex/order={order},{tag}|ring_hi"
                    try:
                        if direction != "forward":
                            rec = quiet(abel.rbasex.rbasex_transform, P_, order=order, **kw)[0]
                            yy0, xx0 = (rec.shape[0] // 2, rec.shape[1] // 2) if ry is None else (ry, rx)
                            if order == 6:
                                out[f"inverse|{key}|zone=ring|n={n}"] = err3(rec, src, yy0, xx0)
                        if direction != "inverse":
                            fw = quiet(abel.rbasex.rbasex_transform, S_, order=order, direction="forward", **kw)[0]
                            yy0, xx0 = (fw.shape[0] // 2, fw.shape[1] // 2) if ry is None else (ry, rx)
                            if order == 6:
                                out[f"forward|{key}|zone=ring|n={n}"] = err3(fw, proj, yy0, xx0)
                    except Exception as e:
                        out[f"{direction or 'inverse'}|{key}|zone=ring|n={n}"] = f"exc:{type(e).__name__}"
        if direction != "forward":
            for n in [s + 1 for s in sizes if s <= 51]:          # even n: outer radius R = n − 1 is odd
                src, proj = ring_image(n, 0.0)
                c0 = n - 1
                i1 = int(round((0.4 - 1 / 6) * (n - 1)))
                sl = slice(i1, n - max(3, n // 8))
                for step in (2, 3):
                    key = f"linbasex/orders=[0, 2],angles=2,step={step},R-odd|ring_b=0.0"
                    try:
                        rec = quiet(abel.linbasex.linbasex_transform_full, proj, radial_step=step)[0]
                        out[f"inverse|{key}|zone=ring|n={n}"] = float(max(np.abs(rec[c0, c0:] - src[c0, c0:])[sl].max(),
                                                                          np.abs(rec[c0:, c0] - src[c0:, c0])[sl].max()) / src.max())
                    except Exception as e:
                        out[f"inverse|{key}|zone=ring|n={n}"] = f"exc:{type(e).__name__}"
    if with_transform:
        # whole images through abel.Transform: every quadrant is transformed (no symmetrisation), so quadrant-dependent and
        # call-history-dependent errors (memory-cache hits within one call) are visible; 2-D Gaussian, closed form
        tm = [("basex", {}), ("daun", {}), ("direct", dict(backend="python")), ("hansenlaw", {}), ("hansenlaw", dict(hold_order=1)),
              ("onion_bordas", {}), ("onion_peeling", {}), ("two_point", {}), ("three_point", {}), ("daun", dict(degree=3)),
              ("basex", dict(sigma=1.5, correction=True))]
        for n in [s for s in sizes if s <= 101]:
            for dr in dr_values:
                c0 = n - 1
                ax = (np.arange(2 * n - 1) - c0) * dr
                s0 = (n - 1) * dr / 4
                g = np.exp(-(ax[:, None] ** 2 + ax[None, :] ** 2) / s0 ** 2)
                src, proj = g, s0 * np.sqrt(np.pi) * g
                sl = region(n)
                cols = np.r_[c0 - np.arange(n)[sl], c0 + np.arange(n)[sl]]
                for meth, opts in tm:
                    if only is not None and only != f"Transform/{meth}/{_fmt_opts(opts)}":
                        continue
                    for d, (a, b) in (("inverse", (proj, src)), ("forward", (src, proj))):
                        if direction not in (None, d) or (d == "forward" and meth not in ("basex", "daun", "direct", "hansenlaw")):
                            continue
                        key = f"{d}|Transform/{meth}/{_fmt_opts(opts)}|gauss2d|n={n}|dr={dr}"
                        try:
                            res = quiet(abel.Transform, a, method=meth, direction=d, transform_options=dict(opts, dr=dr)).transform
                            out[key] = float(np.abs(res - b)[:, cols].max() / b.max())
                        except Exception as e:
                            out[key] = f"exc:{type(e).__name__}"
    return out


def _fmt_opts(opts):
    return ",".join(f"{k}={v}" for k, v in sorted(opts.items())) or "default"


def load_baseline():
    return json.loads(BASE.read_text())


GROSS = 0.5           # an error of half the peak is outside every envelope, whatever the pinned tree does
REFINE = 1.25         # slack for the max over a discrete region moving with the sampling
REFINE_FLOOR = 1e-8   # plain rounding; every method but daun degree 3 (finding F17) is stable at this level on the pinned tree


def _parse(key):
    parts = key.split("|")
    d, meth = parts[0], parts[1]
    tags = dict(p.split("=", 1) for p in parts[2:] if "=" in p)
    fam = next((p for p in parts[2:] if "=" not in p), "ring_b=" + tags.get("ring_b", ""))
    return d, meth, fam, tags


def compare(ck, measured, baseline, prop):
    """violations: error above 2x the frozen baseline (and above the noise floor), a gross error, or growth under refinement"""
    direction = "inverse" if prop == "C01" else "forward"
    groups = {}
    for key, val in measured.items():
        if not key.startswith(direction + "|"):
            continue
        ck.count(key, suite="S.envelope")
        d, meth, fam, tags = _parse(key)
        site = meth.split("/")[0]
        sig = dict(site=site, clause="envelope", direction=d)
        rep = dict(case=key, error=val, baseline=baseline.get(key))
        if isinstance(val, str):
            if not isinstance(baseline.get(key), str):
                ck.violation(dict(sig, clause="exception"), rep, f"{key}: {val}")
            continue
        if not np.isfinite(val):
            ck.violation(dict(sig, clause="non-finite"), rep, f"{key}: non-finite result")
            continue
        base = baseline.get(key)
        if isinstance(base, float) and val > max(2.0 * base, FLOOR):
            ck.violation(sig, rep, f"{key}: error {val:.3g} of the peak exceeds the method's envelope (2 × {base:.3g})")
        if val > GROSS:
            ck.violation(dict(site=site, clause="gross-error", zone=tags.get("zone", "all"), direction=d), rep,
                         f"{key}: error {val:.3g} of the peak — not a reconstruction of the distribution")
        groups.setdefault(key.replace(f"|n={tags['n']}", ""), {})[int(tags["n"])] = (val, tags.get("zone", "all"), site, meth)
    # refinement: the same physical distribution sampled more finely
    for g, byn in groups.items():
        ns = sorted(byn)
        for a, b in zip(ns, ns[1:]):
            ck.count(("refine", g, a, b), suite="S.refinement")
            (ea, zone, site, meth), (eb, _, _, _) = byn[a], byn[b]
            if eb > REFINE * ea + REFINE_FLOOR and not (ea > GROSS and eb > GROSS):
                ck.violation(dict(site=site, clause="refinement", zone=zone, direction=direction, option=meth),
                             dict(case=g, n_coarse=a, n_fine=b, err_coarse=ea, err_fine=eb),
                             f"{g}: error grows under finer sampling: n={a}: {ea:.3g} → n={b}: {eb:.3g}")


def replay_case(key):
    """re-measure one case key; returns its error"""
    d, meth, fam, tags = _parse(key)
    n = int(tags["n"])
    m = measure([n], dr_values=(float(tags.get("dr", 1.0)),), with_images="ring_b" in tags, only=meth,
                with_transform=meth.startswith("Transform/"))
    return m.get(key)


if __name__ == "__main__":
    if "--freeze" in sys.argv:
        import abel
        abel.transform.set_basis_dir(None)
        m = measure([25, 51, 101, 201, 301], dr_values=(1.0, 0.5))
        BASE.parent.mkdir(exist_ok=True)
        BASE.write_text(json.dumps(m, indent=0, sort_keys=True))
        print(len(m), "cases frozen;", sum(1 for v in m.values() if isinstance(v, str)), "exceptions")


# ------------------------------------------------------------------ seeded stream: any width ≥ 6 px, any size, any p ≥ 2
def random_cases(rng, count):
    """(fam, n, dr, params, src, proj): the coarsest frozen case (n = 25, widths 6 px) is the worst the quantifier allows"""
    for _ in range(count):
        n = int(rng.integers(25, 301))
        dr = float(rng.choice([1.0, 0.5, 2.0, 0.1]))
        r = np.arange(n) * dr
        R = (n - 1) * dr
        kind = rng.choice(["gauss", "bump", "ring"])
        if kind == "gauss":
            k = int(rng.integers(1, 4))
            s = rng.uniform(6 * dr, R / 3.5, size=k)
            a = rng.uniform(0.2, 1.0, size=k)
            src = sum(ai * np.exp(-r ** 2 / si ** 2) for ai, si in zip(a, s))
            proj = sum(ai * si * np.sqrt(np.pi) * np.exp(-r ** 2 / si ** 2) for ai, si in zip(a, s))
            par = dict(s=s.tolist(), a=a.tolist())
        elif kind == "bump":
            p = float(rng.uniform(3, 6))
            Rb = float(rng.uniform(0.75, 0.95)) * R
            u = np.clip(1 - r ** 2 / Rb ** 2, 0, None)
            src, proj = u ** p, Rb * Beta(0.5, p + 1) * u ** (p + 0.5)
            par = dict(p=p, R=Rb)
        else:
            w = float(rng.uniform(min(max(4 * dr, R / 12), R / 6.5), R / 6.5))
            r0 = float(rng.uniform(2.5 * w, R - 3.6 * w))
            src = np.exp(-(r - r0) ** 2 / w ** 2)
            zmax = np.sqrt(np.maximum((r0 + 8 * w) ** 2 - r ** 2, 0))
            x, wt = np.polynomial.legendre.leggauss(400)
            z = 0.5 * zmax[:, None] * (x[None, :] + 1)
            proj = 2 * (0.5 * zmax[:, None] * wt[None, :] * np.exp(-(np.sqrt(r[:, None] ** 2 + z ** 2) - r0) ** 2 / w ** 2)).sum(axis=1)
            par = dict(r0=r0, w=w)
        yield kind, n, dr, par, src, proj


def measure_random(rng, count, direction, nonneg_max_n=60):
    out = []
    cases = [c for c in half_cases() if not c[0].endswith(("/halfgrid", "/stretchgrid"))]       # (the random profiles are sampled on uniform grids starting at 0)
    for kind, n, dr, par, src, proj in random_cases(rng, count):
        name, f, opts, fwd = cases[int(rng.integers(0, len(cases)))]
        if direction == "forward" and not fwd:
            fw_cases = [c for c in cases if c[3]]
            name, f, opts, fwd = fw_cases[int(rng.integers(0, len(fw_cases)))]
        if "nonneg" in name and n > nonneg_max_n:
            continue
        rows = int(rng.integers(1, 5))
        amp = rng.uniform(0.3, 3.0, size=rows)[:, None]
        sl = region(n)
        a, b = (proj, src) if direction == "inverse" else (src, proj)
        rec = dict(method=name, fam=kind, n=n, dr=dr, rows=rows, params=par)
        data = amp * a[None, :]
        if rng.random() < 0.15 and not name.startswith("direct"):          # detector counts: an integer image means its float values
            data = np.round(data * 1e9).astype(np.int64)
            amp = amp * 1e9
            rec["dtype"] = "int64"
        try:
            got = np.atleast_2d(quiet(f, data, direction=direction, dr=dr, **opts))
            if rec.get("dtype") == "int64":          # low counts too: the integer image is transformed as its float64 copy
                low = np.round(data / 1e7).astype(np.int64)
                gi = np.atleast_2d(quiet(f, low, direction=direction, dr=dr, **opts)).astype(float)
                gf = np.atleast_2d(quiet(f, low.astype(np.float64), direction=direction, dr=dr, **opts))
                rec["int_vs_float"] = float(np.abs(gi - gf).max() / max(1e-300, np.abs(gf).max()))
            rec["error"] = float((np.abs(got - amp * b[None, :]) / amp)[:, sl].max() / np.abs(b).max())
        except TypeError as e:
            if rec.get("dtype") == "int64":
                continue                    # refusing an integer array loudly (numpy casting error) is not an accuracy defect
            rec["error"] = f"exc:{type(e).__name__}: {e}"
        except Exception as e:
            rec["error"] = f"exc:{type(e).__name__}: {e}"
        out.append(rec)
    return out


def worst_baseline(baseline, direction, name, fam):
    vals = [v for k, v in baseline.items() if k.startswith(f"{direction}|{name}|{fam}|") and isinstance(v, float)]
    return max(vals) if vals else None
