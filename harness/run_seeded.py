"""
Runs the checks against the seeded changes kept under /verif/seeded/<id>/ (patch.diff, demo.py, meta.json).

    /venv/bin/python -m harness.run_seeded [--only ID …] [--all-checks] [--thorough-on-miss] [--confirm]

For every seeded change:  (optionally) confirm it in a scratch worktree under /tmp (tests pass, demo fails with the patch and
passes without);  `git -C /repo apply patch.diff`;  run `./check <target> --tier quick` (with --all-checks: every check, 8 at a
time);  `git -C /repo checkout -- .` (always, in `finally`).  Results go to seeded/RESULTS.json, which DESIGN.md's catch matrix is
generated from.  Never commits anything in /repo.
"""
import argparse
import json
import os
import re
import shutil
import subprocess
import sys
import tempfile
from concurrent.futures import ThreadPoolExecutor
from pathlib import Path

VERIF = Path(__file__).resolve().parent.parent
REPO = Path("/repo")
SEEDED = VERIF / "seeded"
ALL = [f"C{k:02d}" for k in range(1, 21)]


def sh(cmd, cwd=None, timeout=3600, env=None):
    p = subprocess.run(cmd, cwd=cwd, shell=isinstance(cmd, str), capture_output=True, text=True, timeout=timeout, env=env)
    return p.returncode, p.stdout + p.stderr


def repo_clean():
    return sh(["git", "-C", str(REPO), "status", "--porcelain", "--untracked-files=no"])[1].strip() == ""


def run_check(pid, tier="quick", seed="0"):
    env = dict(os.environ, VERIF_SEED=seed, VERIF_EVIDENCE_DIR="/tmp/seeded_evidence")      # (evidence/ keeps the unchanged tree's runs)
    os.makedirs("/tmp/seeded_evidence", exist_ok=True)
    try:
        code, out = sh([str(VERIF / "check"), pid, "--tier", tier], cwd=VERIF, timeout=3000, env=env)
    except subprocess.TimeoutExpired:
        return dict(exit=2, kind="timeout", lines=[])
    lines = [l for l in out.splitlines() if l.startswith(("VIOLATION", "KNOWN-FINDING", "[" + pid))]
    viol = [l for l in lines if l.startswith("VIOLATION")]
    kind = ""
    what = []
    if viol:
        kind = "no-failing-input-found" if all(l.rstrip().endswith("no-failing-input-found") for l in viol) else "failing input"
        for l in viol[:3]:
            m = re.search(r"replay=(\S+)", l)
            if m and (VERIF / m.group(1)).exists():
                try:
                    rec = json.loads((VERIF / m.group(1)).read_text())
                    what.append(rec.get("what") or json.dumps(rec.get("no_longer_checks", ""))[:300])
                except Exception:
                    pass
    return dict(exit=code, kind=kind, lines=lines[-4:], what=what)


def confirm(sid, d):
    """tests pass with the patch; demo exits 1 with it and 0 without — in a scratch worktree, removed afterwards"""
    wt = Path(tempfile.mkdtemp(prefix=f"seedchk_{sid}_", dir="/tmp"))
    shutil.rmtree(wt)
    res = {}
    try:
        sh(["git", "-C", str(REPO), "worktree", "add", "--detach", str(wt), "HEAD", "-q"])
        env = dict(os.environ, XDG_CACHE_HOME=str(wt) + ".cache", PYTHONPATH=str(wt), OMP_NUM_THREADS="1", OPENBLAS_NUM_THREADS="1")     # the scratch checkout's abel, not /repo's
        res["demo_pristine"] = sh(["/venv/bin/python", str(d / "demo.py")], cwd=wt, timeout=600, env=env)[0]
        code, out = sh(["git", "apply", str(d / "patch.diff")], cwd=wt)
        res["applies"] = code == 0
        if code == 0:
            res["demo_patched"] = sh(["/venv/bin/python", str(d / "demo.py")], cwd=wt, timeout=600, env=env)[0]
            code, out = sh(["/venv/bin/python", "-m", "pytest", "-q", "-p", "no:cacheprovider", "--timeout=900", "abel/tests"], cwd=wt, timeout=3000, env=env)
            m = re.search(r"(\d+) passed", out)
            res["tests_passed"] = int(m.group(1)) if m else 0
            res["tests_ok"] = code == 0
    finally:
        sh(["git", "-C", str(REPO), "worktree", "remove", "--force", str(wt)])
        shutil.rmtree(str(wt) + ".cache", ignore_errors=True)
    res["confirmed"] = bool(res.get("applies") and res.get("demo_patched") == 1 and res.get("demo_pristine") == 0 and res.get("tests_ok"))
    return res


def main():
    ap = argparse.ArgumentParser()
    ap.add_argument("--only", nargs="*")
    ap.add_argument("--all-checks", action="store_true")
    ap.add_argument("--thorough-on-miss", action="store_true")
    ap.add_argument("--confirm", action="store_true")
    a = ap.parse_args()
    out_path = SEEDED / "RESULTS.json"
    results = json.loads(out_path.read_text()) if out_path.exists() else {}
    ids = sorted(p.name for p in SEEDED.iterdir() if (p / "patch.diff").exists())
    if a.only:
        ids = [i for i in ids if i in a.only]
    if not repo_clean():
        sys.exit("/repo has uncommitted changes; refusing to run")
    for sid in ids:
        d = SEEDED / sid
        meta = json.loads((d / "meta.json").read_text())
        target = meta.get("property", sid.split("-")[0])
        rec = results.get(sid, {})
        rec["meta"] = {k: meta.get(k) for k in ("property", "title", "files", "what_changed", "needs_to_manifest")}
        if a.confirm:
            rec["confirm"] = confirm(sid, d)
            print(sid, "confirm:", rec["confirm"], flush=True)
        code, msg = sh(["git", "-C", str(REPO), "apply", str(d / "patch.diff")])
        if code != 0:
            print(sid, "patch does not apply:", msg[-300:])
            continue
        try:
            todo = ALL if a.all_checks else [target]
            with ThreadPoolExecutor(max_workers=10) as ex:
                rs = list(ex.map(run_check, todo))
            rec.setdefault("results", {}).update(dict(zip(todo, rs)))
            if a.thorough_on_miss and rec["results"][target]["exit"] != 1:
                rec["thorough"] = run_check(target, "thorough")
        finally:
            sh(["git", "-C", str(REPO), "checkout", "--", "."])
            for g in ("gen_tables", "gen_wrappers", "gen_effects"):       # the generated Lean files follow the source back
                sh(["/venv/bin/python", str(VERIF / "harness" / f"{g}.py")])
        assert repo_clean()
        results[sid] = rec
        out_path.write_text(json.dumps(results, indent=1, sort_keys=True))
        own = rec["results"][target]
        print(f"{sid}: target {target} → exit {own['exit']} {own['kind']}", "| others firing:",
              [p for p, v in rec["results"].items() if p != target and v["exit"] == 1], flush=True)


if __name__ == "__main__":
    main()
