/-
Line-protocol driver for the executable models (no Mathlib anywhere below this file).
One request per input line, one reply per output line.  Unknown or malformed
requests answer `bad-op` — never a default value.
-/
import PyAbel.Model.Proto
import PyAbel.Model.Symmetry
import PyAbel.Model.Center
import PyAbel.Model.Pipeline
import PyAbel.Model.Dispatch
import PyAbel.Model.Dasch
import PyAbel.Model.Cache
import PyAbel.Model.Npy
import PyAbel.Model.Origin
import PyAbel.Model.Polar
import PyAbel.Model.Distributions
import PyAbel.Model.Representations
import PyAbel.Model.RbasexImage
import PyAbel.Model.Polynomial
import PyAbel.Model.Recursions
import PyAbel.Model.Profiles
import PyAbel.Model.RbasexCache
import PyAbel.Model.BasexCache
import PyAbel.Model.RbasexBasis
import PyAbel.Model.SPolyTerm
import PyAbel.Model.Daun3
import PyAbel.Model.Basex
import PyAbel.Model.DaunCache
import PyAbel.Gen.Tables
import PyAbel.Model.Window
import PyAbel.Model.Grid
open PyAbel PyAbel.Proto

def axOfNat : Nat → Option SymAxis
  | 0 => some .none | 1 => some .v | 2 => some .h | 3 => some .both | _ => none

def cropOfNat : Nat → Option Crop
  | 0 => some .maintainSize | 1 => some .validRegion | 2 => some .maintainData | _ => none

/-- `N` = None / axis not selected; otherwise a (possibly negative) integer -/
def parseOrigin (s : String) : Option (Option Int) :=
  if s == "N" then some none else s.toInt?.map some

def methodOfNat : Nat → Option Method
  | 0 => some .basex | 1 => some .daun | 2 => some .direct | 3 => some .hansenlaw | 4 => some .onion_bordas
  | 5 => some .onion_peeling | 6 => some .two_point | 7 => some .three_point | 8 => some .linbasex
  | 9 => some .rbasex | _ => none

def methodIdx : Method → Nat
  | .basex => 0 | .daun => 1 | .direct => 2 | .hansenlaw => 3 | .onion_bordas => 4 | .onion_peeling => 5
  | .two_point => 6 | .three_point => 7 | .linbasex => 8 | .rbasex => 9

def dirOfNat : Nat → Option Dir
  | 0 => some .forward | 1 => some .inverse | 2 => some .other | _ => none

/-- named model matrices `M[i,j]` -/
def namedMatrix : String → Option (Nat → Nat → Float)
  | "onionW" => some (fun i j => onionW i j)
  | "twoPointD" => some (fun i j => twoPointD i j)
  | "daun0" => some (fun j i => daun0 j i)              -- A[j,i]
  | "daun0T" => some (fun i j => daun0 j i)             -- U = Aᵀ
  | "threePointD" => some (fun i j => threePointD i j)
  | "daun1" => some (fun j i => daun1 j i)
  | "daun2" => some (fun j i => daun2 j i)
  | "daun3p" => some (fun j i => daun3p j i)
  | "daun3q" => some (fun j i => daun3q j i)
  | _ => none

/-! cache machines: keys cross the protocol as comma-separated naturals -/
section CacheProto
open PyAbel.Cache

def parseKeyNats (s : String) : Option (List Nat) := (s.splitOn ",").mapM String.toNat?

def fileStateOfNat : Nat → Option FileState
  | 0 => some .valid | 1 => some .corruptValueError | 2 => some .corruptOther | _ => none

def fileStateIdx : FileState → Nat | .valid => 0 | .corruptValueError => 1 | .corruptOther => 2

structure KeyCodec (K : Type) where
  dec : List Nat → Option K
  enc : K → List Nat

def daschCodec : KeyCodec DaschKey where
  dec | [m, c] => (match m with
                    | 0 => some DaschMethod.two_point | 1 => some DaschMethod.three_point
                    | 2 => some DaschMethod.onion_peeling | _ => none).map (⟨·, c⟩)
      | _ => none
  enc k := [match k.method with | .two_point => 0 | .three_point => 1 | .onion_peeling => 2, k.cols]

def daunCodec : KeyCodec DaunKey := ⟨fun | [n, d] => some ⟨n, d⟩ | _ => none, fun k => [k.n, k.degree]⟩
def basexCodec : KeyCodec BasexKey := ⟨fun | [n, s] => some ⟨n, s⟩ | _ => none, fun k => [k.n, k.sigma]⟩
def linbasexCodec : KeyCodec LinbasexKey :=
  -- orders / angles cross as (label, count): the list is `label :: replicate (count-1) 0`
  ⟨fun | [c, o, no, a, na, st, cl] => some ⟨c, o :: List.replicate (no - 1) 0, a :: List.replicate (na - 1) 0, st, cl⟩
       | _ => none,
   fun k => [k.cols, k.orders.headD 0, k.orders.length, k.angles.headD 0, k.angles.length, k.step, k.clip]⟩
def rbasexCodec : KeyCodec RbasexKey :=
  ⟨fun | [r, o, odd, inv] => some ⟨r, o, odd != 0, inv != 0⟩ | _ => none,
   fun k => [k.rmax, k.order, k.odd.toNat, k.inv.toNat]⟩

def showKey (xs : List Nat) : String := ",".intercalate (xs.map toString)

def parseOp {K : Type} (c : KeyCodec K) (toks : List String) : Option (Op K) :=
  match toks with
  | ["c", k, d] => do let k ← parseKeyNats k >>= c.dec; let d ← parseBool d; pure (.call k d)
  | ["x"] => some .cacheCleanup
  | ["D"] => some .dirCleanup
  | ["g", k, st] => do let k ← parseKeyNats k >>= c.dec; let st ← st.toNat? >>= fileStateOfNat; pure (.damage k st)
  | ["r", k] => do let k ← parseKeyNats k >>= c.dec; pure (.remove k)
  | ["p", k] => do let k ← parseKeyNats k >>= c.dec; pure (.publish k)
  | _ => none

/-- run a history; after every op print  outcome | memory key | sorted directory listing -/
def runHistory {K : Type} [DecidableEq K] (R : Rules K) (c : KeyCodec K) (ops : List (List String)) : String :=
  let rec go (s : State K) (ops : List (List String)) (acc : List String) : Option (List String) :=
    match ops with
    | [] => some acc.reverse
    | o :: rest =>
      match parseOp c o with
      | none => none
      | some op =>
        let (s', out) := step R s op
        let os := match out with
          | none => "-"
          | some (.ok d src) => s!"ok:{showKey (c.enc d.gen)}:{showKey (c.enc d.view)}:{src}"
          | some .raised => "raised"
        let ms := match s'.mem with | none => "m:-" | some (k, _) => s!"m:{showKey (c.enc k)}"
        let files := (s'.disk.map fun f => s!"{showKey (c.enc f.1)}={fileStateIdx f.2}").toArray.qsort (· < ·) |>.toList
        go s' rest (s!"{os}|{ms}|f:{";".intercalate files}" :: acc)
  match go State.init ops [] with
  | none => "bad-op"
  | some outs => "ok " ++ " ".intercalate outs

/-- `rbxcache <op>…`: ops `c:k:v:f:r` (call: basis id, valid-mask id, forward 0/1, regularisation id) and `x:all|forward|inverse`;
    regularisation 0 is `None`, ids ≥ 100 cannot be honoured, id 50 (`'pos'`) cannot with basis ids ≥ 1000 (odd orders > 1).
    Prints, per op, the outcome and the observable part of the state. -/
def rbxOk (k r : Nat) : Bool := r < 100 && !(r == 50 && k ≥ 1000)

def rbxShow (s : RbxCache.St Nat Nat Nat) : String :=
  let o := fun (x : Option Nat) => match x with | some v => toString v | none => "-"
  s!"bs={o s.bsPrm} vk={s.validKey} trf={if s.trf.isSome then 1 else 0} trifull={if s.triFull.isSome then 1 else 0} triprm={o s.triPrm} tri={if s.tri.isSome then 1 else 0}"

def rbxHistory (ops : List String) : String :=
  let rec go (s : RbxCache.St Nat Nat Nat) (ops : List String) (acc : List String) : Option (List String) :=
    match ops with
    | [] => some acc.reverse
    | op :: rest =>
      match op.splitOn ":" with
      | ["c", k, v, f, r] =>
        match k.toNat?, v.toNat?, f.toNat?, r.toNat? with
        | some k, some v, some f, some r =>
          let (s', out) := RbxCache.call rbxOk (fun r => r == 0 || (5 ≤ r && r ≤ 9)) s ⟨k, v, f == 1, r⟩
          let o := match out with
            | .fwd t => s!"fwd:{t.1}:{t.2}"
            | .inv t => s!"inv:{t.1}:{t.2.1}:{t.2.2}"
            | .raise => "raise"
          go s' rest (s!"{o} {rbxShow s'}" :: acc)
        | _, _, _, _ => none
      | ["x", sel] =>
        let sel? : Option RbxCache.Select := match sel with
          | "all" => some .all | "forward" => some .forward | "inverse" => some .inverse | _ => none
        match sel? with
        | some sel => let s' := RbxCache.cleanup s sel; go s' rest (s!"clean {rbxShow s'}" :: acc)
        | none => none
      | _ => none
  match go (RbxCache.St.init 0) ops [] with
  | some lines => "ok " ++ " | ".intercalate lines
  | none => "bad-op"

/-- `bxcache <op>…`: ops `c:k:f:p` (call: basis id, forward 0/1, parameter id) and `x:all|forward|inverse` -/
def bxHistory (ops : List String) : String :=
  let o := fun (x : Option Nat) => match x with | some v => toString v | none => "-"
  let show_ := fun (s : BxCache.St Nat Nat) =>
    s!"bs={o s.bsPrm} trfprm={o s.trfPrm} trf={if s.trf.isSome then 1 else 0} triprm={o s.triPrm} tri={if s.tri.isSome then 1 else 0}"
  let rec go (s : BxCache.St Nat Nat) (ops : List String) (acc : List String) : Option (List String) :=
    match ops with
    | [] => some acc.reverse
    | op :: rest =>
      match op.splitOn ":" with
      | ["c", k, f, p] =>
        match k.toNat?, f.toNat?, p.toNat? with
        | some k, some f, some p =>
          let (s', out) := BxCache.call s ⟨k, f == 1, p⟩
          let t := match out with | some t => s!"ret:{t.1}:{t.2}" | none => "ret:-"
          go s' rest (s!"{t} {show_ s'}" :: acc)
        | _, _, _ => none
      | ["x", sel] =>
        let sel? : Option BxCache.Select := match sel with
          | "all" => some .all | "forward" => some .forward | "inverse" => some .inverse | _ => none
        match sel? with
        | some sel => let s' := BxCache.cleanup s sel; go s' rest (s!"clean {show_ s'}" :: acc)
        | none => none
      | _ => none
  match go BxCache.St.init ops [] with
  | some lines => "ok " ++ " | ".intercalate lines
  | none => "bad-op"

/-- `dauncache <op>…`: ops `c:n:deg:kind:r:s:f` (call: size, degree, kind 0 none / 1 nonneg / 2 linear, regulariser id, strength id with 0 = zero
    strength, forward 0/1) and `x:all|inverse` -/
def daunHistory (ops : List String) : String :=
  let zero : Nat → Bool := fun s => s == 0
  let showKind : DaunCache.Kind Nat → String := fun k => match k with | .none => "0:0" | .nonneg => "1:0" | .lin r => s!"2:{r}"
  let show_ := fun (s : DaunCache.St Nat Nat) =>
    let b := match s.bs with | some (a, d) => s!"{a},{d}" | none => "-"
    let p := match s.trPrm with
      | some (m, k, str) => s!"{m},{showKind k}," ++ (match str with | some v => toString v | none => "-")
      | none => "-"
    s!"bs={b} tr={if s.tr.isSome then 1 else 0} trprm={p}"
  let rec go (s : DaunCache.St Nat Nat) (ops : List String) (acc : List String) : Option (List String) :=
    match ops with
    | [] => some acc.reverse
    | op :: rest =>
      match op.splitOn ":" with
      | ["c", n, d, k, r, str, f] =>
        match n.toNat?, d.toNat?, k.toNat?, r.toNat?, str.toNat?, f.toNat? with
        | some n, some d, some k, some r, some str, some f =>
          let kind : DaunCache.Kind Nat := if k == 0 then .none else if k == 1 then .nonneg else .lin r
          let (s', out) := DaunCache.call zero s ⟨n, d, kind, str, f == 1⟩
          let t := match out with
            | .basis a b c => s!"ret:basis:{a}:{b}:{c}" | .full a b c => s!"ret:full:{a}:{b}:{c}"
            | .reg a b c r' v => s!"ret:reg:{a}:{b}:{c}:{r'}:{v}" | .raise => "raise"
          go s' rest (s!"{t} {show_ s'}" :: acc)
        | _, _, _, _, _, _ => none
      | ["x", sel] =>
        let sel? : Option DaunCache.Select := match sel with | "all" => some .all | "inverse" => some .inverse | _ => none
        match sel? with
        | some sel => let s' := DaunCache.cleanup s sel; go s' rest (s!"clean {show_ s'}" :: acc)
        | none => none
      | _ => none
  match go DaunCache.St.init ops [] with
  | some lines => "ok " ++ " | ".intercalate lines
  | none => "bad-op"

def cacheHistory (module : String) (ops : List (List String)) : String :=
  match module with
  | "dasch" => runHistory daschRules daschCodec ops
  | "daun" => runHistory daunRules daunCodec ops
  | "basex" => runHistory basexRules basexCodec ops
  | "linbasex" => runHistory linbasexRules linbasexCodec ops
  | "rbasex" => runHistory rbasexRules rbasexCodec ops
  | _ => "bad-op"

/-- split a token list on the separator token "/" -/
def splitOps (toks : List String) : List (List String) :=
  let (cur, acc) := toks.foldl (fun (p : List String × List (List String)) t =>
    if t == "/" then ([], p.1.reverse :: p.2) else (t :: p.1, p.2)) ([], [])
  ((cur.reverse :: acc).reverse).filter (· ≠ [])

end CacheProto

def showImg (im : Img Float) : String :=
  s!"ok {im.rows} {im.cols} " ++ showFloats im.toList

def handle (toks : List String) : String :=
  match toks with
  -- sym rows cols ax u0 u1 u2 u3 <pixels…>   →  symmetrise (put ∘ get, 'average')
  | "sym" :: r :: c :: ax :: u0 :: u1 :: u2 :: u3 :: rest =>
    match r.toNat?, c.toNat?, ax.toNat? >>= axOfNat, parseBool u0, parseBool u1, parseBool u2, parseBool u3,
          parseFloats rest with
    | some r, some c, some ax, some u0, some u1, some u2, some u3, some xs =>
      if xs.size ≠ r * c then "bad-op" else
      let m : Mask := ⟨u0, u1, u2, u3⟩
      if !admissible ax m then "raise" else
      showImg (symmetrise (Img.ofArray r c 0.0 xs) ax m)
    | _, _, _, _, _, _, _, _ => "bad-op"
  -- quads rows cols ax u0..u3 <pixels…>   →  the four quadrants of get_image_quadrants
  | "quads" :: r :: c :: ax :: u0 :: u1 :: u2 :: u3 :: rest =>
    match r.toNat?, c.toNat?, ax.toNat? >>= axOfNat, parseBool u0, parseBool u1, parseBool u2, parseBool u3,
          parseFloats rest with
    | some r, some c, some ax, some u0, some u1, some u2, some u3, some xs =>
      if xs.size ≠ r * c then "bad-op" else
      let m : Mask := ⟨u0, u1, u2, u3⟩
      if !admissible ax m then "raise" else
      let q := getQuadrants (Img.ofArray r c 0.0 xs) ax m
      s!"ok {q.q0.rows} {q.q0.cols} " ++ showFloats (q.q0.toList ++ q.q1.toList ++ q.q2.toList ++ q.q3.toList)
    | _, _, _, _, _, _, _, _ => "bad-op"
  -- pipe rows cols ax u0..u3 <pixels…>  →  Transform's quadrant pipeline with the stub method
  | "pipe" :: r :: c :: ax :: u0 :: u1 :: u2 :: u3 :: rest =>
    match r.toNat?, c.toNat?, ax.toNat? >>= axOfNat, parseBool u0, parseBool u1, parseBool u2, parseBool u3,
          parseFloats rest with
    | some r, some c, some ax, some u0, some u1, some u2, some u3, some xs =>
      if xs.size ≠ r * c then "bad-op" else
      let m : Mask := ⟨u0, u1, u2, u3⟩
      if !admissible ax m then "raise" else
      showImg (transformQuadrants stubT (Img.ofArray r c 0.0 xs) ax m)
    | _, _, _, _, _, _, _, _ => "bad-op"
  -- distr h w row col rmaxspec odd N linear useSin hasW <im…> [<weights…>]
  --   → rmax+1 rows of N coefficients (Distributions(...).image(IM).cos() transposed), preceded by the geometry
  | "distr" :: h :: w :: row :: col :: spec :: odd :: nn :: lin :: usin :: hasw :: rest =>
    let specOf : String → Option Distr.RmaxSpec := fun s =>
      match s with
      | "hor" => some .hor | "ver" => some .ver | "HOR" => some .HOR | "VER" => some .VER | "min" => some .min
      | "max" => some .max | "MIN" => some .MIN | "MAX" => some .MAX | "all" => some .all
      | _ => s.toNat?.map .int
    match h.toNat?, w.toNat?, row.toNat?, col.toNat?, specOf spec, parseBool odd, nn.toNat?, parseBool lin,
          parseBool usin, parseBool hasw, parseFloats rest with
    | some h, some w, some row, some col, some spec, some odd, some nn, some lin, some usin, some hasw, some xs =>
      if xs.size ≠ (if hasw then 2 else 1) * h * w || nn = 0 || nn > 3 then "bad-op" else
      let im := Img.ofArray h w 0.0 (xs.extract 0 (h * w))
      let wt := Img.ofArray h w 0.0 (xs.extract (h * w) (2 * h * w))
      let g := Distr.geometry h w row col spec odd
      let res := Distr.analyse g ⟨nn, lin, usin⟩ im wt hasw
      let cond := (List.range (g.rmax + 1)).map fun b => Distr.binCondition nn (Distr.binContribs g ⟨nn, lin, usin⟩ im wt hasw b)
      s!"ok {g.rmax + 1} {nn} " ++ showFloats res.flatten ++ s!" | {g.qheight} {g.qwidth} {g.y0} | " ++ showFloats cond
    | _, _, _, _, _, _, _, _, _, _, _ => "bad-op"
  -- rbimg out h w row col rmaxspec odd N <c: N rows of rmax+1 values>  →  the `out` image synthesised from c
  | "rbimg" :: out :: h :: w :: row :: col :: spec :: odd :: nn :: rest =>
    let specOf : String → Option Distr.RmaxSpec := fun s =>
      match s with
      | "hor" => some .hor | "ver" => some .ver | "HOR" => some .HOR | "VER" => some .VER | "min" => some .min
      | "max" => some .max | "MIN" => some .MIN | "MAX" => some .MAX | "all" => some .all
      | _ => s.toNat?.map .int
    let outOf : String → Option Rbasex.Out := fun s =>
      match s with
      | "same" => some .same | "full" => some .full | "full-unique" => some .fullUnique | "fold" => some .fold
      | "unfold" => some .unfold | _ => none
    match outOf out, h.toNat?, w.toNat?, row.toNat?, col.toNat?, specOf spec, parseBool odd, nn.toNat?, parseFloats rest with
    | some out, some h, some w, some row, some col, some spec, some odd, some nn, some xs =>
      let g := Distr.geometry h w row col spec odd
      if xs.size ≠ nn * (g.rmax + 1) then s!"bad-op size {xs.size} {nn} {g.rmax}" else
      let c := fun n k => xs.getD (n * (g.rmax + 1) + k) 0.0
      let f := Rbasex.frame out h w g
      showImg ⟨f.rows, f.cols, fun i j => Rbasex.outPx g.rmax nn odd c f i j⟩
    | _, _, _, _, _, _, _, _, _ => "bad-op"
  -- ssc r0 s <c…>  → shift/stretch-transformed coefficients ;  aconv na <a…> <b…> → Angular product ;  cossinc m n → ints
  | "ssc" :: r0 :: sc :: rest =>
    match parseFloat r0, parseFloat sc, parseFloats rest with
    | some r0, some sc, some xs =>
      let n := xs.size
      s!"ok 1 {n} " ++ showFloats ((List.range n).map (Poly.ssCoeff n (fun i => xs.getD i 0.0) r0 sc))
    | _, _, _ => "bad-op"
  -- polyabel rmin rmax x <c…>  → Polynomial(r, rmin, rmax, c).abel at the sample x (< rmax), coefficients as given
  | "polyabel" :: rmin :: rmax :: x :: rest =>
    match parseFloat rmin, parseFloat rmax, parseFloat x, parseFloats rest with
    | some rmin, some rmax, some x, some xs =>
      s!"ok 1 1 " ++ showFloats [Poly.polyAbelAt xs.size (fun i => xs.getD i 0.0) rmin rmax x]
    | _, _, _, _ => "bad-op"
  -- profile k x  → transform_pairs.profile<k>(x): source and projection (k ∈ {1, 2, 3, 5, 7})
  | ["profile", k, x] =>
    match k.toNat?, parseFloat x with
    | some k, some x =>
      match Profiles.pair k x with
      | some (s, p) => s!"ok 1 2 " ++ showFloats [s, p]
      | none => "bad-op"
    | _, _ => "bad-op"
  | "aconv" :: na :: rest =>
    match na.toNat?, parseFloats rest with
    | some na, some xs =>
      if xs.size < na then "bad-op" else
      let nb := xs.size - na
      s!"ok 1 {na + nb - 1} " ++ showFloats ((List.range (na + nb - 1)).map
        (Poly.convolve na nb (fun i => xs.getD i 0.0) (fun i => xs.getD (na + i) 0.0)))
    | _, _ => "bad-op"
  | ["cossinc", m, n] =>
    match m.toNat?, n.toNat? with
    | some m, some n => s!"ok {" ".intercalate ((List.range (m + n + 1)).map fun k => toString (Poly.cossinCoeff m n k))}"
    | _, _ => "bad-op"
  -- cossin N → N×N integers ;  harm odd terms → terms×terms (exact rationals printed as num/den)
  | ["cossin", n] =>
    match n.toNat? with
    | some n => s!"ok {n} {n} " ++ " ".intercalate ((List.range n).flatMap fun i => (List.range n).map fun j => toString (Repr.cossinMatrix n i j))
    | none => "bad-op"
  | ["harm", odd, t] =>
    match parseBool odd, t.toNat? with
    | some odd, some t =>
      s!"ok {t} {t} " ++ " ".intercalate ((Repr.harmonicsMatrix odd t).flatten.map fun q => s!"{q.num}/{q.den}")
    | _, _ => "bad-op"
  -- c2p x y → r θ ;  p2c r θ → x y
  | ["c2p", x, y] =>
    match parseFloat x, parseFloat y with
    | some x, some y => let p := cart2polar x y; s!"ok 1 2 " ++ showFloats [p.1, p.2]
    | _, _ => "bad-op"
  | ["p2c", r, t] =>
    match parseFloat r, parseFloat t with
    | some r, some t => let p := polar2cart r t; s!"ok 1 2 " ++ showFloats [p.1, p.2]
    | _, _ => "bad-op"
  -- idx rows cols orow ocol row col → x y (integers)
  | ["idx", rows, cols, orow, ocol, row, col] =>
    match rows.toNat?, cols.toNat?, orow.toInt?, ocol.toInt?, row.toNat?, col.toNat? with
    | some rows, some cols, some orow, some ocol, some row, some col =>
      let p := indexCoords rows cols orow ocol row col; s!"ok {p.1} {p.2}"
    | _, _, _, _, _, _ => "bad-op"
  -- isuniform n <r (n)>  →  1 / 0: abel.direct.is_uniform_sampling of the grid
  | "isuniform" :: n :: rest =>
    match n.toNat?, parseFloats rest with
    | some n, some xs =>
      if xs.size ≠ n then "bad-op" else
      s!"ok {if Grid.isUniform (1e-13 : Float) n (fun i => xs.getD i 0.0) then 1 else 0}"
    | _, _ => "bad-op"
  -- idx0 rows cols row col → x y with the default pole (origin=None)
  | ["idx0", rows, cols, row, col] =>
    match rows.toNat?, cols.toNat?, row.toNat?, col.toNat? with
    | some rows, some cols, some row, some col =>
      let p := indexCoordsDefault rows cols row col; s!"ok {p.1} {p.2}"
    | _, _, _, _ => "bad-op"
  -- radint kind nt R dt <T (nt)> <P row (nt)> → one radial bin of radial_intensity
  | "radint" :: kind :: nt :: R :: dt :: rest =>
    match kind.toNat?, nt.toNat?, parseFloat R, parseFloat dt, parseFloats rest with
    | some kind, some nt, some R, some dt, some xs =>
      if xs.size ≠ 2 * nt || kind > 3 then "bad-op" else
      let k : Kind := match kind with | 0 => .int2D | 1 => .int3D | 2 => .avg2D | _ => .avg3D
      s!"ok 1 1 " ++ showFloats [radialIntensity k nt (fun _ l => xs.getD (nt + l) 0.0) (fun _ => R) (fun l => xs.getD l 0.0) dt 0]
    | _, _, _, _, _ => "bad-op"
  -- topes n c <radial (n)> <intensity (n)> → E (n) then PES (n), unsorted
  | "topes" :: n :: c :: rest =>
    match n.toNat?, parseFloat c, parseFloats rest with
    | some n, some c, some xs =>
      if xs.size ≠ 2 * n then "bad-op" else
      let out := (List.range n).map fun k => toPES (fun i => xs.getD i 0.0) (fun i => xs.getD (n + i) 0.0) c k
      s!"ok 2 {n} " ++ showFloats (out.map (·.1) ++ out.map (·.2))
    | _, _, _ => "bad-op"
  -- topes2 n c vflag vrep zoom pflag photon perEnergy <radial…> <intensity…>  →  toPES with its options (unsorted)
  | "topes2" :: n :: c :: vf :: v :: z :: pf :: hv :: per :: rest =>
    match n.toNat?, parseFloat c, parseBool vf, parseFloat v, parseFloat z, parseBool pf, parseFloat hv, parseBool per, parseFloats rest with
    | some n, some c, some vf, some v, some z, some pf, some hv, some per, some xs =>
      if xs.size ≠ 2 * n then "bad-op" else
      let out := (List.range n).map fun k => toPESOpts (fun i => xs.getD i 0.0) (fun i => xs.getD (n + i) 0.0) c
        (if vf then some v else none) z (if pf then some hv else none) per k
      s!"ok 2 {n} " ++ showFloats (out.map (·.1) ++ out.map (·.2))
    | _, _, _, _, _, _, _, _, _ => "bad-op"
  -- ibeta w n terms <harmonics: terms rows of n values>  →  the (terms−1)×n windowed anisotropies of Results.Ibeta(w)
  | "ibeta" :: w :: n :: t :: rest =>
    match w.toNat?, n.toNat?, t.toNat?, parseFloats rest with
    | some w, some n, some t, some xs =>
      if xs.size ≠ t * n || t = 0 || n = 0 then "bad-op" else
      let row := fun (m : Nat) (j : Nat) => xs.getD (m * n + j) 0.0
      let out := (List.range (t - 1)).flatMap fun m => (List.range n).map fun i => Window.beta w n (row (m + 1)) (row 0) i
      s!"ok {t - 1} {n} " ++ showFloats out
    | _, _, _, _ => "bad-op"
  -- com rows cols <pixels…>  →  centre of mass (row, col) of the image, via the two projections
  | "com" :: r :: c :: rest =>
    match r.toNat?, c.toNat?, parseFloats rest with
    | some r, some c, some xs =>
      if xs.size ≠ r * c then "bad-op" else
      let im := Img.ofArray r c 0.0 xs
      s!"ok 1 2 " ++ showFloats [com1 r (projRows im), com1 c (projCols im)]
    | _, _, _ => "bad-op"
  -- conv n <p…>  →  first argmax of the autoconvolution (as an integer, = 2 × origin), then its values
  | "conv" :: n :: rest =>
    match n.toNat?, parseFloats rest with
    | some n, some xs =>
      if xs.size ≠ n || n = 0 then "bad-op" else
      let p := fun i => xs.getD i 0.0
      let vals := (List.range (2 * n - 1)).map (autoconv n p)
      let va := vals.toArray
      s!"ok {argmaxFirst (2 * n - 1) (fun k => va.getD k 0.0)} " ++ showFloats vals
    | _, _ => "bad-op"
  -- npy <hex bytes>   →  verdict of the .npy decoder on a byte string
  | ["npy", hex] =>
    let cs := hex.toList
    if cs.length % 2 ≠ 0 then "bad-op" else
    let rec bytes : List Char → Option (List UInt8)
      | a :: b :: rest => do
        let x ← hexDigit a; let y ← hexDigit b; let t ← bytes rest
        pure (UInt8.ofNat (16 * x + y) :: t)
      | [] => some []
      | _ => none
    match bytes cs with
    | none => "bad-op"
    | some bs =>
      match PyAbel.Npy.decode PyAbel.Npy.parseShape bs with
      | .ok shape body => s!"ok {" ".intercalate (shape.map toString)} | {body.length}"
      | .error => "error"
  | ["npy"] => "error"
  -- cache module op / op / …   →  history of the basis-cache state machine
  | "cache" :: module :: rest => cacheHistory module (splitOps rest)
  -- rbxcache op op …   →  history of rbasex's in-memory transform caches
  | "rbxcache" :: rest => rbxHistory rest
  | "bxcache" :: rest => bxHistory rest
  | "dauncache" :: rest => daunHistory rest
  -- spterm m n rmin rmax r cos  →  SPolynomial(r, cos, rmin, rmax, c = e_{m,n}).abel at one point
  | ["spterm", m, n, rmin, rmax, r, cs] =>
    match m.toNat?, n.toNat?, parseFloat rmin, parseFloat rmax, parseFloat r, parseFloat cs with
    | some m, some n, some rmin, some rmax, some r, some cs => s!"ok 1 1 " ++ showFloats [SPoly.term m n rmin rmax r cs]
    | _, _, _, _, _, _ => "bad-op"
  -- rbxbasis Rmax n   →  the (Rmax+1)² matrix P[R, r] = p_{R;n}(r) of rbasex._bs_rbasex for the angular order n
  | ["rbxbasis", rmax, n] =>
    match rmax.toNat?, n.toNat? with
    | some rmax, some n =>
      s!"ok {rmax + 1} {rmax + 1} " ++ showFloats ((List.range (rmax + 1)).flatMap fun R => (List.range (rmax + 1)).map fun r => (RbxBasis.P n R r : Float))
    | _, _ => "bad-op"
  -- hansen forward hold1 dr <row…>   →  hansenlaw_transform of one row (constants from Gen/Tables)
  | "hansen" :: fwd :: hold :: dr :: rest =>
    match parseBool fwd, parseBool hold, parseFloats [dr], parseFloats rest with
    | some fwd, some hold, some dr, some xs =>
      if xs.size < 2 then "bad-op" else
      let h := fun k => PyAbel.Gen.hansenH.getD k 0.0
      let lam := fun k => PyAbel.Gen.hansenLam.getD k 0.0
      let out := HansenLaw.transform h lam PyAbel.Gen.hansenH.length fwd hold xs.size (dr.getD 0 1.0) (fun i => xs.getD i 0.0)
      s!"ok 1 {xs.size} " ++ showFloats ((List.range xs.size).map out)
    | _, _, _, _ => "bad-op"
  -- direct forward corr dr <row…>   →  direct_transform (python backend) of one row
  | "direct" :: fwd :: corr :: dr :: rest =>
    match parseBool fwd, parseBool corr, parseFloats [dr], parseFloats rest with
    | some fwd, some corr, some dr, some xs =>
      if xs.size < 2 then "bad-op" else
      let out := Direct.transform fwd corr xs.size (dr.getD 0 1.0) (fun i => xs.getD i 0.0)
      s!"ok 1 {xs.size} " ++ showFloats ((List.range xs.size).map out)
    | _, _, _, _ => "bad-op"
  -- shiftlin k f <row…>   →  order-1 sub-pixel shift of a zero-extended row by k + f
  | "shiftlin" :: k :: f :: rest =>
    match k.toInt?, parseFloat f, parseFloats rest with
    | some k, some f, some xs =>
      let x : Int → Float := fun i => if 0 ≤ i ∧ i < xs.size then xs.getD i.toNat 0.0 else 0.0
      s!"ok 1 {xs.size} " ++ showFloats ((List.range xs.size).map fun (i : Nat) => shiftLin k f x (Int.ofNat i))
    | _, _, _ => "bad-op"
  -- bordas dr <row…>   →  onion_bordas_transform(shift_grid=False) of one row
  | "bordas" :: dr :: rest =>
    match parseFloats [dr], parseFloats rest with
    | some dr, some xs =>
      if xs.size < 2 then "bad-op" else
      let out := Bordas.transform xs.size (dr.getD 0 1.0) (fun i => xs.getD i 0.0)
      s!"ok 1 {xs.size} " ++ showFloats ((List.range xs.size).map out)
    | _, _ => "bad-op"
  -- mat name n   →  n×n entries of a model matrix
  | ["mat", name, n] =>
    match namedMatrix name, n.toNat? with
    | some M, some n => showImg ⟨n, n, M⟩
    | _, _ => "bad-op"
  -- basex M|Mc n nbf sigma  →  _bs_basex(n, sigma): projected basis M[i, k] or basis Mc[i, k] (nbf = round(n/sigma) is passed in)
  | ["basex", which, n, nbf, sigma] =>
    match n.toNat?, nbf.toNat?, parseFloat sigma with
    | some n, some nbf, some sigma =>
      let (ta, tb) := Basex.tables (nbf * nbf)
      let lf := fun m => ta.getD m 0.0
      let lh := fun m => tb.getD m 0.0
      if which == "M" then showImg ⟨n, nbf, fun i k => (Basex.entry lf lh sigma i k).1⟩
      else if which == "Mc" then showImg ⟨n, nbf, fun i k => (Basex.entry lf lh sigma i k).2⟩
      else "bad-op"
    | _, _, _ => "bad-op"
  -- daun3 n  →  _bs_daun(n, 3): value projections plus the smooth-derivative correction (tridiagonal solve)
  | ["daun3", n] =>
    match n.toNat? with
    | some n => showImg ⟨n, n, fun j i => daun3 n j i⟩
    | none => "bad-op"
  -- solve name n <d…>   →  back substitution  U y = d  with the named upper-triangular matrix
  | "solve" :: name :: n :: rest =>
    match namedMatrix name, n.toNat?, parseFloats rest with
    | some U, some n, some d =>
      if d.size ≠ n then "bad-op" else
      s!"ok 1 {n} " ++ showFloats (backSubst U (fun i => d.getD i 0.0) n)
    | _, _, _ => "bad-op"
  -- dispatch vt method|X dir oneD rows cols centring anyq originOK cropOK symOK regOK outOK
  | ["dispatch", vt, m, d, oneD, r, c, cen, anyq, oOK, cOK, sOK, rOK, outOK] =>
    match parseBool vt, d.toNat? >>= dirOfNat, parseBool oneD, r.toNat?, c.toNat?, parseBool cen, parseBool anyq,
          parseBool oOK, parseBool cOK, parseBool sOK, parseBool rOK, parseBool outOK with
    | some vt, some d, some oneD, some r, some c, some cen, some anyq, some oOK, some cOK, some sOK, some rOK,
      some outOK =>
      let meth : Option (Option Method) := if m == "X" then some none else (m.toNat? >>= methodOfNat).map some
      match meth with
      | none => "bad-op"
      | some meth =>
        match dispatch ⟨vt, meth, d, oneD, r, c, cen, anyq, ⟨oOK, cOK, sOK, rOK, outOK⟩⟩ with
        | .raise => "raise"
        | .forwardOp m => s!"fwd {methodIdx m}"
        | .inverseOp m => s!"inv {methodIdx m}"
    | _, _, _, _, _, _, _, _, _, _, _, _ => "bad-op"
  -- setcenter crop rows cols o0 o1 <pixels…>   (whole-pixel path of set_center)
  | "setcenter" :: crop :: r :: c :: o0 :: o1 :: rest =>
    match crop.toNat? >>= cropOfNat, r.toNat?, c.toNat?, parseOrigin o0, parseOrigin o1, parseFloats rest with
    | some crop, some r, some c, some o0, some o1, some xs =>
      if xs.size ≠ r * c then "bad-op" else
      showImg (setCenter crop (Img.ofArray r c 0.0 xs) o0 o1)
    | _, _, _, _, _, _ => "bad-op"
  -- trim rows cols odd_size square   →  slice kept by center_image before centring
  | ["trim", r, c, odd, sq] =>
    match r.toNat?, c.toNat?, parseBool odd, parseBool sq with
    | some r, some c, some odd, some sq =>
      let t := centerImageTrim r c odd sq
      s!"ok {t.1} {t.2.1} {t.2.2.1} {t.2.2.2}"
    | _, _, _, _ => "bad-op"
  -- explicit crop rows cols odd_size square o0 o1  →  center_image with an explicit whole-pixel origin: output sizes and, per output
  -- row / column, the input row / column it copies (-1 = zero fill), or "refuse"
  | ["explicit", crop, r, c, odd, sq, o0, o1] =>
    match crop.toNat? >>= cropOfNat, r.toNat?, c.toNat?, parseBool odd, parseBool sq, o0.toInt?, o1.toInt? with
    | some crop, some r, some c, some odd, some sq, some o0, some o1 =>
      match centerImageExplicit crop r c odd sq o0 o1 with
      | none => "ok refuse"
      | some (rm, cm) =>
        let show_ := fun (m : AxisMap) => " ".intercalate ((List.range m.size).map fun i => match m.src i with | some k => toString k | none => "-1")
        s!"ok {rm.size} {cm.size} | {show_ rm} | {show_ cm}"
    | _, _, _, _, _, _, _ => "bad-op"
  -- round num den  →  Python round() of the exact rational num/den (half to even)
  | ["round", num, den] =>
    match num.toInt?, den.toNat? with
    | some num, some den => if den = 0 then "bad-op" else s!"ok {roundHalfEven num den}"
    | _, _ => "bad-op"
  | _ => "bad-op"

partial def loop (h : IO.FS.Stream) (out : IO.FS.Stream) : IO Unit := do
  let line ← h.getLine
  if line.isEmpty then return ()
  let toks := (line.trimAscii.toString.splitOn " ").filter (· ≠ "")
  out.putStrLn (handle toks)
  loop h out

def main : IO Unit := do
  let out ← IO.getStdout
  loop (← IO.getStdin) out
  out.flush
