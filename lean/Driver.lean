import PyAbel.Model.Symmetry
def main : IO Unit := IO.println "stub"
