import PyAbel.Model.Scalar
import PyAbel.Model.Img
import PyAbel.Model.Symmetry
