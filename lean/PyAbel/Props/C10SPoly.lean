/-
C10 — `SPolynomial`: the Abel transform of every term `r^m cos^n θ` restricted to `[r_min, r_max)` as the code computes it
(Model/SPolyTerm.lean: the antiderivatives `F(k, lim)` for every integer `k = n − m`, closed forms, upward and downward recursion)
is the line-of-sight integral of that term: with `R = √(r² + z²)` the 3-D radius and `cos Θ = r cos θ / R`,

      term m n r_min r_max r cos = 2 ∫₀^∞ [r_min ≤ R < r_max] · Rᵐ · (r cos θ / R)ⁿ dz

for all `m, n ≥ 0`, `0 ≤ r_min < r_max`, `0 < r < r_max` and every `cos`.  (Sums over terms, the shift / stretch transform and the
Horner assembly are linear; they are checked by the correspondence run and the quadrature oracle.)
-/
import PyAbel.Lemmas.AbelFracZ
import PyAbel.Model.SPolyTerm
import PyAbel.Props.C09Rbasex

open MeasureTheory Set

namespace PyAbel.C10
open PyAbel PyAbel.SPoly PyAbel.C09

/-- the constants carried by the code's antiderivatives at negative index (they cancel between the two limits) -/
noncomputable def cNeg (x : ℝ) : ℕ → ℝ
  | 0 => 0
  | 1 => x * Real.log x / 2
  | n + 2 => ((n : ℝ) + 2) / ((n : ℝ) + 3) * cNeg x n

/-- **downward branch**: `F(−n)` is `∫₀^z (ρ/x)ⁿ` up to a constant that does not depend on the limit -/
theorem Fneg_closed {x ρ : ℝ} (hx : 0 < x) (hρ : x ≤ ρ) (n : ℕ) :
    (Fneg x ρ n : ℝ) = Fz x (-(n : ℤ)) (Real.sqrt (ρ * ρ - x * x)) + cNeg x n := by
  have hρ0 : 0 < ρ := lt_of_lt_of_le hx hρ
  have hfr := fr_at_chord hx hρ
  induction n using Nat.strong_induction_on with
  | _ n ih =>
    match n with
    | 0 =>
      have := F_closed hx hρ 0
      simp only [Fneg, cNeg, this, cF, Nat.cast_zero, neg_zero, add_zero]
      rw [show ((0 : ℤ)) = ((0 : ℕ) : ℤ) from rfl, Fz_natCast]; simp
    | 1 =>
      have h1 := F_closed hx hρ 1
      have hrec := Fz_rec hx (-1) (Real.sqrt (ρ * ρ - x * x))
      rw [hfr, show ((-1 : ℤ) + 2) = ((1 : ℕ) : ℤ) from rfl, Fz_natCast] at hrec
      simp only [Fneg, cNeg, h1, cF, if_true, sqrt_real, Distr.pow, one_mul]
      have e : (x / ρ) ^ (-1 : ℤ) = ρ / x := by rw [zpow_neg_one, inv_div]
      rw [e] at hrec
      push_cast at hrec ⊢
      linarith
    | k + 2 =>
      have ihk := ih k (by omega)
      have hrec := Fz_rec hx (-((k + 2 : ℕ) : ℤ)) (Real.sqrt (ρ * ρ - x * x))
      rw [hfr] at hrec
      have e2 : (-((k + 2 : ℕ) : ℤ) + 2) = -((k : ℕ) : ℤ) := by push_cast; ring
      rw [e2] at hrec
      have e : (x / ρ) ^ (-((k + 2 : ℕ) : ℤ)) = (ρ / x) ^ (k + 2) := by
        rw [zpow_neg, zpow_natCast, ← inv_pow, inv_div]
      rw [e] at hrec
      simp only [Fneg, cNeg, sqrt_real, ihk, distr_pow_eq]
      have h3 : ((k + 3 : ℕ) : ℝ) ≠ 0 := by positivity
      rw [div_eq_iff h3]
      push_cast at hrec ⊢
      have h3' : ((k : ℝ) + 3) ≠ 0 := by positivity
      have hc' : ((k : ℝ) + 2) / ((k : ℝ) + 3) * cNeg x k * ((k : ℝ) + 3) = ((k : ℝ) + 2) * cNeg x k := by field_simp
      nlinarith [hc', hrec]

/-- the constant of `F(k)` for every integer `k` -/
noncomputable def cInt (x : ℝ) (k : ℤ) : ℝ := if 0 ≤ k then cF x k.toNat else cNeg x (-k).toNat

/-- **`F(k, lim)` is `∫₀^z (x/ρ)ᵏ` plus a constant independent of the limit, for every integer `k`** -/
theorem Fk_closed {x ρ : ℝ} (hx : 0 < x) (hρ : x ≤ ρ) (k : ℤ) :
    (Fk x ρ k : ℝ) = Fz x k (Real.sqrt (ρ * ρ - x * x)) + cInt x k := by
  unfold Fk cInt
  by_cases hk : 0 ≤ k
  · rw [if_pos hk, if_pos hk, F_closed hx hρ k.toNat, ← Fz_natCast, Int.toNat_of_nonneg hk]
  · rw [if_neg hk, if_neg hk, Fneg_closed hx hρ (-k).toNat]
    have : -(((-k).toNat : ℕ) : ℤ) = k := by omega
    rw [this]

/-- the Abel integral of a radial function restricted to a shell -/
theorem abel_shellFun (g : ℝ → ℝ) (r1 r2 x : ℝ) (h1 : 0 ≤ r1) (h12 : r1 ≤ r2) :
    Abel (indicator (Ico r1 r2) g) x = 2 * ∫ z in hc (r1 ^ 2 - x ^ 2)..hc (r2 ^ 2 - x ^ 2), g (los x z) := by
  set A := hc (r1 ^ 2 - x ^ 2) with hA
  set B := hc (r2 ^ 2 - x ^ 2) with hB
  have hA0 : 0 ≤ A := hc_nonneg _
  have hAB : A ≤ B := hc_mono (by nlinarith)
  have h2 : 0 ≤ r2 := le_trans h1 h12
  unfold Abel
  congr 1
  have e : ∀ z ∈ Ioi (0 : ℝ), indicator (Ico r1 r2) g (Real.sqrt (x ^ 2 + z ^ 2)) = indicator (Ico A B) (fun z => g (los x z)) z := by
    intro z hz
    have h := radius_mem_Ico_iff (x := x) h1 h2 (mem_Ioi.mp hz)
    by_cases hm : z ∈ Ico A B
    · rw [indicator_of_mem hm, indicator_of_mem (h.mpr hm)]; rfl
    · rw [indicator_of_notMem hm, indicator_of_notMem (fun hh => hm (h.mp hh))]
  rw [setIntegral_congr_fun measurableSet_Ioi e, setIntegral_indicator measurableSet_Ico, intervalIntegral.integral_of_le hAB]
  rcases eq_or_lt_of_le hA0 with h0 | h0
  · have : Ioi (0 : ℝ) ∩ Ico A B = Ioo A B := by
      ext z; simp only [mem_inter_iff, mem_Ioi, mem_Ico, mem_Ioo, ← h0]
      constructor
      · rintro ⟨h1, _, h3⟩; exact ⟨h1, h3⟩
      · rintro ⟨h1, h3⟩; exact ⟨h1, h1.le, h3⟩
    rw [this, integral_Ioc_eq_integral_Ioo]
  · have : Ioi (0 : ℝ) ∩ Ico A B = Ico A B := by
      ext z; simp only [mem_inter_iff, mem_Ioi, mem_Ico]
      constructor
      · rintro ⟨_, h2⟩; exact h2
      · rintro ⟨h1, h2⟩; exact ⟨lt_of_lt_of_le h0 h1, h1, h2⟩
    rw [this, integral_Ico_eq_integral_Ioo, integral_Ioc_eq_integral_Ioo]

/-- **every `SPolynomial` term is projected exactly** -/
theorem spolynomial_term_abel (m n : ℕ) (rmin rmax r cs : ℝ) (h0 : 0 ≤ rmin) (hlt : rmin < rmax) (hr : 0 < r) (hrm : r < rmax) :
    (term m n rmin rmax r cs : ℝ) = Abel (indicator (Ico rmin rmax) (fun R => R ^ m * (r * cs / R) ^ n)) r := by
  -- the two limits
  set lo : ℝ := if r < rmin then rmin else r with hlo
  have hlo_ge : r ≤ lo := by rw [hlo]; split_ifs with h <;> linarith
  have hzlo : Real.sqrt (lo * lo - r * r) = hc (rmin ^ 2 - r ^ 2) := by
    rw [hlo]
    split_ifs with h
    · rw [hc_of_nonneg (by nlinarith)]; congr 1; ring
    · rw [sub_self, Real.sqrt_zero, hc_of_nonpos (by have := not_lt.mp h; nlinarith)]
  have hzup : Real.sqrt (rmax * rmax - r * r) = hc (rmax ^ 2 - r ^ 2) := by
    rw [hc_of_nonneg (by nlinarith)]; congr 1; ring
  -- the code's difference of antiderivatives is the integral between the half-chords
  have hdiff : (Fk r rmax ((n : ℤ) - m) : ℝ) - Fk r lo ((n : ℤ) - m)
      = ∫ z in hc (rmin ^ 2 - r ^ 2)..hc (rmax ^ 2 - r ^ 2), fr r z ^ ((n : ℤ) - m) := by
    rw [Fk_closed hr hrm.le, Fk_closed hr hlo_ge, hzlo, hzup, ← Fz_sub hr]; ring
  -- the integrand along the line of sight
  have hint : ∀ z, (fun R : ℝ => R ^ m * (r * cs / R) ^ n) (los r z) = r ^ m * cs ^ n * fr r z ^ ((n : ℤ) - m) := by
    intro z
    have hL := los_pos_of_pos hr z
    have hf := fr_pos hr z
    simp only
    rw [zpow_sub₀ hf.ne', zpow_natCast, zpow_natCast]
    unfold fr
    simp only [div_pow, mul_pow]
    have hLm : los r z ^ m ≠ 0 := pow_ne_zero m hL.ne'
    have hLn : los r z ^ n ≠ 0 := pow_ne_zero n hL.ne'
    have hrm' : r ^ m ≠ 0 := pow_ne_zero m hr.ne'
    field_simp
  rw [abel_shellFun _ rmin rmax r h0 hlt.le]
  simp only [hint]
  rw [intervalIntegral.integral_const_mul, ← hdiff]
  simp only [term, distr_pow_eq]
  rw [← hlo]
  push_cast
  ring

/-- **on the axis** (`r = 0`, excluded above): the code adds `2 (r_maxᵏ − r_minᵏ)/k`, `k = m + 1`, for the isotropic terms (`n = 0`) only —
    the line-of-sight integral of `Rᵐ` through the centre; terms with `n ≥ 1` vanish there -/
theorem spolynomial_axis_value (m : ℕ) (rmin rmax : ℝ) (h0 : 0 ≤ rmin) (hle : rmin ≤ rmax) :
    Abel (indicator (Ico rmin rmax) (fun R => R ^ m)) 0 = 2 * (rmax ^ (m + 1) - rmin ^ (m + 1)) / ((m : ℝ) + 1) := by
  have h := abel_monoPiece rmin rmax 0 m h0 hle
  unfold monoPiece at h
  rw [h]
  have e1 : hc (rmin ^ 2 - (0 : ℝ) ^ 2) = rmin := by rw [hc_of_nonneg (by nlinarith [sq_nonneg rmin])]; simp [Real.sqrt_sq h0]
  have e2 : hc (rmax ^ 2 - (0 : ℝ) ^ 2) = rmax := by rw [hc_of_nonneg (by nlinarith [sq_nonneg rmax])]; simp [Real.sqrt_sq (le_trans h0 hle)]
  rw [e1, e2, J_zero_x m rmin rmax h0 hle]; ring

theorem spolynomial_axis_zero (m n : ℕ) (hn : 1 ≤ n) (rmin rmax cs : ℝ) :
    Abel (indicator (Ico rmin rmax) (fun R => R ^ m * (0 * cs / R) ^ n)) 0 = 0 := by
  have : indicator (Ico rmin rmax) (fun R : ℝ => R ^ m * (0 * cs / R) ^ n) = fun _ => (0 : ℝ) := by
    funext R
    have : (0 * cs / R) ^ n = 0 := by rw [zero_mul, zero_div]; exact zero_pow (by omega)
    by_cases hm : R ∈ Ico rmin rmax
    · rw [indicator_of_mem hm]; simp only [this, mul_zero]
    · rw [indicator_of_notMem hm]
  rw [this]; unfold Abel; simp

/-- non-vacuity: the term `r² cos θ` on `[1, 3)` seen at `r = 2`, `cos = 1/2` -/
example : (term 2 1 1 3 2 (1 / 2) : ℝ) = Abel (indicator (Ico 1 3) (fun R => R ^ 2 * (2 * (1 / 2) / R) ^ 1)) 2 :=
  spolynomial_term_abel 2 1 1 3 2 (1 / 2) (by norm_num) (by norm_num) (by norm_num) (by norm_num)

end PyAbel.C10
