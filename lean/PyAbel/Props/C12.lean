/-
C12 — Centering moves exactly the requested point to the image centre.

Model: PyAbel/Model/Center.lean (set_center on the whole-pixel path, center_image trimming).
Statements are per axis (the code treats the axes independently; `setCenter` is the product)
and then lifted to images.  `n` is the axis length, `o` the absolute origin, `0 ≤ o < n`.
-/
import PyAbel.Model.Center
import Mathlib.Tactic.Ring
import Mathlib.Tactic.Linarith

namespace PyAbel.C12
open PyAbel

/-! ### 1. the origin pixel lands at index `size / 2`, in every crop mode -/

theorem origin_lands_at_centre (crop : Crop) (n : Nat) (o : Int) (h0 : 0 ≤ o) (h1 : o < n) :
    let m := centerAxis crop n o
    m.src (m.size / 2) = some o.toNat := by
  cases crop <;> simp only [centerAxis]
  · -- maintain_size
    have : ((n / 2 : Nat) : Int) - (((n / 2 : Nat) : Int) - o) = o := by ring
    simp only [this]
    simp [h0, h1]
  · -- valid_region
    have hd : 0 ≤ min o ((n : Int) - 1 - o) := by omega
    congr 1
    omega
  · -- maintain_data
    have hk : (((((n : Int) + (max o ((n : Int) - 1 - o) - o) + (max o ((n : Int) - 1 - o) - ((n : Int) - 1 - o))).toNat / 2 : Nat) : Int)
        - (max o ((n : Int) - 1 - o) - o)) = o := by omega
    simp only [hk]
    simp [h0, h1]

/-! ### 2. `maintain_size`: same length; a pure translation by `n/2 - o`; vacated cells are zero
(`none`), shifted-out pixels are dropped -/

theorem maintain_size_size (n : Nat) (o : Int) : (centerAxis .maintainSize n o).size = n := rfl

theorem maintain_size_spec (n : Nat) (o : Int) (i k : Nat) :
    (centerAxis .maintainSize n o).src i = some k ↔ ((i : Int) = k + ((n / 2 : Nat) - o) ∧ k < n) := by
  simp only [centerAxis]
  split
  · rename_i h
    simp only [Option.some.injEq]
    constructor
    · intro hk; omega
    · intro hk; omega
  · rename_i h
    simp only [reduceCtorEq, false_iff]
    intro hk; omega

/-! ### 3. `valid_region`: the largest block of original pixels symmetric about the origin -/

theorem valid_region_spec (n : Nat) (o : Int) (h0 : 0 ≤ o) (h1 : o < n) :
    let d := min o ((n : Int) - 1 - o)
    let m := centerAxis .validRegion n o
    (m.size : Int) = 2 * d + 1 ∧
    (∀ i, i < m.size → ∃ k, m.src i = some k ∧ k < n ∧ (k : Int) = o - d + i) ∧
    -- maximal: a block of half-width d + 1 about the origin would leave the frame
    (o - (d + 1) < 0 ∨ (n : Int) ≤ o + (d + 1)) := by
  refine ⟨?_, ?_, ?_⟩
  · simp only [centerAxis]; omega
  · intro i hi
    simp only [centerAxis] at hi ⊢
    exact ⟨_, rfl, by omega, by omega⟩
  · omega

/-! ### 4. `maintain_data`: every original pixel is kept, zero padding symmetric about the origin -/

theorem maintain_data_spec (n : Nat) (o : Int) (h0 : 0 ≤ o) (h1 : o < n) :
    let d := max o ((n : Int) - 1 - o)
    let m := centerAxis .maintainData n o
    (m.size : Int) = 2 * d + 1 ∧
    -- every original pixel k appears (at k + d - o) …
    (∀ k : Nat, k < n → ∃ i, i < m.size ∧ (i : Int) = k + (d - o) ∧ m.src i = some k) ∧
    -- … and nothing else does
    (∀ i k, m.src i = some k → (i : Int) = k + (d - o) ∧ k < n) ∧
    -- minimal: d is the distance to the farthest edge
    (d = o ∨ d = (n : Int) - 1 - o) := by
  refine ⟨?_, ?_, ?_, ?_⟩
  · simp only [centerAxis]; omega
  · intro k hk
    refine ⟨(k + (max o ((n : Int) - 1 - o) - o)).toNat, ?_, ?_, ?_⟩
    · simp only [centerAxis]; omega
    · omega
    · simp only [centerAxis]
      have : (((k + (max o ((n : Int) - 1 - o) - o)).toNat : Nat) : Int) - (max o ((n : Int) - 1 - o) - o) = k := by
        omega
      simp only [this]
      simp [hk]
  · intro i k h
    simp only [centerAxis] at h
    split at h
    · simp only [Option.some.injEq] at h; omega
    · simp at h
  · omega

/-! ### 5. axes not selected / `None` components are untouched; negative origins count from the end -/

theorem unselected_untouched {α : Type} [Zero α] (crop : Crop) (a : Img α) :
    setCenter crop a none none ≈ᵢ a := by
  refine ⟨rfl, rfl, ?_⟩
  intro i j _ _
  simp [setCenter, applyMaps, AxisMap.id]

theorem unselected_rows_untouched {α : Type} [Zero α] (crop : Crop) (a : Img α) (o1 : Int) (i j : Nat) :
    (setCenter crop a none (some o1)).rows = a.rows ∧
    (setCenter crop a none (some o1)).px i j =
      match (centerAxis crop a.cols (wrapOrigin a.cols o1)).src j with
      | some c => a.px i c | none => 0 := by
  constructor
  · rfl
  · simp only [setCenter, applyMaps, AxisMap.id]
    cases (centerAxis crop a.cols (wrapOrigin a.cols o1)).src j <;> rfl

theorem negative_origin_wraps (n : Nat) (o : Int) (h : o < 0) (h' : -(n : Int) ≤ o) :
    wrapOrigin n o = n + o ∧ 0 ≤ wrapOrigin n o ∧ wrapOrigin n o < n := by
  simp only [wrapOrigin, h, if_true]; omega

theorem nonneg_origin_kept (n : Nat) (o : Int) (h : 0 ≤ o) : wrapOrigin n o = o := by
  simp only [wrapOrigin]; split <;> omega

/-! ### 6. images: the requested pixel lands at `(rows//2, cols//2)` of the output -/

theorem image_origin_at_centre {α : Type} [Zero α] (crop : Crop) (a : Img α) (o0 o1 : Int)
    (h0 : 0 ≤ o0) (h0' : o0 < a.rows) (h1 : 0 ≤ o1) (h1' : o1 < a.cols) :
    let out := setCenter crop a (some o0) (some o1)
    out.px (out.rows / 2) (out.cols / 2) = a.px o0.toNat o1.toNat := by
  have hr := origin_lands_at_centre crop a.rows o0 h0 h0'
  have hc := origin_lands_at_centre crop a.cols o1 h1 h1'
  simp only [setCenter, applyMaps, nonneg_origin_kept _ _ h0, nonneg_origin_kept _ _ h1] at hr hc ⊢
  rw [hr, hc]

/-! ### 7. `center_image` trimming: odd width when `odd_size`, square when `square`, inside the frame -/

theorem center_image_odd (rows cols : Nat) (square : Bool) (hr : 1 ≤ rows) (hc : 1 ≤ cols) :
    (centerImageTrim rows cols true square).2.2.2 % 2 = 1 := by
  simp only [centerImageTrim]
  cases square <;> simp <;> split_ifs <;> (try simp) <;> omega

theorem center_image_square (rows cols : Nat) (oddSize : Bool) :
    let t := centerImageTrim rows cols oddSize true
    t.2.1 = t.2.2.2 := by
  simp only [centerImageTrim]
  cases oddSize <;> simp <;> split_ifs <;> (try simp) <;> omega

theorem center_image_inside (rows cols : Nat) (oddSize square : Bool) :
    let t := centerImageTrim rows cols oddSize square
    t.1 + t.2.1 ≤ rows ∧ t.2.2.1 + t.2.2.2 ≤ cols := by
  simp only [centerImageTrim]
  cases oddSize <;> cases square <;> simp <;> split_ifs <;> (try simp) <;> omega

/-! ### 8. non-vacuity -/

example : (centerAxis .validRegion 7 2).size = 5 ∧ (centerAxis .maintainData 7 2).size = 9
    ∧ (centerAxis .maintainSize 7 2).src 0 = none ∧ (centerAxis .maintainSize 7 2).src 1 = some 0 := by decide

example : centerImageTrim 5 8 false true = (0, 5, 1, 5) ∧ centerImageTrim 5 6 false true = (0, 5, 0, 5) := by decide

end PyAbel.C12
