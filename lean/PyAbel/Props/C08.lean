/-
C08 — a damaged or concurrently written basis file never changes a result.

(i)  `.npy` container (Model/Npy.lean): decoding an encoded file returns it; **every strict prefix**
     of a well-formed file is rejected — the crash points of an interrupted `np.save`.
(ii) cache state machine (Model/Cache.lean, theorems in Props/C07.lean): damage and removal are
     operations of the machine, so `C07.call_spec` / `C07.history_independent` already cover every
     fault sequence: a call returns the right basis or raises; `C07.no_damage_no_raise` is recovery.
     They are restated here for the fault alphabet.
-/
import PyAbel.Model.Npy
import PyAbel.Props.C07
import Mathlib.Tactic.SplitIfs
import Mathlib.Tactic.Linarith

namespace PyAbel.C08
open PyAbel.Npy

variable (shapeOf : Bytes → Option (List Nat))

theorem magic_length : magic.length = 8 := rfl

theorem readU16le_u16le (n : Nat) (h : n < 65536) : readU16le (u16le n) = some n := by
  simp only [u16le, readU16le]
  congr 1
  have h1 : n % 256 < 256 := Nat.mod_lt _ (by norm_num)
  have h2 : n / 256 % 256 < 256 := Nat.mod_lt _ (by norm_num)
  simp [Nat.mod_eq_of_lt h1, Nat.mod_eq_of_lt h2]
  omega

/-- `np.load(np.save(a)) = a` -/
theorem decode_encode (header payload : Bytes) (shape : List Nat) (hh : header.length < 65536)
    (hs : shapeOf header = some shape) (hp : payload.length = 8 * prod shape) :
    decode shapeOf (encode header payload) = .ok shape payload := by
  unfold decode encode
  have e1 : (magic ++ u16le header.length ++ header ++ payload).take 8 = magic := by
    simp [magic, u16le]
  have e2 : ((magic ++ u16le header.length ++ header ++ payload).drop 8).take 2 = u16le header.length := by
    simp [magic, u16le]
  have e3 : ((magic ++ u16le header.length ++ header ++ payload).drop 10).take header.length = header := by
    simp [magic, u16le]
  have e4 : (magic ++ u16le header.length ++ header ++ payload).drop (10 + header.length) = payload := by
    have : (magic ++ u16le header.length ++ header).length = 10 + header.length := by simp [magic, u16le]; omega
    rw [← this, List.drop_left']
    rfl
  simp only [e1, ne_eq, not_true_eq_false, if_false, e2, readU16le_u16le _ hh, e3, lt_irrefl, hs, e4]
  rw [← hp]
  simp

/-- **Every strict prefix of a well-formed basis file is rejected** (an interrupted save is never
    mistaken for a basis, whatever byte it stopped at — including before the header). -/
theorem decode_prefix_fails (header payload : Bytes) (shape : List Nat) (hh : header.length < 65536)
    (hs : shapeOf header = some shape) (hp : payload.length = 8 * prod shape)
    (k : Nat) (hk : k < (encode header payload).length) :
    decode shapeOf ((encode header payload).take k) = .error := by
  have hlen : (encode header payload).length = 10 + header.length + payload.length := by
    simp [encode, magic, u16le]; omega
  rw [hlen] at hk
  unfold decode
  by_cases h8 : k < 8
  · -- the magic string itself is incomplete
    have : ((encode header payload).take k).take 8 ≠ magic := by
      intro h
      have := congrArg List.length h
      simp [magic_length, List.length_take, hlen] at this
      omega
    simp [this]
  · have hm : ((encode header payload).take k).take 8 = magic := by
      rw [List.take_take, Nat.min_eq_left (by omega)]
      simp [encode, magic, u16le]
    simp only [hm, ne_eq, not_true_eq_false, if_false]
    by_cases h10 : k < 10
    · -- header length field incomplete
      have : (((encode header payload).take k).drop 8).take 2 = ((encode header payload).drop 8).take (k - 8) := by
        rw [List.drop_take, List.take_take]
        congr 1; omega
      rw [this]
      have hl : (((encode header payload).drop 8).take (k - 8)).length < 2 := by
        simp [List.length_take]; omega
      generalize ((encode header payload).drop 8).take (k - 8) = l at hl
      match l, hl with
      | [], _ => simp [readU16le]
      | [_], _ => simp [readU16le]
    · have hl2 : (((encode header payload).take k).drop 8).take 2 = u16le header.length := by
        rw [List.drop_take, List.take_take, Nat.min_eq_left (by omega)]
        simp [encode, magic, u16le]
      simp only [hl2, readU16le_u16le _ hh]
      by_cases hhd : k < 10 + header.length
      · -- header text incomplete
        have : ((((encode header payload).take k).drop 10).take header.length).length < header.length := by
          simp [List.length_take, List.length_drop, hlen]; omega
        rw [if_pos this]
      · have hhead : (((encode header payload).take k).drop 10).take header.length = header := by
          rw [List.drop_take, List.take_take, Nat.min_eq_left (by omega)]
          simp [encode, magic, u16le]
        simp only [hhead, lt_irrefl, if_false, hs]
        -- payload incomplete
        have : ((((encode header payload).take k).drop (10 + header.length)).take (8 * prod shape)).length
            < 8 * prod shape := by
          simp [List.length_take, List.length_drop, hlen]; omega
        rw [if_pos this]

/-! ### what is accepted is complete; appended bytes change nothing; short files are rejected -/

/-- **What is accepted is complete**: whenever `np.load` accepts a file, the header is entirely present, the shape is the one its
    header names, and the payload handed out is exactly the `8 · ∏ shape` bytes that follow the header — never fewer numbers than the
    shape announces, never bytes from elsewhere. -/
theorem decode_ok_sound (file : Bytes) (shape : List Nat) (body : Bytes) (h : decode shapeOf file = .ok shape body) :
    file.take 8 = magic ∧
    ∃ hlen, readU16le ((file.drop 8).take 2) = some hlen ∧ 10 + hlen + 8 * prod shape ≤ file.length ∧
      shapeOf ((file.drop 10).take hlen) = some shape ∧
      body = (file.drop (10 + hlen)).take (8 * prod shape) ∧ body.length = 8 * prod shape := by
  unfold decode at h
  split_ifs at h with hm
  simp only [ne_eq, not_not] at hm
  refine ⟨hm, ?_⟩
  cases hr : readU16le ((file.drop 8).take 2) with
  | none => simp [hr] at h
  | some hlen =>
    simp only [hr] at h
    split_ifs at h with hh
    cases hs : shapeOf ((file.drop 10).take hlen) with
    | none => simp [hs] at h
    | some sh =>
      simp only [hs] at h
      split_ifs at h with hb
      simp only [Verdict.ok.injEq] at h
      obtain ⟨rfl, rfl⟩ := h
      have h2 : ((file.drop 8).take 2).length = 2 := by
        generalize (file.drop 8).take 2 = l at hr
        match l, hr with
        | [_, _], _ => rfl
      simp only [List.length_take, List.length_drop, not_lt] at hh hb h2
      refine ⟨hlen, rfl, by omega, hs, rfl, ?_⟩
      simp only [List.length_take, List.length_drop]; omega

/-- **Appending never changes an accepted basis**: if a file is accepted, the same file followed by any further bytes (a writer that is
    still appending, a second writer's tail) is accepted with the same shape and the same payload. -/
theorem decode_append (file extra : Bytes) (shape : List Nat) (body : Bytes) (h : decode shapeOf file = .ok shape body) :
    decode shapeOf (file ++ extra) = .ok shape body := by
  obtain ⟨hm, hlen, hr, hlenle, hs, hb, hbl⟩ := decode_ok_sound shapeOf file shape body h
  have l8 : 8 ≤ file.length := by omega
  have t8 : (file ++ extra).take 8 = magic := by rw [List.take_append_of_le_length l8]; exact hm
  have t2 : ((file ++ extra).drop 8).take 2 = (file.drop 8).take 2 := by
    rw [List.drop_append_of_le_length l8, List.take_append_of_le_length (by simp only [List.length_drop]; omega)]
  have th : ((file ++ extra).drop 10).take hlen = (file.drop 10).take hlen := by
    rw [List.drop_append_of_le_length (by omega), List.take_append_of_le_length (by simp only [List.length_drop]; omega)]
  have tb : ((file ++ extra).drop (10 + hlen)).take (8 * prod shape) = body := by
    rw [List.drop_append_of_le_length (by omega), List.take_append_of_le_length (by simp only [List.length_drop]; omega)]
    exact hb.symm
  have hl : ((file.drop 10).take hlen).length = hlen := by simp only [List.length_take, List.length_drop]; omega
  unfold decode
  simp only [t8, ne_eq, not_true_eq_false, if_false, t2, hr, th, hl, lt_irrefl, hs, tb, hbl]

/-- trailing bytes after a complete basis file are ignored -/
theorem decode_encode_append (header payload extra : Bytes) (shape : List Nat) (hh : header.length < 65536)
    (hs : shapeOf header = some shape) (hp : payload.length = 8 * prod shape) :
    decode shapeOf (encode header payload ++ extra) = .ok shape payload :=
  decode_append shapeOf _ extra shape payload (decode_encode shapeOf header payload shape hh hs hp)

/-- a file that does not start with the `.npy` magic string is rejected, whatever follows -/
theorem decode_bad_magic (file : Bytes) (h : file.take 8 ≠ magic) : decode shapeOf file = .error := by
  unfold decode; rw [if_pos h]

/-- a file shorter than its header announces, or than its shape needs, is rejected -/
theorem decode_short_fails (file : Bytes) (hlen : Nat) (shape : List Nat)
    (hr : readU16le ((file.drop 8).take 2) = some hlen) (hs : shapeOf ((file.drop 10).take hlen) = some shape)
    (hshort : file.length < 10 + hlen + 8 * prod shape) : decode shapeOf file = .error := by
  cases hd : decode shapeOf file with
  | error => rfl
  | ok sh body =>
    obtain ⟨_, hlen', hr', hle, hs', _, _⟩ := decode_ok_sound shapeOf file sh body hd
    rw [hr] at hr'; cases hr'
    rw [hs] at hs'; cases hs'
    omega

/-! ### fault sequences on the cache machine (restated from C07 for the fault alphabet) -/

open PyAbel.Cache PyAbel.C07 in
/-- From any reachable state, after any further sequence of damage / removal / calls, a call returns
    the right basis or raises — it never returns different numbers. -/
theorem faulted_call_safe {K : Type} [DecidableEq K] (R : Rules K) (L : Lawful R)
    (before faults : List (Op K)) (r : K) (useDir : Bool) :
    Right R r (call R (run R (run R State.init before) faults) r useDir).2 :=
  (call_spec R L _ (run_inv R L _ (run_inv R L _ (init_inv R) before) faults) r useDir).2

open PyAbel.Cache PyAbel.C07 in
/-- Recovery: once no usable file is damaged (removed, or overwritten by the library's own save),
    calls stop raising. -/
theorem recovers_after_removal {K : Type} [DecidableEq K] (R : Rules K) (s : State K) (r : K) (useDir : Bool)
    (hclean : ∀ f, bestFile R r s.disk = some f → f.2 = .valid) :
    (call R s r useDir).2 ≠ .raised :=
  no_damage_no_raise R s r useDir hclean _ rfl

open PyAbel.Cache PyAbel.C07 in
/-- Several processes sharing a basis directory: from one process's point of view the others'
    (atomic) saves are `publish` operations interleaved anywhere in its own history, together with
    any clean-ups and removals.  Whatever the interleaving, its calls return the right basis. -/
theorem multi_process_safe {K : Type} [DecidableEq K] (R : Rules K) (L : Lawful R)
    (interleaving : List (Op K)) (r : K) (useDir : Bool) :
    Right R r (call R (run R State.init interleaving) r useDir).2 :=
  history_independent R L interleaving r useDir

/-! non-vacuity: a concrete 2×1 float64 file -/
example : let h : Bytes := "{'descr': '<f8', 'fortran_order': False, 'shape': (2, 1), }\n".toUTF8.toList
    parseShape h = some [2, 1] := by decide +kernel

end PyAbel.C08
