/-
C11 — TransformPair profile 6 (Buie et al., Table 1, № 7; abel/tools/transform_pairs.py `profile6`), the one shipped pair that is not
piecewise polynomial: source `(1 − r²)^{−3/2} exp[c (1 − 1/(1 − r²))]`, `c = 1.1²`.  Its Abel integral is computed by the substitution
`z = a w/√(1 + w²)` (`a = √(1 − x²)`), which turns the line-of-sight integrand into a Gaussian in `w` (Mathlib: one-dimensional change of
variables for injective differentiable maps, `integral_gaussian_Ioi`).
-/
import PyAbel.Props.C11Profiles
import PyAbel.Props.C10SPoly
import Mathlib.MeasureTheory.Function.JacobianOneDim
import Mathlib.Analysis.SpecialFunctions.Gaussian.GaussianIntegral
open MeasureTheory Set
namespace PyAbel.C11
open PyAbel

/-- the substitution `z = a w / √(1 + w²)` maps `(0, ∞)` onto `(0, a)` -/
noncomputable def phi (a w : ℝ) : ℝ := a * w / Real.sqrt (1 + w ^ 2)

theorem phi_image (a : ℝ) (ha : 0 < a) : phi a '' Ioi 0 = Ioo 0 a := by
  ext z
  constructor
  · rintro ⟨w, hw, rfl⟩
    have hw0 : (0 : ℝ) < w := hw
    have hs : 0 < Real.sqrt (1 + w ^ 2) := Real.sqrt_pos.mpr (by positivity)
    have hlt : w < Real.sqrt (1 + w ^ 2) := by
      rw [Real.lt_sqrt hw0.le]; linarith
    refine ⟨by unfold phi; positivity, ?_⟩
    unfold phi
    rw [div_lt_iff₀ hs]
    nlinarith
  · rintro ⟨hz0, hza⟩
    have hd : 0 < a ^ 2 - z ^ 2 := by nlinarith
    have hsd : 0 < Real.sqrt (a ^ 2 - z ^ 2) := Real.sqrt_pos.mpr hd
    refine ⟨z / Real.sqrt (a ^ 2 - z ^ 2), by show (0 : ℝ) < _; positivity, ?_⟩
    unfold phi
    have e : 1 + (z / Real.sqrt (a ^ 2 - z ^ 2)) ^ 2 = a ^ 2 / (a ^ 2 - z ^ 2) := by
      rw [div_pow, Real.sq_sqrt hd.le]; field_simp; ring
    rw [e, Real.sqrt_div (by positivity), Real.sqrt_sq ha.le]
    field_simp

theorem phi_sq (a w : ℝ) : a ^ 2 - phi a w ^ 2 = a ^ 2 / (1 + w ^ 2) := by
  unfold phi
  have h : (0 : ℝ) < 1 + w ^ 2 := by positivity
  rw [div_pow, Real.sq_sqrt h.le]; field_simp; ring

theorem phi_injOn (a : ℝ) (ha : 0 < a) : InjOn (phi a) (Ioi 0) := by
  intro w1 h1 w2 h2 he
  have h1' : (0 : ℝ) < w1 := h1
  have h2' : (0 : ℝ) < w2 := h2
  have e1 := phi_sq a w1
  have e2 := phi_sq a w2
  rw [he] at e1
  have hq : a ^ 2 / (1 + w1 ^ 2) = a ^ 2 / (1 + w2 ^ 2) := by rw [← e1, ← e2]
  have hp1 : (0 : ℝ) < 1 + w1 ^ 2 := by positivity
  have hp2 : (0 : ℝ) < 1 + w2 ^ 2 := by positivity
  rw [div_eq_div_iff hp1.ne' hp2.ne'] at hq
  have ha2 : a ^ 2 ≠ 0 := by positivity
  have : w1 ^ 2 = w2 ^ 2 := by
    have := mul_left_cancel₀ ha2 hq
    linarith
  have hf : (w1 - w2) * (w1 + w2) = 0 := by ring_nf; linarith
  rcases mul_eq_zero.mp hf with h | h
  · linarith
  · linarith

theorem phi_hasDerivAt (a w : ℝ) :
    HasDerivAt (phi a) (a / ((1 + w ^ 2) * Real.sqrt (1 + w ^ 2))) w := by
  have h : (0 : ℝ) < 1 + w ^ 2 := by positivity
  have hs : 0 < Real.sqrt (1 + w ^ 2) := Real.sqrt_pos.mpr h
  have d1 : HasDerivAt (fun w : ℝ => a * w) a w := by simpa using (hasDerivAt_id w).const_mul a
  have d2 : HasDerivAt (fun w : ℝ => 1 + w ^ 2) (2 * w) w := by
    have := ((hasDerivAt_id w).pow 2).const_add 1
    simpa using this
  have d3 := d2.sqrt h.ne'
  have d4 := d1.div d3 hs.ne'
  refine d4.congr_deriv ?_
  rw [Real.sq_sqrt h.le]
  field_simp
  rw [Real.sq_sqrt h.le]
  ring

/-- the source of profile 6 as a function of the radius, for any constant `c` in the exponent -/
noncomputable def g6 (c ρ : ℝ) : ℝ := Real.exp (c * (1 - 1 / (1 - ρ ^ 2))) / Real.sqrt (1 - ρ ^ 2) ^ 3

/-- **the Abel integral of profile 6's source** (Buie et al., Table 1, № 7), by the substitution `z = a w/√(1 + w²)` and the Gaussian integral -/
theorem abel_g6 (c x : ℝ) (hc0 : 0 < c) (hx0 : 0 ≤ x) (hx1 : x < 1) :
    Abel (indicator (Ico 0 1) (g6 c)) x
      = Real.exp (c * (1 - 1 / (1 - x ^ 2))) * Real.sqrt Real.pi / Real.sqrt c / Real.sqrt (1 - x ^ 2) := by
  set a := Real.sqrt (1 - x ^ 2) with ha_def
  have h1x : 0 < 1 - x ^ 2 := by nlinarith
  have ha : 0 < a := Real.sqrt_pos.mpr h1x
  have ha2 : a ^ 2 = 1 - x ^ 2 := Real.sq_sqrt h1x.le
  rw [C10.abel_shellFun _ 0 1 x le_rfl (by norm_num)]
  have e0 : hc ((0 : ℝ) ^ 2 - x ^ 2) = 0 := hc_of_nonpos (by nlinarith)
  have e1 : hc ((1 : ℝ) ^ 2 - x ^ 2) = a := by rw [hc_of_nonneg (by nlinarith)]; simp [ha_def]
  rw [e0, e1, intervalIntegral.integral_of_le ha.le, integral_Ioc_eq_integral_Ioo, ← phi_image a ha,
    integral_image_eq_integral_abs_deriv_smul measurableSet_Ioi (fun w _ => (phi_hasDerivAt a w).hasDerivWithinAt) (phi_injOn a ha)]
  have hint : ∀ w ∈ Ioi (0 : ℝ), |a / ((1 + w ^ 2) * Real.sqrt (1 + w ^ 2))| • g6 c (los x (phi a w))
      = (Real.exp (c * (1 - 1 / a ^ 2)) / a ^ 2) * Real.exp (-(c / a ^ 2) * w ^ 2) := by
    intro w _
    have hp : (0 : ℝ) < 1 + w ^ 2 := by positivity
    have hs : 0 < Real.sqrt (1 + w ^ 2) := Real.sqrt_pos.mpr hp
    have hss : Real.sqrt (1 + w ^ 2) ^ 2 = 1 + w ^ 2 := Real.sq_sqrt hp.le
    have hpos : 0 < a / ((1 + w ^ 2) * Real.sqrt (1 + w ^ 2)) := by positivity
    rw [abs_of_pos hpos, smul_eq_mul]
    unfold g6
    have hl : 1 - los x (phi a w) ^ 2 = a ^ 2 / (1 + w ^ 2) := by
      rw [los_sq, ← phi_sq a w, ha2]; ring
    rw [hl, Real.sqrt_div (by positivity), Real.sqrt_sq ha.le]
    have hexp : Real.exp (c * (1 - 1 / (a ^ 2 / (1 + w ^ 2)))) = Real.exp (c * (1 - 1 / a ^ 2)) * Real.exp (-(c / a ^ 2) * w ^ 2) := by
      rw [← Real.exp_add]; congr 1; field_simp; ring
    rw [hexp]
    field_simp
    exact hss
  rw [setIntegral_congr_fun measurableSet_Ioi hint, integral_const_mul, integral_gaussian_Ioi, ← ha2]
  have hca : 0 < c / a ^ 2 := by positivity
  have hsq : Real.sqrt (Real.pi / (c / a ^ 2)) = Real.sqrt Real.pi * a / Real.sqrt c := by
    rw [show Real.pi / (c / a ^ 2) = Real.pi * a ^ 2 / c by field_simp, Real.sqrt_div (by positivity), Real.sqrt_mul Real.pi_pos.le, Real.sqrt_sq ha.le]
  rw [hsq]
  have hsc : 0 < Real.sqrt c := Real.sqrt_pos.mpr hc0
  field_simp

open PyAbel.Profiles in
/-- **profile 6** (not a polynomial: Gaussian in the substituted variable) -/
theorem profile6_pair (x : ℝ) (h0 : 0 ≤ x) (h1 : x < 1) :
    proj6 x = Abel (fun r => if 0 ≤ r ∧ r < 1 then source6 r else 0) x := by
  have hfun : (fun r : ℝ => if 0 ≤ r ∧ r < 1 then source6 r else 0) = indicator (Ico 0 1) (g6 ((1.1 : ℝ) ^ 2)) := by
    funext r
    by_cases hm : r ∈ Ico (0 : ℝ) 1
    · rw [indicator_of_mem hm, if_pos (show 0 ≤ r ∧ r < 1 from hm)]
      unfold source6 g6
      simp only [Profiles.n, Distr.pow, sqrt_real, exp_real]
      norm_num
      rw [show r * r = r ^ 2 by ring]; ring
    · rw [indicator_of_notMem hm, if_neg (show ¬ (0 ≤ r ∧ r < 1) from hm)]
  rw [hfun, abel_g6 _ x (by norm_num) h0 h1]
  unfold proj6 Profiles.a
  simp only [Profiles.n, Distr.pow, sqrt_real, exp_real, pi_real]
  have hs : Real.sqrt ((1.1 : ℝ) ^ 2) = 1.1 := Real.sqrt_sq (by norm_num)
  rw [hs]
  norm_num
  rw [show x * x = x ^ 2 by ring]
end PyAbel.C11
