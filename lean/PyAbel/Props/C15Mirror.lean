/-
C15 — image symmetries of the radial-bin solve (Model/Distributions.lean: `solveBin`, the 1/2/3-term weighted least squares of one
radial bin from its pixel contributions (ω, t = cos θ or cos² θ, v)).

  * the result depends on the *multiset* of contributions only (`solveBin_perm`): the order in which pixels are visited — row- or
    column-major storage, a mirrored traversal — is immaterial, and mirroring image, weights and origin left–right (which maps the
    contributions of a bin onto the same multiset: cos θ, weights and values are those of the mirror pixels) changes nothing;
  * mirroring top–bottom negates cos θ: odd-order terms change sign, even ones stay (`mirror_tb_1/2/3`);
  * multiplying all weights by a non-zero constant changes nothing, three angular terms (`weight_scaling_3`; one and two terms are
    in C15.lean).
-/
import PyAbel.Props.C15
import PyAbel.Props.C14

namespace PyAbel.C15
open PyAbel PyAbel.Distr

variable {K : Type} [Field K] [DecidableEq K]

omit [DecidableEq K] in
theorem weightMoment_perm {ps ps' : List (Contrib K)} (h : ps.Perm ps') (k : ℕ) : weightMoment ps k = weightMoment ps' k := by
  simp only [weightMoment, C14.lsum_eq_sum]
  exact (h.map _).sum_eq

omit [DecidableEq K] in
theorem dataMoment_perm {ps ps' : List (Contrib K)} (h : ps.Perm ps') (k : ℕ) : dataMoment ps k = dataMoment ps' k := by
  simp only [dataMoment, C14.lsum_eq_sum]
  exact (h.map _).sum_eq

/-- **the order of the pixels is immaterial** -/
theorem solveBin_perm (N : ℕ) {ps ps' : List (Contrib K)} (h : ps.Perm ps') : solveBin N ps = solveBin N ps' := by
  unfold solveBin
  simp only [weightMoment_perm h, dataMoment_perm h]

/-- the contribution of the top–bottom mirror pixel: cos θ changes sign -/
def flipT (p : Contrib K) : Contrib K := ⟨p.ω, -p.t, p.v⟩

omit [DecidableEq K] in
theorem pow_neg_eq (x : K) (k : ℕ) : Distr.pow (-x) k = (-1) ^ k * Distr.pow x k := by
  induction k with
  | zero => simp [Distr.pow]
  | succ k ih => simp only [Distr.pow, ih, pow_succ]; ring

omit [DecidableEq K] in
theorem weightMoment_flip (ps : List (Contrib K)) (k : ℕ) :
    weightMoment (ps.map flipT) k = (-1) ^ k * weightMoment ps k := by
  simp only [weightMoment, C14.lsum_eq_sum, List.map_map]
  induction ps with
  | nil => simp
  | cons p ps ih =>
    simp only [List.map_cons, List.sum_cons, Function.comp, flipT] at *
    rw [ih, pow_neg_eq]; ring

omit [DecidableEq K] in
theorem dataMoment_flip (ps : List (Contrib K)) (k : ℕ) :
    dataMoment (ps.map flipT) k = (-1) ^ k * dataMoment ps k := by
  simp only [dataMoment, C14.lsum_eq_sum, List.map_map]
  induction ps with
  | nil => simp
  | cons p ps ih =>
    simp only [List.map_cons, List.sum_cons, Function.comp, flipT] at *
    rw [ih, pow_neg_eq]; ring

/-- top–bottom mirror, one term: unchanged -/
theorem mirror_tb_1 (ps : List (Contrib K)) : solveBin 1 (ps.map flipT) = solveBin 1 ps := by
  simp only [solveBin, weightMoment_flip, dataMoment_flip, pow_zero, one_mul]

/-- top–bottom mirror, two terms (cos⁰, cos¹): the odd term changes sign -/
theorem mirror_tb_2 (ps : List (Contrib K)) :
    solveBin 2 (ps.map flipT) = [(solve2 (weightMoment ps 0) (weightMoment ps 1) (weightMoment ps 2) (dataMoment ps 0) (dataMoment ps 1)).1,
                                  -(solve2 (weightMoment ps 0) (weightMoment ps 1) (weightMoment ps 2) (dataMoment ps 0) (dataMoment ps 1)).2] := by
  simp only [solveBin, weightMoment_flip, dataMoment_flip, solve2]
  set p0 := weightMoment ps 0; set p1 := weightMoment ps 1; set p2 := weightMoment ps 2
  set b0 := dataMoment ps 0; set b1 := dataMoment ps 1
  have hd : (-1) ^ 0 * p0 * ((-1) ^ 2 * p2) - (-1) ^ 1 * p1 * ((-1) ^ 1 * p1) = p0 * p2 - p1 * p1 := by ring
  have h0 : (-1 : K) ^ 0 * p0 = p0 := by ring
  rw [hd, h0]
  by_cases h : p0 * p2 - p1 * p1 = 0
  · simp only [h, if_true]
    by_cases hp : p0 = 0
    · simp [hp]
    · simp only [hp, if_false]; simp
  · simp only [h, if_false]
    congr 1
    · ring
    · congr 1; ring

/-- the 2-term solve under the sign pattern of the mirror -/
theorem solve2_flip (p0 p1 p2 b0 b1 : K) :
    solve2 p0 (-p1) p2 b0 (-b1) = ((solve2 p0 p1 p2 b0 b1).1, -(solve2 p0 p1 p2 b0 b1).2) := by
  simp only [solve2]
  have hd : p0 * p2 - -p1 * -p1 = p0 * p2 - p1 * p1 := by ring
  rw [hd]
  by_cases h : p0 * p2 - p1 * p1 = 0
  · simp only [h, if_true]
    by_cases hp : p0 = 0
    · simp [hp]
    · simp only [hp, if_false]; simp
  · simp only [h, if_false]
    refine Prod.ext ?_ ?_ <;> simp only <;> ring

/-- the 3-term solve under the sign pattern of the mirror: (a₀, a₁, a₂) ↦ (a₀, −a₁, a₂) -/
theorem solve3_flip (p0 p1 p2 p3 p4 b0 b1 b2 : K) :
    solve3 p0 (-p1) p2 (-p3) p4 b0 (-b1) b2
      = ((solve3 p0 p1 p2 p3 p4 b0 b1 b2).1, -(solve3 p0 p1 p2 p3 p4 b0 b1 b2).2.1, (solve3 p0 p1 p2 p3 p4 b0 b1 b2).2.2) := by
  simp only [solve3]
  have hd : p0 * (p2 * p4 - -p3 * -p3) + -p1 * (p2 * -p3 - -p1 * p4) + p2 * (-p1 * -p3 - p2 * p2)
      = p0 * (p2 * p4 - p3 * p3) + p1 * (p2 * p3 - p1 * p4) + p2 * (p1 * p3 - p2 * p2) := by ring
  rw [hd]
  by_cases h : p0 * (p2 * p4 - p3 * p3) + p1 * (p2 * p3 - p1 * p4) + p2 * (p1 * p3 - p2 * p2) = 0
  · simp only [h, if_true, solve2_flip]
  · simp only [h, if_false]
    refine Prod.ext ?_ (Prod.ext ?_ ?_) <;> simp only <;> ring

/-- top–bottom mirror, three terms (cos⁰, cos¹, cos²): only the odd term changes sign -/
theorem mirror_tb_3 (ps : List (Contrib K)) :
    solveBin 3 (ps.map flipT) =
      (let s := solve3 (weightMoment ps 0) (weightMoment ps 1) (weightMoment ps 2) (weightMoment ps 3) (weightMoment ps 4)
                  (dataMoment ps 0) (dataMoment ps 1) (dataMoment ps 2)
       [s.1, -s.2.1, s.2.2]) := by
  simp only [solveBin, weightMoment_flip, dataMoment_flip]
  have e : ∀ x : K, (-1 : K) ^ 0 * x = x ∧ (-1 : K) ^ 1 * x = -x ∧ (-1 : K) ^ 2 * x = x ∧ (-1 : K) ^ 3 * x = -x ∧ (-1 : K) ^ 4 * x = x := by
    intro x; refine ⟨?_, ?_, ?_, ?_, ?_⟩ <;> ring
  simp only [(e _).1, (e _).2.1, (e _).2.2.1, (e _).2.2.2.1, (e _).2.2.2.2, solve3_flip]

/-- the same statement for two terms through `solve2_flip` (non-vacuity of the sign pattern): a bin holding the pixel pair
    (cos θ = ±1/2, values 3 and 1) has a₁ = 2, its mirror image −2 -/
example : solveBin 2 ([⟨1, 1 / 2, 3⟩, ⟨1, -1 / 2, 1⟩] : List (Contrib ℚ)) = [2, 2] ∧
    solveBin 2 (([⟨1, 1 / 2, 3⟩, ⟨1, -1 / 2, 1⟩] : List (Contrib ℚ)).map flipT) = [2, -2] := by
  constructor <;> simp [solveBin, solve2, weightMoment, dataMoment, lsum, Distr.pow, flipT] <;> norm_num

/-- scaling all moments by `l ≠ 0` leaves the 2-term solve unchanged -/
theorem solve2_scale (l : K) (hl : l ≠ 0) (p0 p1 p2 b0 b1 : K) :
    solve2 (l * p0) (l * p1) (l * p2) (l * b0) (l * b1) = solve2 p0 p1 p2 b0 b1 := by
  simp only [solve2]
  have hd : l * p0 * (l * p2) - l * p1 * (l * p1) = l ^ 2 * (p0 * p2 - p1 * p1) := by ring
  by_cases h : p0 * p2 - p1 * p1 = 0
  · have h' : l * p0 * (l * p2) - l * p1 * (l * p1) = 0 := by rw [hd, h]; ring
    simp only [h, h', if_true]
    by_cases h0 : p0 = 0
    · simp [h0]
    · have : l * p0 ≠ 0 := mul_ne_zero hl h0
      simp only [h0, this, if_false]
      refine Prod.ext ?_ rfl
      simp only
      rw [show (One.one : K) = 1 from rfl]; field_simp
  · have h' : l * p0 * (l * p2) - l * p1 * (l * p1) ≠ 0 := by
      rw [hd]; exact mul_ne_zero (pow_ne_zero 2 hl) h
    simp only [h, h', if_false]
    rw [show (One.one : K) = 1 from rfl]
    refine Prod.ext ?_ ?_ <;> simp only <;> rw [hd] <;> field_simp

/-- … and the 3-term solve -/
theorem solve3_scale (l : K) (hl : l ≠ 0) (p0 p1 p2 p3 p4 b0 b1 b2 : K) :
    solve3 (l * p0) (l * p1) (l * p2) (l * p3) (l * p4) (l * b0) (l * b1) (l * b2) = solve3 p0 p1 p2 p3 p4 b0 b1 b2 := by
  simp only [solve3]
  set d := p0 * (p2 * p4 - p3 * p3) + p1 * (p2 * p3 - p1 * p4) + p2 * (p1 * p3 - p2 * p2) with hdef
  have hd : l * p0 * (l * p2 * (l * p4) - l * p3 * (l * p3)) + l * p1 * (l * p2 * (l * p3) - l * p1 * (l * p4))
      + l * p2 * (l * p1 * (l * p3) - l * p2 * (l * p2)) = l ^ 3 * d := by rw [hdef]; ring
  rw [hd]
  by_cases h : d = 0
  · simp only [h, mul_zero, if_true, solve2_scale l hl]
  · have h' : l ^ 3 * d ≠ 0 := mul_ne_zero (pow_ne_zero 3 hl) h
    simp only [h, h', if_false]
    rw [show (One.one : K) = 1 from rfl]
    refine Prod.ext ?_ (Prod.ext ?_ ?_) <;> simp only <;> field_simp

/-- multiplying all weights by a non-zero constant does not change the result, three angular terms -/
theorem weight_scaling_3 (l : K) (hl : l ≠ 0) (ps : List (Contrib K)) :
    solveBin 3 (ps.map (scaleContrib l)) = solveBin 3 ps := by
  simp only [solveBin, weightMoment_scale, dataMoment_scale, solve3_scale l hl]

/-! ### homogeneity in the image -/

theorem solve2_rhs_smul (p0 p1 p2 b0 b1 a : K) :
    solve2 p0 p1 p2 (a * b0) (a * b1) = (a * (solve2 p0 p1 p2 b0 b1).1, a * (solve2 p0 p1 p2 b0 b1).2) := by
  unfold solve2
  simp only
  split_ifs <;> refine Prod.ext ?_ ?_ <;> simp only <;> ring

theorem solve3_rhs_smul (p0 p1 p2 p3 p4 b0 b1 b2 a : K) :
    solve3 p0 p1 p2 p3 p4 (a * b0) (a * b1) (a * b2)
      = (a * (solve3 p0 p1 p2 p3 p4 b0 b1 b2).1, a * (solve3 p0 p1 p2 p3 p4 b0 b1 b2).2.1,
         a * (solve3 p0 p1 p2 p3 p4 b0 b1 b2).2.2) := by
  unfold solve3
  simp only
  split_ifs
  · rw [solve2_rhs_smul]; simp
  · refine Prod.ext ?_ (Prod.ext ?_ ?_) <;> simp only <;> ring

/-- every pixel value multiplied by `a` (geometry and weights unchanged) -/
def scaleV (a : K) (p : Contrib K) : Contrib K := ⟨p.ω, p.t, a * p.v⟩

omit [DecidableEq K] in
theorem weightMoment_scaleV (a : K) (ps : List (Contrib K)) (k : ℕ) : weightMoment (ps.map (scaleV a)) k = weightMoment ps k := by
  simp only [weightMoment, List.map_map]; rfl

omit [DecidableEq K] in
theorem dataMoment_scaleV (a : K) (ps : List (Contrib K)) (k : ℕ) : dataMoment (ps.map (scaleV a)) k = a * dataMoment ps k := by
  simp only [dataMoment, C14.lsum_eq_sum, List.map_map]
  induction ps with
  | nil => simp
  | cons p ps ih => simp only [List.map_cons, List.sum_cons, Function.comp, scaleV] at ih ⊢; rw [ih]; ring

/-- **distributions are homogeneous in the image**: multiplying every pixel value by `a` multiplies every coefficient of every order
    by `a` (so ratios such as β are unchanged), for 1, 2 and 3 angular terms, including the degenerate branches -/
theorem solveBin_image_smul (N : ℕ) (a : K) (ps : List (Contrib K)) :
    solveBin N (ps.map (scaleV a)) = (solveBin N ps).map (a * ·) := by
  match N with
  | 0 => simp [solveBin]
  | 1 =>
    simp only [solveBin, weightMoment_scaleV, dataMoment_scaleV, List.map_cons, List.map_nil]
    split_ifs <;> simp <;> ring
  | 2 =>
    simp only [solveBin, weightMoment_scaleV, dataMoment_scaleV, solve2_rhs_smul, List.map_cons, List.map_nil]
  | 3 =>
    simp only [solveBin, weightMoment_scaleV, dataMoment_scaleV, solve3_rhs_smul, List.map_cons, List.map_nil]
  | n + 4 => simp [solveBin]

end PyAbel.C15
