/-
C10 — polynomial classes: exact functions and the algebra of their coefficients.

Proved here: the shift/stretch coefficient transform (every degree, every r₀, every s ≠ 0 of either sign);
`Angular` products are polynomial products; `cossin(m, n)` holds the coefficients of x^m (1 − x²)^{n/2}.
The closed-form Abel integrals of the pieces are tied to quadrature by the check (not yet by a theorem).
-/
import PyAbel.Model.Polynomial
import PyAbel.Props.C14
import PyAbel.Props.C13
import Mathlib.Data.Nat.Choose.Sum
import Mathlib.Algebra.BigOperators.Intervals
import Mathlib.Tactic.Ring
import Mathlib.Tactic.FieldSimp

namespace PyAbel.C10
open PyAbel.Poly Finset

variable {K : Type} [Field K]

theorem choose_eq (n k : ℕ) : PyAbel.Repr.choose n k = Nat.choose n k := by
  induction n generalizing k with
  | zero => cases k <;> simp [PyAbel.Repr.choose]
  | succ n ih => cases k <;> simp [PyAbel.Repr.choose, ih, Nat.choose_succ_succ]

theorem evalN_eq (N : ℕ) (c : ℕ → K) (x : K) : evalN N c x = ∑ k ∈ range N, c k * x ^ k := by
  simp only [evalN, C13.sumRange_eq_finset, C14.pow_eq]

/-- **shift and stretch**: the transformed coefficients are those of `p((r − r₀)/s)` -/
theorem shift_stretch (N : ℕ) (c : ℕ → K) (r0 s r : K) :
    evalN N (ssCoeff N c r0 s) r = evalN N c ((r - r0) / s) := by
  simp only [evalN_eq, ssCoeff, C13.sumRange_eq_finset, C14.pow_eq, choose_eq]
  -- right-hand side: binomial theorem for (r + (−r₀))^l
  have rhs : ∀ l ∈ range N, c l * ((r - r0) / s) ^ l
      = ∑ k ∈ range N, (if k ≤ l then (Nat.choose l k : K) * (0 - r0) ^ (l - k) * (c l * (1 / s) ^ l) else 0) * r ^ k := by
    intro l hl
    have hl' : l < N := mem_range.mp hl
    rw [div_pow, show r - r0 = r + (0 - r0) by ring, add_pow]
    have ext : ∑ k ∈ range N, (if k ≤ l then (Nat.choose l k : K) * (0 - r0) ^ (l - k) * (c l * (1 / s) ^ l) else 0) * r ^ k
        = ∑ k ∈ range (l + 1), (Nat.choose l k : K) * (0 - r0) ^ (l - k) * (c l * (1 / s) ^ l) * r ^ k := by
      rw [← Finset.sum_subset (Finset.range_subset_range.mpr (by omega : l + 1 ≤ N))]
      · apply Finset.sum_congr rfl
        intro k hk
        have : k ≤ l := by simp at hk; omega
        simp [this]
      · intro k _ hk
        have : ¬ k ≤ l := by simp at hk; omega
        simp [this]
    rw [ext, Finset.sum_div, Finset.mul_sum]
    apply Finset.sum_congr rfl
    intro k _
    rw [one_div, inv_pow]
    by_cases hs : s ^ l = 0
    · simp [hs]
    · field_simp
  rw [Finset.sum_congr rfl rhs, Finset.sum_comm]
  apply Finset.sum_congr rfl
  intro k _
  rw [Finset.sum_mul]

/-- **Angular product** (`np.convolve`) is multiplication of the two cosine polynomials -/
theorem angular_mul (na nb : ℕ) (a b : ℕ → K) (x : K) :
    evalN (na + nb - 1) (convolve na nb a b) x = evalN na a x * evalN nb b x := by
  simp only [evalN_eq, convolve, C13.sumRange_eq_finset]
  rw [Finset.sum_mul_sum]
  -- Σ_k (Σ_i [i ≤ k ∧ k−i < nb] a_i b_{k−i}) x^k = Σ_i Σ_j a_i b_j x^{i+j}
  have lhs : ∀ k ∈ range (na + nb - 1), (∑ i ∈ range na, if i ≤ k ∧ k - i < nb then a i * b (k - i) else 0) * x ^ k
      = ∑ i ∈ range na, ∑ j ∈ range nb, if i + j = k then a i * x ^ i * (b j * x ^ j) else 0 := by
    intro k _
    rw [Finset.sum_mul]
    apply Finset.sum_congr rfl
    intro i _
    by_cases h : i ≤ k ∧ k - i < nb
    · rw [if_pos h, Finset.sum_eq_single (k - i)]
      · rw [if_pos (by omega)]
        have : x ^ k = x ^ i * x ^ (k - i) := by rw [← pow_add]; congr 1; omega
        rw [this]; ring
      · intro j _ hj; rw [if_neg (by omega)]
      · intro hj; simp at hj; omega
    · rw [if_neg h, zero_mul]
      symm
      apply Finset.sum_eq_zero
      intro j hj
      simp at hj
      rw [if_neg (by omega)]
  rw [Finset.sum_congr rfl lhs, Finset.sum_comm]
  apply Finset.sum_congr rfl
  intro i hi
  rw [Finset.sum_comm]
  apply Finset.sum_congr rfl
  intro j hj
  simp at hi hj
  rw [Finset.sum_eq_single (i + j)]
  · simp
  · intro k _ hk; rw [if_neg (Ne.symm hk)]
  · intro hk; simp at hk; omega

/-- `Angular.cossin(m, n)` for the sine powers 0, 2, …, 8: exactly x^m (1 − x²)^{n/2} -/
theorem cossin_coeffs (m h : ℕ) (hh : h ≤ 4) (x : K) :
    ∑ k ∈ range (m + 2 * h + 1), ((cossinCoeff m (2 * h) k : ℤ) : K) * x ^ k = x ^ m * (1 - x ^ 2) ^ h := by
  -- shift the summation index by m
  have shift : ∑ k ∈ range (m + 2 * h + 1), ((cossinCoeff m (2 * h) k : ℤ) : K) * x ^ k
      = ∑ t ∈ range (2 * h + 1), ((cossinCoeff m (2 * h) (m + t) : ℤ) : K) * x ^ (m + t) := by
    rw [show m + 2 * h + 1 = m + (2 * h + 1) by ring, Finset.sum_range_add]
    have : ∑ k ∈ range m, ((cossinCoeff m (2 * h) k : ℤ) : K) * x ^ k = 0 := by
      apply Finset.sum_eq_zero
      intro k hk
      simp at hk
      simp [cossinCoeff, show ¬ m ≤ k by omega]
    rw [this, zero_add]
  rw [shift]
  interval_cases h <;>
    simp [Finset.sum_range_succ, cossinCoeff, PyAbel.Repr.choose, pow_add] <;> ring

end PyAbel.C10
