/-
C10 — polynomial classes: exact functions and the algebra of their coefficients.

Proved here: the shift/stretch coefficient transform (every degree, every r₀, every s ≠ 0 of either sign);
`Angular` products are polynomial products; `cossin(m, n)` holds the coefficients of x^m (1 − x²)^{n/2}.
`Polynomial.abel` — the coefficient recursion C and the Horner sum of `a(k)` — is the Abel integral of `Polynomial.func`
(`polynomial_abel`, every degree, every piece, every sample inside the outer radius), by the reduction formula of ∫ rᵏ dy.
The SPolynomial integrals (`F`) and ApproxGaussian's tolerance remain tied to quadrature by the check.
-/
import PyAbel.Model.Polynomial
import PyAbel.Lemmas.PolyAbel
import PyAbel.Props.C14
import PyAbel.Props.C13
import Mathlib.Data.Nat.Choose.Sum
import Mathlib.Algebra.BigOperators.Intervals
import Mathlib.Tactic.Ring
import Mathlib.Tactic.FieldSimp

namespace PyAbel.C10
open PyAbel.Poly Finset

variable {K : Type} [Field K]

theorem choose_eq (n k : ℕ) : PyAbel.Repr.choose n k = Nat.choose n k := by
  induction n generalizing k with
  | zero => cases k <;> simp [PyAbel.Repr.choose]
  | succ n ih => cases k <;> simp [PyAbel.Repr.choose, ih, Nat.choose_succ_succ]

theorem evalN_eq (N : ℕ) (c : ℕ → K) (x : K) : evalN N c x = ∑ k ∈ range N, c k * x ^ k := by
  simp only [evalN, C13.sumRange_eq_finset, C14.pow_eq]

/-- **shift and stretch**: the transformed coefficients are those of `p((r − r₀)/s)` -/
theorem shift_stretch (N : ℕ) (c : ℕ → K) (r0 s r : K) :
    evalN N (ssCoeff N c r0 s) r = evalN N c ((r - r0) / s) := by
  simp only [evalN_eq, ssCoeff, C13.sumRange_eq_finset, C14.pow_eq, choose_eq]
  -- right-hand side: binomial theorem for (r + (−r₀))^l
  have rhs : ∀ l ∈ range N, c l * ((r - r0) / s) ^ l
      = ∑ k ∈ range N, (if k ≤ l then (Nat.choose l k : K) * (0 - r0) ^ (l - k) * (c l * (1 / s) ^ l) else 0) * r ^ k := by
    intro l hl
    have hl' : l < N := mem_range.mp hl
    rw [div_pow, show r - r0 = r + (0 - r0) by ring, add_pow]
    have ext : ∑ k ∈ range N, (if k ≤ l then (Nat.choose l k : K) * (0 - r0) ^ (l - k) * (c l * (1 / s) ^ l) else 0) * r ^ k
        = ∑ k ∈ range (l + 1), (Nat.choose l k : K) * (0 - r0) ^ (l - k) * (c l * (1 / s) ^ l) * r ^ k := by
      rw [← Finset.sum_subset (Finset.range_subset_range.mpr (by omega : l + 1 ≤ N))]
      · apply Finset.sum_congr rfl
        intro k hk
        have : k ≤ l := by simp at hk; omega
        simp [this]
      · intro k _ hk
        have : ¬ k ≤ l := by simp at hk; omega
        simp [this]
    rw [ext, Finset.sum_div, Finset.mul_sum]
    apply Finset.sum_congr rfl
    intro k _
    rw [one_div, inv_pow]
    by_cases hs : s ^ l = 0
    · simp [hs]
    · field_simp
  rw [Finset.sum_congr rfl rhs, Finset.sum_comm]
  apply Finset.sum_congr rfl
  intro k _
  rw [Finset.sum_mul]

/-- **Angular product** (`np.convolve`) is multiplication of the two cosine polynomials -/
theorem angular_mul (na nb : ℕ) (a b : ℕ → K) (x : K) :
    evalN (na + nb - 1) (convolve na nb a b) x = evalN na a x * evalN nb b x := by
  simp only [evalN_eq, convolve, C13.sumRange_eq_finset]
  rw [Finset.sum_mul_sum]
  -- Σ_k (Σ_i [i ≤ k ∧ k−i < nb] a_i b_{k−i}) x^k = Σ_i Σ_j a_i b_j x^{i+j}
  have lhs : ∀ k ∈ range (na + nb - 1), (∑ i ∈ range na, if i ≤ k ∧ k - i < nb then a i * b (k - i) else 0) * x ^ k
      = ∑ i ∈ range na, ∑ j ∈ range nb, if i + j = k then a i * x ^ i * (b j * x ^ j) else 0 := by
    intro k _
    rw [Finset.sum_mul]
    apply Finset.sum_congr rfl
    intro i _
    by_cases h : i ≤ k ∧ k - i < nb
    · rw [if_pos h, Finset.sum_eq_single (k - i)]
      · rw [if_pos (by omega)]
        have : x ^ k = x ^ i * x ^ (k - i) := by rw [← pow_add]; congr 1; omega
        rw [this]; ring
      · intro j _ hj; rw [if_neg (by omega)]
      · intro hj; simp at hj; omega
    · rw [if_neg h, zero_mul]
      symm
      apply Finset.sum_eq_zero
      intro j hj
      simp at hj
      rw [if_neg (by omega)]
  rw [Finset.sum_congr rfl lhs, Finset.sum_comm]
  apply Finset.sum_congr rfl
  intro i hi
  rw [Finset.sum_comm]
  apply Finset.sum_congr rfl
  intro j hj
  simp at hi hj
  rw [Finset.sum_eq_single (i + j)]
  · simp
  · intro k _ hk; rw [if_neg (Ne.symm hk)]
  · intro hk; simp at hk; omega

/-- `Angular.cossin(m, n)` for the sine powers 0, 2, …, 8: exactly x^m (1 − x²)^{n/2} -/
theorem cossin_coeffs (m h : ℕ) (hh : h ≤ 4) (x : K) :
    ∑ k ∈ range (m + 2 * h + 1), ((cossinCoeff m (2 * h) k : ℤ) : K) * x ^ k = x ^ m * (1 - x ^ 2) ^ h := by
  -- shift the summation index by m
  have shift : ∑ k ∈ range (m + 2 * h + 1), ((cossinCoeff m (2 * h) k : ℤ) : K) * x ^ k
      = ∑ t ∈ range (2 * h + 1), ((cossinCoeff m (2 * h) (m + t) : ℤ) : K) * x ^ (m + t) := by
    rw [show m + 2 * h + 1 = m + (2 * h + 1) by ring, Finset.sum_range_add]
    have : ∑ k ∈ range m, ((cossinCoeff m (2 * h) k : ℤ) : K) * x ^ k = 0 := by
      apply Finset.sum_eq_zero
      intro k hk
      simp at hk
      simp [cossinCoeff, show ¬ m ≤ k by omega]
    rw [this, zero_add]
  rw [shift]
  interval_cases h <;>
    simp [Finset.sum_range_succ, cossinCoeff, PyAbel.Repr.choose, pow_add] <;> ring

/-! ### `Polynomial.abel` is the Abel transform of `Polynomial.func` -/

section
open PyAbel

private theorem sqrt0_eq_hc (t : ℝ) : (sqrt0 t : ℝ) = hc t := by
  unfold sqrt0
  split_ifs with h
  · rw [sqrt_real, hc_of_nonneg h.le]
  · rw [hc_of_nonpos (not_lt.mp h)]

private theorem ln0_eq_log {t : ℝ} (ht : 0 ≤ t) : (ln0 t : ℝ) = Real.log t := by
  unfold ln0
  split_ifs with h
  · rfl
  · have : t = 0 := le_antisymm (not_lt.mp h) ht
    rw [this, Real.log_zero]

/-- **`Polynomial(r, r_min, r_max, c).abel` is the Abel integral of its `func`**: for every number of coefficients, every
    coefficient vector, every piece `0 ≤ r_min < r_max` and every sample `0 ≤ x < r_max`, the value the code assembles from the
    recursion `C[k−m+2] = C[k−m]·m/(m−1)`, the differences `(y rᵖ)|` and `ln(r + y)|` is
    `2 ∫ f(√(x² + z²)) dz` with `f = Σ c_k rᵏ` on `[r_min, r_max)` and zero elsewhere. -/
theorem polynomial_abel (N : ℕ) (c : ℕ → ℝ) (rmin rmax x : ℝ) (h0 : 0 ≤ rmin) (hlt : rmin < rmax) (hx : 0 ≤ x) (hxr : x < rmax) :
    polyAbelAt N c rmin rmax x = Abel (fun r => if rmin ≤ r ∧ r < rmax then evalN N c r else 0) x := by
  set a := hc (rmin ^ 2 - x ^ 2) with ha
  set b := hc (rmax ^ 2 - x ^ 2) with hb
  have ha0 : 0 ≤ a := hc_nonneg _
  have hab : a ≤ b := hc_mono (by nlinarith)
  have hbpos : 0 ≤ rmax ^ 2 - x ^ 2 := by nlinarith
  have hb2 : b ^ 2 = rmax ^ 2 - x ^ 2 := by rw [hb, hc_of_nonneg hbpos, Real.sq_sqrt hbpos]
  have hrmax : 0 ≤ rmax := le_trans h0 hlt.le
  have hlosb : los x b = rmax := by
    unfold los; rw [hb2, show x ^ 2 + (rmax ^ 2 - x ^ 2) = rmax ^ 2 by ring, Real.sqrt_sq hrmax]
  -- the lower limit: either the inner radius is met (x ≤ r_min) or the line of sight starts at the axis plane
  have hlow : ∀ p : ℕ, rmin ^ p * a = a * los x a ^ p := by
    intro p
    rcases le_or_gt x rmin with hxm | hxm
    · have hapos : 0 ≤ rmin ^ 2 - x ^ 2 := by nlinarith
      have ha2 : a ^ 2 = rmin ^ 2 - x ^ 2 := by rw [ha, hc_of_nonneg hapos, Real.sq_sqrt hapos]
      have : los x a = rmin := by
        unfold los; rw [ha2, show x ^ 2 + (rmin ^ 2 - x ^ 2) = rmin ^ 2 by ring, Real.sqrt_sq h0]
      rw [this]; ring
    · have : a = 0 := by rw [ha]; exact hc_of_nonpos (by nlinarith)
      rw [this]; ring
  have hlnlow : (ln0 ((if rmin < x then x else rmin) + a) : ℝ) = Real.log (a + los x a) := by
    rcases le_or_gt x rmin with hxm | hxm
    · rw [if_neg (not_lt.mpr hxm)]
      have hapos : 0 ≤ rmin ^ 2 - x ^ 2 := by nlinarith
      have ha2 : a ^ 2 = rmin ^ 2 - x ^ 2 := by rw [ha, hc_of_nonneg hapos, Real.sq_sqrt hapos]
      have : los x a = rmin := by
        unfold los; rw [ha2, show x ^ 2 + (rmin ^ 2 - x ^ 2) = rmin ^ 2 by ring, Real.sqrt_sq h0]
      rw [this, ln0_eq_log (add_nonneg h0 ha0), add_comm]
    · rw [if_pos hxm]
      have ha' : a = 0 := by rw [ha]; exact hc_of_nonpos (by nlinarith)
      have : los x a = x := by rw [ha']; unfold los; simp [Real.sqrt_sq hx]
      rw [this, ha', ln0_eq_log (by linarith), add_zero, zero_add]
  -- every term of the coded sum is the integral of its monomial piece
  have hterm : ∀ k, abelA k (x * x) (fun p => Distr.pow rmax p * (sqrt0 (rmax * rmax - x * x) : ℝ) - Distr.pow rmin p * (sqrt0 (rmin * rmin - x * x) : ℝ))
        ((ln0 (rmax + (sqrt0 (rmax * rmax - x * x) : ℝ)) : ℝ) - ln0 ((if rmin < x then x else rmin) + (sqrt0 (rmin * rmin - x * x) : ℝ)))
      = J x k a b := by
    intro k
    rw [sqrt0_eq_hc, sqrt0_eq_hc, show rmax * rmax - x * x = rmax ^ 2 - x ^ 2 by ring, show rmin * rmin - x * x = rmin ^ 2 - x ^ 2 by ring,
      ← ha, ← hb, hlnlow, ln0_eq_log (add_nonneg hrmax (hc_nonneg _)), show rmax + b = b + los x b by rw [hlosb]; ring, show x * x = x ^ 2 by ring]
    rw [← abelA_eq_J hx a b ha0 hab k]
    congr 1
    funext p
    rw [distr_pow_eq, distr_pow_eq, hlosb, hlow p]; ring
  unfold polyAbelAt
  simp only []
  have e1 : sumRange N (fun k => c k * ((2 : ℕ) : ℝ) * abelA k (x * x)
        (fun p => Distr.pow rmax p * (sqrt0 (rmax * rmax - x * x) : ℝ) - Distr.pow rmin p * (sqrt0 (rmin * rmin - x * x) : ℝ))
        ((ln0 (rmax + (sqrt0 (rmax * rmax - x * x) : ℝ)) : ℝ) - ln0 ((if rmin < x then x else rmin) + (sqrt0 (rmin * rmin - x * x) : ℝ))))
      = sumRange N (fun k => c k * Abel (monoPiece rmin rmax k) x) := by
    apply sumRange_congr
    intro k _
    rw [hterm k, abel_monoPiece rmin rmax x k h0 hlt.le]
    push_cast; ring
  rw [e1]
  obtain ⟨hS, _⟩ := abel_sumRange N c (fun k => monoPiece rmin rmax k) x (fun k _ => losInt_monoPiece rmin rmax x k h0 hlt.le)
  rw [← hS]
  congr 1
  funext r
  unfold monoPiece
  by_cases hm : rmin ≤ r ∧ r < rmax
  · rw [if_pos hm]
    unfold evalN
    apply sumRange_congr
    intro k _
    rw [Set.indicator_of_mem (show r ∈ Set.Ico rmin rmax from hm), distr_pow_eq]
  · rw [if_neg hm]
    have : sumRange N (fun k => c k * Set.indicator (Set.Ico rmin rmax) (fun r => r ^ k) r) = sumRange N (fun _ => (0 : ℝ)) := by
      apply sumRange_congr
      intro k _
      rw [Set.indicator_of_notMem (show r ∉ Set.Ico rmin rmax from hm)]; ring
    rw [this, sumRange_zero]

/-- **the whole `Polynomial` object**: with the shift/stretch parameters `r_0`, `s`, the transform the code returns (coefficients
    transformed by the Pascal ⊙ Toeplitz step, then the closed-form integrals) is the Abel integral of
    `p((r − r_0)/s)` on `[r_min, r_max)` — `func` and `abel` are an exact pair for every degree, shift and stretch -/
theorem polynomial_abel_shifted (N : ℕ) (c : ℕ → ℝ) (r0 s rmin rmax x : ℝ) (h0 : 0 ≤ rmin) (hlt : rmin < rmax)
    (hx : 0 ≤ x) (hxr : x < rmax) :
    polyAbelAt N (ssCoeff N c r0 s) rmin rmax x
      = Abel (fun r => if rmin ≤ r ∧ r < rmax then evalN N c ((r - r0) / s) else 0) x := by
  rw [polynomial_abel N _ rmin rmax x h0 hlt hx hxr]
  congr 1
  funext r
  split_ifs
  · exact shift_stretch N c r0 s r
  · rfl

/-- non-vacuity: the constant piece 1 on [0, 1) seen from the axis projects to the chord 2 -/
example : polyAbelAt 1 (fun _ => (1 : ℝ)) 0 1 0 = 2 := by
  rw [polynomial_abel 1 _ 0 1 0 (le_refl 0) one_pos (le_refl 0) one_pos]
  have e : (fun r : ℝ => if (0 : ℝ) ≤ r ∧ r < 1 then evalN 1 (fun _ => (1 : ℝ)) r else 0) = Set.indicator (Set.Ico 0 1) 1 := by
    funext r
    by_cases h : (0 : ℝ) ≤ r ∧ r < 1
    · rw [if_pos h, Set.indicator_of_mem (show r ∈ Set.Ico (0 : ℝ) 1 from h)]
      simp [evalN, sumRange, Distr.pow]
    · rw [if_neg h, Set.indicator_of_notMem (show r ∉ Set.Ico (0 : ℝ) 1 from h)]
  rw [e, abel_shell 0 1 0 (le_refl 0) zero_le_one]
  norm_num [hc]

end

end PyAbel.C10
