/-
C09 — rBasex: every entry `P[n][R, r] = p_{R;n}(r)` that `rbasex._bs_rbasex` computes (model: Model/RbasexBasis.lean, the code's
closed forms `F[−1] … F[3]`, its recursion for the higher `F[n]`, `rFRF` and the second difference) is the defining
line-of-sight integral

      p_{R;n}(r) = 2 ∫₀^∞ b_R(ρ) (r/ρ)ⁿ dz,     ρ = √(r² + z²),   b_R = the triangle of half-width 1 centred at R,

for every angular order n ≥ 0 and all integers 1 ≤ r ≤ R (the first column and the entries above the diagonal are the
documented constants).
-/
import PyAbel.Lemmas.AbelFrac
import PyAbel.Model.RbasexBasis
import PyAbel.Props.C09

open MeasureTheory Set

namespace PyAbel.C09
open PyAbel PyAbel.RbxBasis

@[simp] theorem acos_real (x : ℝ) : (acos x : ℝ) = Real.arccos x := rfl

/-- the constant the code's antiderivative `F[n]` carries beyond `∫₀^z` (only `F[1] = r ln(z + ρ)` has one) -/
noncomputable def cF (x : ℝ) (n : ℕ) : ℝ := if n = 1 then x * Real.log x else 0

theorem los_at_chord {x ρ : ℝ} (hx : 0 < x) (hρ : x ≤ ρ) : los x (Real.sqrt (ρ * ρ - x * x)) = ρ := by
  unfold los
  have h : 0 ≤ ρ * ρ - x * x := by nlinarith
  rw [Real.sq_sqrt h, show x ^ 2 + (ρ * ρ - x * x) = ρ ^ 2 by ring, Real.sqrt_sq (by linarith)]

theorem fr_at_chord {x ρ : ℝ} (hx : 0 < x) (hρ : x ≤ ρ) : fr x (Real.sqrt (ρ * ρ - x * x)) = x / ρ := by
  unfold fr; rw [los_at_chord hx hρ]

/-- **the coded `F[n]` are the integrals `∫₀^z (r/ρ)ⁿ`** (plus a constant for n = 1), for every n ≥ 0 -/
theorem F_closed {x ρ : ℝ} (hx : 0 < x) (hρ : x ≤ ρ) (n : ℕ) :
    (F x ρ (n + 1) : ℝ) = Fint x n (Real.sqrt (ρ * ρ - x * x)) + cF x n := by
  have hz : 0 ≤ Real.sqrt (ρ * ρ - x * x) := Real.sqrt_nonneg _
  induction n using Nat.strong_induction_on with
  | _ n ih =>
    match n with
    | 0 => simp [F, Fint_zero, cF]
    | 1 =>
      simp only [F, cF, if_true, sqrt_real, log_real]
      rw [Fint_one hx _ hz, los_at_chord hx hρ]; ring
    | 2 =>
      simp only [F, cF, acos_real]
      rw [Fint_two hx, ← arccos_fr hx _ hz, fr_at_chord hx hρ]; simp
    | 3 =>
      simp only [F, cF, sqrt_real]
      have h := Fint_rec hx 1 (Real.sqrt (ρ * ρ - x * x))
      rw [fr_at_chord hx hρ] at h
      simp at h
      rw [h]; simp
    | k + 4 =>
      have h := Fint_rec hx (k + 2) (Real.sqrt (ρ * ρ - x * x))
      rw [fr_at_chord hx hρ] at h
      have ihk := ih (k + 2) (by omega)
      have hc2 : cF x (k + 2) = 0 := by unfold cF; rw [if_neg (by omega)]
      have hc4 : cF x (k + 4) = 0 := by unfold cF; rw [if_neg (by omega)]
      rw [hc2, add_zero] at ihk
      rw [hc4, add_zero]
      show (F x ρ (k + 5) : ℝ) = _
      simp only [F, sqrt_real]
      rw [show k + 3 = (k + 2) + 1 from rfl, ihk, distr_pow_eq]
      have hk : ((k + 2 : ℕ) : ℝ) ≠ 0 := by positivity
      rw [div_eq_iff hk]
      push_cast at h ⊢
      linarith

/-- integrability along the line of sight of a ramp times a power of the direction cosine -/
theorem losInt_ramp_frac {x : ℝ} (hx : 0 < x) (R : ℝ) (n : ℕ) : LosInt (fun ρ => ramp R ρ * (x / ρ) ^ n) x := by
  unfold LosInt
  have hcont : Continuous fun z : ℝ => ramp R (Real.sqrt (x ^ 2 + z ^ 2)) * (x / Real.sqrt (x ^ 2 + z ^ 2)) ^ n := by
    have h1 : Continuous fun z : ℝ => Real.sqrt (x ^ 2 + z ^ 2) := los_continuous x
    have h2 : Continuous fun z : ℝ => x / Real.sqrt (x ^ 2 + z ^ 2) := fr_continuous hx
    exact ((ramp_continuous R).comp h1).mul (h2.pow n)
  have h1 : IntegrableOn (fun z : ℝ => ramp R (Real.sqrt (x ^ 2 + z ^ 2)) * (x / Real.sqrt (x ^ 2 + z ^ 2)) ^ n) (Icc 0 (max R 0)) :=
    hcont.integrableOn_Icc
  refine h1.of_forall_sdiff_eq_zero measurableSet_Ioi ?_
  intro z hz
  simp only [mem_sdiff, mem_Ioi, mem_Icc, not_and, not_le] at hz
  obtain ⟨hz0, hzB⟩ := hz
  have hzB' : max R 0 < z := hzB hz0.le
  have : ramp R (Real.sqrt (x ^ 2 + z ^ 2)) = 0 := by
    apply ramp_zero_of_le
    calc R ≤ max R 0 := le_max_left _ _
      _ ≤ z := hzB'.le
      _ = Real.sqrt (z ^ 2) := (Real.sqrt_sq hz0.le).symm
      _ ≤ Real.sqrt (x ^ 2 + z ^ 2) := Real.sqrt_le_sqrt (by nlinarith [sq_nonneg x])
  rw [this, zero_mul]

/-- the affine remainder of `rFRF` (it cancels in the second difference) -/
noncomputable def Lrem (n : ℕ) (x R' : ℝ) : ℝ :=
  match n with
  | 0 => x ^ 2 * Real.log x / 2
  | m + 1 => x * cF x m - R' * cF x (m + 1)

/-- the code's `ρ = max(r, R')` and `z = √(ρ² − r²)` are the radius and the half-chord of the ramp's support -/
theorem rho_chord (r R' : ℕ) :
    let ρ : ℝ := if R' < r then (r : ℝ) else (R' : ℝ)
    (r : ℝ) ≤ ρ ∧ Real.sqrt (ρ * ρ - (r : ℝ) * r) = hc ((R' : ℝ) ^ 2 - (r : ℝ) ^ 2) := by
  intro ρ
  by_cases h : R' < r
  · have hρ : ρ = (r : ℝ) := if_pos h
    have hlt : (R' : ℝ) < r := Nat.cast_lt.mpr h
    have hR0 : (0 : ℝ) ≤ R' := Nat.cast_nonneg _
    rw [hρ]
    refine ⟨le_rfl, ?_⟩
    rw [sub_self, Real.sqrt_zero, hc_of_nonpos (by nlinarith)]
  · have hρ : ρ = (R' : ℝ) := if_neg h
    have hle : (r : ℝ) ≤ R' := Nat.cast_le.mpr (not_lt.mp h)
    have hr0 : (0 : ℝ) ≤ r := Nat.cast_nonneg _
    rw [hρ]
    refine ⟨hle, ?_⟩
    rw [hc_of_nonneg (by nlinarith)]
    congr 1; ring

/-- **`rFRF` is minus half the Abel integral of ramp × (r/ρ)ⁿ, plus an affine function of R'** -/
theorem rFRF_eq (n r R' : ℕ) (hr : 1 ≤ r) :
    (rFRF n r R' : ℝ) = -(1 / 2) * Abel (fun ρ => ramp (R' : ℝ) ρ * ((r : ℝ) / ρ) ^ n) r + Lrem n r R' := by
  have hx : (0 : ℝ) < r := by exact_mod_cast hr
  have hR0 : (0 : ℝ) ≤ R' := Nat.cast_nonneg _
  obtain ⟨hρ, hz⟩ := rho_chord r R'
  unfold rFRF
  simp only
  set ρ : ℝ := if R' < r then (r : ℝ) else (R' : ℝ) with hρdef
  match n with
  | 0 =>
    have e : (fun ρ : ℝ => ramp (R' : ℝ) ρ * ((r : ℝ) / ρ) ^ 0) = ramp (R' : ℝ) := by funext ρ; simp
    rw [e, abel_ramp _ _ hR0 hx.le]
    simp only [F, Lrem, sqrt_real, log_real]
    by_cases h : R' < r
    · have hρr : ρ = (r : ℝ) := if_pos h
      have hlt : ¬ (r : ℝ) < R' := not_lt.mpr (Nat.cast_le.mpr h.le)
      rw [if_neg hlt, hρr, sub_self, Real.sqrt_zero]
      have : (r : ℝ) / r = 1 := div_self hx.ne'
      rw [this]; push_cast; ring_nf
    · have hρR : ρ = (R' : ℝ) := if_neg h
      have hle : (r : ℝ) ≤ R' := Nat.cast_le.mpr (not_lt.mp h)
      rw [hρR]
      rcases eq_or_lt_of_le hle with heq | hlt
      · rw [if_neg (by rw [heq]; exact lt_irrefl _), ← heq, sub_self, Real.sqrt_zero]
        have : (r : ℝ) / r = 1 := div_self hx.ne'
        rw [this]; push_cast; ring_nf
      · rw [if_pos hlt]
        have hRpos : (0 : ℝ) < R' := lt_trans hx hlt
        have e2 : Real.sqrt ((R' : ℝ) * R' - (r : ℝ) * r) = Real.sqrt ((R' : ℝ) ^ 2 - (r : ℝ) ^ 2) := by congr 1; ring
        rw [e2]
        push_cast
        field_simp
        ring
  | m + 1 =>
    rw [abel_ramp_frac hx _ hR0 m, F_closed hx hρ m, F_closed hx hρ (m + 1), hz]
    simp only [Lrem]
    ring

/-- the affine remainder cancels in the second difference -/
theorem Lrem_second_diff (n : ℕ) (x R : ℝ) : 2 * Lrem n x R - Lrem n x (R + 1) - Lrem n x (R - 1) = 0 := by
  cases n with
  | zero => simp only [Lrem]; ring
  | succ m => simp only [Lrem]; ring

/-- **rBasex basis projections are their defining integrals**: for every angular order `n` and all integers `1 ≤ r ≤ R`,
    `P[n][R, r] = 2 ∫₀^∞ b_R(ρ) (r/ρ)ⁿ dz` with `b_R` the triangle of half-width 1 at `R` -/
theorem rbasex_p_eq_abel (n R r : ℕ) (hr : 1 ≤ r) (hrR : r ≤ R) :
    (p n R r : ℝ) = Abel (fun ρ => hat R ρ * ((r : ℝ) / ρ) ^ n) r := by
  have hx : (0 : ℝ) < r := by exact_mod_cast hr
  have hR1 : 1 ≤ R := le_trans hr hrR
  have c1 : ((R + 1 : ℕ) : ℝ) = (R : ℝ) + 1 := by push_cast; ring
  have c2 : ((R - 1 : ℕ) : ℝ) = (R : ℝ) - 1 := by rw [Nat.cast_sub hR1]; simp
  -- the hat is a second difference of ramps, so is its integral
  have e : (fun ρ : ℝ => hat R ρ * ((r : ℝ) / ρ) ^ n)
      = fun ρ => (ramp ((R + 1 : ℕ) : ℝ) ρ * ((r : ℝ) / ρ) ^ n - 2 * (ramp ((R : ℕ) : ℝ) ρ * ((r : ℝ) / ρ) ^ n))
          + ramp ((R - 1 : ℕ) : ℝ) ρ * ((r : ℝ) / ρ) ^ n := by
    funext ρ
    rw [c1, c2, hat_eq_ramps R ρ]; ring
  have i1 := losInt_ramp_frac hx ((R + 1 : ℕ) : ℝ) n
  have i2 := (losInt_ramp_frac hx ((R : ℕ) : ℝ) n).const_mul 2
  have i3 := losInt_ramp_frac hx ((R - 1 : ℕ) : ℝ) n
  rw [e, abel_add (i1.sub i2) i3, abel_sub i1 i2, abel_const_mul]
  -- each ramp integral is what the code's rFRF holds, up to the affine remainder
  unfold p
  rw [rFRF_eq n r R hr, rFRF_eq n r (R + 1) hr, rFRF_eq n r (R - 1) hr]
  have hL := Lrem_second_diff n (r : ℝ) (R : ℝ)
  rw [c1, c2] at *
  push_cast
  linarith

/-- the documented conventions outside `1 ≤ r ≤ R`: zero above the diagonal, `p_{R;0}(0) = 2` for `R > 0` (the chord through the
    centre of the triangle: `2 ∫ b_R(z) dz = 2`), and the unit entry that keeps each matrix non-degenerate -/
theorem rbasex_P_conventions (n R r : ℕ) :
    (R < r → r ≠ 0 → (P n R r : ℝ) = 0) ∧ (r = 0 → 0 < R → (P 0 R r : ℝ) = 2) ∧ ((P n 0 0 : ℝ) = 1) ∧
    (1 ≤ r → r ≤ R → (P n R r : ℝ) = p n R r) := by
  refine ⟨?_, ?_, ?_, ?_⟩
  · intro h h0; simp [P, h0, h]
  · intro h hR; subst h; simp [P, Nat.pos_iff_ne_zero.mp hR]
  · simp [P]
  · intro h1 h2; simp [P, Nat.one_le_iff_ne_zero.mp h1, not_lt.mpr h2]

/-- non-vacuity: the theorem at order 2, R = 3, r = 1 -/
example : (p 2 3 1 : ℝ) = Abel (fun ρ => hat 3 ρ * (((1 : ℕ) : ℝ) / ρ) ^ 2) ((1 : ℕ) : ℝ) :=
  rbasex_p_eq_abel 2 3 1 (le_refl 1) (by norm_num)

end PyAbel.C09
