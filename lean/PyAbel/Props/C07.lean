/-
C07 — results never depend on basis-cache history;  C08 (state-machine part) — a damaged basis
file never changes a result.

Model: PyAbel/Model/Cache.lean.  A result is a descriptor ⟨gen, view⟩; it is *right* for request
`r` when `view = r` and `sound gen r` (cropping the basis generated for `gen` gives the basis
generated for `r`).  A fresh process with an empty directory returns ⟨r, r⟩.
The theorems hold for every rule set satisfying `Rules.Lawful`, which is then proved for the
five modules.  History = any finite list of calls (any parameters, with or without a basis
directory), cache_cleanup, basis_dir_cleanup, file damage and file removal.
-/
import PyAbel.Model.Cache
import Mathlib.Tactic.SplitIfs
import Mathlib.Tactic.Linarith

set_option linter.unusedSectionVars false
set_option linter.unnecessarySeqFocus false

namespace PyAbel.C07
open PyAbel.Cache

variable {K : Type} [DecidableEq K]

/-- the mathematical facts a module's matching rules must respect -/
structure Lawful (R : Rules K) : Prop where
  sound_refl : ∀ r, R.sound r r = true
  disk_sound : ∀ k r, R.diskHit k r = true → R.sound k r = true
  mem_sound  : ∀ g k r, R.sound g k = true → R.memHit k r = true → R.sound g r = true
  load_key   : ∀ k r, R.diskHit k r = true → R.sound k (R.memKeyAfterLoad k r) = true

/-- invariant: what sits in memory is right for the key it is filed under -/
def Inv (R : Rules K) (s : State K) : Prop :=
  ∀ k d, s.mem = some (k, d) → d.view = k ∧ R.sound d.gen k = true

/-- a result is right for request `r` -/
def Right (R : Rules K) (r : K) : Outcome K → Prop
  | .ok d _ => d.view = r ∧ R.sound d.gen r = true
  | .raised => True

theorem bestFile_hit (R : Rules K) (r : K) (disk : List (K × FileState)) (f : K × FileState)
    (h : bestFile R r disk = some f) : R.diskHit f.1 r = true := by
  unfold bestFile at h
  -- generalise the accumulator
  have gen : ∀ (l : List (K × FileState)) (acc : Option (K × FileState)),
      (∀ a, acc = some a → R.diskHit a.1 r = true) →
      ∀ f, l.foldl (fun acc f =>
        if R.diskHit f.1 r then
          match acc with
          | none => some f
          | some b => if R.better f.1 b.1 then some f else acc
        else acc) acc = some f → R.diskHit f.1 r = true := by
    intro l
    induction l with
    | nil => intro acc hacc f hf; exact hacc f hf
    | cons x xs ih =>
      intro acc hacc f hf
      simp only [List.foldl_cons] at hf
      apply ih _ _ f hf
      intro a ha
      by_cases hx : R.diskHit x.1 r = true
      · simp only [hx, if_true] at ha
        cases acc with
        | none => simp at ha; rw [← ha]; exact hx
        | some b =>
          simp only at ha
          split_ifs at ha
          · simp at ha; rw [← ha]; exact hx
          · exact hacc a ha
      · simp only [hx] at ha
        exact hacc a (by simpa using ha)
  exact gen disk none (by simp) f h

theorem init_inv (R : Rules K) : Inv R (State.init : State K) := by
  intro k d h; simp [State.init] at h

theorem generate_spec (R : Rules K) (L : Lawful R) (s : State K) (r : K) (b : Bool) :
    Inv R (generate s r b).1 ∧ Right R r (generate s r b).2 := by
  refine ⟨?_, ?_⟩
  · intro k d h
    simp only [generate, Option.some.injEq, Prod.mk.injEq] at h
    obtain ⟨rfl, rfl⟩ := h
    exact ⟨rfl, L.sound_refl _⟩
  · exact ⟨rfl, L.sound_refl _⟩

/-- one call: the invariant is kept and the answer is right (or an exception) -/
theorem call_spec (R : Rules K) (L : Lawful R) (s : State K) (hs : Inv R s) (r : K) (useDir : Bool) :
    Inv R (call R s r useDir).1 ∧ Right R r (call R s r useDir).2 := by
  have failed_inv : Inv R (call.failed R s) := by
    unfold call.failed
    split_ifs
    · intro k d h; simp at h
    · exact hs
  have hmiss : Inv R (call.miss R s r useDir).1 ∧ Right R r (call.miss R s r useDir).2 := by
    unfold call.miss
    split_ifs with hd
    · split
      · rename_i k hbf
        have hk := bestFile_hit R r s.disk _ hbf
        refine ⟨?_, ?_⟩
        · intro k' d h
          simp only [Option.some.injEq, Prod.mk.injEq] at h
          obtain ⟨rfl, rfl⟩ := h
          exact ⟨rfl, L.load_key _ _ hk⟩
        · exact ⟨rfl, L.disk_sound _ _ hk⟩
      · split
        · exact generate_spec R L s r useDir
        · exact ⟨failed_inv, trivial⟩
      · exact ⟨failed_inv, trivial⟩
      · exact generate_spec R L s r useDir
    · exact generate_spec R L s r useDir
  unfold call
  split
  · rename_i k d hm
    split_ifs with hh
    · refine ⟨hs, ?_⟩
      have := hs k d hm
      exact ⟨rfl, L.mem_sound _ _ _ this.2 hh⟩
    · exact hmiss
  · exact hmiss

theorem step_inv (R : Rules K) (L : Lawful R) (s : State K) (hs : Inv R s) (op : Op K) :
    Inv R (step R s op).1 := by
  cases op with
  | call r b => exact (call_spec R L s hs r b).1
  | cacheCleanup => intro k d h; simp [step] at h
  | dirCleanup => intro k d h; exact hs k d (by simpa [step] using h)
  | damage k st => intro k' d h; exact hs k' d (by simpa [step] using h)
  | remove k => intro k' d h; exact hs k' d (by simpa [step] using h)
  | publish k => intro k' d h; exact hs k' d (by simpa [step] using h)

theorem run_inv (R : Rules K) (L : Lawful R) (s : State K) (hs : Inv R s) (ops : List (Op K)) :
    Inv R (run R s ops) := by
  induction ops generalizing s with
  | nil => exact hs
  | cons op ops ih => exact ih _ (step_inv R L s hs op)

/-- **C07**: after any history whatsoever, a call returns the basis a fresh process would generate
    for it (up to the module's sound cropping), or raises. -/
theorem history_independent (R : Rules K) (L : Lawful R) (h : List (Op K)) (r : K) (useDir : Bool) :
    Right R r (call R (run R State.init h) r useDir).2 :=
  (call_spec R L _ (run_inv R L _ (init_inv R) h) r useDir).2

/-- a fresh process with no basis directory generates exactly ⟨r, r⟩ -/
theorem fresh_result (R : Rules K) (r : K) :
    (call R (State.init : State K) r false).2 = .ok ⟨r, r⟩ 2 := by
  simp [call, call.miss, State.init, generate]

/-- **C08**: with no damaged file in the directory a call never raises: removing the damaged file
    (or letting the library overwrite it) restores normal service. -/
theorem no_damage_no_raise (R : Rules K) (s : State K) (r : K) (useDir : Bool)
    (hclean : ∀ f, bestFile R r s.disk = some f → f.2 = .valid) :
    ∀ o, (call R s r useDir).2 = o → o ≠ .raised := by
  intro o ho
  have hmiss : ∀ o, (call.miss R s r useDir).2 = o → o ≠ .raised := by
    intro o ho
    unfold call.miss at ho
    split_ifs at ho with hd
    · split at ho
      · subst ho; simp
      · rename_i k hbf; have := hclean _ hbf; simp at this
      · rename_i k hbf; have := hclean _ hbf; simp at this
      · subst ho; simp [generate]
    · subst ho; simp [generate]
  unfold call at ho
  split at ho
  · split_ifs at ho
    · subst ho; simp
    · exact hmiss o ho
  · exact hmiss o ho

/-! ### the five modules satisfy the laws -/

theorem dasch_lawful : Lawful daschRules where
  sound_refl r := by simp [daschRules]
  disk_sound k r h := by simpa [daschRules] using h
  mem_sound g k r h1 h2 := by
    simp only [daschRules, Bool.and_eq_true, decide_eq_true_eq] at *
    exact ⟨h1.1.trans h2.1, le_trans h2.2 h1.2⟩
  load_key k r h := by simpa [daschRules] using h

theorem daun_lawful : Lawful daunRules where
  sound_refl r := by simp [daunRules]
  disk_sound k r h := by simpa [daunRules] using h
  mem_sound g k r h1 h2 := by
    simp only [daunRules, Bool.and_eq_true, decide_eq_true_eq] at *
    obtain ⟨hd1, hn1⟩ := h1
    obtain ⟨hd2, hn2⟩ := h2
    refine ⟨hd1.trans hd2, ?_⟩
    rw [← hd2] at hn2 ⊢
    split_ifs at * <;> simp_all <;> omega
  load_key k r h := by simpa [daunRules] using h

theorem basex_lawful : Lawful basexRules where
  sound_refl r := by simp [basexRules]
  disk_sound k r h := by simpa [basexRules] using h
  mem_sound g k r h1 h2 := by
    simp only [basexRules, Bool.and_eq_true, decide_eq_true_eq] at *
    subst h2; exact h1
  load_key k r h := by simpa [basexRules] using h

theorem linbasex_lawful : Lawful linbasexRules where
  sound_refl r := by simp [linbasexRules]
  disk_sound k r h := by simpa [linbasexRules] using h
  mem_sound g k r h1 h2 := by
    simp only [linbasexRules, decide_eq_true_eq, Bool.and_eq_true] at *
    exact h1.trans h2.1
  load_key k r h := by simpa [linbasexRules] using h

theorem rbasex_lawful : Lawful rbasexRules where
  sound_refl r := by cases r; simp [rbasexRules]
  disk_sound k r h := by simpa [rbasexRules] using h
  mem_sound g k r h1 h2 := by
    simp only [rbasexRules, Bool.and_eq_true, decide_eq_true_eq, Bool.or_eq_true, Bool.not_eq_true'] at *
    obtain ⟨⟨a, b⟩, c⟩ := h1
    obtain ⟨⟨d, e⟩, f⟩ := h2
    refine ⟨⟨by omega, by omega⟩, ?_⟩
    rw [← f]; exact c
  load_key k r h := by simpa [rbasexRules] using h

/-- what the pre-repair daun disk rule did: degree 3 accepted any sufficient file.  It is not lawful:
    cropping a 30-pixel cubic-spline basis is not the 20-pixel basis (finding F7, replayed on the
    real code by the check). -/
def daunRulesBeforeRepair : Rules DaunKey :=
  { daunRules with diskHit := fun k r => k.degree = r.degree && r.n ≤ k.n }

theorem daun_before_repair_unlawful : ¬ Lawful daunRulesBeforeRepair := by
  intro L
  have := L.disk_sound ⟨30, 3⟩ ⟨20, 3⟩ (by decide)
  revert this; decide

/-! non-vacuity: a concrete history on the dasch machine ends in a right answer from memory -/
example : (call daschRules (run daschRules State.init
      [.call ⟨.two_point, 30⟩ true, .damage ⟨.two_point, 30⟩ .corruptOther, .cacheCleanup,
       .call ⟨.three_point, 25⟩ true]) ⟨.three_point, 20⟩ true).2 = .ok ⟨⟨.three_point, 25⟩, ⟨.three_point, 20⟩⟩ 0 := by
  decide

end PyAbel.C07
