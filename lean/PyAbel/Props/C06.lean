/-
C06 — Quadrant split/join is lossless and symmetrisation is a projector.

Model: PyAbel/Model/Symmetry.lean (get_image_quadrants / put_image_quadrants,
reorient=True, symmetrize_method='average').  `symmetrise im ax m` is
`put_image_quadrants(get_image_quadrants(im, symmetry_axis=ax, use_quadrants=m), im.shape, ax)`,
i.e. what `abel.Transform` does around the per-quadrant transforms.

Property theorems only.  All statements are for every shape (rows, cols ≥ 0, all four
parities), every pixel array and — where masks appear — every admissible mask.
-/
import PyAbel.Model.Symmetry
import Mathlib.Algebra.Field.Basic
import Mathlib.Algebra.CharZero.Defs
import Mathlib.Data.Nat.Cast.Field
import Mathlib.Tactic.Ring
import Mathlib.Tactic.FieldSimp
import Mathlib.Tactic.Linarith
import Mathlib.Tactic.IntervalCases
import Mathlib.Data.Rat.Defs
import Mathlib.Algebra.Order.Field.Rat

set_option linter.unusedSectionVars false

namespace PyAbel.C06
open PyAbel

/-! ### 1. split / join is lossless (any pixel type, every shape, all four parities) -/

theorem put_get_raw {α : Type} (im : Img α) :
    putQuadrants (rawQuadrants im) im.rows im.cols .none ≈ᵢ im := by
  obtain ⟨n, m, px⟩ := im
  rcases Nat.mod_two_eq_zero_or_one n with hn | hn <;>
  rcases Nat.mod_two_eq_zero_or_one m with hm | hm <;>
  · refine ⟨?_, ?_, ?_⟩
    · simp [putQuadrants, rawQuadrants, halfUp, Img.vcat, Img.hcat, Img.fliplr, Img.flipud,
        SymAxis.has0, SymAxis.has1, hn, hm]; omega
    · simp [putQuadrants, rawQuadrants, halfUp, Img.vcat, Img.hcat, Img.fliplr, Img.flipud,
        SymAxis.has0, SymAxis.has1, hn, hm]; omega
    · intro i j hi hj
      simp [putQuadrants, rawQuadrants, halfUp, Img.vcat, Img.hcat, Img.fliplr, Img.flipud,
        SymAxis.has0, SymAxis.has1, hn, hm] at hi hj ⊢
      split <;> split <;> (congr 1 <;> omega)


/-! index-congruence helpers (tactic plumbing only) -/
private theorem px_congr {α : Type} {f : ℕ → ℕ → α} {a b a' b' : ℕ} (h1 : a = a') (h2 : b = b') :
    f a b = f a' b' := by subst h1; subst h2; rfl
private theorem mul_congr' {α : Type} [Mul α] {x y u : α} (h : x = y) : x * u = y * u := by rw [h]
private theorem add_congr' {α : Type} [Add α] {x y x' y' : α} (h1 : x = x') (h2 : y = y') :
    x + y = x' + y' := by rw [h1, h2]
private theorem div_congr' {α : Type} [Div α] {x y d : α} (h : x = y) : x / d = y / d := by rw [h]

/-- closes `(px a b * u + …) / d = (px a' b' * u + …) / d` when the indices agree by `omega` -/
macro "idx_congr" : tactic =>
  `(tactic| repeat' (first | (apply px_congr <;> omega) | apply mul_congr' | apply add_congr' | apply div_congr'))

variable {K : Type} [Field K] [CharZero K]

/-- With all quadrants enabled and no symmetry, `put ∘ get` is the identity on every image. -/
theorem put_get (im : Img K) : symmetrise im .none Mask.all ≈ᵢ im := by
  have h := put_get_raw im
  refine ⟨h.1, h.2.1, ?_⟩
  intro i j hi hj
  have := h.2.2 i j hi hj
  rw [← this]
  simp [symmetrise, getQuadrants, putQuadrants, rawQuadrants, Img.map, maskPx, Mask.all,
    Img.vcat, Img.hcat, Img.fliplr, Img.flipud, SymAxis.has0, SymAxis.has1]

/-! ### 2. shape -/

theorem shape (im : Img K) (ax : SymAxis) (m : Mask) :
    (symmetrise im ax m).rows = im.rows ∧ (symmetrise im ax m).cols = im.cols := by
  obtain ⟨n, c, px⟩ := im
  rcases Nat.mod_two_eq_zero_or_one n with hn | hn <;>
  rcases Nat.mod_two_eq_zero_or_one c with hm | hm <;>
  cases ax <;>
  · simp [symmetrise, getQuadrants, putQuadrants, rawQuadrants, halfUp, Img.vcat, Img.hcat,
      Img.fliplr, Img.flipud, Img.map, SymAxis.has0, SymAxis.has1, hn, hm]; omega

/-! ### 3. `'average'` is the mean of the input and its mirror image(s) over the enabled quadrants

Each symmetry form is specified completely by a formula on one half (or quarter) of the
frame together with the mirror law(s) of section 4.  `u k` is `use_quadrants[k]` as 0/1. -/

local notation:max "𝟙⟨" b "⟩" => ((Bool.toNat b : Nat) : K)

/-- `symmetry_axis = 0`, right half: mean over the enabled ones of the pixel and its left–right
    mirror image, with (Q0, Q1) deciding above the centre row and (Q3, Q2) from it downward. -/
theorem v_mean (im : Img K) (m : Mask) (i j : Nat) (hi : i < im.rows) (hj : j < im.cols)
    (hr : im.cols / 2 ≤ j) :
    (symmetrise im .v m).px i j =
      if i < im.rows / 2 then
        (im.px i j * 𝟙⟨m.u0⟩ + im.px i (im.cols - 1 - j) * 𝟙⟨m.u1⟩) / ((m.u0.toNat + m.u1.toNat : Nat) : K)
      else
        (im.px i (im.cols - 1 - j) * 𝟙⟨m.u2⟩ + im.px i j * 𝟙⟨m.u3⟩) / ((m.u2.toNat + m.u3.toNat : Nat) : K) := by
  obtain ⟨n, c, px⟩ := im
  rcases Nat.mod_two_eq_zero_or_one n with hn | hn <;>
  rcases Nat.mod_two_eq_zero_or_one c with hm | hm <;>
  · simp only [symmetrise, getQuadrants, putQuadrants, rawQuadrants, halfUp, Img.vcat, Img.hcat,
      Img.fliplr, Img.flipud, Img.map, SymAxis.has0, SymAxis.has1, hn, hm, maskPx] at hi hj hr ⊢
    simp
    split_ifs <;> first | (exfalso; omega) | idx_congr

/-- `symmetry_axis = 1`, lower half (centre row included): mean over the enabled ones of the pixel
    and its top–bottom mirror image, with (Q3, Q0) deciding from the centre column rightward and
    (Q2, Q1) left of it. -/
theorem h_mean (im : Img K) (m : Mask) (i j : Nat) (hi : i < im.rows) (hj : j < im.cols)
    (hb : im.rows / 2 ≤ i) :
    (symmetrise im .h m).px i j =
      if im.cols / 2 ≤ j then
        (im.px (im.rows - 1 - i) j * 𝟙⟨m.u0⟩ + im.px i j * 𝟙⟨m.u3⟩) / ((m.u0.toNat + m.u3.toNat : Nat) : K)
      else
        (im.px (im.rows - 1 - i) j * 𝟙⟨m.u1⟩ + im.px i j * 𝟙⟨m.u2⟩) / ((m.u1.toNat + m.u2.toNat : Nat) : K) := by
  obtain ⟨n, c, px⟩ := im
  rcases Nat.mod_two_eq_zero_or_one n with hn | hn <;>
  rcases Nat.mod_two_eq_zero_or_one c with hm | hm <;>
  · simp only [symmetrise, getQuadrants, putQuadrants, rawQuadrants, halfUp, Img.vcat, Img.hcat,
      Img.fliplr, Img.flipud, Img.map, SymAxis.has0, SymAxis.has1, hn, hm, maskPx] at hi hj hb ⊢
    simp
    split_ifs <;> first | (exfalso; omega) | idx_congr

/-- `symmetry_axis = (0, 1)`, lower-right quarter (centre row and column included): mean of the
    four mirror images over the enabled quadrants. -/
theorem both_mean (im : Img K) (m : Mask) (i j : Nat) (hi : i < im.rows) (hj : j < im.cols)
    (hb : im.rows / 2 ≤ i) (hr : im.cols / 2 ≤ j) :
    (symmetrise im .both m).px i j =
      (im.px (im.rows - 1 - i) j * 𝟙⟨m.u0⟩ + im.px (im.rows - 1 - i) (im.cols - 1 - j) * 𝟙⟨m.u1⟩
        + im.px i (im.cols - 1 - j) * 𝟙⟨m.u2⟩ + im.px i j * 𝟙⟨m.u3⟩) / ((m.count : Nat) : K) := by
  obtain ⟨n, c, px⟩ := im
  rcases Nat.mod_two_eq_zero_or_one n with hn | hn <;>
  rcases Nat.mod_two_eq_zero_or_one c with hm | hm <;>
  · simp only [symmetrise, getQuadrants, putQuadrants, rawQuadrants, halfUp, Img.vcat, Img.hcat,
      Img.fliplr, Img.flipud, Img.map, SymAxis.has0, SymAxis.has1, hn, hm, maskPx] at hi hj hb hr ⊢
    simp
    split_ifs <;> first | (exfalso; omega) | idx_congr

/-! ### 4. the result is mirror-symmetric about the image centre in the requested sense
(every mask, admissible or not; no arithmetic on pixels needed) -/

theorem v_mirror (im : Img K) (m : Mask) (i j : Nat) (hi : i < im.rows) (hj : j < im.cols) :
    (symmetrise im .v m).px i j = (symmetrise im .v m).px i (im.cols - 1 - j) := by
  obtain ⟨n, c, px⟩ := im
  rcases Nat.mod_two_eq_zero_or_one n with hn | hn <;>
  rcases Nat.mod_two_eq_zero_or_one c with hm | hm <;>
  · simp only [symmetrise, getQuadrants, putQuadrants, rawQuadrants, halfUp, Img.vcat, Img.hcat,
      Img.fliplr, Img.flipud, Img.map, SymAxis.has0, SymAxis.has1, hn, hm, maskPx] at hi hj ⊢
    simp
    split_ifs <;> first | (exfalso; omega) | idx_congr

theorem h_mirror (im : Img K) (m : Mask) (i j : Nat) (hi : i < im.rows) (hj : j < im.cols) :
    (symmetrise im .h m).px i j = (symmetrise im .h m).px (im.rows - 1 - i) j := by
  obtain ⟨n, c, px⟩ := im
  rcases Nat.mod_two_eq_zero_or_one n with hn | hn <;>
  rcases Nat.mod_two_eq_zero_or_one c with hm | hm <;>
  · simp only [symmetrise, getQuadrants, putQuadrants, rawQuadrants, halfUp, Img.vcat, Img.hcat,
      Img.fliplr, Img.flipud, Img.map, SymAxis.has0, SymAxis.has1, hn, hm, maskPx] at hi hj ⊢
    simp
    split_ifs <;> first | (exfalso; omega) | idx_congr

theorem both_mirror_v (im : Img K) (m : Mask) (i j : Nat) (hi : i < im.rows) (hj : j < im.cols) :
    (symmetrise im .both m).px i j = (symmetrise im .both m).px i (im.cols - 1 - j) := by
  obtain ⟨n, c, px⟩ := im
  rcases Nat.mod_two_eq_zero_or_one n with hn | hn <;>
  rcases Nat.mod_two_eq_zero_or_one c with hm | hm <;>
  · simp only [symmetrise, getQuadrants, putQuadrants, rawQuadrants, halfUp, Img.vcat, Img.hcat,
      Img.fliplr, Img.flipud, Img.map, SymAxis.has0, SymAxis.has1, hn, hm, maskPx] at hi hj ⊢
    simp
    split_ifs <;> first | (exfalso; omega) | idx_congr

theorem both_mirror_h (im : Img K) (m : Mask) (i j : Nat) (hi : i < im.rows) (hj : j < im.cols) :
    (symmetrise im .both m).px i j = (symmetrise im .both m).px (im.rows - 1 - i) j := by
  obtain ⟨n, c, px⟩ := im
  rcases Nat.mod_two_eq_zero_or_one n with hn | hn <;>
  rcases Nat.mod_two_eq_zero_or_one c with hm | hm <;>
  · simp only [symmetrise, getQuadrants, putQuadrants, rawQuadrants, halfUp, Img.vcat, Img.hcat,
      Img.fliplr, Img.flipud, Img.map, SymAxis.has0, SymAxis.has1, hn, hm, maskPx] at hi hj ⊢
    simp
    split_ifs <;> first | (exfalso; omega) | idx_congr

/-! ### 5. an already symmetric image is unchanged; applying twice = applying once -/

private theorem mean2 (x : K) (a b : Bool) (h : (a || b) = true) :
    (x * ((a.toNat : Nat) : K) + x * ((b.toNat : Nat) : K)) / ((a.toNat + b.toNat : Nat) : K) = x := by
  cases a <;> cases b <;> simp at h ⊢
  field_simp; ring

private theorem mean4 (x : K) (a b c d : Bool) (h : (a || b || c || d) = true) :
    (x * ((a.toNat : Nat) : K) + x * ((b.toNat : Nat) : K) + x * ((c.toNat : Nat) : K)
      + x * ((d.toNat : Nat) : K)) / ((a.toNat + b.toNat + c.toNat + d.toNat : Nat) : K) = x := by
  cases a <;> cases b <;> cases c <;> cases d <;> simp at h ⊢ <;> (field_simp; try ring)

theorem v_fixed (im : Img K) (m : Mask) (hadm : admissible .v m = true)
    (hsym : ∀ i j, i < im.rows → j < im.cols → im.px i j = im.px i (im.cols - 1 - j)) :
    symmetrise im .v m ≈ᵢ im := by
  have key : ∀ i j, i < im.rows → j < im.cols → im.cols / 2 ≤ j →
      (symmetrise im .v m).px i j = im.px i j := by
    intro i j hi hj hr
    rw [v_mean im m i j hi hj hr, ← hsym i j hi hj]
    obtain ⟨u0, u1, u2, u3⟩ := m
    split_ifs
    · apply mean2; revert hadm; cases u0 <;> cases u1 <;> cases u2 <;> cases u3 <;> decide
    · apply mean2; revert hadm; cases u0 <;> cases u1 <;> cases u2 <;> cases u3 <;> decide
  refine ⟨(shape im .v m).1, (shape im .v m).2, fun i j hi hj => ?_⟩
  rw [(shape im .v m).1] at hi; rw [(shape im .v m).2] at hj
  by_cases hr : im.cols / 2 ≤ j
  · exact key i j hi hj hr
  · rw [v_mirror im m i j hi hj, key i (im.cols - 1 - j) hi (by omega) (by omega), ← hsym i j hi hj]

theorem h_fixed (im : Img K) (m : Mask) (hadm : admissible .h m = true)
    (hsym : ∀ i j, i < im.rows → j < im.cols → im.px i j = im.px (im.rows - 1 - i) j) :
    symmetrise im .h m ≈ᵢ im := by
  have key : ∀ i j, i < im.rows → j < im.cols → im.rows / 2 ≤ i →
      (symmetrise im .h m).px i j = im.px i j := by
    intro i j hi hj hb
    rw [h_mean im m i j hi hj hb, ← hsym i j hi hj]
    obtain ⟨u0, u1, u2, u3⟩ := m
    split_ifs
    · apply mean2; revert hadm; cases u0 <;> cases u1 <;> cases u2 <;> cases u3 <;> decide
    · apply mean2; revert hadm; cases u0 <;> cases u1 <;> cases u2 <;> cases u3 <;> decide
  refine ⟨(shape im .h m).1, (shape im .h m).2, fun i j hi hj => ?_⟩
  rw [(shape im .h m).1] at hi; rw [(shape im .h m).2] at hj
  by_cases hb : im.rows / 2 ≤ i
  · exact key i j hi hj hb
  · rw [h_mirror im m i j hi hj, key (im.rows - 1 - i) j (by omega) hj (by omega), ← hsym i j hi hj]

theorem both_fixed (im : Img K) (m : Mask) (hadm : admissible .both m = true)
    (hv : ∀ i j, i < im.rows → j < im.cols → im.px i j = im.px i (im.cols - 1 - j))
    (hh : ∀ i j, i < im.rows → j < im.cols → im.px i j = im.px (im.rows - 1 - i) j) :
    symmetrise im .both m ≈ᵢ im := by
  have key : ∀ i j, i < im.rows → j < im.cols → im.rows / 2 ≤ i → im.cols / 2 ≤ j →
      (symmetrise im .both m).px i j = im.px i j := by
    intro i j hi hj hb hr
    rw [both_mean im m i j hi hj hb hr, ← hv i j hi hj, ← hh i j hi hj,
      ← hv (im.rows - 1 - i) j (by omega) hj, ← hh i j hi hj]
    obtain ⟨u0, u1, u2, u3⟩ := m
    apply mean4; revert hadm; cases u0 <;> cases u1 <;> cases u2 <;> cases u3 <;> decide
  refine ⟨(shape im .both m).1, (shape im .both m).2, fun i j hi hj => ?_⟩
  rw [(shape im .both m).1] at hi; rw [(shape im .both m).2] at hj
  by_cases hb : im.rows / 2 ≤ i <;> by_cases hr : im.cols / 2 ≤ j
  · exact key i j hi hj hb hr
  · rw [both_mirror_v im m i j hi hj, key i (im.cols - 1 - j) hi (by omega) hb (by omega), ← hv i j hi hj]
  · rw [both_mirror_h im m i j hi hj, key (im.rows - 1 - i) j (by omega) hj (by omega) hr, ← hh i j hi hj]
  · rw [both_mirror_h im m i j hi hj, both_mirror_v im m (im.rows - 1 - i) j (by omega) hj,
      key (im.rows - 1 - i) (im.cols - 1 - j) (by omega) (by omega) (by omega) (by omega),
      ← hv (im.rows - 1 - i) j (by omega) hj, ← hh i j hi hj]

/-- Symmetrisation is idempotent (for each symmetry form and each admissible mask). -/
theorem idempotent (im : Img K) (ax : SymAxis) (m : Mask) (hadm : admissible ax m = true)
    (hnone : ax = .none → m = Mask.all) :
    symmetrise (symmetrise im ax m) ax m ≈ᵢ symmetrise im ax m := by
  have hs := shape im ax m
  cases ax with
  | none =>
    rw [hnone rfl]
    exact put_get _
  | v =>
    apply v_fixed _ m hadm
    intro i j hi hj
    rw [hs.1] at hi; rw [hs.2] at hj; rw [hs.2]
    exact v_mirror im m i j hi hj
  | h =>
    apply h_fixed _ m hadm
    intro i j hi hj
    rw [hs.1] at hi; rw [hs.2] at hj; rw [hs.1]
    exact h_mirror im m i j hi hj
  | both =>
    apply both_fixed _ m hadm
    · intro i j hi hj
      rw [hs.1] at hi; rw [hs.2] at hj; rw [hs.2]
      exact both_mirror_v im m i j hi hj
    · intro i j hi hj
      rw [hs.1] at hi; rw [hs.2] at hj; rw [hs.1]
      exact both_mirror_h im m i j hi hj

/-! ### 6. requests that would leave a quadrant undefined are rejected — and only those

`defined ax m` says: every output quadrant has at least one enabled source quadrant. -/

def defined (ax : SymAxis) (m : Mask) : Bool :=
  match ax with
  | .none => m.u0 && m.u1 && m.u2 && m.u3
  | .v    => (m.u0 || m.u1) && (m.u2 || m.u3)
  | .h    => (m.u1 || m.u2) && (m.u0 || m.u3)
  | .both => m.u0 || m.u1 || m.u2 || m.u3

theorem rejected_iff_undefined (ax : SymAxis) (m : Mask) : admissible ax m = defined ax m := by
  obtain ⟨u0, u1, u2, u3⟩ := m
  cases ax <;> cases u0 <;> cases u1 <;> cases u2 <;> cases u3 <;> decide

/-- an admissible mask never divides by zero -/
theorem denominators_nonzero (m : Mask) :
    (admissible .v m = true → (m.u0.toNat + m.u1.toNat ≠ 0 ∧ m.u2.toNat + m.u3.toNat ≠ 0)) ∧
    (admissible .h m = true → (m.u1.toNat + m.u2.toNat ≠ 0 ∧ m.u0.toNat + m.u3.toNat ≠ 0)) ∧
    (admissible .both m = true → m.count ≠ 0) := by
  obtain ⟨u0, u1, u2, u3⟩ := m
  cases u0 <;> cases u1 <;> cases u2 <;> cases u3 <;> decide

/-! ### 7. non-vacuity: concrete instances of the hypotheses -/

example : admissible .v ⟨true, false, false, true⟩ = true ∧ admissible .both ⟨false, false, true, false⟩ = true
    ∧ admissible .none ⟨true, true, true, false⟩ = false := by decide

/-- a concrete non-constant 3×4 image that is left–right symmetric (hypothesis of `v_fixed`) -/
example : let im : Img ℚ := ⟨3, 4, fun i j => (i : ℚ) + (if j = 0 ∨ j = 3 then 5 else 7)⟩
    ∀ i j, i < im.rows → j < im.cols → im.px i j = im.px i (im.cols - 1 - j) := by
  intro im i j hi hj
  simp only [im] at hi hj ⊢
  interval_cases j <;> simp

end PyAbel.C06
