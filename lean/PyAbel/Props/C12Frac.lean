/-
C12, fractional origins with `order=1`: the sub-pixel shift is linear interpolation,
  out[i] = (1 − f) · x[i − k] + f · x[i − k − 1]      for a shift by  δ = k + f,  k ∈ ℤ,  0 ≤ f < 1
(`scipy.ndimage.shift(np.pad(x, 1), δ, order=1)` inside the padded frame; `set_center` pads by one pixel precisely so that the
fractional edge pixels are kept).  For data of finite support this conserves the total intensity exactly and moves the centroid by
exactly δ — per axis, hence for images (the 2-D shift is the composition of the two 1-D shifts).
-/
import PyAbel.Model.Center
import Mathlib.Algebra.BigOperators.Finprod
import Mathlib.Algebra.Field.Basic
import Mathlib.Tactic.Ring
import Mathlib.Tactic.Linarith

namespace PyAbel.C12
open Function

variable {K : Type} [Field K]

open PyAbel (shiftLin)

theorem finite_support_comp_sub (x : ℤ → K) (hx : (support x).Finite) (c : ℤ) :
    (support fun i : ℤ => x (i - c)).Finite := by
  have : (support fun i : ℤ => x (i - c)) ⊆ (fun j => j + c) '' support x := by
    intro i hi
    exact ⟨i - c, hi, by ring⟩
  exact (hx.image _).subset this

theorem finsum_comp_sub (g : ℤ → K) (c : ℤ) : ∑ᶠ i : ℤ, g (i - c) = ∑ᶠ j : ℤ, g j :=
  finsum_comp_equiv (Equiv.subRight c) (f := g)

theorem finite_support_mul_left (a : K) (g : ℤ → K) (hg : (support g).Finite) : (support fun i => a * g i).Finite :=
  hg.subset (fun i hi => by
    simp only [mem_support] at hi ⊢
    intro h0; exact hi (by rw [h0, mul_zero]))

/-- **total intensity is conserved exactly** by the order-1 sub-pixel shift -/
theorem shiftLin_sum (k : ℤ) (f : K) (x : ℤ → K) (hx : (support x).Finite) :
    ∑ᶠ i, shiftLin k f x i = ∑ᶠ i, x i := by
  unfold shiftLin
  have s1 := finite_support_comp_sub x hx k
  have s2 : (support fun i : ℤ => x (i - k - 1)).Finite := by
    have := finite_support_comp_sub x hx (k + 1)
    simpa [sub_add_eq_sub_sub] using this
  rw [finsum_add_distrib (finite_support_mul_left _ _ s1) (finite_support_mul_left _ _ s2),
    ← mul_finsum' _ _ s1, ← mul_finsum' _ _ s2]
  have e1 : ∑ᶠ i : ℤ, x (i - k) = ∑ᶠ j, x j := finsum_comp_sub x k
  have e2 : ∑ᶠ i : ℤ, x (i - k - 1) = ∑ᶠ j, x j := by
    have := finsum_comp_sub x (k + 1)
    simpa [sub_add_eq_sub_sub] using this
  rw [e1, e2]; ring

/-- **the first moment moves by exactly `(k + f)` times the total**: the centroid is shifted by the requested `δ = k + f` -/
theorem shiftLin_moment (k : ℤ) (f : K) (x : ℤ → K) (hx : (support x).Finite) :
    ∑ᶠ i : ℤ, (i : K) * shiftLin k f x i = ∑ᶠ i : ℤ, (i : K) * x i + ((k : K) + f) * ∑ᶠ i, x i := by
  have hm : (support fun i : ℤ => (i : K) * x i).Finite :=
    hx.subset (fun i hi => by
      simp only [mem_support] at hi ⊢
      intro h0; exact hi (by rw [h0, mul_zero]))
  -- Σ i·x(i − c) = Σ (j + c)·x(j)
  have key : ∀ c : ℤ, ∑ᶠ i : ℤ, (i : K) * x (i - c) = ∑ᶠ j : ℤ, (j : K) * x j + (c : K) * ∑ᶠ j, x j := by
    intro c
    have h := finsum_comp_sub (fun j : ℤ => ((j + c : ℤ) : K) * x j) c
    simp only [sub_add_cancel] at h
    rw [h]
    have : (fun j : ℤ => ((j + c : ℤ) : K) * x j) = fun j : ℤ => (j : K) * x j + (c : K) * x j := by
      funext j; push_cast; ring
    rw [this, finsum_add_distrib hm (finite_support_mul_left _ _ hx), ← mul_finsum' _ _ hx]
  have s1 := finite_support_comp_sub x hx k
  have s2 : (support fun i : ℤ => x (i - k - 1)).Finite := by
    have := finite_support_comp_sub x hx (k + 1)
    simpa [sub_add_eq_sub_sub] using this
  have t1 : (support fun i : ℤ => (1 - f) * ((i : K) * x (i - k))).Finite :=
    finite_support_mul_left _ _ (s1.subset (fun i hi => by
      simp only [mem_support] at hi ⊢
      intro h0; exact hi (by rw [h0, mul_zero])))
  have t2 : (support fun i : ℤ => f * ((i : K) * x (i - k - 1))).Finite :=
    finite_support_mul_left _ _ (s2.subset (fun i hi => by
      simp only [mem_support] at hi ⊢
      intro h0; exact hi (by rw [h0, mul_zero])))
  have e : (fun i : ℤ => (i : K) * shiftLin k f x i)
      = fun i : ℤ => (1 - f) * ((i : K) * x (i - k)) + f * ((i : K) * x (i - k - 1)) := by
    funext i; unfold shiftLin; ring
  rw [e, finsum_add_distrib t1 t2]
  have u1 : ∑ᶠ i : ℤ, (1 - f) * ((i : K) * x (i - k)) = (1 - f) * ∑ᶠ i : ℤ, (i : K) * x (i - k) :=
    (mul_finsum' _ _ (s1.subset (fun i hi => by
      simp only [mem_support] at hi ⊢
      intro h0; exact hi (by rw [h0, mul_zero])))).symm
  have u2 : ∑ᶠ i : ℤ, f * ((i : K) * x (i - k - 1)) = f * ∑ᶠ i : ℤ, (i : K) * x (i - k - 1) :=
    (mul_finsum' _ _ (s2.subset (fun i hi => by
      simp only [mem_support] at hi ⊢
      intro h0; exact hi (by rw [h0, mul_zero])))).symm
  have k2 : ∑ᶠ i : ℤ, (i : K) * x (i - k - 1) = ∑ᶠ j : ℤ, (j : K) * x j + ((k : K) + 1) * ∑ᶠ j, x j := by
    have := key (k + 1)
    simpa [sub_add_eq_sub_sub] using this
  rw [u1, u2, key k, k2]; ring

/-! ### algebra of the order-1 shift: translation, continuity in δ, linearity, composition, exactness on ramps -/

/-- a whole-pixel request (`f = 0`) is a pure translation: no interpolation, every value kept -/
theorem shiftLin_zero_frac (k : ℤ) (x : ℤ → K) (i : ℤ) : shiftLin k 0 x i = x (i - k) := by
  simp [shiftLin]

/-- no shift requested → the data are returned unchanged -/
theorem shiftLin_zero (x : ℤ → K) : shiftLin 0 0 x = x := by
  funext i; simp [shiftLin]

/-- `f = 1` is the next whole pixel: the interpolation is continuous across integer shifts -/
theorem shiftLin_one_frac (k : ℤ) (x : ℤ → K) : shiftLin k 1 x = shiftLin (k + 1) 0 x := by
  funext i; simp [shiftLin, sub_add_eq_sub_sub]

/-- the shift is **linear** in the data -/
theorem shiftLin_linear (k : ℤ) (f a b : K) (x y : ℤ → K) (i : ℤ) :
    shiftLin k f (fun j => a * x j + b * y j) i = a * shiftLin k f x i + b * shiftLin k f y i := by
  simp only [shiftLin]; ring

/-- whole-pixel shifts compose additively with any sub-pixel shift, in either order -/
theorem shiftLin_comp_int (k k' : ℤ) (f : K) (x : ℤ → K) :
    shiftLin k 0 (shiftLin k' f x) = shiftLin (k + k') f x ∧
    shiftLin k' f (shiftLin k 0 x) = shiftLin (k + k') f x := by
  constructor <;> funext i <;> simp only [shiftLin] <;>
    (have e1 : i - k - k' = i - (k + k') := by ring
     have e2 : i - k' - k = i - (k + k') := by ring
     have e3 : i - k' - 1 - k = i - (k + k') - 1 := by ring
     simp [e1, e2, e3])

/-- a constant image stays the same constant (partition of unity of the two weights) -/
theorem shiftLin_const (k : ℤ) (f c : K) (i : ℤ) : shiftLin k f (fun _ => c) i = c := by
  simp only [shiftLin]; ring

/-- a linear ramp is moved exactly: linear interpolation is exact on degree-1 data, so the
    centre of a linear feature lands exactly where requested -/
theorem shiftLin_ramp (k : ℤ) (f a b : K) (i : ℤ) :
    shiftLin k f (fun j : ℤ => a * (j : K) + b) i = a * ((i : K) - ((k : K) + f)) + b := by
  simp only [shiftLin]; push_cast; ring

end PyAbel.C12
