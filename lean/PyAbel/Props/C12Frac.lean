/-
C12, fractional origins with `order=1`: the sub-pixel shift is linear interpolation,
  out[i] = (1 − f) · x[i − k] + f · x[i − k − 1]      for a shift by  δ = k + f,  k ∈ ℤ,  0 ≤ f < 1
(`scipy.ndimage.shift(np.pad(x, 1), δ, order=1)` inside the padded frame; `set_center` pads by one pixel precisely so that the
fractional edge pixels are kept).  For data of finite support this conserves the total intensity exactly and moves the centroid by
exactly δ — per axis, hence for images (the 2-D shift is the composition of the two 1-D shifts).
-/
import PyAbel.Model.Center
import Mathlib.Algebra.BigOperators.Finprod
import Mathlib.Algebra.Field.Basic
import Mathlib.Tactic.Ring
import Mathlib.Tactic.Linarith

namespace PyAbel.C12
open Function

variable {K : Type} [Field K]

open PyAbel (shiftLin)

theorem finite_support_comp_sub (x : ℤ → K) (hx : (support x).Finite) (c : ℤ) :
    (support fun i : ℤ => x (i - c)).Finite := by
  have : (support fun i : ℤ => x (i - c)) ⊆ (fun j => j + c) '' support x := by
    intro i hi
    exact ⟨i - c, hi, by ring⟩
  exact (hx.image _).subset this

theorem finsum_comp_sub (g : ℤ → K) (c : ℤ) : ∑ᶠ i : ℤ, g (i - c) = ∑ᶠ j : ℤ, g j :=
  finsum_comp_equiv (Equiv.subRight c) (f := g)

theorem finite_support_mul_left (a : K) (g : ℤ → K) (hg : (support g).Finite) : (support fun i => a * g i).Finite :=
  hg.subset (fun i hi => by
    simp only [mem_support] at hi ⊢
    intro h0; exact hi (by rw [h0, mul_zero]))

/-- **total intensity is conserved exactly** by the order-1 sub-pixel shift -/
theorem shiftLin_sum (k : ℤ) (f : K) (x : ℤ → K) (hx : (support x).Finite) :
    ∑ᶠ i, shiftLin k f x i = ∑ᶠ i, x i := by
  unfold shiftLin
  have s1 := finite_support_comp_sub x hx k
  have s2 : (support fun i : ℤ => x (i - k - 1)).Finite := by
    have := finite_support_comp_sub x hx (k + 1)
    simpa [sub_add_eq_sub_sub] using this
  rw [finsum_add_distrib (finite_support_mul_left _ _ s1) (finite_support_mul_left _ _ s2),
    ← mul_finsum' _ _ s1, ← mul_finsum' _ _ s2]
  have e1 : ∑ᶠ i : ℤ, x (i - k) = ∑ᶠ j, x j := finsum_comp_sub x k
  have e2 : ∑ᶠ i : ℤ, x (i - k - 1) = ∑ᶠ j, x j := by
    have := finsum_comp_sub x (k + 1)
    simpa [sub_add_eq_sub_sub] using this
  rw [e1, e2]; ring

/-- **the first moment moves by exactly `(k + f)` times the total**: the centroid is shifted by the requested `δ = k + f` -/
theorem shiftLin_moment (k : ℤ) (f : K) (x : ℤ → K) (hx : (support x).Finite) :
    ∑ᶠ i : ℤ, (i : K) * shiftLin k f x i = ∑ᶠ i : ℤ, (i : K) * x i + ((k : K) + f) * ∑ᶠ i, x i := by
  have hm : (support fun i : ℤ => (i : K) * x i).Finite :=
    hx.subset (fun i hi => by
      simp only [mem_support] at hi ⊢
      intro h0; exact hi (by rw [h0, mul_zero]))
  -- Σ i·x(i − c) = Σ (j + c)·x(j)
  have key : ∀ c : ℤ, ∑ᶠ i : ℤ, (i : K) * x (i - c) = ∑ᶠ j : ℤ, (j : K) * x j + (c : K) * ∑ᶠ j, x j := by
    intro c
    have h := finsum_comp_sub (fun j : ℤ => ((j + c : ℤ) : K) * x j) c
    simp only [sub_add_cancel] at h
    rw [h]
    have : (fun j : ℤ => ((j + c : ℤ) : K) * x j) = fun j : ℤ => (j : K) * x j + (c : K) * x j := by
      funext j; push_cast; ring
    rw [this, finsum_add_distrib hm (finite_support_mul_left _ _ hx), ← mul_finsum' _ _ hx]
  have s1 := finite_support_comp_sub x hx k
  have s2 : (support fun i : ℤ => x (i - k - 1)).Finite := by
    have := finite_support_comp_sub x hx (k + 1)
    simpa [sub_add_eq_sub_sub] using this
  have t1 : (support fun i : ℤ => (1 - f) * ((i : K) * x (i - k))).Finite :=
    finite_support_mul_left _ _ (s1.subset (fun i hi => by
      simp only [mem_support] at hi ⊢
      intro h0; exact hi (by rw [h0, mul_zero])))
  have t2 : (support fun i : ℤ => f * ((i : K) * x (i - k - 1))).Finite :=
    finite_support_mul_left _ _ (s2.subset (fun i hi => by
      simp only [mem_support] at hi ⊢
      intro h0; exact hi (by rw [h0, mul_zero])))
  have e : (fun i : ℤ => (i : K) * shiftLin k f x i)
      = fun i : ℤ => (1 - f) * ((i : K) * x (i - k)) + f * ((i : K) * x (i - k - 1)) := by
    funext i; unfold shiftLin; ring
  rw [e, finsum_add_distrib t1 t2]
  have u1 : ∑ᶠ i : ℤ, (1 - f) * ((i : K) * x (i - k)) = (1 - f) * ∑ᶠ i : ℤ, (i : K) * x (i - k) :=
    (mul_finsum' _ _ (s1.subset (fun i hi => by
      simp only [mem_support] at hi ⊢
      intro h0; exact hi (by rw [h0, mul_zero])))).symm
  have u2 : ∑ᶠ i : ℤ, f * ((i : K) * x (i - k - 1)) = f * ∑ᶠ i : ℤ, (i : K) * x (i - k - 1) :=
    (mul_finsum' _ _ (s2.subset (fun i hi => by
      simp only [mem_support] at hi ⊢
      intro h0; exact hi (by rw [h0, mul_zero])))).symm
  have k2 : ∑ᶠ i : ℤ, (i : K) * x (i - k - 1) = ∑ᶠ j : ℤ, (j : K) * x j + ((k : K) + 1) * ∑ᶠ j, x j := by
    have := key (k + 1)
    simpa [sub_add_eq_sub_sub] using this
  rw [u1, u2, key k, k2]; ring

end PyAbel.C12
