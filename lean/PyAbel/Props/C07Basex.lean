/-
C07 — the in-memory transform caches of `basex.get_bs_cached` (Model/BasexCache.lean): after any history of requests (other
sizes, basis widths, regularisations, corrections, pixel sizes, either direction) and cleanups, a call hands out the matrix made
from exactly the basis `[n, sigma]` and the parameters `[reg, correction, dr]` it names.
-/
import PyAbel.Model.BasexCache

namespace PyAbel.C07B
open PyAbel.BxCache

variable {K P : Type} [DecidableEq K] [DecidableEq P]

/-- a keyed matrix is the one its key and the basis in memory say -/
def Inv (s : St K P) : Prop :=
  (∀ p, s.trfPrm = some p → ∃ k, s.bsPrm = some k ∧ s.trf = some (k, p)) ∧
  (∀ p, s.triPrm = some p → ∃ k, s.bsPrm = some k ∧ s.tri = some (k, p))

omit [DecidableEq K] [DecidableEq P] in
theorem inv_init : Inv (St.init : St K P) := by
  constructor <;> intro _ h <;> simp [St.init] at h

omit [DecidableEq K] [DecidableEq P] in
theorem inv_cleanup (s : St K P) (sel : Select) (h : Inv s) : Inv (cleanup s sel) := by
  obtain ⟨h1, h2⟩ := h
  cases sel
  · exact inv_init
  · exact ⟨fun _ h => by simp [cleanup] at h, fun p h => h2 p (by simpa [cleanup] using h)⟩
  · exact ⟨fun p h => h1 p (by simpa [cleanup] using h), fun _ h => by simp [cleanup] at h⟩

/-- one call keeps the invariant and answers with the requested matrix -/
theorem call_spec (s : St K P) (q : Req K P) (h : Inv s) :
    Inv (call s q).1 ∧ (call s q).2 = some (q.k, q.p) := by
  obtain ⟨bp, fp, f, ip, i⟩ := s
  obtain ⟨k, fw, p⟩ := q
  obtain ⟨h1, h2⟩ := h
  simp only at h1 h2
  unfold call Inv
  simp only
  grind (splits := 40)

theorem inv_run (s : St K P) (ops : List (Op K P)) (h : Inv s) : Inv (run s ops) := by
  induction ops generalizing s with
  | nil => exact h
  | cons op ops ih =>
    apply ih
    cases op with
    | call q => exact (call_spec s q h).1
    | cleanup sel => exact inv_cleanup s sel h

/-- **cache transparency along any history** -/
theorem call_returns_requested (ops : List (Op K P)) (q : Req K P) :
    (call (run (St.init : St K P) ops) q).2 = some (q.k, q.p) :=
  (call_spec _ q (inv_run _ ops inv_init)).2

/-- non-vacuity: a basis change unkeys both matrices; the stale matrix object is still there but is not handed out -/
example :
    let s1 := (call (St.init : St Nat Nat) ⟨5, true, 1⟩).1
    let r2 := call s1 ⟨6, true, 1⟩
    s1.trf = some (5, 1) ∧ r2.2 = some (6, 1) := by decide

end PyAbel.C07B
