/-
C05 — abel.Transform = centre, symmetrise, transform each quadrant, reassemble.

Model: PyAbel/Model/Pipeline.lean on top of Model/Symmetry.lean and Model/Center.lean.
`T` is an arbitrary shape-preserving half-image transform.
-/
import PyAbel.Model.Pipeline
import Mathlib.Algebra.Field.Basic
import Mathlib.Tactic.Ring
import Mathlib.Tactic.Linarith
import Mathlib.Algebra.Order.Field.Rat

set_option linter.unusedSectionVars false

namespace PyAbel.C05
open PyAbel

variable {α : Type}

/-- shape hypothesis on the four transformed quadrants: each has the quadrant shape -/
def QuadShape (A : Quads α) (n m : Nat) : Prop :=
  A.q0.rows = halfUp n ∧ A.q0.cols = halfUp m ∧ A.q1.rows = halfUp n ∧ A.q1.cols = halfUp m ∧
  A.q2.rows = halfUp n ∧ A.q2.cols = halfUp m ∧ A.q3.rows = halfUp n ∧ A.q3.cols = halfUp m

/-! ### 1. the output has the shape of the (centred) input -/

theorem put_shape (A : Quads α) (n m : Nat) (ax : SymAxis) (h : QuadShape A n m) :
    (putQuadrants A n m ax).rows = n ∧ (putQuadrants A n m ax).cols = m := by
  obtain ⟨⟨r0, c0, p0⟩, ⟨r1, c1, p1⟩, ⟨r2, c2, p2⟩, ⟨r3, c3, p3⟩⟩ := A
  simp only [QuadShape] at h
  obtain ⟨rfl, rfl, rfl, rfl, rfl, rfl, rfl, rfl⟩ := h
  rcases Nat.mod_two_eq_zero_or_one n with hn | hn <;>
  rcases Nat.mod_two_eq_zero_or_one m with hm | hm <;>
  cases ax <;>
  · simp [putQuadrants, halfUp, Img.vcat, Img.hcat, Img.fliplr, Img.flipud, SymAxis.has0, SymAxis.has1,
      hn, hm]
    omega

/-! ### 2. the pixel formula of the reassembly

Output pixel `(i, j)` is read from the transformed quadrant selected by `pickQuadrant`
— rows above the centre row from the upper quadrants, the centre row and below from the lower
ones; the centre column and everything to its right from the right-hand quadrants — at the
quadrant-local position (distance from the centre row, distance from the centre column). -/

theorem put_pixel (A : Quads α) (n m : Nat) (ax : SymAxis) (h : QuadShape A n m)
    (i j : Nat) (hi : i < n) (_hj : j < m) :
    (putQuadrants A n m ax).px i j =
      (pickQuadrant ax A (decide (i < n / 2)) (decide (m / 2 ≤ j))).px
        (if i < n / 2 then i else n - 1 - i)
        (if m / 2 ≤ j then j - m / 2 else halfUp m - 1 - j) := by
  obtain ⟨⟨r0, c0, p0⟩, ⟨r1, c1, p1⟩, ⟨r2, c2, p2⟩, ⟨r3, c3, p3⟩⟩ := A
  simp only [QuadShape] at h
  obtain ⟨rfl, rfl, rfl, rfl, rfl, rfl, rfl, rfl⟩ := h
  rcases Nat.mod_two_eq_zero_or_one n with hn | hn <;>
  rcases Nat.mod_two_eq_zero_or_one m with hm | hm <;>
  cases ax <;>
  · simp only [putQuadrants, pickQuadrant, halfUp, Img.vcat, Img.hcat, Img.fliplr, Img.flipud,
      SymAxis.has0, SymAxis.has1, hn, hm]
    simp
    split_ifs <;> first | (exfalso; omega) | (simp [*] <;> first | rfl | (congr 1 <;> omega))

/-! ### 3. quadrants the code does not compute (`None`) are never read -/

theorem unread_quadrants (A B : Quads α) (n m : Nat) (ax : SymAxis)
    (hA : QuadShape A n m) (hB : QuadShape B n m)
    (h1 : A.q1 = B.q1)
    (h2 : ax.has1 = false → A.q2 = B.q2)
    (h0 : ax.has0 = false → A.q0 = B.q0)
    (h3 : ax = .none → A.q3 = B.q3) :
    putQuadrants A n m ax ≈ᵢ putQuadrants B n m ax := by
  refine ⟨?_, ?_, ?_⟩
  · rw [(put_shape A n m ax hA).1, (put_shape B n m ax hB).1]
  · rw [(put_shape A n m ax hA).2, (put_shape B n m ax hB).2]
  · intro i j hi hj
    rw [(put_shape A n m ax hA).1] at hi
    rw [(put_shape A n m ax hA).2] at hj
    rw [put_pixel A n m ax hA i j hi hj, put_pixel B n m ax hB i j hi hj]
    cases ax <;> simp [pickQuadrant, SymAxis.has0, SymAxis.has1] at * <;>
      (split_ifs <;> simp_all)

/-! ### 4. the whole quadrant pipeline, for any shape-preserving half-image transform `T` -/

section
variable {K : Type} [Field K]

/-- `T` returns an array of the shape it was given (true of every half-image transform) -/
def ShapePreserving (T : Img K → Img K) : Prop := ∀ q, (T q).rows = q.rows ∧ (T q).cols = q.cols

theorem get_shape (im : Img K) (ax : SymAxis) (m : Mask) :
    QuadShape (getQuadrants im ax m) im.rows im.cols := by
  cases ax <;> simp [QuadShape, getQuadrants, rawQuadrants, Img.map]

theorem transform_shape (T : Img K → Img K) (hT : ShapePreserving T) (im : Img K) (ax : SymAxis) (m : Mask) :
    (transformQuadrants T im ax m).rows = im.rows ∧ (transformQuadrants T im ax m).cols = im.cols := by
  have hq := get_shape im ax m
  obtain ⟨a, b, c, d, e, f, g, h⟩ := hq
  apply put_shape
  refine ⟨?_, ?_, ?_, ?_, ?_, ?_, ?_, ?_⟩ <;> simp [(hT _).1, (hT _).2, *]

/-- Every output pixel is the pixel, at the quadrant-local position, of `T` applied to the
    symmetrised, identically oriented quadrant selected by `pickQuadrant`: upper quadrants above the
    centre row, lower ones from the centre row down; right-hand quadrants from the centre column
    rightwards. -/
theorem transform_pixel (T : Img K → Img K) (hT : ShapePreserving T) (im : Img K) (ax : SymAxis) (m : Mask)
    (i j : Nat) (hi : i < im.rows) (hj : j < im.cols) :
    (transformQuadrants T im ax m).px i j =
      (pickQuadrant ax
          (let Q := getQuadrants im ax m; (⟨T Q.q0, T Q.q1, T Q.q2, T Q.q3⟩ : Quads K))
          (decide (i < im.rows / 2)) (decide (im.cols / 2 ≤ j))).px
        (if i < im.rows / 2 then i else im.rows - 1 - i)
        (if im.cols / 2 ≤ j then j - im.cols / 2 else halfUp im.cols - 1 - j) := by
  have hq := get_shape im ax m
  obtain ⟨a, b, c, d, e, f, g, h⟩ := hq
  apply put_pixel _ _ _ _ _ i j hi hj
  refine ⟨?_, ?_, ?_, ?_, ?_, ?_, ?_, ?_⟩ <;> simp [(hT _).1, (hT _).2, *]


/-- **the result depends on the method only through its action on the four symmetrised quadrants**: two half-image transforms that
    agree on those four arrays give the same image (no other data — the raw image, another quadrant's neighbourhood, earlier calls —
    enters the pipeline) -/
theorem transform_congr (T T' : Img K → Img K) (im : Img K) (ax : SymAxis) (m : Mask)
    (h0 : T (getQuadrants im ax m).q0 = T' (getQuadrants im ax m).q0)
    (h1 : T (getQuadrants im ax m).q1 = T' (getQuadrants im ax m).q1)
    (h2 : T (getQuadrants im ax m).q2 = T' (getQuadrants im ax m).q2)
    (h3 : T (getQuadrants im ax m).q3 = T' (getQuadrants im ax m).q3) :
    transformQuadrants T im ax m = transformQuadrants T' im ax m := by
  simp only [transformQuadrants, h0, h1, h2, h3]

/-- **two images with the same symmetrised quadrants are transformed to the same result** — in particular an image and its
    symmetrised version, whenever symmetrisation is a projector on the quadrants (C06) -/
theorem transform_depends_on_quadrants (T : Img K → Img K) (im im' : Img K) (ax : SymAxis) (m : Mask)
    (hq : getQuadrants im ax m = getQuadrants im' ax m) (hr : im.rows = im'.rows) (hc : im.cols = im'.cols) :
    transformQuadrants T im ax m = transformQuadrants T im' ax m := by
  simp only [transformQuadrants, hq, hr, hc]

/-- a pipeline stage applied after the method (`S ∘ T`, e.g. a per-quadrant scaling) keeps the frame of the image -/
theorem transform_comp_shape (S T : Img K → Img K) (hS : ShapePreserving S) (hT : ShapePreserving T) (im : Img K) (ax : SymAxis)
    (m : Mask) : (transformQuadrants (S ∘ T) im ax m).rows = im.rows ∧ (transformQuadrants (S ∘ T) im ax m).cols = im.cols :=
  transform_shape (S ∘ T) (fun q => ⟨((hS (T q)).1).trans (hT q).1, ((hS (T q)).2).trans (hT q).2⟩) im ax m

/-- With the identity "transform" the pipeline is exactly symmetrisation (C06). -/
theorem transform_id (im : Img K) (ax : SymAxis) (m : Mask) :
    transformQuadrants id im ax m = symmetrise im ax m := rfl

end

/-! ### 5. option routing (decision logic of `Transform.__init__` / `_integration`)

`dr` reaches the angular integration iff it is in `transform_options` and not already in
`angular_integration_options`; an explicit value there wins. -/

def integrationDr (transformDr integrationDr : Option Nat) : Option Nat :=
  match integrationDr with
  | some d => some d
  | none => transformDr

theorem explicit_integration_dr_wins (t : Option Nat) (d : Nat) : integrationDr t (some d) = some d := rfl
theorem transform_dr_forwarded (d : Nat) : integrationDr (some d) none = some d := rfl
theorem no_dr_no_forward : integrationDr none none = none := rfl

/-! ### 6. non-vacuity -/

example : ShapePreserving (stubT : Img ℚ → Img ℚ) := fun q => ⟨rfl, rfl⟩

end PyAbel.C05
