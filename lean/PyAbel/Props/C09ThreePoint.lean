/-
C09 — the three-point deconvolution operator (abel/dasch.py `_bs_three_point`, Dasch Eqs. (5)–(7)) is an exact inverse Abel integral:
applied to any samples it gives, at every pixel, the inverse Abel integral (line-of-sight form, see C09TwoPoint) of their local quadratic
interpolant — on `[j − ½, j + ½)` the parabola through the samples `j − 1, j, j + 1` (zero-padded beyond the last one); on the axis row the
even parabola through `P₀`, `P₁` on `[0, ½)` that Dasch's special cases `± 1/π` stand for.

`I0(i, j)` and `I1(i, j)` are the integrals of `1/ρ` and `(ρ − j)/ρ` over the half-integer shells; the assembly of the operator from them is
a second-order summation by parts.
-/
import PyAbel.Props.C09TwoPoint
open MeasureTheory Set
namespace PyAbel.C09
open PyAbel PyAbel.C10

/-- line-of-sight integral of `1/ρ` over the half-integer shell `[j − ½, j + ½)`, `j ≥ 1`, at an integer pixel `i ≥ 1`: `4π·I0(i, j)` of Dasch
    Eq. (7) (with its diagonal form for the shell cut by the line of sight) -/
theorem abel_halfshell_inv (i j : ℕ) (hi : 0 < i) (hj : 0 < j) :
    Abel (indicator (Ico ((j : ℝ) - 1 / 2) ((j : ℝ) + 1 / 2)) (fun ρ => 1 / ρ)) i = if i ≤ j then 4 * Real.pi * (tp3I0 i j : ℝ) else 0 := by
  have hx : (0 : ℝ) < (i : ℝ) := by exact_mod_cast hi
  have hj1 : (1 : ℝ) ≤ (j : ℝ) := by exact_mod_cast hj
  rw [abel_shell_inv _ _ _ hx (by linarith) (by linarith)]
  have hpi : Real.pi ≠ 0 := Real.pi_ne_zero
  by_cases h : i ≤ j
  · rw [if_pos h]
    have hij : (i : ℝ) ≤ (j : ℝ) := by exact_mod_cast h
    have eb : (0 : ℝ) ≤ ((j : ℝ) + 1 / 2) ^ 2 - (i : ℝ) ^ 2 := by nlinarith
    have lb : los (i : ℝ) (hc (((j : ℝ) + 1 / 2) ^ 2 - (i : ℝ) ^ 2)) = (j : ℝ) + 1 / 2 := by
      unfold los; rw [hc_of_nonneg eb, Real.sq_sqrt eb]
      rw [show (i : ℝ) ^ 2 + (((j : ℝ) + 1 / 2) ^ 2 - (i : ℝ) ^ 2) = ((j : ℝ) + 1 / 2) ^ 2 by ring, Real.sqrt_sq (by positivity)]
    have sb : Real.sqrt ((((2 * j + 1) ^ 2 : ℕ) : ℝ) - ((4 * i ^ 2 : ℕ) : ℝ)) = 2 * Real.sqrt (((j : ℝ) + 1 / 2) ^ 2 - (i : ℝ) ^ 2) := by
      have : ((((2 * j + 1) ^ 2 : ℕ) : ℝ) - ((4 * i ^ 2 : ℕ) : ℝ)) = 2 ^ 2 * (((j : ℝ) + 1 / 2) ^ 2 - (i : ℝ) ^ 2) := by push_cast; ring
      rw [this, Real.sqrt_mul (by norm_num), Real.sqrt_sq (by norm_num)]
    rw [lb, hc_of_nonneg eb]
    unfold tp3I0
    simp only [sqrt_real, log_real, pi_real]
    rw [sb]
    have hzb := Real.sqrt_nonneg (((j : ℝ) + 1 / 2) ^ 2 - (i : ℝ) ^ 2)
    by_cases he : i = j
    · rw [if_pos he]
      subst he
      have ea : ((i : ℝ) - 1 / 2) ^ 2 - (i : ℝ) ^ 2 ≤ 0 := by nlinarith
      rw [hc_of_nonpos ea, los_zero_arg hx.le, zero_add]
      push_cast
      rw [show (2 * Real.sqrt (((i : ℝ) + 1 / 2) ^ 2 - (i : ℝ) ^ 2) + (2 * (i : ℝ) + 1)) / (2 * (i : ℝ))
          = (Real.sqrt (((i : ℝ) + 1 / 2) ^ 2 - (i : ℝ) ^ 2) + ((i : ℝ) + 1 / 2)) / (i : ℝ) by field_simp]
      rw [Real.log_div (by positivity) hx.ne']
      field_simp
      ring
    · rw [if_neg he]
      have hlt : (i : ℝ) + 1 ≤ (j : ℝ) := by exact_mod_cast (Nat.succ_le_of_lt (lt_of_le_of_ne h he))
      have ea : (0 : ℝ) ≤ ((j : ℝ) - 1 / 2) ^ 2 - (i : ℝ) ^ 2 := by nlinarith
      have la : los (i : ℝ) (hc (((j : ℝ) - 1 / 2) ^ 2 - (i : ℝ) ^ 2)) = (j : ℝ) - 1 / 2 := by
        unfold los; rw [hc_of_nonneg ea, Real.sq_sqrt ea]
        rw [show (i : ℝ) ^ 2 + (((j : ℝ) - 1 / 2) ^ 2 - (i : ℝ) ^ 2) = ((j : ℝ) - 1 / 2) ^ 2 by ring, Real.sqrt_sq (by linarith)]
      have sa : Real.sqrt ((((2 * j - 1) ^ 2 : ℕ) : ℝ) - ((4 * i ^ 2 : ℕ) : ℝ)) = 2 * Real.sqrt (((j : ℝ) - 1 / 2) ^ 2 - (i : ℝ) ^ 2) := by
        have h1 : 1 ≤ 2 * j := by omega
        have : ((((2 * j - 1) ^ 2 : ℕ) : ℝ) - ((4 * i ^ 2 : ℕ) : ℝ)) = 2 ^ 2 * (((j : ℝ) - 1 / 2) ^ 2 - (i : ℝ) ^ 2) := by
          push_cast [Nat.cast_sub h1]; ring
        rw [this, Real.sqrt_mul (by norm_num), Real.sqrt_sq (by norm_num)]
      rw [la, hc_of_nonneg ea, sa]
      have hza := Real.sqrt_nonneg (((j : ℝ) - 1 / 2) ^ 2 - (i : ℝ) ^ 2)
      have h1 : 1 ≤ 2 * j := by omega
      push_cast [Nat.cast_sub h1]
      have hden : (0 : ℝ) < Real.sqrt (((j : ℝ) - 1 / 2) ^ 2 - (i : ℝ) ^ 2) + ((j : ℝ) - 1 / 2) := by linarith
      rw [show (2 * Real.sqrt (((j : ℝ) + 1 / 2) ^ 2 - (i : ℝ) ^ 2) + (2 * (j : ℝ) + 1)) / (2 * Real.sqrt (((j : ℝ) - 1 / 2) ^ 2 - (i : ℝ) ^ 2) + (2 * (j : ℝ) - 1))
          = (Real.sqrt (((j : ℝ) + 1 / 2) ^ 2 - (i : ℝ) ^ 2) + ((j : ℝ) + 1 / 2)) / (Real.sqrt (((j : ℝ) - 1 / 2) ^ 2 - (i : ℝ) ^ 2) + ((j : ℝ) - 1 / 2)) by
        rw [div_eq_div_iff (by linarith) hden.ne']; ring]
      rw [Real.log_div (by positivity) hden.ne']
      field_simp
      ring
  · rw [if_neg h]
    have hji : (j : ℝ) + 1 ≤ (i : ℝ) := by exact_mod_cast (Nat.succ_le_of_lt (not_le.mp h))
    have ea : ((j : ℝ) - 1 / 2) ^ 2 - (i : ℝ) ^ 2 ≤ 0 := by nlinarith
    have eb : ((j : ℝ) + 1 / 2) ^ 2 - (i : ℝ) ^ 2 ≤ 0 := by nlinarith
    rw [hc_of_nonpos ea, hc_of_nonpos eb]; ring

/-- … and of `(ρ − j)/ρ`: `2π·I1(i, j)` -/
theorem abel_halfshell_lin (i j : ℕ) (hi : 0 < i) (hj : 0 < j) :
    Abel (indicator (Ico ((j : ℝ) - 1 / 2) ((j : ℝ) + 1 / 2)) (fun ρ => (ρ - (j : ℝ)) / ρ)) i
      = if i ≤ j then 2 * Real.pi * (tp3I1 i j : ℝ) else 0 := by
  have hx : (0 : ℝ) < (i : ℝ) := by exact_mod_cast hi
  have hj1 : (1 : ℝ) ≤ (j : ℝ) := by exact_mod_cast hj
  have hlo : (0 : ℝ) ≤ (j : ℝ) - 1 / 2 := by linarith
  have hle : (j : ℝ) - 1 / 2 ≤ (j : ℝ) + 1 / 2 := by linarith
  have hfun : indicator (Ico ((j : ℝ) - 1 / 2) ((j : ℝ) + 1 / 2)) (fun ρ => (ρ - (j : ℝ)) / ρ)
      = fun ρ => indicator (Ico ((j : ℝ) - 1 / 2) ((j : ℝ) + 1 / 2)) 1 ρ
          - (j : ℝ) * indicator (Ico ((j : ℝ) - 1 / 2) ((j : ℝ) + 1 / 2)) (fun ρ => 1 / ρ) ρ := by
    funext ρ
    by_cases hm : ρ ∈ Ico ((j : ℝ) - 1 / 2) ((j : ℝ) + 1 / 2)
    · have hρ : ρ ≠ 0 := by have := hm.1; intro h0; rw [h0] at this; linarith
      rw [indicator_of_mem hm, indicator_of_mem hm, indicator_of_mem hm]; simp only [Pi.one_apply]; field_simp
    · rw [indicator_of_notMem hm, indicator_of_notMem hm, indicator_of_notMem hm]; ring
  have i1 := losInt_shell ((j : ℝ) - 1 / 2) ((j : ℝ) + 1 / 2) (i : ℝ) hlo hle
  have i2 := (losInt_shell_inv ((j : ℝ) - 1 / 2) ((j : ℝ) + 1 / 2) (i : ℝ) hx hlo hle).const_mul (j : ℝ)
  rw [hfun, abel_sub i1 i2, abel_const_mul, abel_shell _ _ _ hlo hle, abel_halfshell_inv i j hi hj]
  by_cases h : i ≤ j
  · rw [if_pos h, if_pos h]
    have hij : (i : ℝ) ≤ (j : ℝ) := by exact_mod_cast h
    have eb : (0 : ℝ) ≤ ((j : ℝ) + 1 / 2) ^ 2 - (i : ℝ) ^ 2 := by nlinarith
    have sb : Real.sqrt ((((2 * j + 1) ^ 2 : ℕ) : ℝ) - ((4 * i ^ 2 : ℕ) : ℝ)) = 2 * Real.sqrt (((j : ℝ) + 1 / 2) ^ 2 - (i : ℝ) ^ 2) := by
      have : ((((2 * j + 1) ^ 2 : ℕ) : ℝ) - ((4 * i ^ 2 : ℕ) : ℝ)) = 2 ^ 2 * (((j : ℝ) + 1 / 2) ^ 2 - (i : ℝ) ^ 2) := by push_cast; ring
      rw [this, Real.sqrt_mul (by norm_num), Real.sqrt_sq (by norm_num)]
    have hpi : Real.pi ≠ 0 := Real.pi_ne_zero
    rw [hc_of_nonneg eb]
    unfold tp3I1
    simp only [sqrt_real, pi_real]
    rw [sb]
    by_cases he : i = j
    · rw [if_pos he]
      subst he
      have ea : ((i : ℝ) - 1 / 2) ^ 2 - (i : ℝ) ^ 2 ≤ 0 := by nlinarith
      rw [hc_of_nonpos ea]
      push_cast
      field_simp
      ring
    · rw [if_neg he]
      have hlt : (i : ℝ) + 1 ≤ (j : ℝ) := by exact_mod_cast (Nat.succ_le_of_lt (lt_of_le_of_ne h he))
      have ea : (0 : ℝ) ≤ ((j : ℝ) - 1 / 2) ^ 2 - (i : ℝ) ^ 2 := by nlinarith
      have sa : Real.sqrt ((((2 * j - 1) ^ 2 : ℕ) : ℝ) - ((4 * i ^ 2 : ℕ) : ℝ)) = 2 * Real.sqrt (((j : ℝ) - 1 / 2) ^ 2 - (i : ℝ) ^ 2) := by
        have h1 : 1 ≤ 2 * j := by omega
        have : ((((2 * j - 1) ^ 2 : ℕ) : ℝ) - ((4 * i ^ 2 : ℕ) : ℝ)) = 2 ^ 2 * (((j : ℝ) - 1 / 2) ^ 2 - (i : ℝ) ^ 2) := by
          push_cast [Nat.cast_sub h1]; ring
        rw [this, Real.sqrt_mul (by norm_num), Real.sqrt_sq (by norm_num)]
      rw [hc_of_nonneg ea, sa]
      push_cast
      field_simp
      ring
  · rw [if_neg h, if_neg h]
    have hji : (j : ℝ) + 1 ≤ (i : ℝ) := by exact_mod_cast (Nat.succ_le_of_lt (not_le.mp h))
    have ea : ((j : ℝ) - 1 / 2) ^ 2 - (i : ℝ) ^ 2 ≤ 0 := by nlinarith
    have eb : ((j : ℝ) + 1 / 2) ^ 2 - (i : ℝ) ^ 2 ≤ 0 := by nlinarith
    rw [hc_of_nonpos ea, hc_of_nonpos eb]; ring

/-- second-order summation by parts, with its boundary terms -/
theorem three_sbp (n : ℕ) (Q U V : ℕ → ℝ) (hU : U 0 = 0) (hV : V 0 = 0) :
    sumRange n (fun m => (Q (m + 2) - Q m) * U (m + 1) + (Q (m + 2) - 2 * Q (m + 1) + Q m) * V (m + 1))
      = -sumRange n (fun k => Q k * (U (k + 1) - V (k + 1) + 2 * V k - (if k = 0 then 0 else U (k - 1)) - (if k = 0 then 0 else V (k - 1))))
        + Q n * ((if n = 0 then 0 else U (n - 1) + V (n - 1)) - 2 * V n) + Q (n + 1) * (U n + V n) := by
  induction n with
  | zero => simp [sumRange, hU, hV]
  | succ n ih =>
    rw [sumRange_succ, sumRange_succ, ih]
    simp only [Nat.add_sub_cancel, if_neg (Nat.succ_ne_zero n)]
    cases n with
    | zero => simp [hU, hV]; ring
    | succ m => simp only [if_neg (Nat.succ_ne_zero m), Nat.add_sub_cancel]; ring

theorem sumRange_lin_comb (n : ℕ) (f g h : ℕ → ℝ) (a b c : ℝ) (hp : ∀ m, a * f m + b * g m = c * h m) :
    a * sumRange n f + b * sumRange n g = c * sumRange n h := by
  induction n with
  | zero => simp [sumRange]
  | succ n ih =>
    rw [sumRange_succ, sumRange_succ, sumRange_succ]
    have := hp n
    linear_combination ih + this

/-- derivative of the local quadratic interpolant of the (zero-padded) samples: on `[j − ½, j + ½)`, `j = 1 … n`, the derivative of the
    parabola through `(j − 1, P_{j−1})`, `(j, P_j)`, `(j + 1, P_{j+1})` -/
noncomputable def dPquad (n : ℕ) (P : ℕ → ℝ) (ρ : ℝ) : ℝ :=
  sumRange n (fun m => ((padded n P (m + 2) - padded n P m) / 2
      + (padded n P (m + 2) - 2 * padded n P (m + 1) + padded n P m) * (ρ - ((m + 1 : ℕ) : ℝ)))
    * indicator (Ico (((m + 1 : ℕ) : ℝ) - 1 / 2) (((m + 1 : ℕ) : ℝ) + 1 / 2)) 1 ρ)

/-- **three-point operator** (Dasch Eqs. (5)–(7)), rows `i ≥ 1`: the operator applied to any samples is the inverse Abel integral, at
    `r = i`, of their local quadratic interpolant -/
theorem threePoint_eq_invAbel (n i : ℕ) (hi : 0 < i) (P : ℕ → ℝ) :
    sumRange n (fun k => (threePointD i k : ℝ) * P k) = invAbel (dPquad n P) i := by
  have hx : (0 : ℝ) < (i : ℝ) := by exact_mod_cast hi
  set Q := padded n P with hQ
  set a1 : ℕ → ℝ := fun m => (Q (m + 2) - Q m) / 2 with ha1
  set a2 : ℕ → ℝ := fun m => Q (m + 2) - 2 * Q (m + 1) + Q m with ha2
  set U : ℕ → ℝ := fun j => if i ≤ j then (tp3I0 i j : ℝ) else 0 with hU
  set V : ℕ → ℝ := fun j => if i ≤ j then (tp3I1 i j : ℝ) else 0 with hV
  set g0 : ℕ → ℝ → ℝ := fun m => indicator (Ico (((m + 1 : ℕ) : ℝ) - 1 / 2) (((m + 1 : ℕ) : ℝ) + 1 / 2)) (fun ρ => 1 / ρ) with hg0
  set g1 : ℕ → ℝ → ℝ := fun m => indicator (Ico (((m + 1 : ℕ) : ℝ) - 1 / 2) (((m + 1 : ℕ) : ℝ) + 1 / 2)) (fun ρ => (ρ - ((m + 1 : ℕ) : ℝ)) / ρ) with hg1
  have hfun : (fun ρ => dPquad n P ρ / ρ) = fun ρ => (sumRange n fun m => a1 m * g0 m ρ) + (sumRange n fun m => a2 m * g1 m ρ) := by
    funext ρ
    unfold dPquad
    rw [div_eq_mul_one_div, PyAbel.C02.sumRange_mul_right, ← sumRange_add]
    apply sumRange_congr
    intro m _
    simp only [hg0, hg1, ha1, ha2]
    by_cases hm : ρ ∈ Ico (((m + 1 : ℕ) : ℝ) - 1 / 2) (((m + 1 : ℕ) : ℝ) + 1 / 2)
    · rw [indicator_of_mem hm, indicator_of_mem hm, indicator_of_mem hm]; simp only [Pi.one_apply]; ring
    · rw [indicator_of_notMem hm, indicator_of_notMem hm, indicator_of_notMem hm]; ring
  have hlo : ∀ m : ℕ, (0 : ℝ) ≤ ((m + 1 : ℕ) : ℝ) - 1 / 2 := by intro m; push_cast; have := Nat.cast_nonneg (α := ℝ) m; linarith
  have hle : ∀ m : ℕ, ((m + 1 : ℕ) : ℝ) - 1 / 2 ≤ ((m + 1 : ℕ) : ℝ) + 1 / 2 := by intro m; linarith
  have l0 : ∀ m, m < n → LosInt (g0 m) i := fun m _ => losInt_shell_inv _ _ _ hx (hlo m) (hle m)
  have l1 : ∀ m, m < n → LosInt (g1 m) i := by
    intro m _
    apply losInt_shellFun _ _ _ _ (hlo m) (hle m)
    have hl := los_continuous (i : ℝ)
    exact (hl.sub continuous_const).div hl (fun z => (los_pos_of_pos hx z).ne')
  have s0 := abel_sumRange n a1 g0 i l0
  have s1 := abel_sumRange n a2 g1 i l1
  unfold invAbel
  rw [hfun, abel_add s0.2 s1.2, s0.1, s1.1]
  have e0 : sumRange n (fun m => a1 m * Abel (g0 m) i) = 4 * Real.pi * sumRange n (fun m => a1 m * U (m + 1)) := by
    rw [← sumRange_smul]; apply sumRange_congr; intro m _
    simp only [hg0]; rw [abel_halfshell_inv i (m + 1) hi (Nat.succ_pos m)]; simp only [hU]; split_ifs <;> ring
  have e1 : sumRange n (fun m => a2 m * Abel (g1 m) i) = 2 * Real.pi * sumRange n (fun m => a2 m * V (m + 1)) := by
    rw [← sumRange_smul]; apply sumRange_congr; intro m _
    simp only [hg1]; rw [abel_halfshell_lin i (m + 1) hi (Nat.succ_pos m)]; simp only [hV]; split_ifs <;> ring
  rw [e0, e1]
  have hU0 : U 0 = 0 := by simp only [hU]; rw [if_neg (by omega)]
  have hV0 : V 0 = 0 := by simp only [hV]; rw [if_neg (by omega)]
  have hsbp := three_sbp n Q U V hU0 hV0
  have hQn : Q n = 0 := by simp only [hQ]; unfold padded; rw [if_neg (lt_irrefl n)]
  have hQn1 : Q (n + 1) = 0 := by simp only [hQ]; unfold padded; rw [if_neg (by omega)]
  rw [hQn, hQn1, zero_mul, zero_mul, add_zero, add_zero] at hsbp
  have hcomb : 4 * Real.pi * sumRange n (fun m => a1 m * U (m + 1)) + 2 * Real.pi * sumRange n (fun m => a2 m * V (m + 1))
      = 2 * Real.pi * sumRange n (fun m => (Q (m + 2) - Q m) * U (m + 1) + (Q (m + 2) - 2 * Q (m + 1) + Q m) * V (m + 1)) :=
    sumRange_lin_comb n _ _ _ _ _ _ (by intro m; simp only [ha1, ha2]; ring)
  rw [hcomb, hsbp]
  have hpi : Real.pi ≠ 0 := Real.pi_ne_zero
  have hD : sumRange n (fun k => Q k * (U (k + 1) - V (k + 1) + 2 * V k - (if k = 0 then 0 else U (k - 1)) - (if k = 0 then 0 else V (k - 1))))
      = sumRange n (fun k => (threePointD i k : ℝ) * P k) := by
    apply sumRange_congr
    intro k hk
    simp only [hQ, hU, hV]
    unfold padded threePointD
    rw [if_pos hk]
    have a1' : ¬ (i = 0 ∧ k = 0) := fun h => by omega
    have a2' : ¬ (i = 0 ∧ k = 1) := fun h => by omega
    simp only [if_neg a1', if_neg a2']
    by_cases c1 : k + 1 < i
    · have b1 : ¬ i ≤ k + 1 := by omega
      have b2 : ¬ i ≤ k := by omega
      have b3 : ¬ i ≤ k - 1 := by omega
      simp only [if_pos c1, if_neg b1, if_neg b2, if_neg b3]; split_ifs <;> ring
    · by_cases c2 : k + 1 = i
      · have b1 : i ≤ k + 1 := by omega
        have b2 : ¬ i ≤ k := by omega
        have b3 : ¬ i ≤ k - 1 := by omega
        simp only [if_neg c1, if_pos c2, if_pos b1, if_neg b2, if_neg b3]; split_ifs <;> ring
      · by_cases c3 : k = i
        · have b1 : i ≤ k + 1 := by omega
          have b2 : i ≤ k := by omega
          have b3 : ¬ i ≤ k - 1 := by omega
          have k0 : ¬ k = 0 := by omega
          simp only [if_neg c1, if_neg c2, if_pos c3, if_pos b1, if_pos b2, if_neg b3, if_neg k0]; ring
        · have b1 : i ≤ k + 1 := by omega
          have b2 : i ≤ k := by omega
          have b3 : i ≤ k - 1 := by omega
          have k0 : ¬ k = 0 := by omega
          simp only [if_neg c1, if_neg c2, if_neg c3, if_pos b1, if_pos b2, if_pos b3, if_neg k0]; ring
  rw [hD]
  field_simp

/-! the axis row `i = 0` of the three-point operator: `ρ = z` along the line of sight through the centre -/

theorem losInt_axis_shellFun (g : ℝ → ℝ) (a b : ℝ) (hg : ContinuousOn g (Icc a b)) :
    LosInt (indicator (Ico a b) g) 0 := by
  unfold LosInt
  have hI : IntegrableOn g (Ico a b) := hg.integrableOn_Icc.mono_set Ico_subset_Icc_self
  have h2 := ((integrable_indicator_iff measurableSet_Ico).mpr hI).integrableOn (s := Ioi (0 : ℝ))
  refine h2.congr_fun ?_ measurableSet_Ioi
  intro z hz
  have e : Real.sqrt ((0 : ℝ) ^ 2 + z ^ 2) = z := by rw [zero_pow two_ne_zero, zero_add, Real.sqrt_sq (le_of_lt hz)]
  show _ = indicator (Ico a b) g (Real.sqrt ((0 : ℝ) ^ 2 + z ^ 2))
  rw [e]

theorem abel_axis_shellFun (g : ℝ → ℝ) (a b : ℝ) (ha : 0 < a) (hab : a ≤ b) :
    Abel (indicator (Ico a b) g) 0 = 2 * ∫ z in a..b, g z := by
  rw [abel_shellFun _ a b 0 ha.le hab]
  have ea : hc (a ^ 2 - (0 : ℝ) ^ 2) = a := by rw [hc_of_nonneg (by nlinarith)]; simp [Real.sqrt_sq ha.le]
  have eb : hc (b ^ 2 - (0 : ℝ) ^ 2) = b := by rw [hc_of_nonneg (by nlinarith)]; simp [Real.sqrt_sq (le_trans ha.le hab)]
  rw [ea, eb]
  congr 1
  apply intervalIntegral.integral_congr
  intro z hz
  rw [uIcc_of_le hab] at hz
  show g (los 0 z) = g z
  rw [los_zero_of_nonneg (le_trans ha.le hz.1)]

theorem abel_axis_halfshell_inv (j : ℕ) (hj : 0 < j) :
    Abel (indicator (Ico ((j : ℝ) - 1 / 2) ((j : ℝ) + 1 / 2)) (fun ρ => 1 / ρ)) 0 = 4 * Real.pi * (tp3I0 0 j : ℝ) := by
  have hj1 : (1 : ℝ) ≤ (j : ℝ) := by exact_mod_cast hj
  have hlo : (0 : ℝ) < (j : ℝ) - 1 / 2 := by linarith
  rw [abel_axis_shellFun _ _ _ hlo (by linarith)]
  have hI : ∫ z in ((j : ℝ) - 1 / 2)..((j : ℝ) + 1 / 2), 1 / z = ∫ z in ((j : ℝ) - 1 / 2)..((j : ℝ) + 1 / 2), z⁻¹ :=
    intervalIntegral.integral_congr (fun z _ => one_div z)
  rw [hI, integral_inv_of_pos hlo (by linarith)]
  unfold tp3I0
  have hne : ¬ (0 : ℕ) = j := by omega
  rw [if_neg hne]
  simp only [sqrt_real, log_real, pi_real]
  have h1 : 1 ≤ 2 * j := by omega
  push_cast [Nat.cast_sub h1]
  have s1 : Real.sqrt ((2 * (j : ℝ) + 1) ^ 2 - 0) = 2 * (j : ℝ) + 1 := by
    rw [sub_zero, Real.sqrt_sq (by linarith)]
  have s0 : Real.sqrt ((2 * (j : ℝ) - 1) ^ 2 - 0) = 2 * (j : ℝ) - 1 := by
    rw [sub_zero, Real.sqrt_sq (by linarith)]
  rw [s1, s0]
  have : (2 * (j : ℝ) + 1 + (2 * (j : ℝ) + 1)) / (2 * (j : ℝ) - 1 + (2 * (j : ℝ) - 1)) = ((j : ℝ) + 1 / 2) / ((j : ℝ) - 1 / 2) := by
    rw [div_eq_div_iff (by linarith) (by linarith)]; ring
  rw [this]
  have hpi : Real.pi ≠ 0 := Real.pi_ne_zero
  field_simp
  ring

theorem abel_axis_halfshell_lin (j : ℕ) (hj : 0 < j) :
    Abel (indicator (Ico ((j : ℝ) - 1 / 2) ((j : ℝ) + 1 / 2)) (fun ρ => (ρ - (j : ℝ)) / ρ)) 0 = 2 * Real.pi * (tp3I1 0 j : ℝ) := by
  have hj1 : (1 : ℝ) ≤ (j : ℝ) := by exact_mod_cast hj
  have hlo : (0 : ℝ) < (j : ℝ) - 1 / 2 := by linarith
  have hle : (j : ℝ) - 1 / 2 ≤ (j : ℝ) + 1 / 2 := by linarith
  have hfun : indicator (Ico ((j : ℝ) - 1 / 2) ((j : ℝ) + 1 / 2)) (fun ρ => (ρ - (j : ℝ)) / ρ)
      = fun ρ => indicator (Ico ((j : ℝ) - 1 / 2) ((j : ℝ) + 1 / 2)) 1 ρ
          - (j : ℝ) * indicator (Ico ((j : ℝ) - 1 / 2) ((j : ℝ) + 1 / 2)) (fun ρ => 1 / ρ) ρ := by
    funext ρ
    by_cases hm : ρ ∈ Ico ((j : ℝ) - 1 / 2) ((j : ℝ) + 1 / 2)
    · have hρ : ρ ≠ 0 := by have := hm.1; intro h0; rw [h0] at this; linarith
      rw [indicator_of_mem hm, indicator_of_mem hm, indicator_of_mem hm]; simp only [Pi.one_apply]; field_simp
    · rw [indicator_of_notMem hm, indicator_of_notMem hm, indicator_of_notMem hm]; ring
  have hcI : ContinuousOn (fun ρ : ℝ => 1 / ρ) (Icc ((j : ℝ) - 1 / 2) ((j : ℝ) + 1 / 2)) := by
    apply ContinuousOn.div continuousOn_const continuousOn_id
    intro z hz; exact (lt_of_lt_of_le hlo hz.1).ne'
  have i1 := losInt_shell ((j : ℝ) - 1 / 2) ((j : ℝ) + 1 / 2) 0 hlo.le hle
  have i2 := (losInt_axis_shellFun _ _ _ hcI).const_mul (j : ℝ)
  rw [hfun, abel_sub i1 i2, abel_const_mul, abel_shell _ _ _ hlo.le hle, abel_axis_halfshell_inv j hj]
  have ea : hc (((j : ℝ) - 1 / 2) ^ 2 - (0 : ℝ) ^ 2) = (j : ℝ) - 1 / 2 := by
    rw [hc_of_nonneg (by nlinarith), show ((j : ℝ) - 1 / 2) ^ 2 - (0 : ℝ) ^ 2 = ((j : ℝ) - 1 / 2) ^ 2 by ring, Real.sqrt_sq hlo.le]
  have eb : hc (((j : ℝ) + 1 / 2) ^ 2 - (0 : ℝ) ^ 2) = (j : ℝ) + 1 / 2 := by
    rw [hc_of_nonneg (by nlinarith), show ((j : ℝ) + 1 / 2) ^ 2 - (0 : ℝ) ^ 2 = ((j : ℝ) + 1 / 2) ^ 2 by ring, Real.sqrt_sq (by linarith)]
  rw [ea, eb]
  unfold tp3I1
  have hne : ¬ (0 : ℕ) = j := by omega
  rw [if_neg hne]
  simp only [sqrt_real, pi_real]
  have h1 : 1 ≤ 2 * j := by omega
  push_cast [Nat.cast_sub h1]
  have s1 : Real.sqrt ((2 * (j : ℝ) + 1) ^ 2 - 0) = 2 * (j : ℝ) + 1 := by
    rw [sub_zero, Real.sqrt_sq (by linarith)]
  have s0 : Real.sqrt ((2 * (j : ℝ) - 1) ^ 2 - 0) = 2 * (j : ℝ) - 1 := by
    rw [sub_zero, Real.sqrt_sq (by linarith)]
  rw [s1, s0]
  have hpi : Real.pi ≠ 0 := Real.pi_ne_zero
  field_simp
  ring

theorem sumRange_first_two (n : ℕ) (Q : ℕ → ℝ) (a b : ℝ) :
    sumRange n (fun k => Q k * (if k = 0 then a else if k = 1 then b else 0))
      = (if 0 < n then Q 0 * a else 0) + (if 1 < n then Q 1 * b else 0) := by
  induction n with
  | zero => simp [sumRange]
  | succ n ih =>
    rw [sumRange_succ, ih]
    rcases n with _ | _ | m
    · simp
    · simp
    · have h1 : ¬ m + 1 + 1 = 0 := by omega
      have h2 : ¬ m + 1 + 1 = 1 := by omega
      simp

/-- derivative of the axis-row interpolant of the three-point operator: the even parabola through `P₀`, `P₁` on `[0, ½)`
    (`P′(ρ) = 2 (P₁ − P₀) ρ`), the local quadratic interpolants beyond -/
noncomputable def dPquadAxis (n : ℕ) (P : ℕ → ℝ) (ρ : ℝ) : ℝ :=
  ρ * ((2 * (padded n P 1 - padded n P 0)) * indicator (Ico (0 : ℝ) (1 / 2)) 1 ρ
    + ((sumRange n fun m => ((padded n P (m + 2) - padded n P m) / 2)
          * indicator (Ico (((m + 1 : ℕ) : ℝ) - 1 / 2) (((m + 1 : ℕ) : ℝ) + 1 / 2)) (fun ρ => 1 / ρ) ρ)
      + (sumRange n fun m => (padded n P (m + 2) - 2 * padded n P (m + 1) + padded n P m)
          * indicator (Ico (((m + 1 : ℕ) : ℝ) - 1 / 2) (((m + 1 : ℕ) : ℝ) + 1 / 2)) (fun ρ => (ρ - ((m + 1 : ℕ) : ℝ)) / ρ) ρ)))

/-- **three-point operator, axis row** -/
theorem threePoint_axis_eq_invAbel (n : ℕ) (P : ℕ → ℝ) :
    sumRange n (fun k => (threePointD 0 k : ℝ) * P k) = invAbel (dPquadAxis n P) 0 := by
  set Q := padded n P with hQ
  set a1 : ℕ → ℝ := fun m => (Q (m + 2) - Q m) / 2 with ha1
  set a2 : ℕ → ℝ := fun m => Q (m + 2) - 2 * Q (m + 1) + Q m with ha2
  set U : ℕ → ℝ := fun j => if 1 ≤ j then (tp3I0 0 j : ℝ) else 0 with hU
  set V : ℕ → ℝ := fun j => if 1 ≤ j then (tp3I1 0 j : ℝ) else 0 with hV
  set g0 : ℕ → ℝ → ℝ := fun m => indicator (Ico (((m + 1 : ℕ) : ℝ) - 1 / 2) (((m + 1 : ℕ) : ℝ) + 1 / 2)) (fun ρ => 1 / ρ) with hg0
  set g1 : ℕ → ℝ → ℝ := fun m => indicator (Ico (((m + 1 : ℕ) : ℝ) - 1 / 2) (((m + 1 : ℕ) : ℝ) + 1 / 2)) (fun ρ => (ρ - ((m + 1 : ℕ) : ℝ)) / ρ) with hg1
  have hlo : ∀ m : ℕ, (0 : ℝ) < ((m + 1 : ℕ) : ℝ) - 1 / 2 := by intro m; push_cast; have := Nat.cast_nonneg (α := ℝ) m; linarith
  have hle : ∀ m : ℕ, ((m + 1 : ℕ) : ℝ) - 1 / 2 ≤ ((m + 1 : ℕ) : ℝ) + 1 / 2 := by intro m; linarith
  have l0 : ∀ m, m < n → LosInt (g0 m) 0 := by
    intro m _
    apply losInt_axis_shellFun
    apply ContinuousOn.div continuousOn_const continuousOn_id
    intro z hz; exact (lt_of_lt_of_le (hlo m) hz.1).ne'
  have l1 : ∀ m, m < n → LosInt (g1 m) 0 := by
    intro m _
    apply losInt_axis_shellFun
    apply ContinuousOn.div (continuousOn_id.sub continuousOn_const) continuousOn_id
    intro z hz; exact (lt_of_lt_of_le (hlo m) hz.1).ne'
  have s0 := abel_sumRange n a1 g0 0 l0
  have s1 := abel_sumRange n a2 g1 0 l1
  have lc : LosInt (fun ρ => (2 * (Q 1 - Q 0)) * indicator (Ico (0 : ℝ) (1 / 2)) 1 ρ) 0 :=
    (losInt_shell 0 (1 / 2) 0 le_rfl (by norm_num)).const_mul _
  unfold invAbel
  have hex : Abel (fun ρ => dPquadAxis n P ρ / ρ) 0
      = Abel (fun ρ => (2 * (Q 1 - Q 0)) * indicator (Ico (0 : ℝ) (1 / 2)) 1 ρ
          + ((sumRange n fun m => a1 m * g0 m ρ) + (sumRange n fun m => a2 m * g1 m ρ))) 0 := by
    apply abel_congr_except 0 0
    intro ρ hρ
    unfold dPquadAxis
    rw [mul_div_cancel_left₀ _ hρ]
  rw [hex, abel_add lc (s0.2.add s1.2), abel_add s0.2 s1.2, s0.1, s1.1, abel_const_mul, abel_shell 0 (1 / 2) 0 le_rfl (by norm_num)]
  have e0 : sumRange n (fun m => a1 m * Abel (g0 m) 0) = 4 * Real.pi * sumRange n (fun m => a1 m * U (m + 1)) := by
    rw [← sumRange_smul]; apply sumRange_congr; intro m _
    simp only [hg0]; rw [abel_axis_halfshell_inv (m + 1) (Nat.succ_pos m)]; simp only [hU]; rw [if_pos (by omega)]; ring
  have e1 : sumRange n (fun m => a2 m * Abel (g1 m) 0) = 2 * Real.pi * sumRange n (fun m => a2 m * V (m + 1)) := by
    rw [← sumRange_smul]; apply sumRange_congr; intro m _
    simp only [hg1]; rw [abel_axis_halfshell_lin (m + 1) (Nat.succ_pos m)]; simp only [hV]; rw [if_pos (by omega)]; ring
  rw [e0, e1]
  have hU0 : U 0 = 0 := by simp only [hU]; rw [if_neg (by omega)]
  have hV0 : V 0 = 0 := by simp only [hV]; rw [if_neg (by omega)]
  have hsbp := three_sbp n Q U V hU0 hV0
  have hQn : Q n = 0 := by simp only [hQ]; unfold padded; rw [if_neg (lt_irrefl n)]
  have hQn1 : Q (n + 1) = 0 := by simp only [hQ]; unfold padded; rw [if_neg (by omega)]
  rw [hQn, hQn1, zero_mul, zero_mul, add_zero, add_zero] at hsbp
  have hcomb : 4 * Real.pi * sumRange n (fun m => a1 m * U (m + 1)) + 2 * Real.pi * sumRange n (fun m => a2 m * V (m + 1))
      = 2 * Real.pi * sumRange n (fun m => (Q (m + 2) - Q m) * U (m + 1) + (Q (m + 2) - 2 * Q (m + 1) + Q m) * V (m + 1)) :=
    sumRange_lin_comb n _ _ _ _ _ _ (by intro m; simp only [ha1, ha2]; ring)
  have h12 : hc ((1 / 2 : ℝ) ^ 2 - 0 ^ 2) = 1 / 2 := by rw [hc_of_nonneg (by norm_num)]; rw [show ((1 / 2 : ℝ) ^ 2 - 0 ^ 2) = (1 / 2) ^ 2 by ring, Real.sqrt_sq (by norm_num)]
  have h00 : hc ((0 : ℝ) ^ 2 - 0 ^ 2) = 0 := by rw [hc_of_nonpos (by norm_num)]
  rw [hcomb, hsbp, h12, h00]
  have hpi : Real.pi ≠ 0 := Real.pi_ne_zero
  have hax := sumRange_first_two n Q (1 / Real.pi) (-(1 / Real.pi))
  have hQ0 : Q 0 = if 0 < n then P 0 else 0 := by simp only [hQ]; rfl
  have hQ1 : Q 1 = if 1 < n then P 1 else 0 := by simp only [hQ]; rfl
  have hD : sumRange n (fun k => (threePointD 0 k : ℝ) * P k)
      = sumRange n (fun k => Q k * (U (k + 1) - V (k + 1) + 2 * V k - (if k = 0 then 0 else U (k - 1)) - (if k = 0 then 0 else V (k - 1))))
        + sumRange n (fun k => Q k * (if k = 0 then 1 / Real.pi else if k = 1 then -(1 / Real.pi) else 0)) := by
    rw [← sumRange_add]
    apply sumRange_congr
    intro k hk
    simp only [hQ, hU, hV]
    unfold padded threePointD
    rw [if_pos hk]
    simp only [pi_real]
    by_cases k0 : k = 0
    · subst k0; simp; ring
    · by_cases k1 : k = 1
      · subst k1; simp; ring
      · have c1 : ¬ (True ∧ k = 0) := fun h => k0 h.2
        have c2 : ¬ (True ∧ k = 1) := fun h => k1 h.2
        have c3 : ¬ k + 1 < 0 := by omega
        have c4 : ¬ k + 1 = 0 := by omega
        have c5 : ¬ k = 0 := k0
        have b1 : 1 ≤ k + 1 := by omega
        have b2 : 1 ≤ k := by omega
        have b3 : 1 ≤ k - 1 := by omega
        simp only [if_neg c1, if_neg c2, if_neg c3, if_neg c4, if_neg c5, if_neg k1, if_pos b1, if_pos b2, if_pos b3]; ring
  rw [hD, hax]
  have hQ0' : (if 0 < n then Q 0 * (1 / Real.pi) else 0) = Q 0 * (1 / Real.pi) := by
    by_cases h : 0 < n
    · rw [if_pos h]
    · rw [if_neg h, hQ0, if_neg h]; ring
  have hQ1' : (if 1 < n then Q 1 * -(1 / Real.pi) else 0) = Q 1 * -(1 / Real.pi) := by
    by_cases h : 1 < n
    · rw [if_pos h]
    · rw [if_neg h, hQ1, if_neg h]; ring
  rw [hQ0', hQ1']
  field_simp
  ring
end PyAbel.C09
