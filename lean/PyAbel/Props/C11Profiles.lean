/-
C11 — the shipped polynomial transform pairs (abel/tools/transform_pairs.py, profiles 1, 2, 3, 4, 5, 7) are exact Abel pairs:
for every 0 < x < 1 the coded `projection` expression equals 2∫₀^∞ source(√(x²+z²)) dz, the source being zero outside [0, 1).
Derived from `C10.polynomial_abel` (the closed-form integrals of monomial pieces).
-/
import PyAbel.Props.C10
import PyAbel.Model.Profiles

open MeasureTheory Set

namespace PyAbel.C11
open PyAbel PyAbel.Poly PyAbel.Profiles

/-- coefficient vector from a list -/
def cvec (l : List ℝ) : ℕ → ℝ := fun k => l.getD k 0

theorem sqrt0_pos {t : ℝ} (h : 0 < t) : (sqrt0 t : ℝ) = Real.sqrt t := by unfold sqrt0; rw [if_pos h]; rfl
theorem sqrt0_npos {t : ℝ} (h : ¬ 0 < t) : (sqrt0 t : ℝ) = 0 := by unfold sqrt0; rw [if_neg h]
theorem ln0_pos {t : ℝ} (h : 0 < t) : (ln0 t : ℝ) = Real.log t := by unfold ln0; rw [if_pos h]; rfl


theorem sqrt0_of_nonneg {t : ℝ} (h : 0 ≤ t) : (sqrt0 t : ℝ) = Real.sqrt t := by
  unfold sqrt0
  split_ifs with h'
  · rfl
  · have : t = 0 := le_antisymm (not_lt.mp h') h
    rw [this, Real.sqrt_zero]

/-- a polynomial piece: `Σ c_k rᵏ` on `[r_min, r_max)`, zero elsewhere -/
noncomputable def piece (N : ℕ) (c : ℕ → ℝ) (rmin rmax : ℝ) : ℝ → ℝ :=
  fun r => if rmin ≤ r ∧ r < rmax then evalN N c r else 0

theorem piece_eq_sum (N : ℕ) (c : ℕ → ℝ) (rmin rmax : ℝ) :
    piece N c rmin rmax = fun r => sumRange N fun k => c k * monoPiece rmin rmax k r := by
  funext r
  unfold piece monoPiece
  by_cases hm : rmin ≤ r ∧ r < rmax
  · rw [if_pos hm]
    unfold evalN
    apply sumRange_congr
    intro k _
    rw [Set.indicator_of_mem (show r ∈ Set.Ico rmin rmax from hm), distr_pow_eq]
  · rw [if_neg hm]
    have : sumRange N (fun k => c k * Set.indicator (Set.Ico rmin rmax) (fun r => r ^ k) r) = sumRange N (fun _ => (0 : ℝ)) := by
      apply sumRange_congr
      intro k _
      rw [Set.indicator_of_notMem (show r ∉ Set.Ico rmin rmax from hm)]; ring
    rw [this, sumRange_zero]

theorem losInt_piece (N : ℕ) (c : ℕ → ℝ) (rmin rmax x : ℝ) (h0 : 0 ≤ rmin) (hle : rmin ≤ rmax) : LosInt (piece N c rmin rmax) x := by
  rw [piece_eq_sum]
  exact (abel_sumRange N c (fun k => monoPiece rmin rmax k) x (fun k _ => losInt_monoPiece rmin rmax x k h0 hle)).2

/-- a line of sight that passes outside the piece sees nothing -/
theorem abel_piece_of_ge (N : ℕ) (c : ℕ → ℝ) (rmin rmax x : ℝ) (h0 : 0 ≤ rmin) (hle : rmin ≤ rmax) (hx : rmax ≤ x) :
    Abel (piece N c rmin rmax) x = 0 := by
  rw [piece_eq_sum, (abel_sumRange N c (fun k => monoPiece rmin rmax k) x (fun k _ => losInt_monoPiece rmin rmax x k h0 hle)).1]
  have : sumRange N (fun j => c j * Abel (monoPiece rmin rmax j) x) = sumRange N (fun _ => (0 : ℝ)) := by
    apply sumRange_congr
    intro k _
    rw [abel_monoPiece rmin rmax x k h0 hle]
    have e1 : hc (rmin ^ 2 - x ^ 2) = 0 := hc_of_nonpos (by nlinarith)
    have e2 : hc (rmax ^ 2 - x ^ 2) = 0 := hc_of_nonpos (by nlinarith)
    rw [e1, e2]; unfold J; simp
  rw [this, sumRange_zero]

/-- `polynomial_abel` in terms of `piece` -/
theorem abel_piece (N : ℕ) (c : ℕ → ℝ) (rmin rmax x : ℝ) (h0 : 0 ≤ rmin) (hlt : rmin < rmax) (hx : 0 ≤ x) (hxr : x < rmax) :
    Abel (piece N c rmin rmax) x = polyAbelAt N c rmin rmax x :=
  (C10.polynomial_abel N c rmin rmax x h0 hlt hx hxr).symm

/-- the sum of two pieces -/
theorem abel_two_pieces (N M : ℕ) (c d : ℕ → ℝ) (r0 r1 r2 x : ℝ) (h0 : 0 ≤ r0) (h01 : r0 ≤ r1) (h12 : r1 ≤ r2) :
    Abel (fun r => piece N c r0 r1 r + piece M d r1 r2 r) x = Abel (piece N c r0 r1) x + Abel (piece M d r1 r2) x :=
  abel_add (losInt_piece N c r0 r1 x h0 h01) (losInt_piece M d r1 r2 x (le_trans h0 h01) h12)


theorem abelA_zero (k : ℕ) (x2 : ℝ) : abelA k x2 (fun _ => (0 : ℝ)) 0 = 0 := by
  unfold abelA
  have : sumRange (k / 2 + 1) (fun j => (abelC k j : ℝ) * Distr.pow x2 j * (0 : ℝ)) = sumRange (k / 2 + 1) (fun _ => (0 : ℝ)) := by
    apply sumRange_congr; intro j _; ring
  rw [this, sumRange_zero]; simp

theorem polyAbelAt_rmax (N : ℕ) (c : ℕ → ℝ) (rmin rmax : ℝ) (h0 : 0 ≤ rmin) (hlt : rmin < rmax) :
    polyAbelAt N c rmin rmax rmax = 0 := by
  unfold polyAbelAt
  have e1 : (sqrt0 (0 : ℝ) : ℝ) = 0 := sqrt0_npos (lt_irrefl 0)
  have e2 : (sqrt0 (rmin * rmin - rmax * rmax) : ℝ) = 0 := sqrt0_npos (by nlinarith)
  simp only [e1, e2, if_pos hlt, add_zero, sub_self, mul_zero]
  have : sumRange N (fun k => c k * ((2 : ℕ) : ℝ) * abelA k (rmax * rmax) (fun _ => (0 : ℝ)) 0) = sumRange N (fun _ => (0 : ℝ)) := by
    apply sumRange_congr; intro k _; rw [abelA_zero]; ring
  exact this.trans (sumRange_zero N)

/-- `polynomial_abel` up to and including the outer radius -/
theorem abel_piece_le (N : ℕ) (c : ℕ → ℝ) (rmin rmax x : ℝ) (h0 : 0 ≤ rmin) (hlt : rmin < rmax) (hx : 0 ≤ x) (hxr : x ≤ rmax) :
    Abel (piece N c rmin rmax) x = polyAbelAt N c rmin rmax x := by
  rcases eq_or_lt_of_le hxr with h | h
  · rw [h, polyAbelAt_rmax N c rmin rmax h0 hlt, abel_piece_of_ge N c rmin rmax rmax h0 hlt.le le_rfl]
  · exact abel_piece N c rmin rmax x h0 hlt hx h

/-- **profile 2** -/
theorem profile2_pair (x : ℝ) (h0 : 0 < x) (h1 : x < 1) :
    proj2 x = Abel (fun r => if 0 ≤ r ∧ r < 1 then source2 r else 0) x := by
  have hsrc : (fun r : ℝ => if 0 ≤ r ∧ r < 1 then source2 r else 0) = piece 4 (cvec [1, 0, -3, 2]) 0 1 := by
    funext r
    unfold piece
    split_ifs
    · simp [source2, evalN, cvec, sumRange, Distr.pow, Profiles.n]; ring
    · rfl
  rw [hsrc, abel_piece 4 _ 0 1 x le_rfl one_pos h0.le h1]
  have hp : (0 : ℝ) < 1 * 1 - x * x := by nlinarith
  have hn : ¬ (0 : ℝ) < 0 * 0 - x * x := by nlinarith
  have hs : 0 ≤ Real.sqrt (1 * 1 - x * x) := Real.sqrt_nonneg _
  simp only [polyAbelAt, proj2, Profiles.a, Profiles.n, sumRange, abelA, abelC, cvec, Distr.pow, sqrt0_pos hp, sqrt0_npos hn,
    if_pos h0, sqrt_real, log_real]
  rw [ln0_pos (by positivity), ln0_pos (by linarith), Real.log_div (by positivity) h0.ne']
  norm_num [sumRange, abelC, Distr.pow]
  ring

/-- **profile 5** (the unit disc) -/
theorem profile5_pair (x : ℝ) (h0 : 0 < x) (h1 : x < 1) :
    proj5 x = Abel (fun r => if 0 ≤ r ∧ r < 1 then source5 r else 0) x := by
  have hsrc : (fun r : ℝ => if 0 ≤ r ∧ r < 1 then source5 r else 0) = piece 1 (cvec [1]) 0 1 := by
    funext r
    unfold piece
    split_ifs
    · simp [source5, evalN, cvec, sumRange, Distr.pow, Profiles.n]
    · rfl
  rw [hsrc, abel_piece 1 _ 0 1 x le_rfl one_pos h0.le h1]
  have hp : (0 : ℝ) < 1 * 1 - x * x := by nlinarith
  have hn : ¬ (0 : ℝ) < 0 * 0 - x * x := by nlinarith
  simp only [polyAbelAt, proj5, Profiles.a, Profiles.n, sumRange, abelA, abelC, cvec, Distr.pow, sqrt0_pos hp, sqrt0_npos hn,
    if_pos h0, sqrt_real, log_real]
  norm_num [sumRange, abelC, Distr.pow]

/-- **profile 7** -/
theorem profile7_pair (x : ℝ) (h0 : 0 < x) (h1 : x < 1) :
    proj7 x = Abel (fun r => if 0 ≤ r ∧ r < 1 then source7 r else 0) x := by
  have hsrc : (fun r : ℝ => if 0 ≤ r ∧ r < 1 then source7 r else 0) = piece 7 (cvec [1 / 2, 0, 5, 0, -23 / 2, 0, 6]) 0 1 := by
    funext r
    unfold piece
    split_ifs
    · simp [source7, evalN, cvec, sumRange, Distr.pow, Profiles.n]; ring
    · rfl
  rw [hsrc, abel_piece 7 _ 0 1 x le_rfl one_pos h0.le h1]
  have hp : (0 : ℝ) < 1 * 1 - x * x := by nlinarith
  have hn : ¬ (0 : ℝ) < 0 * 0 - x * x := by nlinarith
  simp only [polyAbelAt, proj7, Profiles.a, Profiles.n, sumRange, abelA, abelC, cvec, Distr.pow, sqrt0_pos hp, sqrt0_npos hn,
    if_pos h0, sqrt_real, log_real]
  norm_num [sumRange, abelC, Distr.pow]
  ring

/-- **profile 3** (two pieces, break at 1/2) -/
theorem profile3_pair (x : ℝ) (h0 : 0 < x) (h1 : x < 1) :
    proj3 x = Abel (fun r => if 0 ≤ r ∧ r < 1 then source3 r else 0) x := by
  have hsrc : (fun r : ℝ => if 0 ≤ r ∧ r < 1 then source3 r else 0)
      = fun r => piece 3 (cvec [1, 0, -2]) 0 (1 / 2) r + piece 3 (cvec [2, -4, 2]) (1 / 2) 1 r := by
    funext r
    unfold piece source3
    simp only [Profiles.n, evalN, cvec, sumRange, Distr.pow]
    by_cases hr0 : 0 ≤ r
    · by_cases hr1 : r < 1
      · rcases lt_trichotomy r (1 / 2) with hlt | heq | hgt
        · have : ¬ (1 / 2 ≤ r ∧ r < 1) := fun h => absurd h.1 (not_le.mpr hlt)
          rw [if_pos ⟨hr0, hr1⟩, if_pos ⟨hr0, hlt⟩, if_neg this]
          norm_num; rw [if_pos (by linarith)]; ring
        · subst heq; norm_num
        · have : ¬ (0 ≤ r ∧ r < 1 / 2) := fun h => absurd h.2 (not_lt.mpr hgt.le)
          rw [if_pos ⟨hr0, hr1⟩, if_neg this, if_pos ⟨hgt.le, hr1⟩]
          norm_num; rw [if_neg (by linarith)]; ring
      · have a1 : ¬ (0 ≤ r ∧ r < 1) := fun h => hr1 h.2
        have a2 : ¬ (0 ≤ r ∧ r < 1 / 2) := fun h => hr1 (by linarith [h.2])
        have a3 : ¬ (1 / 2 ≤ r ∧ r < 1) := fun h => hr1 h.2
        rw [if_neg a1, if_neg a2, if_neg a3]; ring
    · have a1 : ¬ (0 ≤ r ∧ r < 1) := fun h => hr0 h.1
      have a2 : ¬ (0 ≤ r ∧ r < 1 / 2) := fun h => hr0 h.1
      have a3 : ¬ (1 / 2 ≤ r ∧ r < 1) := fun h => hr0 (by linarith [h.1])
      rw [if_neg a1, if_neg a2, if_neg a3]; ring
  rw [hsrc, abel_two_pieces 3 3 _ _ 0 (1 / 2) 1 x le_rfl (by norm_num) (by norm_num)]
  have hp : (0 : ℝ) < 1 * 1 - x * x := by nlinarith
  have hn : ¬ (0 : ℝ) < 0 * 0 - x * x := by nlinarith
  rcases le_or_gt x (1 / 2) with hx | hx
  · rw [abel_piece_le 3 _ 0 (1 / 2) x le_rfl (by norm_num) h0.le hx,
      abel_piece 3 _ (1 / 2) 1 x (by norm_num) (by norm_num) h0.le h1]
    have hq : (0 : ℝ) ≤ 1 / 2 * (1 / 2) - x * x := by nlinarith
    have hnl : ¬ (1 / 2 : ℝ) < x := not_lt.mpr hx
    simp only [polyAbelAt, proj3, Profiles.a, Profiles.n, sumRange, abelA, abelC, cvec, Distr.pow, sqrt0_pos hp, sqrt0_npos hn,
      sqrt0_of_nonneg hq, if_pos h0, if_neg hnl, sqrt_real, log_real]
    have hs1 : 0 ≤ Real.sqrt (1 * 1 - x * x) := Real.sqrt_nonneg _
    have hs5 : 0 ≤ Real.sqrt (1 / 2 * (1 / 2) - x * x) := Real.sqrt_nonneg _
    rw [ln0_pos (by positivity), ln0_pos (by positivity), ln0_pos (by linarith)]
    norm_num [sumRange, abelC, Distr.pow]
    rw [if_pos (by linarith), Real.log_div (by positivity) (by positivity)]
    ring
  · rw [abel_piece_of_ge 3 _ 0 (1 / 2) x le_rfl (by norm_num) hx.le,
      abel_piece 3 _ (1 / 2) 1 x (by norm_num) (by norm_num) h0.le h1]
    have hq : ¬ (0 : ℝ) < 1 / 2 * (1 / 2) - x * x := by nlinarith
    simp only [polyAbelAt, proj3, Profiles.a, Profiles.n, sumRange, abelA, abelC, cvec, Distr.pow, sqrt0_pos hp,
      sqrt0_npos hq, if_pos hx, sqrt_real, log_real]
    have hs1 : 0 ≤ Real.sqrt (1 * 1 - x * x) := Real.sqrt_nonneg _
    rw [ln0_pos (by positivity), ln0_pos (by linarith)]
    norm_num [sumRange, abelC, Distr.pow]
    rw [if_neg (by linarith), Real.log_div (by positivity) h0.ne']
    ring

/-- **profile 1** (two cubic pieces, break at 1/4) -/
theorem profile1_pair (x : ℝ) (h0 : 0 < x) (h1 : x < 1) :
    proj1 x = Abel (fun r => if 0 ≤ r ∧ r < 1 then source1 r else 0) x := by
  have hsrc : (fun r : ℝ => if 0 ≤ r ∧ r < 1 then source1 r else 0)
      = fun r => piece 4 (cvec [3 / 4, 0, 12, -32]) 0 (1 / 4) r
          + piece 4 (cvec [16 / 27, 96 / 27, -240 / 27, 128 / 27]) (1 / 4) 1 r := by
    funext r
    unfold piece source1
    simp only [Profiles.n, evalN, cvec, sumRange, Distr.pow]
    by_cases hr0 : 0 ≤ r
    · by_cases hr1 : r < 1
      · rcases lt_trichotomy r (1 / 4) with hlt | heq | hgt
        · have : ¬ (1 / 4 ≤ r ∧ r < 1) := fun h => absurd h.1 (not_le.mpr hlt)
          rw [if_pos ⟨hr0, hr1⟩, if_pos ⟨hr0, hlt⟩, if_neg this]
          norm_num; rw [if_pos (by linarith)]; ring
        · subst heq; norm_num
        · have : ¬ (0 ≤ r ∧ r < 1 / 4) := fun h => absurd h.2 (not_lt.mpr hgt.le)
          rw [if_pos ⟨hr0, hr1⟩, if_neg this, if_pos ⟨hgt.le, hr1⟩]
          norm_num; rw [if_neg (by linarith)]; ring
      · have a1 : ¬ (0 ≤ r ∧ r < 1) := fun h => hr1 h.2
        have a2 : ¬ (0 ≤ r ∧ r < 1 / 4) := fun h => hr1 (by linarith [h.2])
        have a3 : ¬ (1 / 4 ≤ r ∧ r < 1) := fun h => hr1 h.2
        rw [if_neg a1, if_neg a2, if_neg a3]; ring
    · have a1 : ¬ (0 ≤ r ∧ r < 1) := fun h => hr0 h.1
      have a2 : ¬ (0 ≤ r ∧ r < 1 / 4) := fun h => hr0 h.1
      have a3 : ¬ (1 / 4 ≤ r ∧ r < 1) := fun h => hr0 (by linarith [h.1])
      rw [if_neg a1, if_neg a2, if_neg a3]; ring
  rw [hsrc, abel_two_pieces 4 4 _ _ 0 (1 / 4) 1 x le_rfl (by norm_num) (by norm_num)]
  have hp : (0 : ℝ) < 1 * 1 - x * x := by nlinarith
  have hn : ¬ (0 : ℝ) < 0 * 0 - x * x := by nlinarith
  rcases le_or_gt x (1 / 4) with hx | hx
  · rw [abel_piece_le 4 _ 0 (1 / 4) x le_rfl (by norm_num) h0.le hx,
      abel_piece 4 _ (1 / 4) 1 x (by norm_num) (by norm_num) h0.le h1]
    have hq : (0 : ℝ) ≤ 1 / 4 * (1 / 4) - x * x := by nlinarith
    have hnl : ¬ (1 / 4 : ℝ) < x := not_lt.mpr hx
    simp only [polyAbelAt, proj1, Profiles.a, Profiles.n, sumRange, abelA, abelC, cvec, Distr.pow, sqrt0_pos hp, sqrt0_npos hn,
      sqrt0_of_nonneg hq, if_pos h0, if_neg hnl, sqrt_real, log_real]
    have hs1 : 0 ≤ Real.sqrt (1 * 1 - x * x) := Real.sqrt_nonneg _
    have hs5 : 0 ≤ Real.sqrt (1 / 4 * (1 / 4) - x * x) := Real.sqrt_nonneg _
    rw [ln0_pos (by positivity), ln0_pos (by positivity), ln0_pos (by linarith)]
    norm_num [sumRange, abelC, Distr.pow]
    rw [if_pos (by linarith), Real.log_div (by positivity) h0.ne', Real.log_div (by positivity) h0.ne']
    ring
  · rw [abel_piece_of_ge 4 _ 0 (1 / 4) x le_rfl (by norm_num) hx.le,
      abel_piece 4 _ (1 / 4) 1 x (by norm_num) (by norm_num) h0.le h1]
    have hq : ¬ (0 : ℝ) < 1 / 4 * (1 / 4) - x * x := by nlinarith
    simp only [polyAbelAt, proj1, Profiles.a, Profiles.n, sumRange, abelA, abelC, cvec, Distr.pow, sqrt0_pos hp,
      sqrt0_npos hq, if_pos hx, sqrt_real, log_real]
    have hs1 : 0 ≤ Real.sqrt (1 * 1 - x * x) := Real.sqrt_nonneg _
    rw [ln0_pos (by positivity), ln0_pos (by linarith)]
    norm_num [sumRange, abelC, Distr.pow]
    rw [if_neg (by linarith), Real.log_div (by positivity) h0.ne']
    ring

theorem source4_left (r : ℝ) (h : r ≤ 7 / 10) :
    source4 r = 1 / 10 + 551 / 100 * r ^ 2 - 21 / 4 * r ^ 3 := by
  unfold source4
  have h' : r ≤ (0.7 : ℝ) := by norm_num; exact h
  rw [if_pos h']
  simp only [Distr.pow]
  norm_num
  ring

theorem source4_right (r : ℝ) (h : 7 / 10 < r) :
    source4 r = -2037 / 50 + 3889 / 25 * r - 18889 / 100 * r ^ 2 + 7407 / 100 * r ^ 3 := by
  unfold source4
  have h' : ¬ r ≤ (0.7 : ℝ) := by norm_num; exact h
  rw [if_neg h']
  simp only [Distr.pow]
  norm_num
  ring

theorem proj4_left (x : ℝ) (h : x ≤ 7 / 10) :
    proj4 x = 1134431 / 50000 * Real.sqrt (49 / 100 - x ^ 2) - (37778 / 300 - 111115 / 1000) * Real.sqrt (1 - x ^ 2)
      + (217557 / 1000 * Real.sqrt (49 / 100 - x ^ 2) - (75556 / 300 - 555525 / 10000) * Real.sqrt (1 - x ^ 2)) * x ^ 2
      + 3889 / 25 * x ^ 2 * Real.log ((1 + Real.sqrt (1 - x ^ 2)) / (7 / 10 + Real.sqrt (49 / 100 - x ^ 2)))
      + x ^ 4 * (555525 / 10000 * Real.log ((1 + Real.sqrt (1 - x ^ 2)) / x)
          - 5949 / 100 * Real.log ((7 / 10 + Real.sqrt (49 / 100 - x ^ 2)) / x)) := by
  unfold proj4
  have h' : x ≤ (0.7 : ℝ) := by norm_num; exact h
  simp only [if_pos h', Distr.pow, Profiles.a, Profiles.n, sqrt_real, log_real]
  norm_num
  have e1 : (1 : ℝ) - x * x = 1 - x ^ 2 := by ring
  have e2 : (49 / 100 : ℝ) - x * x = 49 / 100 - x ^ 2 := by ring
  simp only [e1, e2]
  ring

theorem proj4_right (x : ℝ) (h : 7 / 10 < x) :
    proj4 x = -(37778 / 300 - 111115 / 1000) * Real.sqrt (1 - x ^ 2) - (75556 / 300 - 555525 / 10000) * Real.sqrt (1 - x ^ 2) * x ^ 2
      + x ^ 2 * (3889 / 25 + 555525 / 10000 * x ^ 2) * Real.log ((1 + Real.sqrt (1 - x ^ 2)) / x) := by
  unfold proj4
  have h' : ¬ x ≤ (0.7 : ℝ) := by norm_num; exact h
  simp only [if_neg h', Distr.pow, Profiles.a, Profiles.n, sqrt_real, log_real]
  norm_num
  have e1 : (1 : ℝ) - x * x = 1 - x ^ 2 := by ring
  simp only [e1]
  ring

/-- **profile 4** (two cubic pieces with the published decimal coefficients, break at 0.7; the source jumps there, which the
    line-of-sight integral does not see) -/
theorem profile4_pair (x : ℝ) (h0 : 0 < x) (h1 : x < 1) :
    proj4 x = Abel (fun r => if 0 ≤ r ∧ r < 1 then source4 r else 0) x := by
  have hsrc : ∀ r : ℝ, r ≠ 7 / 10 → (if 0 ≤ r ∧ r < 1 then source4 r else 0)
      = piece 4 (cvec [1 / 10, 0, 551 / 100, -21 / 4]) 0 (7 / 10) r
          + piece 4 (cvec [-2037 / 50, 3889 / 25, -18889 / 100, 7407 / 100]) (7 / 10) 1 r := by
    intro r hne
    unfold piece
    simp only [evalN, cvec, sumRange, Distr.pow]
    by_cases hr0 : 0 ≤ r
    · by_cases hr1 : r < 1
      · rcases lt_or_gt_of_ne hne with hlt | hgt
        · have : ¬ (7 / 10 ≤ r ∧ r < 1) := fun h => absurd h.1 (not_le.mpr hlt)
          rw [if_pos ⟨hr0, hr1⟩, if_pos ⟨hr0, hlt⟩, if_neg this, source4_left r hlt.le]
          norm_num; ring
        · have : ¬ (0 ≤ r ∧ r < 7 / 10) := fun h => absurd h.2 (not_lt.mpr hgt.le)
          rw [if_pos ⟨hr0, hr1⟩, if_neg this, if_pos ⟨hgt.le, hr1⟩, source4_right r hgt]
          norm_num; ring
      · have a1 : ¬ (0 ≤ r ∧ r < 1) := fun h => hr1 h.2
        have a2 : ¬ (0 ≤ r ∧ r < 7 / 10) := fun h => hr1 (by linarith [h.2])
        have a3 : ¬ (7 / 10 ≤ r ∧ r < 1) := fun h => hr1 h.2
        rw [if_neg a1, if_neg a2, if_neg a3]; ring
    · have a1 : ¬ (0 ≤ r ∧ r < 1) := fun h => hr0 h.1
      have a2 : ¬ (0 ≤ r ∧ r < 7 / 10) := fun h => hr0 h.1
      have a3 : ¬ (7 / 10 ≤ r ∧ r < 1) := fun h => hr0 (by linarith [h.1])
      rw [if_neg a1, if_neg a2, if_neg a3]; ring
  rw [abel_congr_except (7 / 10) x hsrc, abel_two_pieces 4 4 _ _ 0 (7 / 10) 1 x le_rfl (by norm_num) (by norm_num)]
  have hp : (0 : ℝ) < 1 * 1 - x * x := by nlinarith
  have hn : ¬ (0 : ℝ) < 0 * 0 - x * x := by nlinarith
  have e1 : (1 : ℝ) - x * x = 1 - x ^ 2 := by ring
  have e2 : (49 / 100 : ℝ) - x * x = 49 / 100 - x ^ 2 := by ring
  rcases le_or_gt x (7 / 10) with hx | hx
  · rw [abel_piece_le 4 _ 0 (7 / 10) x le_rfl (by norm_num) h0.le hx,
      abel_piece 4 _ (7 / 10) 1 x (by norm_num) (by norm_num) h0.le h1, proj4_left x hx]
    have hq : (0 : ℝ) ≤ 7 / 10 * (7 / 10) - x * x := by nlinarith
    have hnl : ¬ (7 / 10 : ℝ) < x := not_lt.mpr hx
    simp only [polyAbelAt, sumRange, abelA, abelC, cvec, Distr.pow, sqrt0_pos hp, sqrt0_npos hn,
      sqrt0_of_nonneg hq, if_pos h0, if_neg hnl]
    have hs1 : 0 ≤ Real.sqrt (1 * 1 - x * x) := Real.sqrt_nonneg _
    have hs5 : 0 ≤ Real.sqrt (7 / 10 * (7 / 10) - x * x) := Real.sqrt_nonneg _
    rw [ln0_pos (by positivity), ln0_pos (by positivity), ln0_pos (by linarith)]
    have hs1' : 0 ≤ Real.sqrt (1 - x ^ 2) := Real.sqrt_nonneg _
    have hs5' : 0 ≤ Real.sqrt (49 / 100 - x ^ 2) := Real.sqrt_nonneg _
    rw [Real.log_div (by positivity) (by positivity), Real.log_div (by positivity) h0.ne', Real.log_div (by positivity) h0.ne']
    norm_num [sumRange, abelC, Distr.pow]
    simp only [e1, e2]
    ring
  · rw [abel_piece_of_ge 4 _ 0 (7 / 10) x le_rfl (by norm_num) hx.le,
      abel_piece 4 _ (7 / 10) 1 x (by norm_num) (by norm_num) h0.le h1, proj4_right x hx]
    have hq : ¬ (0 : ℝ) < 7 / 10 * (7 / 10) - x * x := by nlinarith
    simp only [polyAbelAt, sumRange, abelA, abelC, cvec, Distr.pow, sqrt0_pos hp,
      sqrt0_npos hq, if_pos hx]
    have hs1 : 0 ≤ Real.sqrt (1 * 1 - x * x) := Real.sqrt_nonneg _
    rw [ln0_pos (by positivity), ln0_pos (by linarith)]
    have hs1' : 0 ≤ Real.sqrt (1 - x ^ 2) := Real.sqrt_nonneg _
    rw [Real.log_div (by positivity) h0.ne']
    norm_num [sumRange, abelC, Distr.pow]
    simp only [e1]
    ring

/-- non-vacuity: at x = 1/2 the coded projection of the unit disc is the chord √3 -/
example : (proj5 (1 / 2 : ℝ)) = 2 * Real.sqrt (3 / 4) := by
  simp only [proj5, Profiles.a, Profiles.n, sqrt_real]; norm_num

end PyAbel.C11
