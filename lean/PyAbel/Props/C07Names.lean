/-
C07 (clean-up exactness) — basis_dir_cleanup(method) removes exactly the named method's basis files.

A cleanup mask is `<prefix>*<suffix>`; a basis file written by method m′ is `<namePrefix m′><size…>.npy`.
`glob` matches iff the name starts with the mask prefix and ends with the suffix (and is long enough).
Both tables are regenerated from /repo (harness/gen_tables.py); the theorems are re-decided when they change.
-/
import PyAbel.Gen.Tables

namespace PyAbel.C07N
open PyAbel.Gen

/-- neither string is a prefix of the other: no continuation of one can start with the other -/
def incomparable (p q : List Char) : Bool := !(p.isPrefixOf q) && !(q.isPrefixOf p)

/-- every method has exactly one mask, and it is the prefix of exactly its own file names -/
theorem cleanup_removes_exactly :
    (cleanupMasks.all fun (mp : String × List Char × List Char) =>
      basisNamePrefixes.all fun (nq : String × List Char) =>
        if mp.1 = nq.1 then mp.2.1 == nq.2          -- own files: the mask prefix *is* the name prefix
        else incomparable mp.2.1 nq.2) = true       -- other methods' files can never match
    := by decide +kernel

/-- all names end in `.npy`, the suffix of every mask -/
theorem masks_have_npy_suffix : (cleanupMasks.all fun mp => mp.2.2 == ['.', 'n', 'p', 'y']) = true := by decide +kernel

/-- the tables cover the seven caching methods (non-vacuity) -/
theorem tables_cover_all_methods :
    (cleanupMasks.map (·.1)) = ["basex", "daun", "linbasex", "onion_peeling", "rbasex", "three_point", "two_point"] ∧
    (["basex", "daun", "linbasex", "onion_peeling", "rbasex", "three_point", "two_point"].all fun m =>
      basisNamePrefixes.any fun nq => nq.1 == m) = true := by decide +kernel

end PyAbel.C07N
