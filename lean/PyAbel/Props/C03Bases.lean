/-
C03 — the hypotheses of the exact round trip (lower-triangular basis matrix with non-vanishing diagonal) hold at every size for
the Daun degree-1 and degree-2 bases and for every rBasex radial matrix `P[n]`: the entries above the diagonal vanish because the
basis function lies entirely inside the cylinder of the line of sight, and the diagonal entry is the Abel integral of a
non-negative function that is positive on an interval of the line of sight.  Hence `inverse(forward(X)) = X` and
`forward(inverse(X)) = X` for these bases, every size, every row (corollaries of `daun_inverse_forward` / `daun_forward_inverse`).
-/
import PyAbel.Props.C03
import PyAbel.Props.C09Rbasex

open MeasureTheory Set

namespace PyAbel.C03
open PyAbel PyAbel.C09

/-- the Abel integral of a function that is non-negative along the line of sight and positive on a stretch of it is positive -/
theorem abel_pos {f : ℝ → ℝ} {x : ℝ} (hint : LosInt f x) (hnn : ∀ z, 0 < z → 0 ≤ f (Real.sqrt (x ^ 2 + z ^ 2)))
    (hcont : Continuous fun z : ℝ => f (Real.sqrt (x ^ 2 + z ^ 2))) (b : ℝ) (hb : 0 < b)
    (hpos : ∀ z ∈ Ioo (0 : ℝ) b, 0 < f (Real.sqrt (x ^ 2 + z ^ 2))) : 0 < Abel f x := by
  unfold Abel
  have h1 : 0 < ∫ z in (0 : ℝ)..b, f (Real.sqrt (x ^ 2 + z ^ 2)) :=
    intervalIntegral.intervalIntegral_pos_of_pos_on (hcont.intervalIntegrable 0 b) hpos hb
  rw [intervalIntegral.integral_of_le hb.le] at h1
  have h2 : ∫ z in Ioc (0 : ℝ) b, f (Real.sqrt (x ^ 2 + z ^ 2)) ≤ ∫ z in Ioi (0 : ℝ), f (Real.sqrt (x ^ 2 + z ^ 2)) := by
    apply setIntegral_mono_set hint
    · exact (ae_restrict_iff' measurableSet_Ioi).mpr (Filter.Eventually.of_forall fun z hz => hnn z hz)
    · exact Filter.Eventually.of_forall fun z hz => hz.1
  linarith

/-- nothing of a function supported inside radius `R ≤ x` lies on the line of sight at distance `x` -/
theorem abel_zero_of_support {f : ℝ → ℝ} {x R : ℝ} (hx : 0 ≤ x) (hR : R ≤ x) (hsupp : ∀ ρ, R ≤ ρ → f ρ = 0) : Abel f x = 0 := by
  unfold Abel
  have : ∀ z ∈ Ioi (0 : ℝ), f (Real.sqrt (x ^ 2 + z ^ 2)) = (fun _ => (0 : ℝ)) z := by
    intro z _
    apply hsupp
    calc R ≤ x := hR
      _ = Real.sqrt (x ^ 2) := (Real.sqrt_sq hx).symm
      _ ≤ Real.sqrt (x ^ 2 + z ^ 2) := Real.sqrt_le_sqrt (by nlinarith [sq_nonneg z])
  rw [setIntegral_congr_fun measurableSet_Ioi this]; simp

/-! ### the hat functions (Daun degree 1, and the radial factor of rBasex) -/

theorem hat_nonneg (j : ℕ) (ρ : ℝ) : 0 ≤ hat j ρ := le_max_left _ _

theorem hat_zero_of_ge (j : ℕ) (ρ : ℝ) (h : (j : ℝ) + 1 ≤ ρ) : hat j ρ = 0 := by
  unfold hat
  apply max_eq_left
  rw [abs_of_nonneg (by linarith)]; linarith

theorem hat_pos (j : ℕ) (ρ : ℝ) (h1 : (j : ℝ) ≤ ρ) (h2 : ρ < (j : ℝ) + 1) : 0 < hat j ρ := by
  unfold hat
  apply lt_max_of_lt_right
  rw [abs_of_nonneg (by linarith)]; linarith

theorem hat_continuous (j : ℕ) : Continuous (hat j) := by unfold hat; fun_prop

/-- along the line of sight at distance `j`, the radius stays inside `[j, j + 1)` for `0 < z < 1` -/
theorem los_window (j : ℕ) (z : ℝ) (hz : z ∈ Ioo (0 : ℝ) 1) :
    (j : ℝ) ≤ Real.sqrt ((j : ℝ) ^ 2 + z ^ 2) ∧ Real.sqrt ((j : ℝ) ^ 2 + z ^ 2) < (j : ℝ) + 1 := by
  have hj : (0 : ℝ) ≤ j := Nat.cast_nonneg j
  constructor
  · calc (j : ℝ) = Real.sqrt ((j : ℝ) ^ 2) := (Real.sqrt_sq hj).symm
      _ ≤ Real.sqrt ((j : ℝ) ^ 2 + z ^ 2) := Real.sqrt_le_sqrt (by nlinarith [sq_nonneg z])
  · rw [show (j : ℝ) + 1 = Real.sqrt (((j : ℝ) + 1) ^ 2) from (Real.sqrt_sq (by linarith)).symm]
    apply Real.sqrt_lt_sqrt (by positivity)
    nlinarith [hz.1, hz.2]

theorem daun1_lower_triangular (j i : ℕ) (h : j < i) : (daun1 j i : ℝ) = 0 := by
  rw [daun1_eq_abel]
  apply abel_zero_of_support (Nat.cast_nonneg i) (R := (j : ℝ) + 1)
  · have : j + 1 ≤ i := h
    exact_mod_cast this
  · exact fun ρ hρ => hat_zero_of_ge j ρ hρ

theorem daun1_diag_pos (j : ℕ) : (0 : ℝ) < daun1 j j := by
  rw [daun1_eq_abel]
  have hLos : LosInt (hat j) j :=
    losInt_of_continuous (hat_continuous j) ((j : ℝ) + 1) j (by positivity) (fun ρ hρ => hat_zero_of_ge j ρ hρ)
  refine abel_pos hLos (fun z _ => hat_nonneg j _) ((hat_continuous j).comp (by fun_prop)) 1 one_pos ?_
  intro z hz
  obtain ⟨h1, h2⟩ := los_window j z hz
  exact hat_pos j _ h1 h2

/-- **Daun degree 1: exact round trip at every size** -/
theorem daun1_roundtrip (n : ℕ) (x : ℕ → ℝ) (i : ℕ) (hi : i < n) :
    daunInv n (fun j i => (daun1 j i : ℝ)) (daunFwd n (fun j i => daun1 j i) x) i = x i ∧
    daunFwd n (fun j i => (daun1 j i : ℝ)) (daunInv n (fun j i => daun1 j i) x) i = x i :=
  ⟨daun_inverse_forward n _ (fun i _ => (daun1_diag_pos i).ne') (fun j i h => daun1_lower_triangular j i h) x i hi,
   daun_forward_inverse n _ (fun i _ => (daun1_diag_pos i).ne') (fun j i h => daun1_lower_triangular j i h) x i hi⟩

/-! ### the quadratic B-splines (Daun degree 2) -/

theorem bspline2_nonneg (j : ℕ) (ρ : ℝ) : 0 ≤ bspline2 j ρ := by
  unfold bspline2
  split_ifs with h1 h2
  · have := abs_nonneg (ρ - j)
    have h3 : (ρ - j) ^ 2 ≤ 1 / 4 := by
      have := sq_abs (ρ - j); nlinarith [abs_nonneg (ρ - j)]
    linarith
  · positivity
  · exact le_rfl

theorem bspline2_zero_of_ge (j : ℕ) (ρ : ℝ) (h : (j : ℝ) + 1 ≤ ρ) : bspline2 j ρ = 0 := by
  unfold bspline2
  have ha : |ρ - j| = ρ - j := abs_of_nonneg (by linarith)
  rw [ha]
  rcases eq_or_lt_of_le h with heq | hlt
  · rw [if_neg (by linarith), if_pos (by linarith), ← heq]; ring
  · rw [if_neg (by linarith), if_neg (by linarith)]

theorem bspline2_pos (j : ℕ) (ρ : ℝ) (h1 : (j : ℝ) ≤ ρ) (h2 : ρ < (j : ℝ) + 1) : 0 < bspline2 j ρ := by
  unfold bspline2
  have ha : |ρ - j| = ρ - j := abs_of_nonneg (by linarith)
  rw [ha]
  split_ifs with h3 h4
  · nlinarith
  · have : ρ - j - 1 < 0 := by linarith
    nlinarith
  · exact absurd (by linarith) h4

theorem bspline2_continuous (j : ℕ) : Continuous (bspline2 j) := by
  have e : bspline2 j = fun r => 2 * qramp ((j : ℝ) + 1) r - 4 * qramp ((j : ℝ) + 1 / 2) r
      + 4 * qramp ((j : ℝ) - 1 / 2) r - 2 * qramp ((j : ℝ) - 1) r := funext (bspline2_eq_qramps j)
  rw [e]
  have := qramp_continuous
  fun_prop

theorem daun2_lower_triangular (j i : ℕ) (h : j < i) : (daun2 j i : ℝ) = 0 := by
  rw [daun2_eq_abel]
  apply abel_zero_of_support (Nat.cast_nonneg i) (R := (j : ℝ) + 1)
  · have : j + 1 ≤ i := h
    exact_mod_cast this
  · exact fun ρ hρ => bspline2_zero_of_ge j ρ hρ

theorem daun2_diag_pos (j : ℕ) : (0 : ℝ) < daun2 j j := by
  rw [daun2_eq_abel]
  have hLos : LosInt (bspline2 j) j :=
    losInt_of_continuous (bspline2_continuous j) ((j : ℝ) + 1) j (by positivity) (fun ρ hρ => bspline2_zero_of_ge j ρ hρ)
  refine abel_pos hLos (fun z _ => bspline2_nonneg j _) ((bspline2_continuous j).comp (by fun_prop)) 1 one_pos ?_
  intro z hz
  obtain ⟨h1, h2⟩ := los_window j z hz
  exact bspline2_pos j _ h1 h2

/-- **Daun degree 2: exact round trip at every size** -/
theorem daun2_roundtrip (n : ℕ) (x : ℕ → ℝ) (i : ℕ) (hi : i < n) :
    daunInv n (fun j i => (daun2 j i : ℝ)) (daunFwd n (fun j i => daun2 j i) x) i = x i ∧
    daunFwd n (fun j i => (daun2 j i : ℝ)) (daunInv n (fun j i => daun2 j i) x) i = x i :=
  ⟨daun_inverse_forward n _ (fun i _ => (daun2_diag_pos i).ne') (fun j i h => daun2_lower_triangular j i h) x i hi,
   daun_forward_inverse n _ (fun i _ => (daun2_diag_pos i).ne') (fun j i h => daun2_lower_triangular j i h) x i hi⟩

/-! ### rBasex: every radial matrix `P[n]` -/

theorem rbasexP_lower_triangular (n R r : ℕ) (h : R < r) : (RbxBasis.P n R r : ℝ) = 0 := by
  have h0 : r ≠ 0 := by omega
  simp [RbxBasis.P, h0, h]

theorem rbasexP_diag_pos (n R : ℕ) : (0 : ℝ) < RbxBasis.P n R R := by
  rcases Nat.eq_zero_or_pos R with h0 | hR
  · subst h0; simp [RbxBasis.P]
  · have hne : R ≠ 0 := by omega
    have e : (RbxBasis.P n R R : ℝ) = RbxBasis.p n R R := by simp [RbxBasis.P, hne]
    rw [e, rbasex_p_eq_abel n R R hR le_rfl]
    have hx : (0 : ℝ) < R := by exact_mod_cast hR
    -- integrability: the hat is a combination of three ramps
    have c1 : ((R + 1 : ℕ) : ℝ) = (R : ℝ) + 1 := by push_cast; ring
    have c2 : ((R - 1 : ℕ) : ℝ) = (R : ℝ) - 1 := by rw [Nat.cast_sub hR]; simp
    have ef : (fun ρ : ℝ => hat R ρ * ((R : ℝ) / ρ) ^ n)
        = fun ρ => (ramp ((R + 1 : ℕ) : ℝ) ρ * ((R : ℝ) / ρ) ^ n - 2 * (ramp ((R : ℕ) : ℝ) ρ * ((R : ℝ) / ρ) ^ n))
            + ramp ((R - 1 : ℕ) : ℝ) ρ * ((R : ℝ) / ρ) ^ n := by
      funext ρ; rw [c1, c2, hat_eq_ramps R ρ]; ring
    have hLos : LosInt (fun ρ : ℝ => hat R ρ * ((R : ℝ) / ρ) ^ n) R := by
      rw [ef]
      exact ((losInt_ramp_frac hx _ n).sub ((losInt_ramp_frac hx _ n).const_mul 2)).add (losInt_ramp_frac hx _ n)
    have hcont : Continuous fun z : ℝ => hat R (Real.sqrt ((R : ℝ) ^ 2 + z ^ 2)) * ((R : ℝ) / Real.sqrt ((R : ℝ) ^ 2 + z ^ 2)) ^ n := by
      have h1 : Continuous fun z : ℝ => Real.sqrt ((R : ℝ) ^ 2 + z ^ 2) := los_continuous R
      have h2 : Continuous fun z : ℝ => (R : ℝ) / Real.sqrt ((R : ℝ) ^ 2 + z ^ 2) := fr_continuous hx
      exact ((hat_continuous R).comp h1).mul (h2.pow n)
    refine abel_pos hLos ?_ hcont 1 one_pos ?_
    · intro z _
      have hl : 0 < Real.sqrt ((R : ℝ) ^ 2 + z ^ 2) := los_pos_of_pos hx z
      exact mul_nonneg (hat_nonneg R _) (pow_nonneg (div_nonneg hx.le hl.le) n)
    · intro z hz
      obtain ⟨h1, h2⟩ := los_window R z hz
      have hl : 0 < Real.sqrt ((R : ℝ) ^ 2 + z ^ 2) := los_pos_of_pos hx z
      exact mul_pos (hat_pos R _ h1 h2) (pow_pos (div_pos hx hl) n)

/-- **rBasex: for every angular order the radial transform matrix is invertible by substitution, and forward and inverse undo each
    other exactly, at every `Rmax`** (`P[n]` is applied to profiles as `profile · P[n]`, its inverse is the triangular solve) -/
theorem rbasex_radial_roundtrip (n N : ℕ) (x : ℕ → ℝ) (i : ℕ) (hi : i < N) :
    daunInv N (fun R r => (RbxBasis.P n R r : ℝ)) (daunFwd N (fun R r => RbxBasis.P n R r) x) i = x i ∧
    daunFwd N (fun R r => (RbxBasis.P n R r : ℝ)) (daunInv N (fun R r => RbxBasis.P n R r) x) i = x i :=
  ⟨daun_inverse_forward N _ (fun i _ => (rbasexP_diag_pos n i).ne') (fun R r h => rbasexP_lower_triangular n R r h) x i hi,
   daun_forward_inverse N _ (fun i _ => (rbasexP_diag_pos n i).ne') (fun R r h => rbasexP_lower_triangular n R r h) x i hi⟩

end PyAbel.C03
