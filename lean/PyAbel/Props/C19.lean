/-
C19 — polar tools honour the angle convention and the integration Jacobians.

Model: PyAbel/Model/Polar.lean at ℝ, with `arctan2(a, b) = arg (b + a·i)`.
-/
import PyAbel.Model.Polar
import PyAbel.Lemmas.RealInst
import PyAbel.Lemmas.Linalg
import Mathlib.Analysis.SpecialFunctions.Complex.Arg
import Mathlib.Algebra.BigOperators.Intervals
import Mathlib.Tactic.Ring
import Mathlib.Tactic.FieldSimp
import Mathlib.Tactic.Linarith

namespace PyAbel
noncomputable instance : HasAtan2 ℝ := ⟨fun a b => Complex.arg ⟨b, a⟩⟩
noncomputable instance : HasSin ℝ := ⟨Real.sin⟩
noncomputable instance : HasCos ℝ := ⟨Real.cos⟩
noncomputable instance : HasAbs ℝ := ⟨fun x => |x|⟩
end PyAbel

namespace PyAbel.C19
open PyAbel

/-! ### 1. Cartesian ↔ polar is an exact round trip; zero angle is up, positive angles to the right -/

theorem polar_roundtrip (x y : ℝ) :
    polar2cart (cart2polar x y).1 (cart2polar x y).2 = (x, y) := by
  simp only [cart2polar, polar2cart, HasAtan2.atan2, HasSin.sin, HasCos.cos, sqrt_real]
  set z : ℂ := ⟨y, x⟩ with hz
  have habs : Real.sqrt (x * x + y * y) = ‖z‖ := by
    rw [Complex.norm_def, Complex.normSq_apply]; congr 1; simp [hz]; ring
  rw [habs]
  by_cases h0 : z = 0
  · have : x = 0 ∧ y = 0 := by
      have := congrArg Complex.re h0; have := congrArg Complex.im h0; simp [hz] at *; tauto
    simp [h0, this.1, this.2]
  · have hc := Complex.cos_arg h0
    have hs := Complex.sin_arg z
    have hn : ‖z‖ ≠ 0 := by simpa using h0
    rw [hc, hs]
    simp only [hz] at hn ⊢
    have e1 : ‖(⟨y, x⟩ : ℂ)‖ * (x / ‖(⟨y, x⟩ : ℂ)‖) = x := by rw [mul_div_assoc']; exact mul_div_cancel_left₀ x hn
    have e2 : ‖(⟨y, x⟩ : ℂ)‖ * (y / ‖(⟨y, x⟩ : ℂ)‖) = y := by rw [mul_div_assoc']; exact mul_div_cancel_left₀ y hn
    rw [e1, e2]

theorem zero_angle_is_up : (cart2polar (0 : ℝ) 1).2 = 0 := by
  simp only [cart2polar, HasAtan2.atan2]
  have : (⟨1, 0⟩ : ℂ) = 1 := by apply Complex.ext <;> simp
  rw [this, Complex.arg_one]

theorem positive_angle_is_right : (cart2polar (1 : ℝ) 0).2 = Real.pi / 2 := by
  simp only [cart2polar, HasAtan2.atan2]
  have : (⟨0, 1⟩ : ℂ) = Complex.I := by apply Complex.ext <;> simp
  rw [this, Complex.arg_I]

/-! ### 1b. radius, angle range, sign and mirror symmetry of the angle convention -/

/-- the radius is the Euclidean distance and is never negative -/
theorem cart2polar_radius (x y : ℝ) : (cart2polar x y).1 = Real.sqrt (x ^ 2 + y ^ 2) ∧ 0 ≤ (cart2polar x y).1 := by
  simp only [cart2polar, sqrt_real]
  exact ⟨by congr 1; ring, Real.sqrt_nonneg _⟩

/-- angles are reported in `(−π, π]` -/
theorem cart2polar_angle_range (x y : ℝ) : -Real.pi < (cart2polar x y).2 ∧ (cart2polar x y).2 ≤ Real.pi := by
  simp only [cart2polar, HasAtan2.atan2]
  exact ⟨Complex.neg_pi_lt_arg _, Complex.arg_le_pi _⟩

/-- **the sign of the angle is the sign of `x`**: points to the right of the vertical axis have positive angles, points to the left
    negative ones (the angle is measured from the upward vertical, clockwise positive in image coordinates) -/
theorem angle_sign (x y : ℝ) : (0 < x → 0 < (cart2polar x y).2) ∧ (x < 0 → (cart2polar x y).2 < 0) := by
  simp only [cart2polar, HasAtan2.atan2]
  constructor
  · intro hx
    have h := (Complex.arg_nonneg_iff (z := (⟨y, x⟩ : ℂ))).2 (by simpa using hx.le)
    rcases h.lt_or_eq with h | h
    · exact h
    · exfalso
      have := (Complex.arg_eq_zero_iff (z := (⟨y, x⟩ : ℂ))).1 h.symm
      simp at this
      linarith [this.2]
  · intro hx
    exact (Complex.arg_neg_iff (z := (⟨y, x⟩ : ℂ))).2 (by simpa using hx)

/-- **mirror symmetry of the convention**: reflecting a point in the vertical axis negates its angle (away from the downward
    half-axis, where the angle is `π` on both sides) -/
theorem angle_mirror (x y : ℝ) (h : x ≠ 0 ∨ 0 < y) : (cart2polar (-x) y).2 = -(cart2polar x y).2 := by
  simp only [cart2polar, HasAtan2.atan2]
  have e : (⟨y, -x⟩ : ℂ) = (starRingEnd ℂ) ⟨y, x⟩ := by apply Complex.ext <;> simp
  rw [e, Complex.arg_conj]
  have hne : Complex.arg (⟨y, x⟩ : ℂ) ≠ Real.pi := by
    intro hpi
    have := (Complex.arg_eq_pi_iff (z := (⟨y, x⟩ : ℂ))).1 hpi
    simp at this
    rcases h with h | h
    · exact h this.2
    · linarith [this.1]
  rw [if_neg hne]

/-! ### 2. index_coords puts (0, 0) at the requested origin; negative origins count from the end -/

theorem index_coords_origin (rows cols : ℕ) (oRow oCol : ℤ) (h0 : 0 ≤ oRow) (h1 : 0 ≤ oCol) :
    indexCoords rows cols oRow oCol oRow.toNat oCol.toNat = (0, 0) := by
  simp only [indexCoords, wrapCoord]
  have : ¬ oRow < 0 := by omega
  have : ¬ oCol < 0 := by omega
  simp [*]

theorem index_coords_negative_origin (rows cols : ℕ) (oRow oCol : ℤ) (h0 : oRow < 0) (h1 : oCol < 0)
    (row col : ℕ) :
    indexCoords rows cols oRow oCol row col = indexCoords rows cols (oRow + rows) (oCol + cols) row col
      ∨ (oRow + rows < 0 ∨ oCol + cols < 0) := by
  by_cases h : oRow + rows < 0 ∨ oCol + cols < 0
  · right; exact h
  · left
    simp only [not_or, not_lt] at h
    simp only [indexCoords, wrapCoord, h0, h1, if_true]
    have : ¬ oRow + rows < 0 := by omega
    have : ¬ oCol + cols < 0 := by omega
    simp [*]

theorem index_coords_axes (rows cols : ℕ) (oRow oCol : ℤ) (h0 : 0 ≤ oRow) (h1 : 0 ≤ oCol) (row col : ℕ) :
    indexCoords rows cols oRow oCol row col = ((col : ℤ) - oCol, oRow - (row : ℤ)) := by
  simp only [indexCoords, wrapCoord]
  have : ¬ oRow < 0 := by omega
  have : ¬ oCol < 0 := by omega
  simp [*]

/-- without an origin the pole is the centre pixel, of square and non-square frames alike: (0, 0) sits at `(rows // 2, cols // 2)`
and the axes are `x = col − cols // 2`, `y = rows // 2 − row` -/
theorem index_coords_default (rows cols row col : ℕ) :
    indexCoordsDefault rows cols row col = ((col : ℤ) - ((cols / 2 : ℕ) : ℤ), ((rows / 2 : ℕ) : ℤ) - (row : ℤ)) := by
  unfold indexCoordsDefault defaultPole
  exact index_coords_axes rows cols _ _ (by omega) (by omega) row col

theorem index_coords_default_pole (rows cols : ℕ) : indexCoordsDefault rows cols (rows / 2) (cols / 2) = (0, 0) := by
  rw [index_coords_default]; simp

/-! ### 3. reproject_image_into_polar samples at exactly the polar positions -/

theorem reproject_samples_at (oRow oCol r θ : ℝ) :
    samplePos oRow oCol r θ = (oRow - r * Real.cos θ, r * Real.sin θ + oCol) := rfl

/-! ### 4. int2D = 2π r · avg2D and int3D = 4π r² · avg3D, exactly -/

theorem int2D_eq (nt : ℕ) (P : ℕ → ℕ → ℝ) (R T : ℕ → ℝ) (dt : ℝ) (k : ℕ) :
    radialIntensity .int2D nt P R T dt k = 2 * Real.pi * R k * radialIntensity .avg2D nt P R T dt k := by
  simp only [radialIntensity, kindFactor, pi_real]
  have hpi : (2 : ℝ) * Real.pi ≠ 0 := by positivity
  have : sumRange nt (fun l => P k l * ((1 : ℕ) / (((2 : ℕ) : ℝ) * Real.pi)))
      = (1 / (2 * Real.pi)) * sumRange nt (fun l => P k l) := by
    rw [← sumRange_smul]; apply sumRange_congr; intro l _; push_cast; ring
  rw [this]
  have : sumRange nt (fun l => P k l * R k) = R k * sumRange nt (fun l => P k l) := by
    rw [← sumRange_smul]; apply sumRange_congr; intro l _; ring
  rw [this]; field_simp

theorem int3D_eq (nt : ℕ) (P : ℕ → ℕ → ℝ) (R T : ℕ → ℝ) (dt : ℝ) (k : ℕ) :
    radialIntensity .int3D nt P R T dt k = 4 * Real.pi * (R k) ^ 2 * radialIntensity .avg3D nt P R T dt k := by
  simp only [radialIntensity, kindFactor, pi_real, HasAbs.abs, HasSin.sin]
  have : sumRange nt (fun l => P k l * (Real.pi * (R k * R k) * |Real.sin (T l)|))
      = (4 * Real.pi * (R k) ^ 2) * sumRange nt (fun l => P k l * (|Real.sin (T l)| / ((4 : ℕ) : ℝ))) := by
    rw [← sumRange_smul]; apply sumRange_congr; intro l _; push_cast; ring
  rw [this]; ring

/-! ### 5. toPES conserves the integrated intensity (trapezoid rule on both grids)

uniform radial grid `r_k = k·dr`, `k = 0 … K`, profile vanishing at both ends. -/

open Finset in
theorem toPES_conserves (K : ℕ) (dr c : ℝ) (hdr : dr ≠ 0) (hc : c ≠ 0) (I : ℕ → ℝ)
    (h0 : I 0 = 0) (hK : I K = 0) :
    (∑ k ∈ range K,
        ((toPES (fun k => (k : ℝ) * dr) I c k).2 + (toPES (fun k => (k : ℝ) * dr) I c (k + 1)).2) / 2
          * ((toPES (fun k => (k : ℝ) * dr) I c (k + 1)).1 - (toPES (fun k => (k : ℝ) * dr) I c k).1))
      = ∑ k ∈ range K, (I k + I (k + 1)) / 2 * dr := by
  -- each side is dr · Σ_{0<k<K} I k  (+ boundary terms that vanish)
  have lhs : ∀ k, ((toPES (fun k => (k : ℝ) * dr) I c k).2 + (toPES (fun k => (k : ℝ) * dr) I c (k + 1)).2) / 2
        * ((toPES (fun k => (k : ℝ) * dr) I c (k + 1)).1 - (toPES (fun k => (k : ℝ) * dr) I c k).1)
      = dr * ((if k = 0 then 0 else I k * ((2 * k + 1 : ℝ) / (4 * k))) + I (k + 1) * ((2 * k + 1 : ℝ) / (4 * (k + 1)))) := by
    intro k
    -- on this grid "r ≠ 0" is "k ≠ 0"
    have hcond : ∀ j : ℕ, (0 < (j : ℝ) * dr ∨ (j : ℝ) * dr < 0) ↔ j ≠ 0 := by
      intro j
      constructor
      · rintro h rfl; simp at h
      · intro hj
        have : (j : ℝ) * dr ≠ 0 := mul_ne_zero (by exact_mod_cast hj) hdr
        rcases lt_or_gt_of_ne this with h | h
        · exact Or.inr h
        · exact Or.inl h
    simp only [toPES, hcond]
    by_cases hk : k = 0
    · subst hk; simp [h0]; field_simp; ring
    · have hk' : (k : ℝ) ≠ 0 := by exact_mod_cast hk
      have hk1 : ((k : ℝ) + 1) ≠ 0 := by positivity
      simp only [hk, ne_eq, not_false_eq_true, if_true, Nat.add_eq_zero_iff, one_ne_zero, and_false]
      push_cast
      field_simp
      ring
  rw [Finset.sum_congr rfl (fun k _ => lhs k)]
  -- the coefficient of every interior I k is (2k+1)/(4k) + (2k−1)/(4k) = 1; only the last point is left over
  have gen : ∀ M : ℕ, (∑ k ∈ range (M + 1), dr * ((if k = 0 then 0 else I k * ((2 * k + 1 : ℝ) / (4 * k)))
        + I (k + 1) * ((2 * k + 1 : ℝ) / (4 * (k + 1)))))
      = (∑ k ∈ range (M + 1), (I k + I (k + 1)) / 2 * dr)
        + dr * I (M + 1) * ((2 * (M + 1 : ℕ) - 1 : ℝ) / (4 * (M + 1 : ℕ)) - 1 / 2) := by
    intro M
    induction M with
    | zero => simp [h0]; ring
    | succ M ihM =>
      rw [Finset.sum_range_succ, ihM, Finset.sum_range_succ _ (M + 1)]
      generalize (∑ k ∈ range (M + 1), (I k + I (k + 1)) / 2 * dr) = S
      have hM1 : ((M : ℝ) + 1) ≠ 0 := by positivity
      have hM2 : ((M : ℝ) + 1 + 1) ≠ 0 := by positivity
      simp only [Nat.add_eq_zero_iff, one_ne_zero, and_false, if_false]
      push_cast
      field_simp
      ring
  cases K with
  | zero => simp
  | succ M => rw [gen M, hK]; ring

open Finset in
section
/-- with its options, `toPES` is `toPES` with the effective calibration factor; a photon energy only mirrors the energy axis -/
theorem toPESOpts_eq (radial I : ℕ → ℝ) (c : ℝ) (vrep : Option ℝ) (zoom : ℝ) (k : ℕ) :
    toPESOpts radial I c vrep zoom none true k = toPES radial I (effCal c vrep zoom) k := by
  simp [toPESOpts, toPES]

theorem toPESOpts_photon (radial I : ℕ → ℝ) (c : ℝ) (vrep : Option ℝ) (zoom hv : ℝ) (k : ℕ) :
    toPESOpts radial I c vrep zoom (some hv) true k
      = (hv - (toPES radial I (effCal c vrep zoom) k).1, (toPES radial I (effCal c vrep zoom) k).2) := by
  simp [toPESOpts, toPES]

theorem effCal_ne_zero (c : ℝ) (vrep : Option ℝ) (zoom : ℝ) (hc : c ≠ 0) (hz : zoom ≠ 0) (hv : ∀ v, vrep = some v → v ≠ 0) :
    effCal c vrep zoom ≠ 0 := by
  unfold effCal
  cases vrep with
  | none => exact hc
  | some v =>
    have : v ≠ 0 := hv v rfl
    show c * HasAbs.abs v / (zoom * zoom) ≠ 0
    have ha : HasAbs.abs v = |v| := rfl
    rw [ha]
    have : (0 : ℝ) < |v| := abs_pos.mpr this
    positivity

/-- **toPES conserves the integrated intensity with every option**: repeller voltage and zoom (any non-zero values), kinetic or
    binding energies — the trapezoid sums over the energy grid and over the radial grid agree (up to the sign of the mirrored axis) -/
theorem toPES_conserves_opts (K : ℕ) (dr c zoom : ℝ) (vrep photon : Option ℝ) (hdr : dr ≠ 0) (hc : c ≠ 0) (hz : zoom ≠ 0)
    (hv : ∀ v, vrep = some v → v ≠ 0) (I : ℕ → ℝ) (h0 : I 0 = 0) (hK : I K = 0) :
    (∑ k ∈ range K,
        ((toPESOpts (fun k => (k : ℝ) * dr) I c vrep zoom photon true k).2 + (toPESOpts (fun k => (k : ℝ) * dr) I c vrep zoom photon true (k + 1)).2) / 2
          * ((toPESOpts (fun k => (k : ℝ) * dr) I c vrep zoom photon true (k + 1)).1 - (toPESOpts (fun k => (k : ℝ) * dr) I c vrep zoom photon true k).1))
      = (match photon with | some _ => -1 | none => 1) * ∑ k ∈ range K, (I k + I (k + 1)) / 2 * dr := by
  have hce := effCal_ne_zero c vrep zoom hc hz hv
  have base := toPES_conserves K dr (effCal c vrep zoom) hdr hce I h0 hK
  cases photon with
  | none =>
    simp only [toPESOpts_eq, one_mul]
    exact base
  | some hvv =>
    simp only [toPESOpts_photon]
    rw [← base, Finset.mul_sum]
    apply Finset.sum_congr rfl
    intro k _
    ring
end

/-! ### 6. circularisation with a constant correction samples every pixel at itself -/

theorem circularize_const_id (X Y c : ℝ) (hc : c ≠ 0) : circularizeCoords X Y c c = (X, Y) := by
  simp only [circularizeCoords]
  exact Prod.ext (by field_simp) (by field_simp)

end PyAbel.C19
