/-
C13 — origin finders return the true centre of symmetric images and follow shifts.

Model: PyAbel/Model/Origin.lean.  A 1-D profile `w` on pixels `0 … n-1` is *symmetric about
`c/2`* (`c` a natural number: centre on the half-pixel grid) when `w i = w (c - i)` for `i ≤ c`
and `w i = 0` for `i > c`.  For an image the profile is the projection on the axis
(`center_of_mass` and the convolution finder both act on the two projections independently).
-/
import PyAbel.Model.Origin
import PyAbel.Lemmas.Linalg
import Mathlib.Algebra.BigOperators.Intervals
import Mathlib.Algebra.Order.BigOperators.Ring.Finset
import Mathlib.Data.Real.Basic
import Mathlib.Tactic.Ring
import Mathlib.Tactic.FieldSimp
import Mathlib.Tactic.Linarith
import Mathlib.Tactic.LinearCombination
import Mathlib.Tactic.IntervalCases
import Mathlib.Algebra.BigOperators.Field
import Mathlib.Algebra.Order.Field.Rat

namespace PyAbel.C13
open PyAbel Finset

variable {K : Type} [Field K]

theorem sumRange_eq_finset (n : ℕ) (f : ℕ → K) : sumRange n f = ∑ i ∈ range n, f i := by
  induction n with
  | zero => simp [sumRange]
  | succ n ih => rw [sumRange_succ, ih, Finset.sum_range_succ]

/-- symmetric about `c/2` with support inside `[0, c]`, `c < n` -/
def SymAbout (n c : ℕ) (w : ℕ → K) : Prop :=
  c < n ∧ (∀ i, i ≤ c → w i = w (c - i)) ∧ (∀ i, c < i → w i = 0)

/-- first moment about the centre vanishes -/
theorem moment_symmetric [CharZero K] (n c : ℕ) (w : ℕ → K) (h : SymAbout n c w) :
    2 * (∑ i ∈ range n, (i : K) * w i) = (c : K) * ∑ i ∈ range n, w i := by
  obtain ⟨hc, hsym, hout⟩ := h
  -- restrict both sums to range (c+1)
  have restrict : ∀ g : ℕ → K, (∀ i, c < i → g i = 0) → ∑ i ∈ range n, g i = ∑ i ∈ range (c + 1), g i := by
    intro g hg
    have hsub : range (c + 1) ⊆ range n := by
      intro i hi; simp at hi ⊢; omega
    rw [← Finset.sum_subset hsub]
    intro i _ hi
    apply hg; simp at hi; omega
  rw [restrict (fun i => (i : K) * w i) (fun i hi => by simp [hout i hi]), restrict w hout]
  -- reflect i ↦ c - i
  have hrefl : ∑ i ∈ range (c + 1), (i : K) * w i = ∑ i ∈ range (c + 1), ((c - i : ℕ) : K) * w i := by
    rw [← Finset.sum_range_reflect]
    apply Finset.sum_congr rfl
    intro i hi
    simp at hi
    have : c + 1 - 1 - i = c - i := by omega
    rw [this, hsym i (by omega)]
  have : 2 * ∑ i ∈ range (c + 1), (i : K) * w i
      = ∑ i ∈ range (c + 1), ((i : K) * w i + ((c - i : ℕ) : K) * w i) := by
    rw [Finset.sum_add_distrib, ← hrefl]; ring
  rw [this, Finset.mul_sum]
  apply Finset.sum_congr rfl
  intro i hi
  simp at hi
  rw [Nat.cast_sub (by omega)]; ring

/-- **centre of mass of a symmetric profile is its centre** (`c/2`, on the half-pixel grid) -/
theorem com_symmetric [CharZero K] (n c : ℕ) (w : ℕ → K) (h : SymAbout n c w)
    (hne : sumRange n w ≠ 0) : com1 n w = (c : K) / 2 := by
  have hm := moment_symmetric n c w h
  unfold com1
  rw [sumRange_eq_finset, sumRange_eq_finset] at *
  field_simp
  linear_combination hm

/-- translating the content by `t` whole pixels moves the centre of mass by `t` -/
theorem com_translate (n t : ℕ) (w : ℕ → K) (hne : sumRange n w ≠ 0) :
    com1 (n + t) (fun i => if t ≤ i then w (i - t) else 0) = com1 n w + t := by
  unfold com1
  have shift : ∀ g : ℕ → K, sumRange (n + t) (fun i => if t ≤ i then g (i - t) else 0) = sumRange n g := by
    intro g
    rw [Nat.add_comm, sumRange_split t n]
    have hz : sumRange t (fun i => if t ≤ i then g (i - t) else 0) = 0 := by
      rw [sumRange_congr t _ (fun _ => (0 : K)) (fun i hi => by rw [if_neg (by omega)]), sumRange_zero]
    rw [hz, zero_add]
    apply sumRange_congr; intro i _; simp
  have h1 : sumRange (n + t) (fun i => ((i : ℕ) : K) * (if t ≤ i then w (i - t) else 0))
      = sumRange n (fun i => ((i : ℕ) : K) * w i) + t * sumRange n w := by
    have e : sumRange (n + t) (fun i => ((i : ℕ) : K) * (if t ≤ i then w (i - t) else 0))
        = sumRange (n + t) (fun i => if t ≤ i then (fun j => ((j + t : ℕ) : K) * w j) (i - t) else 0) := by
      apply sumRange_congr; intro i _; split_ifs with h
      · simp only; rw [Nat.sub_add_cancel h]
      · simp
    rw [e, shift (fun j => ((j + t : ℕ) : K) * w j), ← sumRange_smul, ← sumRange_add]
    apply sumRange_congr; intro i _; push_cast; ring
  rw [h1, shift w]
  field_simp

/-- multiplying the image by a non-zero constant does not move the centre of mass -/
theorem com_scale (n : ℕ) (w : ℕ → K) (a : K) (ha : a ≠ 0) :
    com1 n (fun i => a * w i) = com1 n w := by
  unfold com1
  have h1 : sumRange n (fun i => ((i : ℕ) : K) * (a * w i)) = a * sumRange n (fun i => ((i : ℕ) : K) * w i) := by
    rw [← sumRange_smul]; apply sumRange_congr; intro i _; ring
  rw [h1, sumRange_smul]
  by_cases h0 : sumRange n w = 0
  · simp [h0]
  · field_simp

/-! ### corollaries: symmetric image moved by a shift, empty margins, overall scale -/

/-- **the centre-of-mass finder follows the shift of a symmetric image exactly**: a profile symmetric about `c/2`, moved by `t` whole
    pixels inside a frame widened by `t`, has its centre of mass at `c/2 + t` -/
theorem com_symmetric_shifted [CharZero K] (n c t : ℕ) (w : ℕ → K) (h : SymAbout n c w) (hne : sumRange n w ≠ 0) :
    com1 (n + t) (fun i => if t ≤ i then w (i - t) else 0) = (c : K) / 2 + t := by
  rw [com_translate n t w hne, com_symmetric n c w h hne]

/-- **empty margins do not move the centre of mass**: widening the frame by `m` pixels that hold no intensity leaves it where it was -/
theorem com_zero_padding (n m : ℕ) (w : ℕ → K) (hz : ∀ i, n ≤ i → w i = 0) : com1 (n + m) w = com1 n w := by
  unfold com1
  have pad : ∀ g : ℕ → K, (∀ i, n ≤ i → g i = 0) → sumRange (n + m) g = sumRange n g := by
    intro g hg
    rw [sumRange_split n m g,
      sumRange_congr m _ (fun _ => (0 : K)) (fun i _ => hg (n + i) (Nat.le_add_right n i)), sumRange_zero, add_zero]
  rw [pad w hz, pad (fun i => ((i : ℕ) : K) * w i) (fun i hi => by rw [hz i hi, mul_zero])]

/-- the centre of mass of a symmetric profile does not depend on the frame it sits in, nor on its overall scale -/
theorem com_symmetric_any_frame [CharZero K] (n c m : ℕ) (w : ℕ → K) (a : K) (ha : a ≠ 0) (h : SymAbout n c w)
    (hne : sumRange n w ≠ 0) : com1 (n + m) (fun i => a * w i) = (c : K) / 2 := by
  rw [com_scale (n + m) w a ha, com_zero_padding n m w (fun i hi => h.2.2 i (by have := h.1; omega)), com_symmetric n c w h hne]

example : SymAbout 5 3 (fun i => if i ≤ 3 then (1 : ℚ) else 0) := by
  refine ⟨by decide, ?_, ?_⟩
  · intro i hi; simp [hi]
  · intro i hi; simp; omega

/-! ### autoconvolution: the symmetry centre is a maximum (over ℝ) -/

/-- every autoconvolution value is bounded by the energy `Σ p²` … -/
theorem autoconv_le (n : ℕ) (p : ℕ → ℝ) (k : ℕ) :
    autoconv n p k ≤ sumRange n (fun i => p i ^ 2) := by
  unfold autoconv
  rw [sumRange_eq_finset, sumRange_eq_finset]
  -- pair the terms: p i p (k-i) ≤ (p i² + p (k-i)²)/2, and i ↦ k - i is injective on the support
  have key : ∑ i ∈ range n, (if i ≤ k ∧ k - i < n then p i * p (k - i) else 0)
      ≤ ∑ i ∈ range n, (if i ≤ k ∧ k - i < n then (p i ^ 2 + p (k - i) ^ 2) / 2 else 0) := by
    apply Finset.sum_le_sum
    intro i _
    split_ifs
    · nlinarith [sq_nonneg (p i - p (k - i))]
    · exact le_refl _
  refine le_trans key ?_
  have split : ∑ i ∈ range n, (if i ≤ k ∧ k - i < n then (p i ^ 2 + p (k - i) ^ 2) / 2 else 0)
      = (∑ i ∈ range n, (if i ≤ k ∧ k - i < n then p i ^ 2 else 0)) / 2
        + (∑ i ∈ range n, (if i ≤ k ∧ k - i < n then p (k - i) ^ 2 else 0)) / 2 := by
    rw [← add_div, ← Finset.sum_add_distrib, Finset.sum_div]
    apply Finset.sum_congr rfl; intro i _; split_ifs <;> ring
  rw [split]
  have h1 : ∑ i ∈ range n, (if i ≤ k ∧ k - i < n then p i ^ 2 else 0) ≤ ∑ i ∈ range n, p i ^ 2 := by
    apply Finset.sum_le_sum; intro i _; split_ifs
    · exact le_refl _
    · exact sq_nonneg _
  have h2 : ∑ i ∈ range n, (if i ≤ k ∧ k - i < n then p (k - i) ^ 2 else 0) ≤ ∑ i ∈ range n, p i ^ 2 := by
    -- the map i ↦ k - i sends {i < n, i ≤ k, k - i < n} injectively into range n
    have : ∑ i ∈ range n, (if i ≤ k ∧ k - i < n then p (k - i) ^ 2 else 0)
        = ∑ i ∈ (range n).filter (fun i => i ≤ k ∧ k - i < n), p (k - i) ^ 2 := by
      rw [Finset.sum_filter]
    rw [this]
    have inj : ∀ a ∈ (range n).filter (fun i => i ≤ k ∧ k - i < n),
        ∀ b ∈ (range n).filter (fun i => i ≤ k ∧ k - i < n), k - a = k - b → a = b := by
      intro a ha b hb hab; simp at ha hb; omega
    rw [← Finset.sum_image (f := fun j => p j ^ 2) inj]
    apply Finset.sum_le_sum_of_subset_of_nonneg
    · intro j hj
      simp only [Finset.mem_image, Finset.mem_filter, Finset.mem_range] at hj
      obtain ⟨a, ⟨_, _, ha⟩, rfl⟩ := hj
      simp; exact ha
    · intro j _ _; exact sq_nonneg _
  linarith

/-- … and the bound is attained at the symmetry centre `k = c`. -/
theorem autoconv_at_centre (n c : ℕ) (p : ℕ → ℝ) (h : SymAbout n c p) :
    autoconv n p c = sumRange n (fun i => p i ^ 2) := by
  obtain ⟨hc, hsym, hout⟩ := h
  unfold autoconv
  apply sumRange_congr
  intro i hi
  by_cases hic : i ≤ c
  · have : c - i < n := by omega
    simp only [hic, this, and_self, if_true]
    rw [← hsym i hic]; ring
  · have : p i = 0 := hout i (by omega)
    simp [hic, this]

/-- hence the symmetry centre maximises the autoconvolution (`centre_is_unique_argmax` below: strictly, for a non-zero profile) -/
theorem centre_is_argmax (n c : ℕ) (p : ℕ → ℝ) (h : SymAbout n c p) (k : ℕ) :
    autoconv n p k ≤ autoconv n p c := by
  rw [autoconv_at_centre n c p h]; exact autoconv_le n p k

/-- equality in a termwise-bounded sum forces equality of every term -/
theorem eq_of_sum_eq {ι : Type} (s : Finset ι) (a b : ι → ℝ) (hle : ∀ i ∈ s, a i ≤ b i) (heq : ∑ i ∈ s, a i = ∑ i ∈ s, b i) :
    ∀ i ∈ s, a i = b i := by
  intro i hi
  by_contra hne
  have hlt : a i < b i := lt_of_le_of_ne (hle i hi) hne
  have : ∑ j ∈ s, a j < ∑ j ∈ s, b j := Finset.sum_lt_sum hle ⟨i, hi, hlt⟩
  linarith

/-- if the autoconvolution attains the energy at `k`, the profile is mirror-symmetric about `k/2` (within the frame) and vanishes where the
    mirror image falls outside -/
theorem autoconv_eq_energy (n : ℕ) (p : ℕ → ℝ) (k : ℕ) (h : autoconv n p k = sumRange n (fun i => p i ^ 2)) :
    ∀ i, i < n → (if i ≤ k ∧ k - i < n then p i = p (k - i) else p i = 0) := by
  unfold autoconv at h
  rw [sumRange_eq_finset, sumRange_eq_finset] at h
  -- the three sums of the proof of `autoconv_le`
  set A := ∑ i ∈ range n, (if i ≤ k ∧ k - i < n then p i * p (k - i) else 0) with hA
  set B1 := ∑ i ∈ range n, (if i ≤ k ∧ k - i < n then p i ^ 2 else 0) with hB1
  set B2 := ∑ i ∈ range n, (if i ≤ k ∧ k - i < n then p (k - i) ^ 2 else 0) with hB2
  set E := ∑ i ∈ range n, p i ^ 2 with hE
  have hAB : A ≤ (B1 + B2) / 2 := by
    rw [hA, hB1, hB2, ← Finset.sum_add_distrib, Finset.sum_div]
    apply Finset.sum_le_sum; intro i _
    split_ifs
    · nlinarith [sq_nonneg (p i - p (k - i))]
    · simp
  have h1 : B1 ≤ E := by
    apply Finset.sum_le_sum; intro i _; split_ifs
    · exact le_refl _
    · exact sq_nonneg _
  have h2 : B2 ≤ E := by
    have e : B2 = ∑ i ∈ (range n).filter (fun i => i ≤ k ∧ k - i < n), p (k - i) ^ 2 := by rw [hB2, Finset.sum_filter]
    rw [e]
    have inj : ∀ a ∈ (range n).filter (fun i => i ≤ k ∧ k - i < n),
        ∀ b ∈ (range n).filter (fun i => i ≤ k ∧ k - i < n), k - a = k - b → a = b := by
      intro a ha b hb hab; simp at ha hb; omega
    rw [← Finset.sum_image (f := fun j => p j ^ 2) inj]
    apply Finset.sum_le_sum_of_subset_of_nonneg
    · intro j hj
      simp only [Finset.mem_image, Finset.mem_filter, Finset.mem_range] at hj
      obtain ⟨a, ⟨_, _, ha⟩, rfl⟩ := hj
      simp; exact ha
    · intro j _ _; exact sq_nonneg _
  have hB1E : B1 = E := by linarith
  have hAeq : A = (B1 + B2) / 2 := by linarith
  -- termwise
  have t1 := eq_of_sum_eq (range n) (fun i => if i ≤ k ∧ k - i < n then p i ^ 2 else 0) (fun i => p i ^ 2)
    (by intro i _; split_ifs; exact le_refl _; exact sq_nonneg _) hB1E
  have t2 := eq_of_sum_eq (range n) (fun i => if i ≤ k ∧ k - i < n then p i * p (k - i) else 0)
    (fun i => (if i ≤ k ∧ k - i < n then (p i ^ 2 + p (k - i) ^ 2) / 2 else 0))
    (by intro i _; split_ifs; nlinarith [sq_nonneg (p i - p (k - i))]; exact le_refl _)
    (by
      rw [← hA, hAeq, hB1, hB2, ← Finset.sum_add_distrib, Finset.sum_div]
      apply Finset.sum_congr rfl; intro i _; split_ifs <;> ring)
  intro i hi
  have hi' := Finset.mem_range.mpr hi
  by_cases hc : i ≤ k ∧ k - i < n
  · rw [if_pos hc]
    have := t2 i hi'
    simp only [if_pos hc] at this
    nlinarith [sq_nonneg (p i - p (k - i))]
  · rw [if_neg hc]
    have := t1 i hi'
    simp only [if_neg hc] at this
    exact pow_eq_zero_iff (two_ne_zero) |>.mp this.symm

/-- first moment of `p²` for a profile mirror-symmetric about `k/2` in the sense of `autoconv_eq_energy` -/
theorem moment_of_mirror (n : ℕ) (p : ℕ → ℝ) (k : ℕ)
    (hF : ∀ i, i < n → (if i ≤ k ∧ k - i < n then p i = p (k - i) else p i = 0)) :
    2 * ∑ i ∈ range n, (i : ℝ) * p i ^ 2 = (k : ℝ) * ∑ i ∈ range n, p i ^ 2 := by
  set D := (range n).filter (fun i => i ≤ k ∧ k - i < n) with hD
  have off : ∀ i ∈ range n, i ∉ D → p i = 0 := by
    intro i hi hn
    have := hF i (Finset.mem_range.mp hi)
    have hc : ¬ (i ≤ k ∧ k - i < n) := by
      intro hc; exact hn (Finset.mem_filter.mpr ⟨hi, hc⟩)
    rwa [if_neg hc] at this
  have on : ∀ i ∈ D, p i = p (k - i) := by
    intro i hi
    obtain ⟨hi1, hc⟩ := Finset.mem_filter.mp hi
    have := hF i (Finset.mem_range.mp hi1)
    rwa [if_pos hc] at this
  have r1 : ∑ i ∈ range n, (i : ℝ) * p i ^ 2 = ∑ i ∈ D, (i : ℝ) * p i ^ 2 := by
    rw [hD, Finset.sum_filter]
    apply Finset.sum_congr rfl
    intro i hi
    by_cases hc : i ≤ k ∧ k - i < n
    · rw [if_pos hc]
    · rw [if_neg hc, off i hi (by intro h; exact hc (Finset.mem_filter.mp h).2)]; ring
  have r2 : ∑ i ∈ range n, p i ^ 2 = ∑ i ∈ D, p i ^ 2 := by
    rw [hD, Finset.sum_filter]
    apply Finset.sum_congr rfl
    intro i hi
    by_cases hc : i ≤ k ∧ k - i < n
    · rw [if_pos hc]
    · rw [if_neg hc, off i hi (by intro h; exact hc (Finset.mem_filter.mp h).2)]; ring
  have flip : ∑ i ∈ D, (i : ℝ) * p i ^ 2 = ∑ i ∈ D, ((k - i : ℕ) : ℝ) * p i ^ 2 := by
    apply Finset.sum_nbij' (fun i => k - i) (fun i => k - i)
    · intro i hi; simp only [hD, Finset.mem_filter, Finset.mem_range] at hi ⊢; omega
    · intro i hi; simp only [hD, Finset.mem_filter, Finset.mem_range] at hi ⊢; omega
    · intro i hi; simp only [hD, Finset.mem_filter, Finset.mem_range] at hi; omega
    · intro i hi; simp only [hD, Finset.mem_filter, Finset.mem_range] at hi; omega
    · intro i hi
      have hik : i ≤ k := by simp only [hD, Finset.mem_filter, Finset.mem_range] at hi; omega
      have e : k - (k - i) = i := by omega
      rw [e, on i hi]
  rw [r1, r2]
  have : 2 * ∑ i ∈ D, (i : ℝ) * p i ^ 2 = ∑ i ∈ D, ((i : ℝ) + ((k - i : ℕ) : ℝ)) * p i ^ 2 := by
    rw [two_mul]; nth_rewrite 2 [flip]; rw [← Finset.sum_add_distrib]; apply Finset.sum_congr rfl; intro i _; ring
  rw [this, Finset.mul_sum]
  apply Finset.sum_congr rfl
  intro i hi
  have hik : i ≤ k := by simp only [hD, Finset.mem_filter, Finset.mem_range] at hi; omega
  rw [Nat.cast_sub hik]; ring

/-- **the symmetry centre is the only maximum** of the autoconvolution of a non-zero profile: at every other lag the value is strictly
    smaller, so `argmax` (first or any) returns the centre — no ties -/
theorem centre_is_unique_argmax (n c : ℕ) (p : ℕ → ℝ) (h : SymAbout n c p) (hp : ∃ i, p i ≠ 0) (k : ℕ) (hk : k ≠ c) :
    autoconv n p k < autoconv n p c := by
  have hle := centre_is_argmax n c p h k
  rcases lt_or_eq_of_le hle with hlt | heq
  · exact hlt
  · exfalso
    rw [autoconv_at_centre n c p h] at heq
    have hF := autoconv_eq_energy n p k heq
    have m1 := moment_of_mirror n p k hF
    have hsq : SymAbout n c (fun i => p i ^ 2) := by
      obtain ⟨hc, hsym, hout⟩ := h
      exact ⟨hc, fun i hi => by simp only; rw [hsym i hi], fun i hi => by simp only; rw [hout i hi]; ring⟩
    have m2 := moment_symmetric n c (fun i => p i ^ 2) hsq
    have hE : 0 < ∑ i ∈ range n, p i ^ 2 := by
      obtain ⟨i, hi⟩ := hp
      have hin : i < n := by
        by_contra hge
        exact hi (h.2.2 i (by have := h.1; omega))
      have hpos : 0 < p i ^ 2 := by positivity
      exact lt_of_lt_of_le hpos (Finset.single_le_sum (f := fun j => p j ^ 2) (fun j _ => sq_nonneg _) (Finset.mem_range.mpr hin))
    have : ((k : ℝ) - (c : ℝ)) * ∑ i ∈ range n, p i ^ 2 = 0 := by linarith
    rcases mul_eq_zero.mp this with h0 | h0
    · have : (k : ℝ) = (c : ℝ) := by linarith
      exact hk (by exact_mod_cast this)
    · linarith

/-! non-vacuity: the profile 1,3,3,1 is symmetric about 3/2 -/
example : SymAbout 5 3 (fun i => if i = 0 ∨ i = 3 then (1 : ℚ) else if i = 1 ∨ i = 2 then 3 else 0) := by
  refine ⟨by norm_num, ?_, ?_⟩
  · intro i hi; interval_cases i <;> simp
  · intro i hi
    have h0 : i ≠ 0 := by omega
    have h1 : i ≠ 1 := by omega
    have h2 : i ≠ 2 := by omega
    have h3 : i ≠ 3 := by omega
    simp [h0, h1, h2, h3]

end PyAbel.C13
