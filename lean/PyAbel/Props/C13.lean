/-
C13 — origin finders return the true centre of symmetric images and follow shifts.

Model: PyAbel/Model/Origin.lean.  A 1-D profile `w` on pixels `0 … n-1` is *symmetric about
`c/2`* (`c` a natural number: centre on the half-pixel grid) when `w i = w (c - i)` for `i ≤ c`
and `w i = 0` for `i > c`.  For an image the profile is the projection on the axis
(`center_of_mass` and the convolution finder both act on the two projections independently).
-/
import PyAbel.Model.Origin
import PyAbel.Lemmas.Linalg
import Mathlib.Algebra.BigOperators.Intervals
import Mathlib.Algebra.Order.BigOperators.Ring.Finset
import Mathlib.Data.Real.Basic
import Mathlib.Tactic.Ring
import Mathlib.Tactic.FieldSimp
import Mathlib.Tactic.Linarith
import Mathlib.Tactic.LinearCombination
import Mathlib.Tactic.IntervalCases
import Mathlib.Algebra.BigOperators.Field
import Mathlib.Algebra.Order.Field.Rat

namespace PyAbel.C13
open PyAbel Finset

variable {K : Type} [Field K]

theorem sumRange_eq_finset (n : ℕ) (f : ℕ → K) : sumRange n f = ∑ i ∈ range n, f i := by
  induction n with
  | zero => simp [sumRange]
  | succ n ih => rw [sumRange_succ, ih, Finset.sum_range_succ]

/-- symmetric about `c/2` with support inside `[0, c]`, `c < n` -/
def SymAbout (n c : ℕ) (w : ℕ → K) : Prop :=
  c < n ∧ (∀ i, i ≤ c → w i = w (c - i)) ∧ (∀ i, c < i → w i = 0)

/-- first moment about the centre vanishes -/
theorem moment_symmetric [CharZero K] (n c : ℕ) (w : ℕ → K) (h : SymAbout n c w) :
    2 * (∑ i ∈ range n, (i : K) * w i) = (c : K) * ∑ i ∈ range n, w i := by
  obtain ⟨hc, hsym, hout⟩ := h
  -- restrict both sums to range (c+1)
  have restrict : ∀ g : ℕ → K, (∀ i, c < i → g i = 0) → ∑ i ∈ range n, g i = ∑ i ∈ range (c + 1), g i := by
    intro g hg
    have hsub : range (c + 1) ⊆ range n := by
      intro i hi; simp at hi ⊢; omega
    rw [← Finset.sum_subset hsub]
    intro i _ hi
    apply hg; simp at hi; omega
  rw [restrict (fun i => (i : K) * w i) (fun i hi => by simp [hout i hi]), restrict w hout]
  -- reflect i ↦ c - i
  have hrefl : ∑ i ∈ range (c + 1), (i : K) * w i = ∑ i ∈ range (c + 1), ((c - i : ℕ) : K) * w i := by
    rw [← Finset.sum_range_reflect]
    apply Finset.sum_congr rfl
    intro i hi
    simp at hi
    have : c + 1 - 1 - i = c - i := by omega
    rw [this, hsym i (by omega)]
  have : 2 * ∑ i ∈ range (c + 1), (i : K) * w i
      = ∑ i ∈ range (c + 1), ((i : K) * w i + ((c - i : ℕ) : K) * w i) := by
    rw [Finset.sum_add_distrib, ← hrefl]; ring
  rw [this, Finset.mul_sum]
  apply Finset.sum_congr rfl
  intro i hi
  simp at hi
  rw [Nat.cast_sub (by omega)]; ring

/-- **centre of mass of a symmetric profile is its centre** (`c/2`, on the half-pixel grid) -/
theorem com_symmetric [CharZero K] (n c : ℕ) (w : ℕ → K) (h : SymAbout n c w)
    (hne : sumRange n w ≠ 0) : com1 n w = (c : K) / 2 := by
  have hm := moment_symmetric n c w h
  unfold com1
  rw [sumRange_eq_finset, sumRange_eq_finset] at *
  field_simp
  linear_combination hm

/-- translating the content by `t` whole pixels moves the centre of mass by `t` -/
theorem com_translate (n t : ℕ) (w : ℕ → K) (hne : sumRange n w ≠ 0) :
    com1 (n + t) (fun i => if t ≤ i then w (i - t) else 0) = com1 n w + t := by
  unfold com1
  have shift : ∀ g : ℕ → K, sumRange (n + t) (fun i => if t ≤ i then g (i - t) else 0) = sumRange n g := by
    intro g
    rw [Nat.add_comm, sumRange_split t n]
    have hz : sumRange t (fun i => if t ≤ i then g (i - t) else 0) = 0 := by
      rw [sumRange_congr t _ (fun _ => (0 : K)) (fun i hi => by rw [if_neg (by omega)]), sumRange_zero]
    rw [hz, zero_add]
    apply sumRange_congr; intro i _; simp
  have h1 : sumRange (n + t) (fun i => ((i : ℕ) : K) * (if t ≤ i then w (i - t) else 0))
      = sumRange n (fun i => ((i : ℕ) : K) * w i) + t * sumRange n w := by
    have e : sumRange (n + t) (fun i => ((i : ℕ) : K) * (if t ≤ i then w (i - t) else 0))
        = sumRange (n + t) (fun i => if t ≤ i then (fun j => ((j + t : ℕ) : K) * w j) (i - t) else 0) := by
      apply sumRange_congr; intro i _; split_ifs with h
      · simp only; rw [Nat.sub_add_cancel h]
      · simp
    rw [e, shift (fun j => ((j + t : ℕ) : K) * w j), ← sumRange_smul, ← sumRange_add]
    apply sumRange_congr; intro i _; push_cast; ring
  rw [h1, shift w]
  field_simp

/-- multiplying the image by a non-zero constant does not move the centre of mass -/
theorem com_scale (n : ℕ) (w : ℕ → K) (a : K) (ha : a ≠ 0) :
    com1 n (fun i => a * w i) = com1 n w := by
  unfold com1
  have h1 : sumRange n (fun i => ((i : ℕ) : K) * (a * w i)) = a * sumRange n (fun i => ((i : ℕ) : K) * w i) := by
    rw [← sumRange_smul]; apply sumRange_congr; intro i _; ring
  rw [h1, sumRange_smul]
  by_cases h0 : sumRange n w = 0
  · simp [h0]
  · field_simp

/-! ### autoconvolution: the symmetry centre is a maximum (over ℝ) -/

/-- every autoconvolution value is bounded by the energy `Σ p²` … -/
theorem autoconv_le (n : ℕ) (p : ℕ → ℝ) (k : ℕ) :
    autoconv n p k ≤ sumRange n (fun i => p i ^ 2) := by
  unfold autoconv
  rw [sumRange_eq_finset, sumRange_eq_finset]
  -- pair the terms: p i p (k-i) ≤ (p i² + p (k-i)²)/2, and i ↦ k - i is injective on the support
  have key : ∑ i ∈ range n, (if i ≤ k ∧ k - i < n then p i * p (k - i) else 0)
      ≤ ∑ i ∈ range n, (if i ≤ k ∧ k - i < n then (p i ^ 2 + p (k - i) ^ 2) / 2 else 0) := by
    apply Finset.sum_le_sum
    intro i _
    split_ifs
    · nlinarith [sq_nonneg (p i - p (k - i))]
    · exact le_refl _
  refine le_trans key ?_
  have split : ∑ i ∈ range n, (if i ≤ k ∧ k - i < n then (p i ^ 2 + p (k - i) ^ 2) / 2 else 0)
      = (∑ i ∈ range n, (if i ≤ k ∧ k - i < n then p i ^ 2 else 0)) / 2
        + (∑ i ∈ range n, (if i ≤ k ∧ k - i < n then p (k - i) ^ 2 else 0)) / 2 := by
    rw [← add_div, ← Finset.sum_add_distrib, Finset.sum_div]
    apply Finset.sum_congr rfl; intro i _; split_ifs <;> ring
  rw [split]
  have h1 : ∑ i ∈ range n, (if i ≤ k ∧ k - i < n then p i ^ 2 else 0) ≤ ∑ i ∈ range n, p i ^ 2 := by
    apply Finset.sum_le_sum; intro i _; split_ifs
    · exact le_refl _
    · exact sq_nonneg _
  have h2 : ∑ i ∈ range n, (if i ≤ k ∧ k - i < n then p (k - i) ^ 2 else 0) ≤ ∑ i ∈ range n, p i ^ 2 := by
    -- the map i ↦ k - i sends {i < n, i ≤ k, k - i < n} injectively into range n
    have : ∑ i ∈ range n, (if i ≤ k ∧ k - i < n then p (k - i) ^ 2 else 0)
        = ∑ i ∈ (range n).filter (fun i => i ≤ k ∧ k - i < n), p (k - i) ^ 2 := by
      rw [Finset.sum_filter]
    rw [this]
    have inj : ∀ a ∈ (range n).filter (fun i => i ≤ k ∧ k - i < n),
        ∀ b ∈ (range n).filter (fun i => i ≤ k ∧ k - i < n), k - a = k - b → a = b := by
      intro a ha b hb hab; simp at ha hb; omega
    rw [← Finset.sum_image (f := fun j => p j ^ 2) inj]
    apply Finset.sum_le_sum_of_subset_of_nonneg
    · intro j hj
      simp only [Finset.mem_image, Finset.mem_filter, Finset.mem_range] at hj
      obtain ⟨a, ⟨_, _, ha⟩, rfl⟩ := hj
      simp; exact ha
    · intro j _ _; exact sq_nonneg _
  linarith

/-- … and the bound is attained at the symmetry centre `k = c`. -/
theorem autoconv_at_centre (n c : ℕ) (p : ℕ → ℝ) (h : SymAbout n c p) :
    autoconv n p c = sumRange n (fun i => p i ^ 2) := by
  obtain ⟨hc, hsym, hout⟩ := h
  unfold autoconv
  apply sumRange_congr
  intro i hi
  by_cases hic : i ≤ c
  · have : c - i < n := by omega
    simp only [hic, this, and_self, if_true]
    rw [← hsym i hic]; ring
  · have : p i = 0 := hout i (by omega)
    simp [hic, this]

/-- hence the symmetry centre maximises the autoconvolution: `argmax/2 = c/2` up to ties -/
theorem centre_is_argmax (n c : ℕ) (p : ℕ → ℝ) (h : SymAbout n c p) (k : ℕ) :
    autoconv n p k ≤ autoconv n p c := by
  rw [autoconv_at_centre n c p h]; exact autoconv_le n p k

/-! non-vacuity: the profile 1,3,3,1 is symmetric about 3/2 -/
example : SymAbout 5 3 (fun i => if i = 0 ∨ i = 3 then (1 : ℚ) else if i = 1 ∨ i = 2 then 3 else 0) := by
  refine ⟨by norm_num, ?_, ?_⟩
  · intro i hi; interval_cases i <;> simp
  · intro i hi
    have h0 : i ≠ 0 := by omega
    have h1 : i ≠ 1 := by omega
    have h2 : i ≠ 2 := by omega
    have h3 : i ≠ 3 := by omega
    simp [h0, h1, h2, h3]

end PyAbel.C13
