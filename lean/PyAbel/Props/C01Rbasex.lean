/-
C01 — rBasex inverse transform recovers exactly any distribution of its own function space from its exact projection: if the
data at the integer distances r ≥ 1 are the true line-of-sight integrals of  Σ_R c_R b_R(ρ)·(r/ρ)ⁿ  (radially piecewise linear,
angular order n), and the axis sample is what the basis assigns to it, then the triangular solve with `P[n]` returns the
coefficients `c_R` themselves — for every order, every `Rmax`, every coefficient vector.
-/
import PyAbel.Props.C02Rbasex

namespace PyAbel.C01
open PyAbel PyAbel.C09 PyAbel.C03 PyAbel.C02

theorem rbasex_inverse_exact (n N : ℕ) (c : ℕ → ℝ) (i : ℕ) (hi : i < N) :
    daunInv N (fun R r => (RbxBasis.P n R r : ℝ))
      (fun r => if r = 0 then sumRange N (fun R => c R * (RbxBasis.P n R 0 : ℝ))
                else Abel (fun ρ => (sumRange N fun R => c R * hat R ρ) * ((r : ℝ) / ρ) ^ n) r) i = c i := by
  have e : (fun r : ℕ => if r = 0 then sumRange N (fun R => c R * (RbxBasis.P n R 0 : ℝ))
                else Abel (fun ρ => (sumRange N fun R => c R * hat R ρ) * ((r : ℝ) / ρ) ^ n) r)
      = daunFwd N (fun R r => (RbxBasis.P n R r : ℝ)) c := by
    funext r
    by_cases h0 : r = 0
    · subst h0; simp [daunFwd, vecMat]
    · rw [if_neg h0, ← rbasex_forward_exact n N c r (Nat.one_le_iff_ne_zero.mpr h0)]
      simp [daunFwd, vecMat]
  rw [e]
  exact (rbasex_radial_roundtrip n N c i hi).1

end PyAbel.C01
