/-
C07 / C20 — the in-memory transform caches of `rbasex.get_bs_cached` (Model/RbasexCache.lean): whatever the history of
requests (other sizes, orders, masks of valid radii, regularisations — valid or not — and cleanups),

  * a call that returns, returns matrices made from exactly the basis, mask and regularisation it asked for
    (`call_returns_requested`): the cache is transparent;
  * a request whose regularisation cannot be honoured raises — never the matrices of an earlier request
    (`invalid_reg_raises`): C20's "never silently substituted" along histories.

Both follow from an invariant of the globals (`Inv`) that every call and cleanup preserves.
-/
import PyAbel.Model.RbasexCache

namespace PyAbel.C07R
open PyAbel.RbxCache

variable {K V R : Type} [DecidableEq K] [DecidableEq V] [DecidableEq R]

/-- the cached matrices are what their keys say: `_trf` was made from the basis and mask now in force; `_tri_prm = [r]` only with
    `_tri` made from the basis, mask and `r`, and only for an `r` that can be honoured; `_tri_full` belongs to the basis in memory -/
def Inv (ok : K → R → Bool) (s : St K V R) : Prop :=
  (∀ t, s.trf = some t → s.bsPrm = some t.1 ∧ t.2 = s.validKey) ∧
  (∀ r, s.triPrm = some r → ∃ k, s.bsPrm = some k ∧ s.tri = some (k, s.validKey, r) ∧ ok k r = true) ∧
  (∀ k, s.triFull = some k → s.bsPrm = some k)

omit [DecidableEq K] [DecidableEq V] [DecidableEq R] in
theorem inv_init (ok : K → R → Bool) (v0 : V) : Inv ok (St.init v0 : St K V R) := by
  refine ⟨?_, ?_, ?_⟩ <;> intro _ h <;> simp [St.init] at h

omit [DecidableEq K] [DecidableEq V] [DecidableEq R] in
theorem inv_cleanup (ok : K → R → Bool) (s : St K V R) (sel : Select) (h : Inv ok s) : Inv ok (cleanup s sel) := by
  obtain ⟨h1, h2, h3⟩ := h
  cases sel
  · refine ⟨?_, ?_, ?_⟩ <;> intro _ h <;> simp [cleanup] at h
  · refine ⟨?_, ?_, ?_⟩
    · intro _ h; simp [cleanup] at h
    · intro r h; exact h2 r (by simpa [cleanup] using h)
    · intro k h; exact h3 k (by simpa [cleanup] using h)
  · refine ⟨?_, ?_, ?_⟩
    · intro t h; exact h1 t (by simpa [cleanup] using h)
    · intro _ h; simp [cleanup] at h
    · intro _ h; simp [cleanup] at h

/-- **one call**: the invariant is kept, the answer (if any) is made from what was asked for, and an impossible regularisation
    raises -/
theorem call_spec (ok : K → R → Bool) (noreg : R → Bool) (s : St K V R) (q : Req K V R) (h : Inv ok s) :
    Inv ok (call ok noreg s q).1 ∧
    (∀ t, (call ok noreg s q).2 = .fwd t → q.forward = true ∧ t = (q.k, q.v)) ∧
    (∀ t, (call ok noreg s q).2 = .inv t → q.forward = false ∧ t = (q.k, q.v, q.reg) ∧ ok q.k q.reg = true) ∧
    (q.forward = false → ok q.k q.reg = false → (call ok noreg s q).2 = .raise) := by
  obtain ⟨bp, vk, trf, tf, tp, tri⟩ := s
  obtain ⟨k, v, fw, reg⟩ := q
  obtain ⟨h1, h2, h3⟩ := h
  simp only at h1 h2 h3
  unfold call Inv
  simp only
  grind (splits := 40)

theorem inv_step (ok : K → R → Bool) (noreg : R → Bool) (s : St K V R) (op : Op K V R) (h : Inv ok s) : Inv ok (step ok noreg s op) := by
  cases op with
  | call q => exact (call_spec ok noreg s q h).1
  | cleanup sel => exact inv_cleanup ok s sel h

/-- the invariant holds in every state a session can reach -/
theorem inv_run (ok : K → R → Bool) (noreg : R → Bool) (s : St K V R) (ops : List (Op K V R)) (h : Inv ok s) : Inv ok (run ok noreg s ops) := by
  induction ops generalizing s with
  | nil => exact h
  | cons op ops ih => exact ih _ (inv_step ok noreg s op h)

/-- **cache transparency along any history**: after any sequence of calls and cleanups since the start of the process, a call
    that returns matrices returns those of the basis, mask and regularisation it names -/
theorem call_returns_requested (ok : K → R → Bool) (noreg : R → Bool) (v0 : V) (ops : List (Op K V R)) (q : Req K V R) :
    let out := (call ok noreg (run ok noreg (St.init v0) ops) q).2
    (∀ t, out = .fwd t → q.forward = true ∧ t = (q.k, q.v)) ∧
    (∀ t, out = .inv t → q.forward = false ∧ t = (q.k, q.v, q.reg) ∧ ok q.k q.reg = true) :=
  let h := call_spec ok noreg _ q (inv_run ok noreg _ ops (inv_init ok v0))
  ⟨h.2.1, h.2.2.1⟩

/-- **an impossible regularisation raises whatever came before** (in particular right after the same request has raised, and
    after requests whose matrices are still in memory) -/
theorem invalid_reg_raises (ok : K → R → Bool) (noreg : R → Bool) (v0 : V) (ops : List (Op K V R)) (q : Req K V R)
    (hf : q.forward = false) (hbad : ok q.k q.reg = false) :
    (call ok noreg (run ok noreg (St.init v0) ops) q).2 = .raise :=
  (call_spec ok noreg _ q (inv_run ok noreg _ ops (inv_init ok v0))).2.2.2 hf hbad

/-- a forward request is never answered with inverse matrices, nor an inverse one with forward matrices -/
theorem direction_respected (ok : K → R → Bool) (noreg : R → Bool) (v0 : V) (ops : List (Op K V R)) (q : Req K V R) :
    (q.forward = true → ∀ t, (call ok noreg (run ok noreg (St.init v0) ops) q).2 ≠ .inv t) ∧
    (q.forward = false → ∀ t, (call ok noreg (run ok noreg (St.init v0) ops) q).2 ≠ .fwd t) := by
  have h := call_returns_requested ok noreg v0 ops q
  constructor
  · intro hf t ht
    have := (h.2 t ht).1
    rw [hf] at this; cases this
  · intro hf t ht
    have := (h.1 t ht).1
    rw [hf] at this; cases this

/-! non-vacuity, on a concrete instance: keys are numbers, regularisation 0 is `None`, 1 is valid, 2 cannot be honoured -/
section
def okEx : Nat → Nat → Bool := fun _ r => r != 2

/-- a valid request, then the impossible one twice: both raise, and the valid one is answered from the cache afterwards -/
example :
    let s1 := (call okEx (fun r => r == 0) (St.init 0 : St Nat Nat Nat) ⟨7, 0, false, 1⟩).1
    let r2 := call okEx (fun r => r == 0) s1 ⟨7, 0, false, 2⟩
    let r3 := call okEx (fun r => r == 0) r2.1 ⟨7, 0, false, 2⟩
    let r4 := call okEx (fun r => r == 0) r3.1 ⟨7, 0, false, 1⟩
    (match r2.2 with | .raise => true | _ => false) = true ∧ (match r3.2 with | .raise => true | _ => false) = true ∧
    (match r4.2 with | .inv t => t == (7, 0, 1) | _ => false) = true := by decide

/-- a mask change invalidates the forward matrices: the next forward call returns matrices for the new mask -/
example :
    let s1 := (call okEx (fun r => r == 0) (St.init 0 : St Nat Nat Nat) ⟨7, 0, true, 0⟩).1
    (match (call okEx (fun r => r == 0) s1 ⟨7, 5, true, 0⟩).2 with | .fwd t => t == (7, 5) | _ => false) = true := by decide
end

end PyAbel.C07R
