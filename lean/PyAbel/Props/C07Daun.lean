/-
C07 — the in-memory caches of `abel.daun.get_bs_cached` (Model/DaunCache.lean): after any history of calls and clean-ups, a call hands out
the matrix the request names — the basis, the unregularised transform matrix or the regularised one, of the requested degree, built from a
basis that covers the requested size (exactly that size for the cubic splines), with the requested regulariser and strength.
-/
import PyAbel.Model.DaunCache

namespace PyAbel.C07D
open PyAbel.DaunCache

variable {R S : Type} [DecidableEq R] [DecidableEq S]

/-- what is in `_tr` was made from the basis in `_bs`, and `_tr_prm` names it -/
def Inv (zero : S → Bool) (st : St R S) : Prop :=
  (st.tr = none ∧ st.trPrm = none)
  ∨ (∃ sz dg m k, st.bs = some (sz, dg) ∧ st.tr = some (.full sz dg) ∧ st.trPrm = some (m, k, none))
  ∨ (∃ sz dg n r s, st.bs = some (sz, dg) ∧ st.tr = some (.reg sz dg n r s) ∧ st.trPrm = some (n, .lin r, some s) ∧ zero s = false)

omit [DecidableEq R] [DecidableEq S] in
theorem inv_init (zero : S → Bool) : Inv zero (St.init : St R S) := Or.inl ⟨rfl, rfl⟩

/-- the request is served by a basis of the requested degree that covers the requested size -/
def covers (sz dg : Nat) (q : Req R S) : Prop := dg = q.deg ∧ q.n ≤ sz ∧ (q.deg = 3 → sz = q.n)

theorem bsOK_covers (sz dg n deg : Nat) (h : bsOK (some (sz, dg)) n deg = true) : dg = deg ∧ n ≤ sz ∧ (deg = 3 → sz = n) := by
  unfold bsOK at h
  simp only [Bool.and_eq_true, beq_iff_eq] at h
  obtain ⟨h1, h2⟩ := h
  by_cases h3 : deg = 3
  · rw [if_pos h3] at h2; simp only [beq_iff_eq] at h2; exact ⟨h1, by omega, fun _ => h2⟩
  · rw [if_neg h3] at h2; simp only [decide_eq_true_eq] at h2; exact ⟨h1, h2, fun h => absurd h h3⟩

/-- one call: the invariant is kept and the matrix handed out is the requested one -/
theorem call_spec (zero : S → Bool) (st : St R S) (q : Req R S) (h : Inv zero st) :
    Inv zero (call zero st q).1 ∧
    (match (call zero st q).2 with
     | .basis sz dg n => (q.forward = true ∨ q.kind = .nonneg) ∧ n = q.n ∧ covers sz dg q
     | .full sz dg n => q.forward = false ∧ (q.kind = .none ∨ ∃ r, q.kind = .lin r ∧ zero q.s = true) ∧ n = q.n ∧ covers sz dg q
     | .reg sz dg n r s => q.forward = false ∧ q.kind = .lin r ∧ s = q.s ∧ zero q.s = false ∧ n = q.n ∧ covers sz dg q
     | .raise => False) := by
  obtain ⟨bs, tr, prm⟩ := st
  obtain ⟨n, deg, kind, s, fw⟩ := q
  unfold Inv at h
  simp only at h
  -- the basis that serves the request, after the first statement
  have key : ∀ (tr' : Option (Tr R S)) (prm' : Option (Nat × Kind R × Option S)),
      ∃ sz dg tr'' prm'', (if bsOK bs n deg then (⟨bs, tr', prm'⟩ : St R S) else ⟨some (n, deg), none, none⟩) = ⟨some (sz, dg), tr'', prm''⟩
        ∧ dg = deg ∧ n ≤ sz ∧ (deg = 3 → sz = n)
        ∧ ((bsOK bs n deg = true ∧ bs = some (sz, dg) ∧ tr'' = tr' ∧ prm'' = prm') ∨ (bsOK bs n deg = false ∧ sz = n ∧ tr'' = none ∧ prm'' = none)) := by
    intro tr' prm'
    by_cases hok : bsOK bs n deg = true
    · rw [if_pos hok]
      match bs, hok with
      | some (sz, dg), hok =>
        obtain ⟨h1, h2, h3⟩ := bsOK_covers sz dg n deg hok
        exact ⟨sz, dg, tr', prm', rfl, h1, h2, h3, Or.inl ⟨hok, rfl, rfl, rfl⟩⟩
    · rw [if_neg hok]
      have hok' : bsOK bs n deg = false := by cases hh : bsOK bs n deg <;> simp_all
      exact ⟨n, deg, none, none, rfl, rfl, Nat.le_refl _, fun _ => rfl, Or.inr ⟨hok', rfl, rfl, rfl⟩⟩
  obtain ⟨sz, dg, tr1, prm1, hs1, hdg, hle, h3, hcase⟩ := key tr prm
  unfold call covers Inv
  simp only [hs1]
  subst hdg
  -- the invariant of the state after the first statement
  have hinv1 : (tr1 = none ∧ prm1 = none)
      ∨ (∃ m k, tr1 = some (.full sz dg) ∧ prm1 = some (m, k, none))
      ∨ (∃ n' r s', tr1 = some (.reg sz dg n' r s') ∧ prm1 = some (n', .lin r, some s') ∧ zero s' = false) := by
    rcases hcase with ⟨_, hb, rfl, rfl⟩ | ⟨_, _, rfl, rfl⟩
    · subst hb
      rcases h with ⟨h1, h2⟩ | ⟨a, b, m, k, hb', ht, hp⟩ | ⟨a, b, n', r, s', hb', ht, hp, hz⟩
      · exact Or.inl ⟨h1, h2⟩
      · simp only [Option.some.injEq, Prod.mk.injEq] at hb'; obtain ⟨rfl, rfl⟩ := hb'; exact Or.inr (Or.inl ⟨m, k, ht, hp⟩)
      · simp only [Option.some.injEq, Prod.mk.injEq] at hb'; obtain ⟨rfl, rfl⟩ := hb'; exact Or.inr (Or.inr ⟨n', r, s', ht, hp, hz⟩)
    · exact Or.inl ⟨rfl, rfl⟩
  clear hcase h hs1 key
  cases fw with
  | true => simp; refine ⟨?_, hle, h3⟩; grind
  | false =>
    cases kind with
    | nonneg => simp; refine ⟨?_, hle, h3⟩; grind
    | none =>
      rcases hinv1 with ⟨rfl, rfl⟩ | ⟨m, k, rfl, rfl⟩ | ⟨n', r, s', rfl, rfl, hz⟩
      · simp; exact ⟨hle, h3⟩
      · simp; exact ⟨hle, h3⟩
      · simp [hz]; exact ⟨hle, h3⟩
    | lin r0 =>
      by_cases hz0 : zero s = true
      · rcases hinv1 with ⟨rfl, rfl⟩ | ⟨m, k, rfl, rfl⟩ | ⟨n', r, s', rfl, rfl, hz⟩
        · simp [hz0]; exact ⟨hle, h3⟩
        · simp [hz0]; exact ⟨hle, h3⟩
        · simp [hz0, hz]; exact ⟨hle, h3⟩
      · have hz0' : zero s = false := by cases hh : zero s <;> simp_all
        rcases hinv1 with ⟨rfl, rfl⟩ | ⟨m, k, rfl, rfl⟩ | ⟨n', r, s', rfl, rfl, hz⟩
        · simp [hz0']; exact ⟨⟨sz, dg, ⟨rfl, rfl⟩, n, r0, s, by simp, by simp, hz0'⟩, hle, h3⟩
        · simp [hz0']; exact ⟨⟨sz, dg, ⟨rfl, rfl⟩, n, r0, s, by simp, by simp, hz0'⟩, hle, h3⟩
        · simp only [hz0']
          by_cases hsame : (some (n', Kind.lin r, some s') : Option (Nat × Kind R × Option S)) = some (n, Kind.lin r0, some s)
          · simp only [Option.some.injEq, Prod.mk.injEq, Kind.lin.injEq] at hsame
            obtain ⟨rfl, rfl, rfl⟩ := hsame
            simp; exact ⟨⟨sz, dg, ⟨rfl, rfl⟩, n', r, s', by simp, by simp, hz⟩, hle, h3⟩
          · simp [hsame]; exact ⟨⟨sz, dg, ⟨rfl, rfl⟩, n, r0, s, by simp, by simp, hz0'⟩, hle, h3⟩

omit [DecidableEq R] [DecidableEq S] in
theorem inv_cleanup (zero : S → Bool) (st : St R S) (sel : Select) (_h : Inv zero st) : Inv zero (cleanup st sel) := by
  cases sel <;> exact Or.inl ⟨rfl, rfl⟩

theorem inv_step (zero : S → Bool) (st : St R S) (op : Op R S) (h : Inv zero st) : Inv zero (step zero st op) := by
  cases op with
  | call q => exact (call_spec zero st q h).1
  | cleanup sel => exact inv_cleanup zero st sel h

theorem inv_run (zero : S → Bool) (st : St R S) (ops : List (Op R S)) (h : Inv zero st) : Inv zero (run zero st ops) := by
  induction ops generalizing st with
  | nil => exact h
  | cons op ops ih => exact ih _ (inv_step zero st op h)

/-- **after any history** of calls and clean-ups, a call hands out the matrix its request names, made from a basis of the requested degree
    that covers the requested size — never a matrix left over from another degree, size, regulariser or strength -/
theorem call_returns_requested (zero : S → Bool) (ops : List (Op R S)) (q : Req R S) :
    match (call zero (run zero (St.init : St R S) ops) q).2 with
    | .basis sz dg n => (q.forward = true ∨ q.kind = .nonneg) ∧ n = q.n ∧ covers sz dg q
    | .full sz dg n => q.forward = false ∧ (q.kind = .none ∨ ∃ r, q.kind = .lin r ∧ zero q.s = true) ∧ n = q.n ∧ covers sz dg q
    | .reg sz dg n r s => q.forward = false ∧ q.kind = .lin r ∧ s = q.s ∧ zero q.s = false ∧ n = q.n ∧ covers sz dg q
    | .raise => False :=
  (call_spec zero _ q (inv_run zero _ ops (inv_init zero))).2

/-! non-vacuity on a concrete instance: regulariser names and strengths are numbers, strength 0 is zero -/
section
/-- a regularised call, then no regularisation with the same size and degree: the unregularised matrix is rebuilt -/
example :
    let z : Nat → Bool := fun s => s == 0
    let s1 := (call z (St.init : St Nat Nat) ⟨9, 3, .lin 1, 5, false⟩).1
    (call z s1 ⟨9, 3, .none, 0, false⟩).2 = .full 9 3 9 := by decide

/-- L2 then L2c with the same strength are different requests -/
example :
    let z : Nat → Bool := fun s => s == 0
    let s1 := (call z (St.init : St Nat Nat) ⟨9, 1, .lin 1, 5, false⟩).1
    (call z s1 ⟨9, 1, .lin 2, 5, false⟩).2 = .reg 9 1 9 2 5 := by decide

/-- a smaller size of degree 1 is served from the cached larger basis, of degree 3 it is not -/
example :
    let z : Nat → Bool := fun s => s == 0
    let s1 := (call z (St.init : St Nat Nat) ⟨12, 1, .none, 0, true⟩).1
    let s3 := (call z (St.init : St Nat Nat) ⟨12, 3, .none, 0, true⟩).1
    (call z s1 ⟨9, 1, .none, 0, true⟩).2 = .basis 12 1 9 ∧ (call z s3 ⟨9, 3, .none, 0, true⟩).2 = .basis 9 3 9 := by decide
end
end PyAbel.C07D
