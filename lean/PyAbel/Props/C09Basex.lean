/-
C09 — the BASEX projected basis (abel/basex.py `_bs_basex`): the series the code sums for χ_k is the Abel integral of its basis function
ρ_k(r) = (e/k²)^{k²} (r/σ)^{2k²} exp(−(r/σ)²), for every k, σ > 0 and distance x ≥ 0 — binomial expansion of (x² + z²)^{k²} and the Gaussian
moments ∫₀^∞ z^{2m} e^{−z²} dz = Γ(m + ½)/2 (Mathlib).  The log-Gamma tables of the code are finite products here (`lnfact`, `lnhalf`).
Not proved: the two shoulders of the code (terms beyond ± 9(u + 2) of the largest one are dropped; χ_k = 0 for u > k + 8) — the dropped part
is measured against quadrature by the check.
-/
import PyAbel.Lemmas.AbelLinear
import PyAbel.Lemmas.RealInst
import PyAbel.Model.Basex
import Mathlib.MeasureTheory.Integral.Gamma
import Mathlib.Analysis.SpecialFunctions.Gaussian.GaussianIntegral
import Mathlib.Analysis.SpecialFunctions.Gamma.Basic
open MeasureTheory Set
namespace PyAbel.C09
open PyAbel PyAbel.Basex

theorem exp_lnfact (n : ℕ) : Real.exp (lnfact n : ℝ) = (n.factorial : ℝ) := by
  induction n with
  | zero => simp [lnfact]
  | succ n ih =>
    unfold lnfact
    simp only [log_real]
    rw [Real.exp_add, ih, Real.exp_log (by positivity), Nat.factorial_succ]; push_cast; ring

theorem exp_lnhalf (n : ℕ) : Real.exp (lnhalf n : ℝ) = Real.Gamma ((n : ℝ) + 1 / 2) := by
  induction n with
  | zero =>
    unfold lnhalf
    simp only [log_real, sqrt_real, pi_real]
    rw [Real.exp_log (Real.sqrt_pos.mpr Real.pi_pos), show ((0 : ℕ) : ℝ) + 1 / 2 = 1 / 2 by norm_num, Real.Gamma_one_half_eq]
  | succ n ih =>
    unfold lnhalf
    simp only [log_real]
    have hpos : (0 : ℝ) < ((2 * n + 1 : ℕ) : ℝ) / ((2 : ℕ) : ℝ) := by positivity
    rw [Real.exp_add, ih, Real.exp_log hpos]
    have hne : (n : ℝ) + 1 / 2 ≠ 0 := by positivity
    have := Real.Gamma_add_one hne
    rw [show ((n + 1 : ℕ) : ℝ) + 1 / 2 = (n : ℝ) + 1 / 2 + 1 by push_cast; ring, this]
    push_cast; ring

/-- Gaussian moments on the half line: `∫₀^∞ z^{2m} e^{−z²} dz = Γ(m + ½)/2` -/
theorem gaussian_moment (m : ℕ) : ∫ z in Ioi (0 : ℝ), z ^ (2 * m) * Real.exp (-(z ^ 2)) = Real.Gamma ((m : ℝ) + 1 / 2) / 2 := by
  have h := integral_rpow_mul_exp_neg_rpow (p := 2) (q := 2 * (m : ℝ)) (by norm_num) (by have := Nat.cast_nonneg (α := ℝ) m; linarith)
  have e : ∀ z ∈ Ioi (0 : ℝ), z ^ (2 * m) * Real.exp (-(z ^ 2)) = z ^ (2 * (m : ℝ)) * Real.exp (-z ^ (2 : ℝ)) := by
    intro z hz
    have hz0 : (0 : ℝ) < z := hz
    rw [Real.rpow_two, show (2 * (m : ℝ)) = ((2 * m : ℕ) : ℝ) by push_cast; ring, Real.rpow_natCast]
  rw [setIntegral_congr_fun measurableSet_Ioi e, h]
  rw [show (2 * (m : ℝ) + 1) / 2 = (m : ℝ) + 1 / 2 by ring]; ring

theorem gaussian_moment_integrable (m : ℕ) : IntegrableOn (fun z : ℝ => z ^ (2 * m) * Real.exp (-(z ^ 2))) (Ioi 0) := by
  have h := integrableOn_rpow_mul_exp_neg_rpow (p := 2) (s := 2 * (m : ℝ)) (by have := Nat.cast_nonneg (α := ℝ) m; linarith) (by norm_num)
  refine h.congr_fun ?_ measurableSet_Ioi
  intro z hz
  have hz0 : (0 : ℝ) < z := hz
  show z ^ (2 * (m : ℝ)) * Real.exp (-z ^ (2 : ℝ)) = z ^ (2 * m) * Real.exp (-(z ^ 2))
  rw [Real.rpow_two, show (2 * (m : ℝ)) = ((2 * m : ℕ) : ℝ) by push_cast; ring, Real.rpow_natCast]

/-- **BASEX basis functions**: the Abel integral of `ρ(r) = r^{2K} e^{−r²}` (the unnormalised basis function of index `k`, `K = k²`, in
    units of σ) is `e^{−x²} Σ_{l ≤ K} C(K, l) x^{2l} Γ(K − l + ½)` — the series `_bs_basex` sums (binomial theorem and the Gaussian
    moments) -/
theorem abel_basex_rho (K : ℕ) (x : ℝ) :
    Abel (fun r => (r ^ 2) ^ K * Real.exp (-(r ^ 2))) x
      = Real.exp (-(x ^ 2)) * ∑ l ∈ Finset.range (K + 1), (K.choose l : ℝ) * (x ^ 2) ^ l * Real.Gamma (((K - l : ℕ) : ℝ) + 1 / 2) := by
  unfold Abel
  have hint : ∀ z : ℝ, (Real.sqrt (x ^ 2 + z ^ 2) ^ 2) ^ K * Real.exp (-(Real.sqrt (x ^ 2 + z ^ 2) ^ 2))
      = ∑ l ∈ Finset.range (K + 1), ((K.choose l : ℝ) * (x ^ 2) ^ l * Real.exp (-(x ^ 2))) * (z ^ (2 * (K - l)) * Real.exp (-(z ^ 2))) := by
    intro z
    rw [Real.sq_sqrt (by positivity), add_pow, neg_add, Real.exp_add, Finset.sum_mul]
    apply Finset.sum_congr rfl
    intro l _
    rw [pow_mul]; ring
  simp only [hint]
  rw [integral_finsetSum _ (fun l _ => (gaussian_moment_integrable (K - l)).const_mul _)]
  have hterm : ∀ l ∈ Finset.range (K + 1),
      ∫ z in Ioi (0 : ℝ), ((K.choose l : ℝ) * (x ^ 2) ^ l * Real.exp (-(x ^ 2))) * (z ^ (2 * (K - l)) * Real.exp (-(z ^ 2)))
        = ((K.choose l : ℝ) * (x ^ 2) ^ l * Real.exp (-(x ^ 2))) * (Real.Gamma (((K - l : ℕ) : ℝ) + 1 / 2) / 2) := by
    intro l _
    rw [integral_const_mul, gaussian_moment]
  rw [Finset.sum_congr rfl hterm, Finset.mul_sum, Finset.mul_sum]
  apply Finset.sum_congr rfl
  intro l _
  ring

theorem sumRange_eq_sum (n : ℕ) (f : ℕ → ℝ) : sumRange n f = ∑ i ∈ Finset.range n, f i := by
  induction n with
  | zero => simp [sumRange]
  | succ n ih => rw [Finset.sum_range_succ, ← ih]; rfl

/-- one coded term of the series, for real arguments: `(e/K)^K e^{−u²} C(K, l) Γ(K − l + ½) (u²)^l` -/
theorem chiTerm_real (K l : ℕ) (hl : l ≤ K) (u2 : ℝ) (hu : 0 < u2) :
    (chiTerm K u2 l : ℝ) = Real.exp (ek K : ℝ) * (Real.exp (-u2) * ((K.choose l : ℝ) * u2 ^ l * Real.Gamma (((K - l : ℕ) : ℝ) + 1 / 2))) := by
  unfold chiTerm chiTermT Gt
  simp only [exp_real, log_real]
  have e1 : Real.exp ((ek K : ℝ) - u2 + ((lnfact K : ℝ) - lnfact l - ((lnfact (K - l) : ℝ) - lnhalf (K - l))) + Real.log u2 * (l : ℝ))
      = Real.exp (ek K : ℝ) * Real.exp (-u2) * (Real.exp (lnfact K : ℝ) / Real.exp (lnfact l : ℝ) / Real.exp (lnfact (K - l) : ℝ) * Real.exp (lnhalf (K - l) : ℝ))
        * Real.exp (Real.log u2 * (l : ℝ)) := by
    rw [← Real.exp_sub, ← Real.exp_sub, ← Real.exp_add, ← Real.exp_add, ← Real.exp_add, ← Real.exp_add]; congr 1; ring
  rw [e1, exp_lnfact, exp_lnfact, exp_lnfact, exp_lnhalf]
  have e2 : Real.exp (Real.log u2 * (l : ℝ)) = u2 ^ l := by
    rw [Real.exp_mul, Real.exp_log hu, Real.rpow_natCast]
  rw [e2]
  have hc : (K.choose l : ℝ) = (K.factorial : ℝ) / (l.factorial : ℝ) / ((K - l).factorial : ℝ) := by
    rw [Nat.choose_eq_factorial_div_factorial hl]
    rw [Nat.cast_div (Nat.factorial_mul_factorial_dvd_factorial hl) (by positivity)]
    push_cast; rw [div_div]
  rw [hc]; ring

/-- **BASEX, the series for χ_k is the Abel integral of ρ_k** (reduced units): for every `K = k² ≥ 0` and `u > 0`, the whole sum
    `Σ_{l=0}^{K} exp(ek − u² + G[l] + l ln u²)` is `2 ∫₀^∞ ρ(√(u² + t²)) dt` with `ρ(r) = (e/K)^K r^{2K} e^{−r²}` -/
theorem basex_chiFull_eq_abel (K : ℕ) (u : ℝ) (hu : 0 < u) :
    (chiFull K (u ^ 2) : ℝ) = Abel (fun r => Real.exp (ek K : ℝ) * ((r ^ 2) ^ K * Real.exp (-(r ^ 2)))) u := by
  rw [abel_const_mul, abel_basex_rho]
  unfold chiFull chiRange chiRangeT
  rw [sumRange_eq_sum, show K + 1 - 0 = K + 1 by omega, Finset.mul_sum, Finset.mul_sum]
  apply Finset.sum_congr rfl
  intro l hl
  rw [Nat.zero_add, show chiTermT lnfact lnhalf K (u ^ 2) l = chiTerm K (u ^ 2) l from rfl, chiTerm_real K l (by have := Finset.mem_range.mp hl; omega) (u ^ 2) (by positivity)]

/-- … and on the axis: `M[0, k] = exp(ek + G[0])` is the integral through the centre -/
theorem basex_chiAxis_eq_abel (K : ℕ) :
    (chiAxis K : ℝ) = Abel (fun r => Real.exp (ek K : ℝ) * ((r ^ 2) ^ K * Real.exp (-(r ^ 2)))) 0 := by
  rw [abel_const_mul, abel_basex_rho]
  unfold chiAxis chiAxisT Gt
  simp only [exp_real]
  have e1 : Real.exp ((ek K : ℝ) + ((lnfact K : ℝ) - lnfact 0 - ((lnfact (K - 0) : ℝ) - lnhalf (K - 0))))
      = Real.exp (ek K : ℝ) * (Real.exp (lnfact K : ℝ) / Real.exp (lnfact 0 : ℝ) / Real.exp (lnfact (K - 0) : ℝ) * Real.exp (lnhalf (K - 0) : ℝ)) := by
    rw [← Real.exp_sub, ← Real.exp_sub, ← Real.exp_add, ← Real.exp_add]; congr 1; ring
  rw [e1, exp_lnfact, exp_lnfact, exp_lnfact, exp_lnhalf, Finset.sum_eq_single 0]
  · simp
    have : (K.factorial : ℝ) ≠ 0 := by positivity
    field_simp
  · intro l _ hl0
    have : ((0 : ℝ) ^ 2) ^ l = 0 := by simp [hl0]
    rw [this]; ring
  · intro h; exact absurd (Finset.mem_range.mpr (Nat.succ_pos K)) h

/-- stretching the source by `σ` stretches the projection and scales it by `σ` -/
theorem abel_scale (f : ℝ → ℝ) (σ x : ℝ) (hσ : 0 < σ) : Abel (fun r => f (r / σ)) x = σ * Abel f (x / σ) := by
  unfold Abel
  have h := integral_comp_mul_left_Ioi (fun z => f (Real.sqrt (x ^ 2 + z ^ 2) / σ)) 0 hσ
  rw [mul_zero] at h
  have e : ∀ t ∈ Ioi (0 : ℝ), f (Real.sqrt (x ^ 2 + (σ * t) ^ 2) / σ) = f (Real.sqrt ((x / σ) ^ 2 + t ^ 2)) := by
    intro t _
    congr 1
    rw [div_eq_iff hσ.ne', ← Real.sqrt_sq hσ.le, ← Real.sqrt_mul (by positivity), Real.sqrt_sq hσ.le]
    congr 1
    field_simp
  rw [setIntegral_congr_fun measurableSet_Ioi e] at h
  rw [h, smul_eq_mul]
  field_simp

/-- the coded basis function `exp(ek + ln(u)·2K − u²)` (0 on the axis) is `(e/K)^K u^{2K} e^{−u²}` for `K ≥ 1` -/
theorem rho_real (K : ℕ) (hK : 1 ≤ K) (u : ℝ) (hu : 0 ≤ u) :
    (rho K u : ℝ) = Real.exp (ek K : ℝ) * ((u ^ 2) ^ K * Real.exp (-(u ^ 2))) := by
  unfold rho
  by_cases h0 : u = 0
  · rw [if_pos h0, h0]
    have : ((0 : ℝ) ^ 2) ^ K = 0 := by
      rw [← pow_mul]; exact zero_pow (by omega)
    rw [this]; ring
  · rw [if_neg h0]
    have hpos : 0 < u := lt_of_le_of_ne hu (Ne.symm h0)
    simp only [exp_real, log_real]
    rw [show (ek K : ℝ) + Real.log u * ((2 * K : ℕ) : ℝ) - u * u = (ek K : ℝ) + (Real.log u * ((2 * K : ℕ) : ℝ) + -(u ^ 2)) by ring,
      Real.exp_add, Real.exp_add, Real.exp_mul, Real.exp_log hpos, Real.rpow_natCast, pow_mul]

/-- **BASEX projected basis, off the axis**: for every basis index `k ≥ 1`, width `σ > 0` and distance `x > 0`, `σ` times the whole series
    at `u = x/σ` is the Abel integral at `x` of the basis function `r ↦ ρ_k(r/σ)` -/
theorem basex_M_eq_abel (k : ℕ) (hk : 1 ≤ k) (σ x : ℝ) (hσ : 0 < σ) (hx : 0 < x) :
    σ * (chiFull (k * k) ((x / σ) ^ 2) : ℝ) = Abel (fun r => (rho (k * k) (r / σ) : ℝ)) x := by
  have hK : 1 ≤ k * k := Nat.one_le_iff_ne_zero.mpr (Nat.mul_ne_zero (by omega) (by omega))
  rw [basex_chiFull_eq_abel (k * k) (x / σ) (by positivity), ← abel_scale _ σ x hσ]
  exact abel_congr_nonneg x (fun r hr => (rho_real (k * k) hK (r / σ) (by positivity)).symm)

/-- … on the axis -/
theorem basex_M_axis_eq_abel (k : ℕ) (hk : 1 ≤ k) (σ : ℝ) (hσ : 0 < σ) :
    σ * (chiAxis (k * k) : ℝ) = Abel (fun r => (rho (k * k) (r / σ) : ℝ)) 0 := by
  have hK : 1 ≤ k * k := Nat.one_le_iff_ne_zero.mpr (Nat.mul_ne_zero (by omega) (by omega))
  rw [basex_chiAxis_eq_abel (k * k)]
  have h := abel_scale (fun r => Real.exp (ek (k * k) : ℝ) * ((r ^ 2) ^ (k * k) * Real.exp (-(r ^ 2)))) σ 0 hσ
  rw [zero_div] at h
  rw [← h]
  exact abel_congr_nonneg 0 (fun r hr => (rho_real (k * k) hK (r / σ) (by positivity)).symm)

/-- … and the first basis function, the Gaussian: `M[i, 0] = σ exp(gammaln(½) − u²)` is the Abel integral of `exp(−(r/σ)²)` -/
theorem basex_M_zero_eq_abel (σ x : ℝ) (hσ : 0 < σ) :
    σ * Real.exp ((lnhalf 0 : ℝ) - (x / σ) ^ 2) = Abel (fun r => Real.exp (-((r / σ) ^ 2))) x := by
  have h := abel_basex_rho 0 (x / σ)
  simp only [pow_zero, one_mul, Finset.range_one, Finset.sum_singleton, Nat.choose_self, Nat.cast_one, Nat.sub_self, Nat.cast_zero, zero_add, mul_one] at h
  rw [abel_scale (fun r => Real.exp (-(r ^ 2))) σ x hσ, h, sub_eq_add_neg, Real.exp_add, exp_lnhalf]
  simp only [Nat.cast_zero, zero_add]
  ring
end PyAbel.C09
