/-
C11 — shipped analytical pairs are true Abel pairs (closed-form objects).

Proved: StepAnalytical (any bounds, height) and GaussianAnalytical (any σ > 0, A₀): the `abel` attribute is the
Abel integral of the `func` attribute, as functions, at every distance.  The polynomial TransformPair profiles and
the sample images are tied to their integrals by quadrature in the check (not yet by theorems).
-/
import PyAbel.Lemmas.Abel
import Mathlib.Analysis.SpecialFunctions.Gaussian.GaussianIntegral

open MeasureTheory Set Real

namespace PyAbel.C11
open PyAbel

/-- the Abel integral is homogeneous -/
theorem abel_smul (A : ℝ) (f : ℝ → ℝ) (x : ℝ) : Abel (fun r => A * f r) x = A * Abel f x := by
  unfold Abel
  rw [integral_const_mul]; ring

/-- **StepAnalytical**: `func` = A₀ on [r₁, r₂), `abel` = 2A₀(√(r₂²−x²) − √(r₁²−x²)) with the square roots read as 0
    where the argument is negative — exactly the three-case formula in `abel_step_analytical` -/
theorem step_pair (A0 r1 r2 x : ℝ) (h1 : 0 ≤ r1) (h12 : r1 ≤ r2) :
    Abel (fun r => A0 * indicator (Ico r1 r2) 1 r) x = A0 * (2 * (hc (r2 ^ 2 - x ^ 2) - hc (r1 ^ 2 - x ^ 2))) := by
  rw [abel_smul, abel_shell r1 r2 x h1 h12]

/-- the three cases of the coded formula -/
theorem step_cases (r1 r2 x : ℝ) (hx : 0 ≤ x) (h1 : 0 ≤ r1) (h12 : r1 ≤ r2) :
    2 * (hc (r2 ^ 2 - x ^ 2) - hc (r1 ^ 2 - x ^ 2)) =
      if x < r1 then 2 * Real.sqrt (r2 ^ 2 - x ^ 2) - 2 * Real.sqrt (r1 ^ 2 - x ^ 2)
      else if x < r2 then 2 * Real.sqrt (r2 ^ 2 - x ^ 2)
      else 0 := by
  split_ifs with ha hb
  · have e1 : 0 ≤ r1 ^ 2 - x ^ 2 := by nlinarith
    have e2 : 0 ≤ r2 ^ 2 - x ^ 2 := by nlinarith
    rw [hc_of_nonneg e1, hc_of_nonneg e2]; ring
  · have e1 : r1 ^ 2 - x ^ 2 ≤ 0 := by push_neg at ha; nlinarith
    have e2 : 0 ≤ r2 ^ 2 - x ^ 2 := by nlinarith
    rw [hc_of_nonpos e1, hc_of_nonneg e2]; ring
  · push_neg at ha hb
    have e1 : r1 ^ 2 - x ^ 2 ≤ 0 := by nlinarith
    have e2 : r2 ^ 2 - x ^ 2 ≤ 0 := by nlinarith
    rw [hc_of_nonpos e1, hc_of_nonpos e2]; ring

/-- **GaussianAnalytical**: Abel(A₀ e^{−r²/σ²})(x) = σ √π A₀ e^{−x²/σ²} -/
theorem gaussian_pair (A0 σ x : ℝ) (hσ : 0 < σ) :
    Abel (fun r => A0 * Real.exp (-(r ^ 2) / σ ^ 2)) x = σ * Real.sqrt Real.pi * A0 * Real.exp (-(x ^ 2) / σ ^ 2) := by
  rw [abel_smul]
  unfold Abel
  have hint : ∀ z : ℝ, Real.exp (-(Real.sqrt (x ^ 2 + z ^ 2)) ^ 2 / σ ^ 2)
      = Real.exp (-(x ^ 2) / σ ^ 2) * Real.exp (-(1 / σ ^ 2) * z ^ 2) := by
    intro z
    rw [Real.sq_sqrt (by positivity), ← Real.exp_add]
    congr 1; field_simp; ring
  simp only [hint]
  rw [integral_const_mul, integral_gaussian_Ioi]
  have hb : Real.sqrt (Real.pi / (1 / σ ^ 2)) = σ * Real.sqrt Real.pi := by
    rw [div_div_eq_mul_div, div_one, mul_comm, Real.sqrt_mul (by positivity), Real.sqrt_sq hσ.le]
  rw [hb]; ring

end PyAbel.C11
