/-
C17 — documented equivalences between methods and options.

Models: Model/Dasch.lean (onion-peeling weights, daun degree-0 projections), Model/Linalg.lean
(triangular solve).  Wrapper equalities are decided over Gen/Wrappers.lean (regenerated from
/repo by harness/gen_wrappers.py) in Props/C17Wrappers.lean.
-/
import PyAbel.Lemmas.Linalg
import PyAbel.Lemmas.RealInst
import Mathlib.LinearAlgebra.Matrix.NonsingularInverse
import Mathlib.Analysis.SpecialFunctions.Sqrt

namespace PyAbel.C17
open PyAbel

/-! ### 1. `daun` with default options is `onion_peeling`

`daun_transform` (degree 0, no regularisation) solves `Aᵀ y = d` by `solve_triangular`;
`onion_peeling_transform` multiplies by `inv(W)`.  (a) the matrices are the same, entry by entry;
(b) solving the triangular system equals multiplying by any inverse of it. -/

theorem daun_default_eq_onion_peeling_matrix (i j : ℕ) : (daun0 j i : ℝ) = onionW i j := by
  unfold daun0 onionW
  by_cases h : j < i
  · simp [h]
  · simp only [h, if_false]
    have hs : ∀ (a : ℝ), Real.sqrt (a ^ 2 - 4 * (i : ℝ) ^ 2)
        = 2 * Real.sqrt (a / 2 * (a / 2) - (i : ℝ) ^ 2) := by
      intro a
      rw [show a ^ 2 - 4 * (i : ℝ) ^ 2 = 4 * (a / 2 * (a / 2) - (i : ℝ) ^ 2) by ring,
        Real.sqrt_mul (by norm_num : (0 : ℝ) ≤ 4)]
      rw [show (4 : ℝ) = 2 ^ 2 by norm_num, Real.sqrt_sq (by norm_num : (0 : ℝ) ≤ 2)]
    by_cases hij : i = j
    · subst hij
      simp only [if_true, sqrt_real]
      push_cast
      rw [hs (2 * (i : ℝ) + 1)]
    · simp only [hij, if_false, sqrt_real]
      have h1 : 1 ≤ 2 * j := by omega
      push_cast [Nat.cast_sub h1]
      rw [hs (2 * (j : ℝ) + 1), hs (2 * (j : ℝ) - 1)]; ring

/-- Solving `W y = d` by back substitution gives the same vector as multiplying `d` by any
    matrix `D` that is a right inverse of `W` on vectors (`D = inv(W)` in the code). -/
theorem solve_eq_inverse_mul {K : Type} [Field K] (n : ℕ) (W D : ℕ → ℕ → K)
    (hW : ∀ i, i < n → W i i ≠ 0) (htri : ∀ i j, j < i → W i j = 0)
    (hinv : ∀ (d : ℕ → K) i, i < n → matVec n W (matVec n D d) i = d i)
    (d : ℕ → K) (i : ℕ) (hi : i < n) :
    (backSubst W d n).getD i 0 = matVec n D d i := by
  have h := backSubst_matVec W (matVec n D d) n hW htri i hi
  rw [← h]
  -- the right-hand sides agree on the indices that back substitution reads
  have hcongr : ∀ (d1 d2 : ℕ → K), (∀ i, i < n → d1 i = d2 i) →
      ∀ k, k ≤ n → backSubstAux W d1 n k = backSubstAux W d2 n k := by
    intro d1 d2 hd k
    induction k with
    | zero => intro _; rfl
    | succ k ih =>
      intro hk
      simp only [backSubstAux]
      rw [ih (by omega), hd (n - (k + 1)) (by omega)]
  simp only [backSubst]
  rw [hcongr d (matVec n W (matVec n D d)) (fun i hi => (hinv d i hi).symm) n (le_refl n)]

/-! ### 2. zero regularisation strength equals no regularisation

The Tikhonov forms used by `daun` (`'diff'`, `'L2'`) and `rbasex` (`'L2'`, `'diff'`) are
`Aᵀ (A Aᵀ + s·L)⁻¹`; at `s = 0` this is `A⁻¹` for every invertible `A`, whatever `L`. -/

theorem tikhonov_zero_eq_inverse {n : Type} [Fintype n] [DecidableEq n] {K : Type} [Field K]
    (A L : Matrix n n K) (hA : IsUnit A.det) :
    A.transpose * (A * A.transpose + (0 : K) • L)⁻¹ = A⁻¹ := by
  have hAt : IsUnit A.transpose.det := by rwa [Matrix.det_transpose]
  rw [zero_smul, add_zero, Matrix.mul_inv_rev]
  rw [← Matrix.mul_assoc, Matrix.mul_nonsing_inv _ hAt, Matrix.one_mul]

/-! ### 3. the non-negative solvers return the unconstrained solution when it is feasible -/

/-- squared residual `‖A x − b‖²` of an `m × n` system -/
def resid (m n : ℕ) (A : ℕ → ℕ → ℝ) (b x : ℕ → ℝ) : ℝ :=
  sumRange m (fun i => (matVec n A x i - b i) ^ 2)

/-- `x` is a solution of the non-negative least-squares problem `min ‖A x − b‖, x ≥ 0` -/
def IsNNLS (m n : ℕ) (A : ℕ → ℕ → ℝ) (b x : ℕ → ℝ) : Prop :=
  (∀ j, j < n → 0 ≤ x j) ∧ ∀ y : ℕ → ℝ, (∀ j, j < n → 0 ≤ y j) → resid m n A b x ≤ resid m n A b y

theorem sumRange_nonneg (m : ℕ) (f : ℕ → ℝ) (h : ∀ i, i < m → 0 ≤ f i) : 0 ≤ sumRange m f := by
  induction m with
  | zero => simp [sumRange]
  | succ m ih =>
    rw [sumRange_succ]
    exact add_nonneg (ih fun i hi => h i (Nat.lt_succ_of_lt hi)) (h m (Nat.lt_succ_self m))

theorem sumRange_eq_zero_of_nonneg (m : ℕ) (f : ℕ → ℝ) (h : ∀ i, i < m → 0 ≤ f i)
    (hz : sumRange m f = 0) : ∀ i, i < m → f i = 0 := by
  induction m with
  | zero => intro i hi; omega
  | succ m ih =>
    rw [sumRange_succ] at hz
    have h1 := sumRange_nonneg m f (fun i hi => h i (Nat.lt_succ_of_lt hi))
    have h2 := h m (Nat.lt_succ_self m)
    intro i hi
    by_cases him : i = m
    · subst him; linarith
    · exact ih (fun i hi => h i (Nat.lt_succ_of_lt hi)) (by linarith) i (by omega)

/-- If the unconstrained solution `x₀` (`A x₀ = b`) is non-negative, it solves the NNLS problem … -/
theorem nnls_feasible_is_solution (m n : ℕ) (A : ℕ → ℕ → ℝ) (b x0 : ℕ → ℝ)
    (hsol : ∀ i, i < m → matVec n A x0 i = b i) (hpos : ∀ j, j < n → 0 ≤ x0 j) :
    IsNNLS m n A b x0 := by
  refine ⟨hpos, fun y _ => ?_⟩
  have h0 : resid m n A b x0 = 0 := by
    unfold resid
    rw [← sumRange_zero (K := ℝ) m]
    apply sumRange_congr; intro i hi; rw [hsol i hi]; ring
  rw [h0]
  exact sumRange_nonneg m _ (fun i _ => sq_nonneg _)

/-- … and it is the only one when `A` is injective on vectors (e.g. invertible). -/
theorem nnls_eq_unconstrained_when_feasible (m n : ℕ) (A : ℕ → ℕ → ℝ) (b x0 x : ℕ → ℝ)
    (hsol : ∀ i, i < m → matVec n A x0 i = b i) (hpos : ∀ j, j < n → 0 ≤ x0 j)
    (hinj : ∀ u v : ℕ → ℝ, (∀ i, i < m → matVec n A u i = matVec n A v i) → ∀ j, j < n → u j = v j)
    (hx : IsNNLS m n A b x) : ∀ j, j < n → x j = x0 j := by
  have h0 : resid m n A b x0 = 0 := by
    unfold resid
    rw [← sumRange_zero (K := ℝ) m]
    apply sumRange_congr; intro i hi; rw [hsol i hi]; ring
  have hle := hx.2 x0 hpos
  rw [h0] at hle
  have hge : 0 ≤ resid m n A b x := sumRange_nonneg m _ (fun i _ => sq_nonneg _)
  have hz : resid m n A b x = 0 := le_antisymm hle hge
  have hrow := sumRange_eq_zero_of_nonneg m _ (fun i _ => sq_nonneg _) hz
  apply hinj
  intro i hi
  have := hrow i hi
  have h2 : matVec n A x i - b i = 0 := by
    have := pow_eq_zero_iff (two_ne_zero) |>.mp this
    exact this
  rw [hsol i hi]; linarith

/-! non-vacuity: the 1×1 system 2·x = 4 has the feasible solution 2 -/
example : IsNNLS 1 1 (fun _ _ => 2) (fun _ => 4) (fun _ => 2) :=
  nnls_feasible_is_solution 1 1 _ _ _ (by intro i hi; simp [matVec, sumRange]; norm_num) (by intro j _; norm_num)

end PyAbel.C17
